(** Proofs about the gossip topic-guard transition system (C29).

    No assumptions beyond the model itself (Model/GossipGuard.v: sequentially consistent
    indivisible atomics, FIFO mailbox, the manager's session bookkeeping). *)
From Coq Require Import List Arith Bool Lia.
From PV Require Import Model.GossipGuard.
Import ListNotations.

(** * Lists *)
Lemma length_set_nth {A} (l : list A) n v : length (set_nth l n v) = length l.
Proof. revert n; induction l as [|x l IH]; intros [|n]; cbn [set_nth length]; auto. Qed.

Lemma get_set_nth l g v h :
  get (set_nth l g v) h = if (h =? g) && (g <? length l) then v else get l h.
Proof.
  unfold get. revert g h. induction l as [|x l IH]; intros g h.
  - cbn [set_nth length]. rewrite andb_false_r. reflexivity.
  - destruct g as [|g], h as [|h]; cbn [set_nth nth length]; try reflexivity.
    rewrite IH. change (S h =? S g) with (h =? g). change (S g <? S (length l)) with (g <? length l). reflexivity.
Qed.

Lemma get_snoc l v g : get (l ++ [v]) g = if g =? length l then v else get l g.
Proof.
  unfold get. destruct (Nat.eqb_spec g (length l)) as [->|Hne].
  - rewrite app_nth2 by lia. rewrite Nat.sub_diag. reflexivity.
  - destruct (Nat.lt_ge_cases g (length l)).
    + apply app_nth1. assumption.
    + rewrite !nth_overflow; auto. rewrite app_length. cbn [length]. lia.
Qed.

Lemma get_overflow l g : length l <= g -> get l g = 0.
Proof. intros H. unfold get. apply nth_overflow. exact H. Qed.

Lemma get_pos_lt l g : 1 <= get l g -> g < length l.
Proof. intros H. destruct (Nat.lt_ge_cases g (length l)); auto. rewrite get_overflow in H; lia. Qed.

Lemma nth_error_set_nth_same {A} (l : list A) i v t :
  nth_error l i = Some t -> nth_error (set_nth l i v) i = Some v.
Proof. revert i; induction l as [|x l IH]; intros [|i]; cbn; try discriminate; auto. Qed.

Lemma nth_error_set_nth_other {A} (l : list A) i j v :
  i <> j -> nth_error (set_nth l i v) j = nth_error l j.
Proof. revert i j; induction l as [|x l IH]; intros [|i] [|j] H; cbn; auto; try lia. Qed.

(** * Counting threads *)
Definition b2n (b : bool) : nat := if b then 1 else 0.

Lemma cnt_cons p t l : cnt p (t :: l) = b2n (p t) + cnt p l.
Proof. unfold cnt. cbn [filter]. destruct (p t); reflexivity. Qed.

Lemma cnt_set_nth p l i t t' :
  nth_error l i = Some t ->
  cnt p (set_nth l i t') + b2n (p t) = cnt p l + b2n (p t').
Proof.
  revert i. induction l as [|x l IH]; intros [|i] H; cbn [nth_error] in H; try discriminate.
  - injection H as ->. cbn [set_nth]. rewrite !cnt_cons. lia.
  - cbn [set_nth]. rewrite !cnt_cons. specialize (IH i H). lia.
Qed.

Lemma cnt_map_ext p f l : (forall t, p (f t) = p t) -> cnt p (map f l) = cnt p l.
Proof.
  intros H. induction l as [|x l IH]; [reflexivity|]. cbn [map]. rewrite !cnt_cons, H, IH. reflexivity.
Qed.

Lemma cnt_pos p l i t : nth_error l i = Some t -> p t = true -> 1 <= cnt p l.
Proof.
  revert i. induction l as [|x l IH]; intros [|i] H Hp; cbn [nth_error] in H; try discriminate.
  - injection H as ->. rewrite cnt_cons, Hp. cbn. lia.
  - rewrite cnt_cons. specialize (IH i H Hp). lia.
Qed.

Lemma existsb_cnt p l : existsb p l = false <-> cnt p l = 0.
Proof.
  induction l as [|x l IH]; [cbn; tauto|]. cbn [existsb]. rewrite cnt_cons.
  destruct (p x); cbn [orb b2n]; [split; [discriminate|lia]|]. rewrite IH. lia.
Qed.

Lemma cnt_zero_all p l i t : cnt p l = 0 -> nth_error l i = Some t -> p t = false.
Proof.
  intros H Hn. destruct (p t) eqn:E; [|reflexivity].
  pose proof (cnt_pos p l i t Hn E). lia.
Qed.

Lemma pc_eqb_eq a b : pc_eqb a b = true <-> a = b.
Proof.
  destruct a, b; cbn [pc_eqb]; try (split; [discriminate|congruence]); try tauto;
    rewrite ?andb_true_iff, !Nat.eqb_eq; split; try congruence.
  - intros [-> ->]. reflexivity.
  - intros H. injection H as -> ->. auto.
Qed.

Lemma pc_eqb_refl a : pc_eqb a a = true.
Proof. apply pc_eqb_eq. reflexivity. Qed.

Lemma count_msg_app m a b : count_msg m (a ++ b) = count_msg m a + count_msg m b.
Proof. induction a as [|x a IH]; [reflexivity|]. cbn [app count_msg]. rewrite IH. lia. Qed.

(** * The reference-count invariant (repaired protocol, every interleaving) *)
Record Inv (s : st) : Prop := {
  inv_len : length (zeros s) = length (ctr s);
  (* the counter of a generation is the number of live counted references *)
  inv_cnt : forall g, get (ctr s) g = cnt (holds true g) (thr s);
  (* a counter goes from 1 to 0 at most once ... *)
  inv_z1 : forall g, get (zeros s) g <= 1;
  (* ... and never rises again *)
  inv_z0 : forall g, get (zeros s) g = 1 -> get (ctr s) g = 0;
  (* Unsubscribe messages sent or owed by generation g = number of 1 -> 0 transitions *)
  inv_un : forall g, count_msg (MUnsub g) (log s ++ mbox s) + cnt (at_send g) (thr s) = get (zeros s) g;
  inv_live : forall g, g < length (ctr s) -> 1 <= get (ctr s) g + get (zeros s) g }.

Lemma holds_set_pc f g t p : holds f g (set_pc t p) = holds f g {| tpc := p; tdrop := false; tpath := 0 |}.
Proof. reflexivity. Qed.

Lemma at_send_wake g h t : at_send g (wake h t) = at_send g t.
Proof.
  unfold wake. destruct (pc_eqb (tpc t) (PWait h)) eqn:E; [|reflexivity].
  apply pc_eqb_eq in E. unfold at_send, set_pc. cbn [tpc]. rewrite E. reflexivity.
Qed.

Lemma holds_wake f g h t : holds f g (wake h t) = holds f g t.
Proof.
  unfold wake. destruct (pc_eqb (tpc t) (PWait h)) eqn:E; [|reflexivity].
  apply pc_eqb_eq in E. unfold holds, set_pc. cbn [tpc]. rewrite E. reflexivity.
Qed.

Lemma init_inv flags : Inv (init flags).
Proof.
  assert (H0 : forall p, (forall t, tpc t = PStream -> p t = false) ->
                         cnt p (map (fun d => {| tpc := PStream; tdrop := d; tpath := 0 |}) flags) = 0).
  { intros p Hp. induction flags as [|d l IH]; [reflexivity|]. cbn [map]. rewrite cnt_cons, IH, Hp; reflexivity. }
  constructor; cbn [init ctr zeros thr log mbox]; intros.
  - reflexivity.
  - rewrite H0; [destruct g; reflexivity|]. intros t E. unfold holds. rewrite E. reflexivity.
  - destruct g; cbn; lia.
  - destruct g; reflexivity.
  - rewrite H0; [destruct g; reflexivity|]. intros t E. unfold at_send. rewrite E. reflexivity.
  - cbn in H. lia.
Qed.

Ltac thread_counts Hn :=
  repeat match goal with
  | |- context [cnt ?p (set_nth ?l ?i ?t')] =>
      let H := fresh "HC" in
      pose proof (cnt_set_nth p l i _ t' Hn) as H;
      generalize dependent (cnt p (set_nth l i t')); intros
  end.

Lemma tstep_inv s i s' : Inv s -> tstep true s i = Some s' -> Inv s'.
Proof.
  intros [Hlen Hcnt Hz1 Hz0 Hun Hlive] Hstep. unfold tstep in Hstep.
  destruct (nth_error (thr s) i) as [t|] eqn:Hn; [|discriminate].
  assert (Hh : forall g, holds true g t = match tpc t with
                                          | PWin h | PWait h | PIns h | PHold h | PDrop h => h =? g
                                          | _ => false end).
  { intros g. unfold holds. destruct (tpc t); reflexivity. }
  assert (Hs : forall g, at_send g t = pc_eqb (tpc t) (PSend g) || pc_eqb (tpc t) (PDec g 1)) by reflexivity.
  destruct (tpc t) eqn:E.
  - (* PStream *)
    assert (Hslow : Inv {| ctr := ctr s; zeros := zeros s; cur := cur s; rlock := rlock s; mbox := mbox s; sess := sess s;
                           dead := dead s; log := log s; thr := set_nth (thr s) i (set_pc_path t PSlow 2) |}).
    { constructor; cbn [ctr zeros thr log mbox]; auto; intros g.
      - pose proof (cnt_set_nth (holds true g) (thr s) i t (set_pc_path t PSlow 2) Hn) as HC.
        rewrite Hh in HC. unfold holds at 3 in HC. cbn [set_pc_path tpc b2n] in HC. rewrite Hcnt. lia.
      - pose proof (cnt_set_nth (at_send g) (thr s) i t (set_pc_path t PSlow 2) Hn) as HC.
        rewrite Hs in HC. unfold at_send at 3 in HC. cbn [set_pc_path tpc pc_eqb orb b2n] in HC. rewrite <- Hun. lia. }
    destruct (cur s) as [g0|]; [|injection Hstep as <-; exact Hslow].
    destruct (1 <=? get (ctr s) g0) eqn:Ege; [|injection Hstep as <-; exact Hslow].
    injection Hstep as <-. apply Nat.leb_le in Ege. pose proof (get_pos_lt _ _ Ege) as Hlt.
    constructor; cbn [ctr zeros thr log mbox]; intros.
    + rewrite length_set_nth. exact Hlen.
    + pose proof (cnt_set_nth (holds true g) (thr s) i t (set_pc_path t (PWin g0) 1) Hn) as HC.
      rewrite Hh in HC. unfold holds at 3 in HC. cbn [set_pc_path tpc b2n andb] in HC.
      rewrite get_set_nth. apply Nat.ltb_lt in Hlt. rewrite Hlt, andb_true_r.
      rewrite (Nat.eqb_sym g g0). destruct (g0 =? g) eqn:Eg; cbn [b2n] in HC.
      * apply Nat.eqb_eq in Eg. subst g. rewrite Hcnt. lia.
      * rewrite Hcnt. lia.
    + apply Hz1.
    + rewrite get_set_nth. destruct ((g =? g0) && (g0 <? length (ctr s))) eqn:Eg; [|apply Hz0; exact H].
      apply andb_true_iff in Eg. destruct Eg as [Eg _]. apply Nat.eqb_eq in Eg. subst g.
      specialize (Hz0 g0 H). lia.
    + pose proof (cnt_set_nth (at_send g) (thr s) i t (set_pc_path t (PWin g0) 1) Hn) as HC.
      rewrite Hs in HC. unfold at_send at 3 in HC. cbn [set_pc_path tpc pc_eqb orb b2n] in HC. rewrite <- Hun. lia.
    + rewrite length_set_nth in H. specialize (Hlive g H). rewrite get_set_nth.
      destruct ((g =? g0) && (g0 <? length (ctr s))); lia.
  - (* PWin *)
    injection Hstep as <-.
    constructor; cbn [ctr zeros thr log mbox]; auto; intros g0.
    + pose proof (cnt_set_nth (holds true g0) (thr s) i t (set_pc t (after_stream t g)) Hn) as HC.
      rewrite Hh in HC. unfold holds at 3, after_stream in HC. cbn [set_pc tpc] in HC.
      rewrite Hcnt. unfold after_stream. destruct (tdrop t); cbn [tpc] in HC; lia.
    + pose proof (cnt_set_nth (at_send g0) (thr s) i t (set_pc t (after_stream t g)) Hn) as HC.
      rewrite Hs in HC. unfold at_send at 3, after_stream in HC. cbn [set_pc tpc] in HC.
      rewrite <- Hun. unfold after_stream. destruct (tdrop t); cbn [tpc pc_eqb orb b2n] in HC; lia.
  - (* PSlow *)
    injection Hstep as <-.
    assert (Hn0 : get (ctr s) (length (ctr s)) = 0) by (apply get_overflow; lia).
    assert (Hz0' : get (zeros s) (length (ctr s)) = 0) by (apply get_overflow; lia).
    constructor; cbn [ctr zeros thr log mbox]; intros.
    + rewrite !app_length. cbn [length]. lia.
    + pose proof (cnt_set_nth (holds true g) (thr s) i t (set_pc t (PWait (length (ctr s)))) Hn) as HC.
      rewrite Hh in HC. unfold holds at 3 in HC. cbn [set_pc tpc b2n] in HC.
      rewrite get_snoc. rewrite (Nat.eqb_sym g). destruct (length (ctr s) =? g) eqn:Eg; cbn [b2n] in HC.
      * apply Nat.eqb_eq in Eg. subst g. rewrite Hcnt in Hn0. lia.
      * rewrite Hcnt. lia.
    + rewrite get_snoc. destruct (g =? length (zeros s)); [lia|apply Hz1].
    + rewrite get_snoc in H. rewrite get_snoc. rewrite Hlen in H.
      destruct (g =? length (ctr s)); [discriminate|apply Hz0; exact H].
    + pose proof (cnt_set_nth (at_send g) (thr s) i t (set_pc t (PWait (length (ctr s)))) Hn) as HC.
      rewrite Hs in HC. unfold at_send at 3 in HC. cbn [set_pc tpc pc_eqb orb b2n] in HC.
      rewrite app_assoc, count_msg_app. cbn [count_msg]. rewrite get_snoc, Hlen.
      destruct (g =? length (ctr s)) eqn:Eg.
      * apply Nat.eqb_eq in Eg. subst g. specialize (Hun (length (ctr s))). lia.
      * specialize (Hun g). lia.
    + rewrite app_length in H. cbn [length] in H. rewrite !get_snoc, Hlen.
      destruct (g =? length (ctr s)) eqn:Eg; [lia|]. apply Nat.eqb_neq in Eg. apply Hlive. lia.
  - discriminate.
  - (* PIns *)
    destruct (rlock s =? 0); [|discriminate]. injection Hstep as <-.
    constructor; cbn [ctr zeros thr log mbox]; auto; intros g0.
    + pose proof (cnt_set_nth (holds true g0) (thr s) i t (set_pc t (after_stream t g)) Hn) as HC.
      rewrite Hh in HC. unfold holds at 3, after_stream in HC. cbn [set_pc tpc] in HC.
      rewrite Hcnt. unfold after_stream. destruct (tdrop t); cbn [tpc] in HC; lia.
    + pose proof (cnt_set_nth (at_send g0) (thr s) i t (set_pc t (after_stream t g)) Hn) as HC.
      rewrite Hs in HC. unfold at_send at 3, after_stream in HC. cbn [set_pc tpc] in HC.
      rewrite <- Hun. unfold after_stream. destruct (tdrop t); cbn [tpc pc_eqb orb b2n] in HC; lia.
  - discriminate.
  - (* PDrop *)
    injection Hstep as <-.
    assert (Hp : 1 <= get (ctr s) g).
    { rewrite Hcnt. apply (cnt_pos _ _ i t Hn). rewrite Hh. apply Nat.eqb_refl. }
    pose proof (get_pos_lt _ _ Hp) as Hlt. pose proof Hlt as Hltb. apply Nat.ltb_lt in Hltb.
    assert (Hzlt : (g <? length (zeros s)) = true) by (rewrite Hlen; exact Hltb).
    assert (Hzg : get (ctr s) g = 1 -> get (zeros s) g = 0).
    { intros H1. pose proof (Hz1 g) as Hle. destruct (Nat.eq_dec (get (zeros s) g) 1) as [Ez|Ez]; [|lia].
      specialize (Hz0 g Ez). lia. }
    constructor; cbn [ctr zeros thr log mbox]; intros.
    + rewrite length_set_nth. destruct (get (ctr s) g =? 1); [rewrite length_set_nth|]; exact Hlen.
    + pose proof (cnt_set_nth (holds true g0) (thr s) i t (set_pc t (PDec g (get (ctr s) g))) Hn) as HC.
      rewrite Hh in HC. unfold holds at 3 in HC. cbn [set_pc tpc b2n] in HC.
      assert (HC' : cnt (holds true g0) (set_nth (thr s) i (set_pc t (PDec g (get (ctr s) g)))) + b2n (g =? g0)
                    = cnt (holds true g0) (thr s)) by lia.
      rewrite get_set_nth, Hltb, andb_true_r, (Nat.eqb_sym g0 g).
      destruct (g =? g0) eqn:Eg; cbn [b2n] in HC'.
      * apply Nat.eqb_eq in Eg. subst g0. pose proof (Hcnt g). lia.
      * pose proof (Hcnt g0). lia.
    + destruct (get (ctr s) g =? 1) eqn:E1; [|apply Hz1].
      apply Nat.eqb_eq in E1. rewrite get_set_nth, Hzlt, andb_true_r.
      destruct (g0 =? g); [rewrite (Hzg E1); lia|apply Hz1].
    + rewrite get_set_nth, Hltb, andb_true_r.
      destruct (g0 =? g) eqn:Eg.
      * apply Nat.eqb_eq in Eg. subst g0. destruct (get (ctr s) g =? 1) eqn:E1.
        -- apply Nat.eqb_eq in E1. lia.
        -- specialize (Hz0 g H). lia.
      * destruct (get (ctr s) g =? 1) eqn:E1; [|apply Hz0; exact H].
        rewrite get_set_nth, Eg in H. cbn [andb] in H. apply Hz0; exact H.
    + pose proof (cnt_set_nth (at_send g0) (thr s) i t (set_pc t (PDec g (get (ctr s) g))) Hn) as HC.
      rewrite Hs in HC. unfold at_send at 3 in HC. cbn [set_pc tpc pc_eqb orb b2n] in HC.
      destruct (get (ctr s) g =? 1) eqn:E1.
      * apply Nat.eqb_eq in E1. rewrite andb_true_r in HC. rewrite get_set_nth, Hzlt, andb_true_r, (Nat.eqb_sym g0 g).
        destruct (g =? g0) eqn:Eg; cbn [b2n] in HC.
        -- apply Nat.eqb_eq in Eg. subst g0. specialize (Hun g). rewrite (Hzg E1) in *. lia.
        -- specialize (Hun g0). lia.
      * rewrite andb_false_r in HC. cbn [b2n] in HC. specialize (Hun g0). lia.
    + rewrite length_set_nth in H. specialize (Hlive g0 H).
      rewrite get_set_nth, Hltb, andb_true_r. destruct (g0 =? g) eqn:Eg.
      * apply Nat.eqb_eq in Eg. subst g0. destruct (get (ctr s) g =? 1) eqn:E1.
        -- rewrite get_set_nth, Nat.eqb_refl, Hzlt. cbn [andb]. lia.
        -- apply Nat.eqb_neq in E1. lia.
      * destruct (get (ctr s) g =? 1); [rewrite get_set_nth, Eg; cbn [andb]|]; exact Hlive.
  - (* PDec: the decision on the remembered previous value; no shared state is touched *)
    injection Hstep as <-.
    constructor; cbn [ctr zeros thr log mbox]; auto; intros g0.
    + pose proof (cnt_set_nth (holds true g0) (thr s) i t (set_pc t (if p =? 1 then PSend g else PDone)) Hn) as HC.
      rewrite Hh in HC. unfold holds at 3 in HC. cbn [set_pc tpc] in HC. rewrite Hcnt.
      destruct (p =? 1); cbn [b2n] in HC; lia.
    + pose proof (cnt_set_nth (at_send g0) (thr s) i t (set_pc t (if p =? 1 then PSend g else PDone)) Hn) as HC.
      rewrite Hs in HC. unfold at_send at 3 in HC. cbn [set_pc tpc pc_eqb] in HC. rewrite <- Hun.
      destruct (p =? 1); cbn [pc_eqb] in HC; destruct (g =? g0); cbn [orb andb b2n] in HC; lia.
  - (* PSend *)
    injection Hstep as <-.
    constructor; cbn [ctr zeros thr log mbox]; auto; intros g0.
    + pose proof (cnt_set_nth (holds true g0) (thr s) i t (set_pc t PDone) Hn) as HC.
      rewrite Hh in HC. unfold holds at 3 in HC. cbn [set_pc tpc b2n] in HC. rewrite Hcnt. lia.
    + pose proof (cnt_set_nth (at_send g0) (thr s) i t (set_pc t PDone) Hn) as HC.
      rewrite Hs in HC. unfold at_send at 3 in HC. cbn [set_pc tpc pc_eqb orb b2n] in HC.
      rewrite app_assoc, count_msg_app. cbn [count_msg]. specialize (Hun g0).
      rewrite (Nat.eqb_sym g0 g). destruct (g =? g0); cbn [orb b2n] in HC; lia.
  - discriminate.
Qed.

Lemma mstep_inv s s' : Inv s -> mstep s = Some s' -> Inv s'.
Proof.
  intros [Hlen Hcnt Hz1 Hz0 Hun Hlive] Hstep. unfold mstep in Hstep.
  destruct (mbox s) as [|[g|g] r] eqn:Em; [discriminate| |]; injection Hstep as <-.
  - constructor; cbn [ctr zeros thr log mbox]; auto; intros g0.
    + rewrite cnt_map_ext by (intros; apply holds_wake). apply Hcnt.
    + rewrite cnt_map_ext by (intros; apply at_send_wake). rewrite <- app_assoc. cbn [app]. apply Hun.
  - constructor; cbn [ctr zeros thr log mbox]; auto; intros g0.
    rewrite <- app_assoc. cbn [app]. apply Hun.
Qed.

Lemma stepb_inv s l s' : Inv s -> stepb true s l = Some s' -> Inv s'.
Proof. destruct l; cbn [stepb]; [apply tstep_inv|apply mstep_inv]. Qed.

Lemma run_strict_inv ls : forall s s', Inv s -> run_strict true s ls = Some s' -> Inv s'.
Proof.
  induction ls as [|l ls IH]; intros s s' HI H; cbn [run_strict] in H.
  - injection H as <-. exact HI.
  - destruct (stepb true s l) as [s1|] eqn:E; [|discriminate]. eapply IH; [|exact H]. eapply stepb_inv; eassumption.
Qed.

(** * Consequences for every reachable state of the repaired protocol *)
Definition reachable (fixed : bool) (flags : list bool) (s : st) : Prop :=
  exists ls, run_strict fixed (init flags) ls = Some s.

Lemma reachable_inv flags s : reachable true flags s -> Inv s.
Proof. intros [ls H]. eapply run_strict_inv; [apply init_inv|exact H]. Qed.

Lemma holds_handle_holds g t : holds_handle g t = true -> holds true g t = true.
Proof. unfold holds_handle, holds. destruct (tpc t); auto; discriminate. Qed.

(** a handle that stream() returned (or is about to return: the increment already happened)
    belongs to a generation whose counter is at least 1, never reached 0, and which has not
    sent and does not owe an Unsubscribe *)
Lemma inv_handle_generation_live s i t g :
  Inv s -> nth_error (thr s) i = Some t -> holds_handle g t = true ->
  1 <= get (ctr s) g /\ get (zeros s) g = 0 /\
  count_msg (MUnsub g) (log s ++ mbox s) = 0 /\ cnt (at_send g) (thr s) = 0.
Proof.
  intros [Hlen Hcnt Hz1 Hz0 Hun Hlive] Hn Hh.
  assert (Hc : 1 <= get (ctr s) g).
  { rewrite Hcnt. eapply cnt_pos; [exact Hn|]. apply holds_handle_holds. exact Hh. }
  assert (Hz : get (zeros s) g = 0).
  { pose proof (Hz1 g). destruct (Nat.eq_dec (get (zeros s) g) 1) as [E|E]; [|lia]. specialize (Hz0 g E). lia. }
  specialize (Hun g). repeat split; lia.
Qed.

(** * Interleavings without overlapping subscriptions *)
Definition sent (s : st) (g : nat) : bool := (get (zeros s) g =? 1) && (cnt (at_send g) (thr s) =? 0).
Definition hist_item (b : nat -> bool) (g : nat) : list msg := MSub g :: (if b g then [MUnsub g] else []).
Definition hist (s : st) : list msg := flat_map (hist_item (sent s)) (seq 0 (length (ctr s))).

Record SeqInv (s : st) : Prop := {
  (* every generation but the newest is finished *)
  sq_fin : forall g, S g < length (ctr s) -> unfinished s g = false;
  (* everything ever sent to the manager: join g, leave g, join g+1, leave g+1, ... *)
  sq_hist : log s ++ mbox s = hist s;
  sq_sess : sess s = sess_after (log s) None;
  sq_dead : forall h, In h (dead s) -> 1 <= count_msg (MUnsub h) (log s) }.

Lemma unfinished_false s g :
  unfinished s g = false <-> get (ctr s) g = 0 /\ cnt (at_send g) (thr s) = 0.
Proof.
  unfold unfinished. rewrite orb_false_iff, existsb_cnt, Nat.leb_gt. lia.
Qed.

Lemma sess_after_app a b x : sess_after (a ++ b) x = sess_after b (sess_after a x).
Proof. unfold sess_after. apply fold_left_app. Qed.

Lemma hist_ext b b' gs : (forall g, In g gs -> b g = b' g) -> flat_map (hist_item b) gs = flat_map (hist_item b') gs.
Proof.
  intros H. induction gs as [|g gs IH]; [reflexivity|]. cbn [flat_map].
  rewrite IH by (intros; apply H; right; assumption). unfold hist_item. rewrite (H g) by (left; reflexivity). reflexivity.
Qed.

(** whatever precedes a leave of generation g in such a history ends with the join of g *)
Lemma hist_before_unsub b gs : forall l g r x,
  flat_map (hist_item b) gs = l ++ MUnsub g :: r -> sess_after l x = Some g.
Proof.
  induction gs as [|g0 gs IH]; intros l g r x H; cbn [flat_map] in H.
  - destruct l; discriminate.
  - unfold hist_item at 1 in H. destruct l as [|m l]; [discriminate|]. cbn [app] in H. injection H as <- H.
    cbn [sess_after fold_left sess_step]. change (fold_left sess_step l (Some g0)) with (sess_after l (Some g0)).
    destruct (b g0).
    + cbn [app] in H. destruct l as [|m l]; cbn [app] in H.
      * injection H as -> _. reflexivity.
      * injection H as <- H. cbn [sess_after fold_left sess_step]. eapply IH. exact H.
    + cbn [app] in H. eapply IH. exact H.
Qed.

Lemma hist_alternating b gs :
  (forall g, In g (removelast gs) -> b g = true) -> alternating true (flat_map (hist_item b) gs) = true.
Proof.
  induction gs as [|g gs IH]; intros Hb; [reflexivity|]. cbn [flat_map]. unfold hist_item at 1.
  destruct gs as [|g' gs].
  - cbn [flat_map app]. destruct (b g); reflexivity.
  - rewrite (Hb g) by (left; reflexivity). cbn [app alternating andb negb].
    apply IH. intros x Hx. apply Hb. right. exact Hx.
Qed.

Lemma hist_end b n x :
  sess_after (flat_map (hist_item b) (seq 0 (S n))) x = if b n then None else Some n.
Proof.
  rewrite seq_S, flat_map_app, sess_after_app. cbn [flat_map Nat.add]. rewrite app_nil_r.
  unfold hist_item. destruct (b n); reflexivity.
Qed.

Lemma hist_snoc b n : flat_map (hist_item b) (seq 0 (S n)) = flat_map (hist_item b) (seq 0 n) ++ hist_item b n.
Proof. rewrite seq_S, flat_map_app. cbn [flat_map Nat.add]. rewrite app_nil_r. reflexivity. Qed.

Lemma init_seqinv flags : SeqInv (init flags).
Proof.
  constructor; cbn [init ctr log mbox sess dead length]; intros.
  - lia.
  - reflexivity.
  - reflexivity.
  - destruct H.
Qed.

(** [sent] only looks at [zeros] and the threads sitting at [PSend] *)
Lemma sent_same s s' g :
  get (zeros s') g = get (zeros s) g -> cnt (at_send g) (thr s') = cnt (at_send g) (thr s) -> sent s' g = sent s g.
Proof. intros H1 H2. unfold sent. rewrite H1, H2. reflexivity. Qed.

Lemma hist_same s s' :
  length (ctr s') = length (ctr s) -> (forall g, sent s' g = sent s g) -> hist s' = hist s.
Proof. intros Hl Hs. unfold hist. rewrite Hl. apply hist_ext. intros; apply Hs. Qed.

Lemma overlap_false_finished s i t :
  nth_error (thr s) i = Some t -> tpc t = PSlow -> overlap s (LT i) = false ->
  forall g, g < length (ctr s) -> unfinished s g = false.
Proof.
  intros Hn E Ho g Hg. unfold overlap in Ho. rewrite Hn, E in Ho. cbn [pc_eqb andb] in Ho.
  destruct (unfinished s g) eqn:U; [|reflexivity].
  assert (existsb (unfinished s) (seq 0 (length (ctr s))) = true).
  { apply existsb_exists. exists g. split; [apply in_seq; lia|exact U]. }
  congruence.
Qed.

Lemma tstep_seqinv s i s' :
  Inv s -> SeqInv s -> overlap s (LT i) = false -> tstep true s i = Some s' -> SeqInv s'.
Proof.
  intros HI [Hfin Hhist Hsess Hdead] Hov Hstep.
  pose proof HI as [Hlen Hcnt Hz1 Hz0 Hun Hlive].
  unfold tstep in Hstep. destruct (nth_error (thr s) i) as [t|] eqn:Hn; [|discriminate].
  assert (Hs : forall g, at_send g t = pc_eqb (tpc t) (PSend g) || pc_eqb (tpc t) (PDec g 1)) by reflexivity.
  assert (Hh : forall g, holds true g t = match tpc t with
                                          | PWin h | PWait h | PIns h | PHold h | PDrop h => h =? g
                                          | _ => false end).
  { intros g. unfold holds. destruct (tpc t); reflexivity. }
  (* steps that change neither zeros, nor the mailbox, nor who sits at PSend, nor the length of ctr *)
  assert (Hquiet' : forall c' cur' rl' t',
             (forall g, at_send g t' = at_send g t) ->
             length c' = length (ctr s) ->
             (forall g, S g < length (ctr s) -> get c' g = 0) ->
             SeqInv {| ctr := c'; zeros := zeros s; cur := cur'; rlock := rl'; mbox := mbox s; sess := sess s;
                       dead := dead s; log := log s; thr := set_nth (thr s) i t' |}).
  { intros c' cur' rl' t' Ht' Hl Hc.
    assert (Hsend : forall g, cnt (at_send g) (set_nth (thr s) i t') = cnt (at_send g) (thr s)).
    { intros g. pose proof (cnt_set_nth (at_send g) (thr s) i t t' Hn) as HC. rewrite Ht' in HC. lia. }
    constructor; cbn [ctr zeros thr log mbox sess dead]; auto.
    - intros g Hg. rewrite Hl in Hg. apply unfinished_false. cbn [ctr thr]. rewrite Hsend.
      specialize (Hfin g Hg). apply unfinished_false in Hfin. split; [apply Hc; exact Hg|apply Hfin].
    - rewrite Hhist. symmetry. apply hist_same; cbn [ctr]; [exact Hl|]. intros g. apply sent_same; cbn [zeros thr]; auto. }
  assert (Hquiet : forall c' cur' rl' t',
             (forall g, at_send g t' = false) -> (forall g, at_send g t = false) ->
             length c' = length (ctr s) ->
             (forall g, S g < length (ctr s) -> get c' g = 0) ->
             SeqInv {| ctr := c'; zeros := zeros s; cur := cur'; rlock := rl'; mbox := mbox s; sess := sess s;
                       dead := dead s; log := log s; thr := set_nth (thr s) i t' |}).
  { intros c' cur' rl' t' Ht' Ht Hl Hc. apply Hquiet'; auto. intros g. rewrite Ht, Ht'. reflexivity. }
  destruct (tpc t) eqn:E.
  - (* PStream *)
    assert (Hns : forall g, at_send g t = false) by (intros; rewrite Hs; reflexivity).
    assert (Hfin0 : forall g, S g < length (ctr s) -> get (ctr s) g = 0).
    { intros g Hg. specialize (Hfin g Hg). apply unfinished_false in Hfin. apply Hfin. }
    destruct (cur s) as [g0|]; [destruct (1 <=? get (ctr s) g0) eqn:Ege|]; injection Hstep as <-.
    + apply Hquiet.
      * intros g. reflexivity.
      * exact Hns.
      * rewrite length_set_nth. reflexivity.
      * intros g Hg. specialize (Hfin0 g Hg).
        rewrite get_set_nth. apply Nat.leb_le in Ege.
        destruct (Nat.eqb_spec g g0) as [->|]; [lia|]. cbn [andb]. exact Hfin0.
    + apply Hquiet; [intros g; reflexivity|exact Hns|reflexivity|exact Hfin0].
    + apply Hquiet; [intros g; reflexivity|exact Hns|reflexivity|exact Hfin0].
  - (* PWin *)
    injection Hstep as <-. apply Hquiet.
    + intros g0. unfold at_send, after_stream, set_pc. cbn [tpc]. destruct (tdrop t); reflexivity.
    + intros g0. rewrite Hs. reflexivity.
    + reflexivity.
    + intros g0 Hg. specialize (Hfin g0 Hg). apply unfinished_false in Hfin. apply Hfin.
  - (* PSlow: a new generation; all earlier ones are finished *)
    injection Hstep as <-.
    pose proof (overlap_false_finished s i t Hn E Hov) as Hallfin.
    assert (Hsend : forall g, cnt (at_send g) (set_nth (thr s) i (set_pc t (PWait (length (ctr s))))) = cnt (at_send g) (thr s)).
    { intros g. pose proof (cnt_set_nth (at_send g) (thr s) i t (set_pc t (PWait (length (ctr s)))) Hn) as HC.
      rewrite Hs in HC. unfold at_send at 3 in HC. cbn [set_pc tpc pc_eqb orb b2n] in HC. lia. }
    constructor; cbn [ctr zeros thr log mbox sess dead]; auto.
    + intros g Hg. rewrite app_length in Hg. cbn [length] in Hg. apply unfinished_false. cbn [ctr thr].
      rewrite Hsend, get_snoc. assert (Hg' : g < length (ctr s)) by lia.
      specialize (Hallfin g Hg'). apply unfinished_false in Hallfin.
      destruct (Nat.eqb_spec g (length (ctr s))); [lia|exact Hallfin].
    + rewrite app_assoc, Hhist. unfold hist. cbn [ctr]. rewrite app_length. cbn [length].
      rewrite Nat.add_1_r, hist_snoc. f_equal.
      * apply hist_ext. intros g Hg. apply in_seq in Hg. symmetry. apply sent_same; cbn [zeros thr].
        -- rewrite get_snoc, Hlen. destruct (Nat.eqb_spec g (length (ctr s))); [lia|reflexivity].
        -- apply Hsend.
      * unfold hist_item, sent. cbn [zeros thr]. rewrite get_snoc, Hlen, Nat.eqb_refl. reflexivity.
  - discriminate.
  - (* PIns *)
    destruct (rlock s =? 0); [|discriminate]. injection Hstep as <-. apply Hquiet.
    + intros g0. unfold at_send, after_stream, set_pc. cbn [tpc]. destruct (tdrop t); reflexivity.
    + intros g0. rewrite Hs. reflexivity.
    + reflexivity.
    + intros g0 Hg. specialize (Hfin g0 Hg). apply unfinished_false in Hfin. apply Hfin.
  - discriminate.
  - (* PDrop *)
    injection Hstep as <-.
    assert (Hp : 1 <= get (ctr s) g).
    { rewrite Hcnt. apply (cnt_pos _ _ i t Hn). rewrite Hh. apply Nat.eqb_refl. }
    pose proof (get_pos_lt _ _ Hp) as Hlt.
    assert (Hzg : get (ctr s) g = 1 -> get (zeros s) g = 0).
    { intros H1. pose proof (Hz1 g) as Hle. destruct (Nat.eq_dec (get (zeros s) g) 1) as [Ez|Ez]; [|lia].
      specialize (Hz0 g Ez). lia. }
    assert (Hsend : forall g0, cnt (at_send g0) (set_nth (thr s) i (set_pc t (PDec g (get (ctr s) g))))
                               = cnt (at_send g0) (thr s) + b2n ((get (ctr s) g =? 1) && (g =? g0))).
    { intros g0. pose proof (cnt_set_nth (at_send g0) (thr s) i t (set_pc t (PDec g (get (ctr s) g))) Hn) as HC.
      rewrite Hs in HC. unfold at_send at 3 in HC. cbn [set_pc tpc pc_eqb orb b2n] in HC.
      rewrite (andb_comm (get (ctr s) g =? 1)). lia. }
    constructor; cbn [ctr zeros thr log mbox sess dead]; auto.
    + intros g0 Hg. rewrite length_set_nth in Hg. apply unfinished_false. cbn [ctr thr].
      specialize (Hfin g0 Hg). apply unfinished_false in Hfin. destruct Hfin as [Hc0 Hs0].
      assert (Hne : g <> g0) by (intros ->; lia).
      rewrite get_set_nth, Hsend. apply Nat.eqb_neq in Hne. rewrite Hne, andb_false_r. rewrite Nat.eqb_sym in Hne.
      rewrite Hne. cbn [andb b2n]. lia.
    + rewrite Hhist. symmetry. apply hist_same; cbn [ctr]; [apply length_set_nth|].
      intros g0. unfold sent. cbn [zeros thr]. rewrite Hsend.
      destruct (get (ctr s) g =? 1) eqn:E1; cbn [andb].
      * apply Nat.eqb_eq in E1. rewrite get_set_nth. destruct (Nat.eqb_spec g0 g) as [->|Hne].
        -- rewrite Nat.eqb_refl. cbn [b2n]. rewrite (Hzg E1).
           assert (Hl' : (g <? length (zeros s)) = true) by (apply Nat.ltb_lt; lia). rewrite Hl'. cbn [andb].
           replace (cnt (at_send g) (thr s) + 1 =? 0) with false by (symmetry; apply Nat.eqb_neq; lia).
           rewrite andb_false_r. reflexivity.
        -- cbn [andb]. replace (g =? g0) with false by (symmetry; apply Nat.eqb_neq; lia). cbn [b2n]. rewrite Nat.add_0_r. reflexivity.
      * cbn [b2n]. rewrite Nat.add_0_r. reflexivity.
  - (* PDec: thread-local decision *)
    injection Hstep as <-. apply Hquiet'.
    + intros g0. rewrite Hs. unfold at_send, set_pc. cbn [tpc pc_eqb].
      destruct (p =? 1); cbn [pc_eqb]; destruct (g =? g0); reflexivity.
    + reflexivity.
    + intros g0 Hg. specialize (Hfin g0 Hg). apply unfinished_false in Hfin. apply Hfin.
  - (* PSend: the owed Unsubscribe of the newest generation is sent *)
    injection Hstep as <-.
    assert (Hat : 1 <= cnt (at_send g) (thr s)).
    { apply (cnt_pos _ _ i t Hn). rewrite Hs, pc_eqb_refl. reflexivity. }
    assert (Hzg : get (zeros s) g = 1 /\ cnt (at_send g) (thr s) = 1 /\ count_msg (MUnsub g) (log s ++ mbox s) = 0).
    { specialize (Hun g). specialize (Hz1 g). lia. }
    destruct Hzg as [Hzg [Hat1 _]].
    assert (Hlt : g < length (ctr s)).
    { destruct (Nat.lt_ge_cases g (length (ctr s))); [assumption|]. rewrite get_overflow in Hzg; lia. }
    assert (Hlast : S g = length (ctr s)).
    { destruct (Nat.eq_dec (S g) (length (ctr s))); [assumption|].
      assert (Hg : S g < length (ctr s)) by lia. specialize (Hfin g Hg). apply unfinished_false in Hfin. lia. }
    assert (Hsend : forall g0, cnt (at_send g0) (set_nth (thr s) i (set_pc t PDone)) + b2n (g =? g0) = cnt (at_send g0) (thr s)).
    { intros g0. pose proof (cnt_set_nth (at_send g0) (thr s) i t (set_pc t PDone) Hn) as HC.
      rewrite Hs in HC. unfold at_send at 3 in HC. cbn [set_pc tpc pc_eqb orb b2n] in HC. rewrite orb_false_r in HC. lia. }
    constructor; cbn [ctr zeros thr log mbox sess dead]; auto.
    + intros g0 Hg. apply unfinished_false. cbn [ctr thr]. specialize (Hfin g0 Hg). apply unfinished_false in Hfin.
      specialize (Hsend g0). lia.
    + rewrite app_assoc, Hhist. unfold hist. cbn [ctr]. rewrite <- Hlast, !hist_snoc, <- app_assoc. f_equal.
      * apply hist_ext. intros g0 Hg0. apply in_seq in Hg0. symmetry. apply sent_same; cbn [zeros thr]; [reflexivity|].
        specialize (Hsend g0). replace (g =? g0) with false in Hsend by (symmetry; apply Nat.eqb_neq; lia). cbn [b2n] in Hsend. lia.
      * unfold hist_item, sent. cbn [zeros thr]. rewrite Hzg. cbn [Nat.eqb andb].
        specialize (Hsend g). rewrite Nat.eqb_refl in Hsend. cbn [b2n] in Hsend.
        replace (cnt (at_send g) (thr s) =? 0) with false by (symmetry; apply Nat.eqb_neq; lia).
        replace (cnt (at_send g) (set_nth (thr s) i (set_pc t PDone)) =? 0) with true by (symmetry; apply Nat.eqb_eq; lia).
        reflexivity.
  - discriminate.
Qed.

Lemma count_msg_pos_in m l : 1 <= count_msg m l -> In m l.
Proof.
  induction l as [|x l IH]; cbn [count_msg]; [lia|]. intros H.
  destruct m as [a|a], x as [b|b]; try (right; apply IH; lia);
    (destruct (Nat.eqb_spec a b) as [->|]; [left; reflexivity|right; apply IH; lia]).
Qed.

Lemma mstep_seqinv s s' : Inv s -> SeqInv s -> mstep s = Some s' -> SeqInv s'.
Proof.
  intros HI [Hfin Hhist Hsess Hdead] Hstep. unfold mstep in Hstep.
  destruct (mbox s) as [|[g|g] r] eqn:Em; [discriminate| |]; injection Hstep as <-.
  - constructor; cbn [ctr zeros thr log mbox sess dead].
    + intros g0 Hg. specialize (Hfin g0 Hg). apply unfinished_false in Hfin. apply unfinished_false. cbn [ctr thr].
      rewrite cnt_map_ext by (intros; apply at_send_wake). exact Hfin.
    + rewrite <- app_assoc. cbn [app]. rewrite Hhist. apply hist_same; [reflexivity|].
      intros g0. apply sent_same; cbn [zeros thr]; [reflexivity|]. symmetry. apply cnt_map_ext. intros; apply at_send_wake.
    + rewrite sess_after_app. reflexivity.
    + intros h Hh. rewrite count_msg_app. specialize (Hdead h Hh). lia.
  - assert (Hg : sess s = Some g).
    { rewrite Hsess. eapply hist_before_unsub. unfold hist in Hhist. rewrite <- Hhist. reflexivity. }
    constructor; cbn [ctr zeros thr log mbox sess dead]; auto.
    + rewrite <- app_assoc. cbn [app]. exact Hhist.
    + rewrite sess_after_app. reflexivity.
    + rewrite Hg. intros h [<-|Hh]; rewrite count_msg_app; cbn [count_msg].
      * rewrite Nat.eqb_refl. lia.
      * specialize (Hdead h Hh). lia.
Qed.

Lemma run_strict_seqinv ls : forall s s',
  Inv s -> SeqInv s -> no_overlap true s ls = true -> run_strict true s ls = Some s' -> Inv s' /\ SeqInv s'.
Proof.
  induction ls as [|l ls IH]; intros s s' HI HS Hno H; cbn [run_strict] in H.
  - injection H as <-. auto.
  - cbn [no_overlap] in Hno. destruct (stepb true s l) as [s1|] eqn:E; [|discriminate].
    apply andb_true_iff in Hno. destruct Hno as [Hov Hno]. apply negb_true_iff in Hov.
    eapply IH; [| |exact Hno|exact H].
    + eapply stepb_inv; eassumption.
    + destruct l as [i|]; cbn [stepb] in E; [eapply tstep_seqinv|eapply mstep_seqinv]; eassumption.
Qed.

(** Every held handle is backed: once the manager has caught up with its mailbox, the session
    registered for the topic is the one of the handle's generation, and that session was never
    stopped. *)
Lemma seq_handle_active s i t g :
  Inv s -> SeqInv s -> nth_error (thr s) i = Some t -> holds_handle g t = true ->
  sess_after (mbox s) (sess s) = Some g /\ ~ In g (dead s).
Proof.
  intros HI [Hfin Hhist Hsess Hdead] Hn Hh.
  destruct (inv_handle_generation_live s i t g HI Hn Hh) as [Hc [Hz [Hu Hs]]].
  pose proof (get_pos_lt _ _ Hc) as Hlt.
  assert (Hlast : S g = length (ctr s)).
  { destruct (Nat.eq_dec (S g) (length (ctr s))); [assumption|].
    assert (Hg : S g < length (ctr s)) by lia. specialize (Hfin g Hg). apply unfinished_false in Hfin. lia. }
  split.
  - rewrite Hsess, <- sess_after_app, Hhist. unfold hist. rewrite <- Hlast, hist_end.
    unfold sent. rewrite Hz. reflexivity.
  - intros Hin. specialize (Hdead g Hin). rewrite count_msg_app in Hu. lia.
Qed.

Lemma removelast_seq n : removelast (seq 0 (S n)) = seq 0 n.
Proof. rewrite seq_S. apply removelast_last. Qed.

Lemma seq_alternating s : Inv s -> SeqInv s -> alternating true (log s ++ mbox s) = true.
Proof.
  intros [Hlen Hcnt Hz1 Hz0 Hun Hlive] [Hfin Hhist _ _]. rewrite Hhist. apply hist_alternating.
  destruct (length (ctr s)) as [|n] eqn:En; [intros g []|].
  rewrite removelast_seq. intros g Hg. apply in_seq in Hg.
  assert (Hg' : S g < S n) by lia. specialize (Hfin g Hg'). apply unfinished_false in Hfin.
  destruct Hfin as [Hc Hs]. unfold sent. rewrite Hs.
  assert (Hlt : g < S n) by lia. specialize (Hlive g Hlt). specialize (Hz1 g).
  replace (get (zeros s) g) with 1 by lia. reflexivity.
Qed.

(** the overlay is left once no counted reference and no owed Unsubscribe remains *)
Lemma seq_left_when_unreferenced s :
  Inv s -> SeqInv s ->
  (forall g, get (ctr s) g = 0) -> (forall g, cnt (at_send g) (thr s) = 0) ->
  sess_after (mbox s) (sess s) = None.
Proof.
  intros [Hlen Hcnt Hz1 Hz0 Hun Hlive] [Hfin Hhist Hsess Hdead] Hc Hs.
  rewrite Hsess, <- sess_after_app, Hhist. unfold hist.
  destruct (length (ctr s)) as [|n] eqn:En; [reflexivity|].
  rewrite hist_end. unfold sent. rewrite Hs.
  assert (Hn : n < S n) by lia. specialize (Hlive n Hn). rewrite Hc in Hlive.
  specialize (Hz1 n). replace (get (zeros s) n) with 1 by lia. reflexivity.
Qed.

(** * What the harness executes is a real trace

    [run_skip] drops the labels that are not enabled and [drain] adds enabled steps: both end in
    a state that a strict trace reaches, so the theorems about [run_strict] speak about every
    state the correspondence runs visit. *)
Lemma run_strict_app fixed a : forall s s' b,
  run_strict fixed s a = Some s' -> run_strict fixed s (a ++ b) = run_strict fixed s' b.
Proof.
  induction a as [|l a IH]; intros s s' b H; cbn [run_strict app] in *.
  - injection H as <-. reflexivity.
  - destruct (stepb fixed s l); [|discriminate]. apply IH. exact H.
Qed.

Lemma run_skip_strict fixed ls : forall s, exists ls', run_strict fixed s ls' = Some (run_skip fixed s ls).
Proof.
  induction ls as [|l ls IH]; intros s; cbn [run_skip].
  - exists []. reflexivity.
  - destruct (stepb fixed s l) as [s1|] eqn:E.
    + destruct (IH s1) as [ls' H]. exists (l :: ls'). cbn [run_strict]. rewrite E. exact H.
    + apply IH.
Qed.

Lemma first_thread_step_some fixed s is s' :
  first_thread_step fixed s is = Some s' -> exists i, tstep fixed s i = Some s'.
Proof.
  induction is as [|i is IH]; cbn [first_thread_step]; [discriminate|].
  destruct (tstep fixed s i) as [s1|] eqn:E; [intros H; injection H as <-; eauto|apply IH].
Qed.

Lemma drain_strict fixed fuel : forall s, exists ls', run_strict fixed s ls' = Some (drain fuel fixed s).
Proof.
  induction fuel as [|f IH]; intros s; cbn [drain].
  - exists []. reflexivity.
  - destruct (first_thread_step fixed s (seq 0 (length (thr s)))) as [s1|] eqn:E.
    + destruct (first_thread_step_some _ _ _ _ E) as [i Hi]. destruct (IH s1) as [ls' H].
      exists (LT i :: ls'). cbn [run_strict stepb]. rewrite Hi. exact H.
    + destruct (mstep s) as [s1|] eqn:Em.
      * destruct (IH s1) as [ls' H]. exists (LM :: ls'). cbn [run_strict stepb]. rewrite Em. exact H.
      * exists []. reflexivity.
Qed.

Lemma run_case_reachable fixed flags ls : reachable fixed flags (run_case fixed flags ls).
Proof.
  unfold run_case, reachable.
  destruct (run_skip_strict fixed ls (init flags)) as [a Ha].
  destruct (drain_strict fixed (fuel_for flags) (run_skip fixed (init flags) ls)) as [b Hb].
  exists (a ++ b). rewrite (run_strict_app fixed a _ _ b Ha). exact Hb.
Qed.

(** * Main theorems (repaired protocol) *)

Theorem counter_counts_references flags s g :
  reachable true flags s -> get (ctr s) g = cnt (holds true g) (thr s).
Proof. intros H. apply reachable_inv in H. apply H. Qed.

Theorem unsubscribe_count_is_zero_transitions flags s g :
  reachable true flags s ->
  count_msg (MUnsub g) (log s ++ mbox s) + cnt (at_send g) (thr s) = get (zeros s) g /\
  get (zeros s) g <= 1 /\
  (get (zeros s) g = 1 -> get (ctr s) g = 0).
Proof. intros H. apply reachable_inv in H. destruct H. auto. Qed.

Theorem returned_handle_generation_live flags s i t g :
  reachable true flags s -> nth_error (thr s) i = Some t -> holds_handle g t = true ->
  1 <= get (ctr s) g /\ get (zeros s) g = 0 /\
  count_msg (MUnsub g) (log s ++ mbox s) = 0 /\ cnt (at_send g) (thr s) = 0.
Proof. intros H. apply reachable_inv in H. apply inv_handle_generation_live. exact H. Qed.

(** handle_backed: the property's second half, on a state *)
Definition handles_backed (s : st) : Prop :=
  forall i t g, nth_error (thr s) i = Some t -> holds_handle g t = true ->
                sess_after (mbox s) (sess s) = Some g /\ ~ In g (dead s).

Definition left_iff_unreferenced (s : st) : Prop :=
  (forall g, get (ctr s) g = 0) -> (forall g, cnt (at_send g) (thr s) = 0) ->
  sess_after (mbox s) (sess s) = None.

Theorem outside_known flags ls s :
  run_strict true (init flags) ls = Some s ->
  no_overlap true (init flags) ls = true ->
  handles_backed s /\ alternating true (log s ++ mbox s) = true /\ left_iff_unreferenced s.
Proof.
  intros Hrun Hno.
  destruct (run_strict_seqinv ls (init flags) s (init_inv flags) (init_seqinv flags) Hno Hrun) as [HI HS].
  split; [|split].
  - intros i t g Hn Hh. eapply seq_handle_active; eassumption.
  - apply seq_alternating; assumption.
  - intros Hc Hs. apply seq_left_when_unreferenced; assumption.
Qed.

(** * Refutations (concrete traces, replayed on the real code by the harness) *)

(** thread 0: stream() then drop; thread 1: stream() and keep.
    T0 subscribes alone; T1 passes has_subscriptions(); T0 drops the last reference and sends
    Unsubscribe; T1 clones; the manager leaves the overlay. *)
Definition toctou_trace : list label := [LT 0; LT 0; LM; LT 0; LT 1; LT 0; LT 0; LT 0; LT 1; LM].

(** as-is (check-then-act): a kept handle whose session was stopped, with no overlapping
    subscription anywhere in the trace *)
Lemma asis_toctou_refuted :
  exists s, run_strict false (init [true; false]) toctou_trace = Some s /\
            no_overlap false (init [true; false]) toctou_trace = true /\
            ~ handles_backed s.
Proof.
  eexists. split; [vm_compute; reflexivity|]. split; [vm_compute; reflexivity|].
  intros H. specialize (H 1 {| tpc := PHold 0; tdrop := false; tpath := 1 |} 0 eq_refl eq_refl).
  destruct H as [H _]. vm_compute in H. discriminate.
Qed.

(** ... and when that handle is dropped later, a second Unsubscribe for the same generation *)
Lemma asis_double_unsubscribe :
  exists s, run_strict false (init [true; true]) (toctou_trace ++ [LT 1; LT 1; LT 1]) = Some s /\
            count_msg (MUnsub 0) (log s ++ mbox s) = 2.
Proof. eexists. split; vm_compute; reflexivity. Qed.

(** the same trace on the repaired protocol keeps the handle backed *)
Definition fixed_window_trace : list label := [LT 0; LT 0; LM; LT 0; LT 1; LT 0; LT 0; LT 1].

Lemma fixed_toctou_fine :
  exists s, run_strict true (init [true; false]) fixed_window_trace = Some s /\
            handles_backed s /\ sess s = Some 0 /\ mbox s = [].
Proof.
  destruct (run_strict true (init [true; false]) fixed_window_trace) as [s|] eqn:R; [|vm_compute in R; discriminate].
  exists s. split; [reflexivity|].
  destruct (outside_known _ _ _ R) as [H _]; [vm_compute; reflexivity|].
  split; [exact H|]. vm_compute in R. injection R as <-. split; reflexivity.
Qed.

(** Open finding 1 (also in the repaired protocol): a drop is preempted between fetch_sub and
    send_message; meanwhile another stream() re-subscribes; the late Unsubscribe then stops the
    NEW session. *)
Definition late_unsub_trace : list label := [LT 0; LT 0; LM; LT 0; LT 0; LT 0; LT 1; LT 1; LM; LT 1; LT 0; LM].

Lemma late_unsubscribe_refuted :
  exists s, run_strict true (init [true; false]) late_unsub_trace = Some s /\ ~ handles_backed s.
Proof.
  eexists. split; [vm_compute; reflexivity|].
  intros H. specialize (H 1 {| tpc := PHold 1; tdrop := false; tpath := 2 |} 1 eq_refl eq_refl).
  destruct H as [H _]. vm_compute in H. discriminate.
Qed.

(** Open finding 2: two stream() calls for a topic without a live subscription run their slow
    paths concurrently; both subscribe; dropping the first handle stops the second session. *)
Definition concurrent_sub_trace : list label := [LT 0; LT 1; LT 0; LT 1; LM; LM; LT 0; LT 1; LT 0; LT 0; LT 0; LM].

Lemma concurrent_subscribe_refuted :
  exists s, run_strict true (init [true; false]) concurrent_sub_trace = Some s /\ ~ handles_backed s.
Proof.
  eexists. split; [vm_compute; reflexivity|].
  intros H. specialize (H 1 {| tpc := PHold 1; tdrop := false; tpath := 2 |} 1 eq_refl eq_refl).
  destruct H as [H _]. vm_compute in H. discriminate.
Qed.

Lemma open_findings_are_overlaps :
  no_overlap true (init [true; false]) late_unsub_trace = false /\
  no_overlap true (init [true; false]) concurrent_sub_trace = false.
Proof. split; vm_compute; reflexivity. Qed.

(** Regression witness (seeded change "decide from a second read of the counter"): if the
    decision of [drop] re-read the shared counter instead of using the value its own fetch_sub
    returned, the last two references dropped concurrently (both decrements before either
    decision) would BOTH send Unsubscribe for one single 1 -> 0 transition.  The code as it is
    (decision on the thread-local previous value) sends exactly one on the same schedule. *)
Definition two_last_drops_trace : list label :=
  [LT 0; LT 0; LM; LT 0; LT 1; LT 1; LT 0; LT 1; LT 0; LT 1; LT 0; LT 1].

Lemma reread_after_decrement_refuted :
  (exists s, run_strict_reread (init [true; true]) two_last_drops_trace = Some s /\
             get (zeros s) 0 = 1 /\ count_msg (MUnsub 0) (log s ++ mbox s) = 2) /\
  count_msg (MUnsub 0) (log (run_case true [true; true] two_last_drops_trace)) = 1.
Proof. split; [eexists; split; [vm_compute; reflexivity|split; vm_compute; reflexivity]|vm_compute; reflexivity]. Qed.

(** * Non-vacuity: three threads, a trace without overlap that exercises the window with a
      counter of 2, reaches a state with live handles, a pending message and both paths taken. *)
Example ex_three_threads :
  exists s,
    run_strict true (init [true; false; true]) [LT 0; LT 0; LM; LT 0; LT 1; LT 2; LT 0; LT 1; LT 2; LT 2] = Some s /\
    no_overlap true (init [true; false; true]) [LT 0; LT 0; LM; LT 0; LT 1; LT 2; LT 0; LT 1; LT 2; LT 2] = true /\
    get (ctr s) 0 = 1 /\ nth_error (thr s) 1 = Some {| tpc := PHold 0; tdrop := false; tpath := 1 |} /\
    holds_handle 0 {| tpc := PHold 0; tdrop := false; tpath := 1 |} = true.
Proof.
  eexists. split; [vm_compute; reflexivity|]. split; [vm_compute; reflexivity|].
  split; [reflexivity|]. split; reflexivity.
Qed.

