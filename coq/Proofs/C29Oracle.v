(** Soundness of the C29 oracle: [check] accepts an observation only if every kept handle is
    live with a positive counter, the manager never left or joined twice in a row, and it is
    subscribed at the end exactly when a handle remains. *)
From Coq Require Import List Arith Bool.
From PV Require Import Model.GossipGuard Oracle.C29.
Import ListNotations.

Lemma alt_no_repeat e l a b pre post :
  alt e l = true -> l = pre ++ a :: b :: post -> a <> b.
Proof.
  revert e l. induction pre as [|x pre IH]; intros e l H ->; cbn [app alt] in H.
  - apply andb_true_iff in H. destruct H as [H1 H2]. apply andb_true_iff in H2. destruct H2 as [H2 _].
    apply eqb_prop in H1. apply eqb_prop in H2. subst. destruct e; discriminate.
  - apply andb_true_iff in H. destruct H as [_ H]. eapply IH; [exact H|reflexivity].
Qed.

Lemma check_sound kept all_done log sub :
  check kept all_done log sub = true ->
  all_done = true /\
  (forall live c, In (live, c) kept -> live = true /\ 1 <= c) /\
  (forall pre a b post, log = pre ++ a :: b :: post -> a <> b) /\
  (sub = true <-> kept <> []).
Proof.
  unfold check. intros H. repeat (apply andb_true_iff in H; destruct H as [H ?]).
  split; [exact H|]. split; [|split].
  - intros live c Hin. rewrite forallb_forall in H2. specialize (H2 _ Hin). cbn [fst snd] in H2.
    apply andb_true_iff in H2. destruct H2 as [-> H2]. apply Nat.leb_le in H2. auto.
  - intros pre a b post E. eapply alt_no_repeat; eassumption.
  - apply eqb_prop in H0. subst sub. destruct kept; cbn; split; congruence.
Qed.
