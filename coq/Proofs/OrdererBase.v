(** Basic facts about the orderer model: list helpers, [ready] as a set test, membership
    characterisations of the six store operations. *)
From Coq Require Import List Arith NArith Bool Lia Permutation.
From PV Require Import Model.Orderer.
Import ListNotations.

(** * helpers *)
Lemma memN_In x l : memN x l = true <-> In x l.
Proof.
  unfold memN. rewrite existsb_exists. split.
  - intros [y [Hy E]]. apply N.eqb_eq in E. subst. exact Hy.
  - intros H. exists x. split; [exact H | apply N.eqb_refl].
Qed.

Lemma memN_false x l : memN x l = false <-> ~ In x l.
Proof.
  split.
  - intros H Hin. apply memN_In in Hin. congruence.
  - intros H. destruct (memN x l) eqn:E; [|reflexivity]. apply memN_In in E. contradiction.
Qed.

Lemma nodupN_In x l : In x (nodupN l) <-> In x l.
Proof.
  induction l as [|a l IH]; [reflexivity|].
  cbn [nodupN]. destruct (memN a l) eqn:E.
  - rewrite IH. apply memN_In in E. split; [intros H; right; exact H|].
    intros [H|H]; [subst; exact E | exact H].
  - cbn [In]. rewrite IH. reflexivity.
Qed.

Lemma nodupN_NoDup l : NoDup (nodupN l).
Proof.
  induction l as [|a l IH]; [constructor|].
  cbn [nodupN]. destruct (memN a l) eqn:E; [exact IH|].
  constructor; [|exact IH]. rewrite nodupN_In. apply memN_false. exact E.
Qed.

Lemma insert_sorted_In x y l : In x (insert_sorted y l) <-> x = y \/ In x l.
Proof.
  induction l as [|a l IH]; cbn [insert_sorted In].
  - intuition.
  - destruct (N.leb y a); cbn [In]; [intuition|]. rewrite IH. intuition.
Qed.

Lemma sortN_In x l : In x (sortN l) <-> In x l.
Proof.
  induction l as [|a l IH]; [reflexivity|].
  cbn [sortN fold_right]. rewrite insert_sorted_In. fold (sortN l). rewrite IH.
  cbn [In]. intuition.
Qed.

Lemma listN_eqb_eq a b : listN_eqb a b = true <-> a = b.
Proof.
  revert b; induction a as [|x a IH]; intros [|y b]; cbn [listN_eqb].
  - split; reflexivity.
  - split; discriminate.
  - split; discriminate.
  - rewrite andb_true_iff, N.eqb_eq, IH. split; [intros [? ?]; subst; reflexivity|].
    intros H; inversion H; auto.
Qed.

Lemma dig_eqb_eq (a b : digest) : dig_eqb a b = true <-> a = b.
Proof.
  destruct a as [a1 a2], b as [b1 b2]. unfold dig_eqb. cbn [fst snd].
  rewrite andb_true_iff, N.eqb_eq, listN_eqb_eq. split; [intros [? ?]; subst; reflexivity|].
  intros H; inversion H; auto.
Qed.

Lemma cd_eqb_eq (a b : id * digest) : cd_eqb a b = true <-> a = b.
Proof.
  destruct a as [a1 a2], b as [b1 b2]. unfold cd_eqb. cbn [fst snd].
  rewrite andb_true_iff, N.eqb_eq, dig_eqb_eq. split; [intros [? ?]; subst; reflexivity|].
  intros H; inversion H; auto.
Qed.

Lemma prow_eqb_eq a b : prow_eqb a b = true <-> a = b.
Proof.
  destruct a as [a1 a2 a3 a4], b as [b1 b2 b3 b4]. unfold prow_eqb.
  change (p_id (mkP a1 a2 a3 a4)) with a1. change (p_id (mkP b1 b2 b3 b4)) with b1.
  change (p_child (mkP a1 a2 a3 a4)) with a2. change (p_child (mkP b1 b2 b3 b4)) with b2.
  change (p_parent (mkP a1 a2 a3 a4)) with a3. change (p_parent (mkP b1 b2 b3 b4)) with b3.
  change (p_dig (mkP a1 a2 a3 a4)) with a4. change (p_dig (mkP b1 b2 b3 b4)) with b4.
  rewrite !andb_true_iff, !N.eqb_eq, dig_eqb_eq.
  split; [intros [[[? ?] ?] ?]; subst; reflexivity|]. intros H; inversion H; auto.
Qed.

Lemma nodup_by_In {A} (eqb : A -> A -> bool) (Heq : forall a b, eqb a b = true <-> a = b) x l :
  In x (nodup_by eqb l) <-> In x l.
Proof.
  induction l as [|a l IH]; [reflexivity|].
  cbn [nodup_by]. destruct (existsb (eqb a) l) eqn:E.
  - rewrite IH. apply existsb_exists in E. destruct E as [y [Hy E]]. apply Heq in E. subst y.
    split; [intros H; right; exact H|]. intros [H|H]; [subst; exact Hy|exact H].
  - cbn [In]. rewrite IH. reflexivity.
Qed.

(** generic membership lemma for folds that only add elements *)
Lemma fold_left_In {A B} (g : list A -> B -> list A) (Q : B -> A -> Prop)
      (Hg : forall t b x, In x (g t b) <-> In x t \/ Q b x) :
  forall l t x, In x (fold_left g l t) <-> In x t \/ exists b, In b l /\ Q b x.
Proof.
  induction l as [|b l IH]; intros t x; cbn [fold_left].
  - split; [auto|]. intros [H|[b [[] _]]]. exact H.
  - rewrite IH, Hg. split.
    + intros [[H|H]|[b' [Hb HQ]]]; [left; exact H | right; exists b; cbn; auto | right; exists b'; cbn; auto].
    + intros [H|[b' [[Hb|Hb] HQ]]]; [left; left; exact H | subst; left; right; exact HQ | right; exists b'; auto].
Qed.

(** * [is_ready], [ready] *)
Definition ids (s : store) : list id := map r_id (ready_tbl s).
Definition PK (s : store) : Prop := NoDup (ids s).

Lemma is_ready_In s x : is_ready s x = true <-> In x (ids s).
Proof.
  unfold is_ready, ids. rewrite existsb_exists, in_map_iff. split.
  - intros [r [Hr E]]. apply N.eqb_eq in E. exists r. auto.
  - intros [r [E Hr]]. exists r. split; [exact Hr | apply N.eqb_eq; exact E].
Qed.

Lemma is_ready_row s x : is_ready s x = true <-> exists r, In r (ready_tbl s) /\ r_id r = x.
Proof.
  rewrite is_ready_In. unfold ids. rewrite in_map_iff. split; intros [r [A B]]; exists r; auto.
Qed.

(** length of a filter over a disjunction of disjoint predicates *)
Lemma filter_length_split {A} (p q : A -> bool) l :
  (forall a, In a l -> p a = true -> q a = true -> False) ->
  length (filter (fun a => p a || q a) l) = length (filter p l) + length (filter q l).
Proof.
  induction l as [|a l IH]; intros H; [reflexivity|].
  cbn [filter]. assert (IH' := IH (fun a Ha => H a (or_intror Ha))).
  destruct (p a) eqn:Ep, (q a) eqn:Eq; cbn [orb length]; try lia.
  exfalso. apply (H a); cbn; auto.
Qed.

Lemma count_single (t : list rrow) u :
  NoDup (map r_id t) ->
  length (filter (fun r => N.eqb u (r_id r)) t) = if memN u (map r_id t) then 1 else 0.
Proof.
  induction t as [|r t IH]; intros Hnd; [reflexivity|].
  cbn [map] in Hnd. inversion Hnd as [|? ? Hnotin Hnd']; subst.
  cbn [filter map memN existsb]. specialize (IH Hnd').
  destruct (N.eqb u (r_id r)) eqn:E.
  - apply N.eqb_eq in E. subst u. cbn [orb length]. rewrite IH.
    apply memN_false in Hnotin. fold (memN (r_id r) (map r_id t)). rewrite Hnotin. reflexivity.
  - cbn [orb]. exact IH.
Qed.

Lemma count_filter (t : list rrow) (U : list id) :
  NoDup (map r_id t) -> NoDup U ->
  length (filter (fun r => memN (r_id r) U) t) = length (filter (fun u => memN u (map r_id t)) U).
Proof.
  intros Ht. induction U as [|u U IH]; intros HU.
  - cbn [memN existsb filter length]. induction t as [|r t IHt]; [reflexivity|].
    cbn [filter]. apply IHt. cbn [map] in Ht. inversion Ht; assumption.
  - inversion HU as [|? ? Hnotin HU']; subst. specialize (IH HU').
    cbn [filter].
    assert (E : forall r, memN (r_id r) (u :: U) = (N.eqb u (r_id r) || memN (r_id r) U)).
    { intros r. unfold memN. cbn [existsb]. rewrite (N.eqb_sym (r_id r) u). reflexivity. }
    rewrite (filter_ext _ _ E).
    rewrite filter_length_split.
    + rewrite IH, count_single by exact Ht. destruct (memN u (map r_id t)); reflexivity.
    + intros r _ H1 H2. apply N.eqb_eq in H1. subst u. apply memN_In in H2. exact (Hnotin H2).
Qed.

Lemma filter_length_le' {A} (p : A -> bool) l : length (filter p l) <= length l.
Proof. induction l as [|a l IH]; [constructor|]. cbn [filter]. destruct (p a); cbn [length]; lia. Qed.

Lemma filter_length_full {A} (p : A -> bool) l :
  length (filter p l) = length l <-> forall a, In a l -> p a = true.
Proof.
  induction l as [|a l IH]; [cbn; intuition|].
  cbn [filter]. pose proof (filter_length_le' p l) as Hle.
  destruct (p a) eqn:E; cbn [length].
  - split.
    + intros H a' [Ha|Ha]; [subst; exact E|]. apply IH; [lia | exact Ha].
    + intros H. f_equal. apply IH. intros a' Ha. apply H. right; exact Ha.
  - split; [lia|]. intros H. specialize (H a (or_introl eq_refl)). congruence.
Qed.

Lemma ready_spec s ds : PK s -> (ready s ds = true <-> forall d, In d ds -> is_ready s d = true).
Proof.
  intros Hpk. unfold ready, count_in. rewrite Nat.eqb_eq.
  rewrite count_filter by (exact Hpk || apply nodupN_NoDup).
  rewrite filter_length_full. split.
  - intros H d Hd. apply is_ready_In. apply memN_In. apply H. apply nodupN_In. exact Hd.
  - intros H d Hd. apply memN_In. apply is_ready_In. apply H. apply nodupN_In. exact Hd.
Qed.

Lemma ready_false s ds : PK s -> ready s ds = false -> exists d, In d ds /\ is_ready s d = false.
Proof.
  intros Hpk H.
  destruct (forallb (is_ready s) ds) eqn:E.
  - rewrite forallb_forall in E. apply (proj2 (ready_spec s ds Hpk)) in E. congruence.
  - assert (Hx : existsb (fun d => negb (is_ready s d)) ds = true).
    { clear H. induction ds as [|a ds IH]; [discriminate|].
      cbn [forallb] in E. cbn [existsb]. destruct (is_ready s a); cbn [negb orb andb] in *; auto. }
    apply existsb_exists in Hx. destruct Hx as [d [Hd Hn]]. exists d. split; [exact Hd|].
    destruct (is_ready s d); [discriminate|reflexivity].
Qed.

(** dependency lists are sets for [ready] *)
Lemma ready_set s ds ds' :
  PK s -> (forall d, In d ds <-> In d ds') -> ready s ds = ready s ds'.
Proof.
  intros Hpk Hs.
  destruct (ready s ds) eqn:E1, (ready s ds') eqn:E2; try reflexivity.
  - pose proof (proj1 (ready_spec s ds Hpk) E1) as F. assert (ready s ds' = true); [|congruence].
    apply (ready_spec s ds' Hpk). intros d Hd. apply F. apply Hs. exact Hd.
  - pose proof (proj1 (ready_spec s ds' Hpk) E2) as F. assert (ready s ds = true); [|congruence].
    apply (ready_spec s ds Hpk). intros d Hd. apply F. apply Hs. exact Hd.
Qed.

Lemma ready_nodup s ds : ready s ds = ready s (nodupN ds).
Proof.
  unfold ready.
  assert (E : nodupN (nodupN ds) = nodupN ds); [|rewrite E; reflexivity].
  assert (G : forall l, NoDup l -> nodupN l = l).
  { induction l as [|a l IH]; intros Hn; [reflexivity|]. inversion Hn; subst.
    cbn [nodupN]. apply memN_false in H1. rewrite H1, IH by assumption. reflexivity. }
  apply G, nodupN_NoDup.
Qed.

(** the as-is [ready] (count against the length of the list) is *not* a set test *)
Lemma ready_asis_counterexample :
  exists s ds, PK s /\ (forall d, In d ds -> is_ready s d = true) /\ ready_asis s ds = false.
Proof.
  exists (mark_ready empty 0%N), [0%N; 0%N]. split; [|split].
  - vm_compute. repeat constructor. intros [].
  - intros d [H|[H|[]]]; subst; reflexivity.
  - reflexivity.
Qed.

(** * pending table operations *)
Lemma insert_ignore_In t row x : In x (insert_ignore t row) <-> In x t \/ x = row.
Proof.
  unfold insert_ignore. destruct (existsb (prow_eqb row) t) eqn:E.
  - apply existsb_exists in E. destruct E as [y [Hy E]]. apply prow_eqb_eq in E. subst y.
    split; [auto|]. intros [H|H]; [exact H | subst; exact Hy].
  - rewrite in_app_iff. cbn [In]. intuition.
Qed.

Lemma mark_pending_In s c ps row :
  In row (pending_tbl (mark_pending s c ps)) <->
  In row (pending_tbl s) \/
  exists i p, In i ps /\ is_ready s i = false /\ In p ps /\ row = mkP i c p (c, sortN ps).
Proof.
  unfold mark_pending. cbn [pending_tbl set_pending].
  rewrite (fold_left_In
             (fun t i => if is_ready s i then t
                         else fold_left (fun t p => insert_ignore t (mkP i c p (c, sortN ps))) (sortN ps) t)
             (fun i x => is_ready s i = false /\ exists p, In p ps /\ x = mkP i c p (c, sortN ps))).
  - split.
    + intros [H|[i [Hi [Hr [p [Hp E]]]]]]; [left; exact H|]. right. exists i, p.
      apply (proj1 (sortN_In _ _)) in Hi. auto.
    + intros [H|[i [p [Hi [Hr [Hp E]]]]]]; [left; exact H|]. right. exists i.
      split; [apply sortN_In; exact Hi|]. split; [exact Hr|]. exists p. auto.
  - intros t i x. destruct (is_ready s i) eqn:E.
    + split; [auto|]. intros [H|[H _]]; [exact H|discriminate].
    + rewrite (fold_left_In (fun t p => insert_ignore t (mkP i c p (c, sortN ps)))
                            (fun p x => x = mkP i c p (c, sortN ps))).
      * split.
        -- intros [H|[p [Hp E']]]; [left; exact H|]. right. split; [reflexivity|].
           exists p. apply (proj1 (sortN_In _ _)) in Hp. auto.
        -- intros [H|[_ [p [Hp E']]]]; [left; exact H|]. right. exists p.
           split; [apply sortN_In; exact Hp | exact E'].
      * intros t' p x'. apply insert_ignore_In.
Qed.

Lemma mark_pending_ready s c ps : ready_tbl (mark_pending s c ps) = ready_tbl s.
Proof. reflexivity. Qed.

Lemma remove_pending_In s k row :
  In row (pending_tbl (remove_pending s k)) <-> In row (pending_tbl s) /\ p_id row <> k.
Proof.
  unfold remove_pending. cbn [pending_tbl set_pending]. rewrite filter_In.
  rewrite negb_true_iff, N.eqb_neq. reflexivity.
Qed.

Lemma remove_pending_ready s k : ready_tbl (remove_pending s k) = ready_tbl s.
Proof. reflexivity. Qed.

(** [get_next_pending]: every returned entry comes from a row under [k]; every group of rows
    under [k] is returned. *)
Lemma gnp_None s k :
  get_next_pending s k = None <-> forall row, In row (pending_tbl s) -> p_id row <> k.
Proof.
  unfold get_next_pending.
  destruct (filter (fun r => N.eqb (p_id r) k) (pending_tbl s)) as [|r0 rows] eqn:E.
  - split; [|reflexivity]. intros _ row Hrow Hk.
    assert (H : In row (filter (fun r => N.eqb (p_id r) k) (pending_tbl s))).
    { apply filter_In. split; [exact Hrow | apply N.eqb_eq; exact Hk]. }
    rewrite E in H. exact H.
  - split; [discriminate|]. intros H. exfalso.
    assert (Hin : In r0 (filter (fun r => N.eqb (p_id r) k) (pending_tbl s))) by (rewrite E; left; reflexivity).
    apply filter_In in Hin. destruct Hin as [Hin Hk]. apply N.eqb_eq in Hk. exact (H r0 Hin Hk).
Qed.

Lemma gnp_Some_In s k es e :
  get_next_pending s k = Some es ->
  (In e es <-> exists row, In row (pending_tbl s) /\ p_id row = k /\
                           e = (p_child row, group_parents (pending_tbl s) (p_child row) (p_dig row))).
Proof.
  unfold get_next_pending.
  destruct (filter (fun r => N.eqb (p_id r) k) (pending_tbl s)) as [|r0 rows] eqn:E; [discriminate|].
  rewrite <- E. clear E r0 rows. intros H. inversion H as [H']. clear H H'.
  rewrite (nodup_by_In entry_eqb dig_eqb_eq). rewrite in_map_iff. split.
  - intros [cd [Ecd Hcd]]. apply (proj1 (nodup_by_In cd_eqb cd_eqb_eq _ _)) in Hcd.
    apply in_map_iff in Hcd. destruct Hcd as [row [Erow Hrow]]. apply filter_In in Hrow.
    destruct Hrow as [Hrow Hk]. apply N.eqb_eq in Hk. exists row. subst cd. cbn [fst snd] in Ecd. auto.
  - intros [row [Hrow [Hk Ee]]]. exists (p_child row, p_dig row). cbn [fst snd]. split; [auto|].
    apply (nodup_by_In cd_eqb cd_eqb_eq). apply in_map_iff. exists row. split; [reflexivity|].
    apply filter_In. split; [exact Hrow | apply N.eqb_eq; exact Hk].
Qed.

Lemma group_parents_In t c d p :
  In p (group_parents t c d) <-> exists row, In row t /\ p_child row = c /\ p_dig row = d /\ p_parent row = p.
Proof.
  unfold group_parents. rewrite sortN_In, in_map_iff. split.
  - intros [row [Ep Hrow]]. apply filter_In in Hrow. destruct Hrow as [Hrow Hc].
    apply andb_true_iff in Hc. destruct Hc as [Hc Hd]. apply N.eqb_eq in Hc. apply dig_eqb_eq in Hd.
    exists row. auto.
  - intros [row [Hrow [Hc [Hd Hp]]]]. exists row. split; [exact Hp|]. apply filter_In.
    split; [exact Hrow|]. apply andb_true_iff. split; [apply N.eqb_eq; exact Hc | apply dig_eqb_eq; exact Hd].
Qed.

(** * ready table operations *)
Lemma find_row_Some (t : list rrow) x r :
  find (fun r => N.eqb (r_id r) x) t = Some r -> In r t /\ r_id r = x.
Proof. intros H. apply find_some in H. destruct H as [H E]. apply N.eqb_eq in E. auto. Qed.

Lemma find_row_None (t : list rrow) x :
  find (fun r => N.eqb (r_id r) x) t = None -> ~ In x (map r_id t).
Proof.
  intros H Hin. apply in_map_iff in Hin. destruct Hin as [r [E Hr]].
  apply (find_none _ _ H) in Hr. apply N.eqb_neq in Hr. congruence.
Qed.

Lemma max_idx_ge (t : list rrow) r : In r t -> (r_idx r <= max_idx t)%N.
Proof.
  induction t as [|a t IH]; [intros []|]. cbn [max_idx fold_right]. fold (max_idx t).
  intros [H|H]; [subst; lia|]. specialize (IH H). lia.
Qed.

Lemma mark_ready_pending s x : pending_tbl (mark_ready s x) = pending_tbl s.
Proof.
  unfold mark_ready. destruct (find _ _) as [r|]; [destruct (r_inq r)|]; reflexivity.
Qed.

Lemma mark_ready_ids s x :
  forall y, In y (ids (mark_ready s x)) <-> In y (ids s) \/ y = x.
Proof.
  intros y. unfold mark_ready, ids.
  destruct (find (fun r => N.eqb (r_id r) x) (ready_tbl s)) as [r|] eqn:E.
  - apply find_row_Some in E. destruct E as [Hr Ex].
    assert (Hx : In x (map r_id (ready_tbl s))) by (apply in_map_iff; exists r; auto).
    destruct (r_inq r).
    + split; [auto|]. intros [H|H]; [exact H | subst; exact Hx].
    + cbn [ready_tbl set_ready]. rewrite map_map.
      assert (Em : map (fun r0 => r_id (if N.eqb (r_id r0) x then mkR x (max_idx (ready_tbl s) + 1) true else r0)) (ready_tbl s)
                   = map r_id (ready_tbl s)).
      { apply map_ext. intros a. destruct (N.eqb (r_id a) x) eqn:Ea; [|reflexivity].
        apply N.eqb_eq in Ea. cbn [r_id]. congruence. }
      rewrite Em. split; [auto|]. intros [H|H]; [exact H | subst; exact Hx].
  - cbn [ready_tbl set_ready]. rewrite map_app, in_app_iff. cbn [map r_id In]. intuition.
Qed.

Lemma mark_ready_is_ready s x y :
  is_ready (mark_ready s x) y = true <-> is_ready s y = true \/ y = x.
Proof. rewrite !is_ready_In. apply mark_ready_ids. Qed.

Lemma mark_ready_PK s x : PK s -> PK (mark_ready s x).
Proof.
  unfold PK, mark_ready, ids. intros H.
  destruct (find (fun r => N.eqb (r_id r) x) (ready_tbl s)) as [r|] eqn:E.
  - destruct (r_inq r); [exact H|]. cbn [ready_tbl set_ready]. rewrite map_map.
    assert (Em : map (fun r0 => r_id (if N.eqb (r_id r0) x then mkR x (max_idx (ready_tbl s) + 1) true else r0)) (ready_tbl s)
                 = map r_id (ready_tbl s)).
    { apply map_ext. intros a. destruct (N.eqb (r_id a) x) eqn:Ea; [|reflexivity].
      apply N.eqb_eq in Ea. cbn [r_id]. congruence. }
    rewrite Em. exact H.
  - cbn [ready_tbl set_ready]. rewrite map_app. cbn [map r_id].
    apply find_row_None in E. apply NoDup_app_remove_l with (l := []) || idtac.
    rewrite <- (app_nil_r (map r_id (ready_tbl s) ++ [x])), <- app_assoc.
    apply NoDup_remove_inv || idtac.
    apply Permutation_NoDup with (l := x :: map r_id (ready_tbl s)).
    + rewrite app_nil_r. apply Permutation_cons_append.
    + constructor; assumption.
Qed.

(** [min_row]: an in-queue row with the least index *)
Lemma min_row_spec t m :
  min_row t = Some m ->
  In m t /\ r_inq m = true /\ forall r, In r t -> r_inq r = true -> (r_idx m <= r_idx r)%N.
Proof.
  revert m. induction t as [|a t IH]; intros m H; [discriminate|].
  cbn [min_row] in H. destruct (r_inq a) eqn:Ea.
  - destruct (min_row t) as [m'|] eqn:Em.
    + destruct (IH m' eq_refl) as [Hin [Hq Hmin]].
      destruct (N.leb (r_idx a) (r_idx m')) eqn:El; inversion H; subst.
      * apply N.leb_le in El. split; [left; reflexivity|]. split; [exact Ea|].
        intros r [Hr|Hr] Hrq; [subst; lia|]. specialize (Hmin r Hr Hrq). lia.
      * apply N.leb_gt in El. split; [right; exact Hin|]. split; [exact Hq|].
        intros r [Hr|Hr] Hrq; [subst; lia|]. exact (Hmin r Hr Hrq).
    + inversion H; subst. split; [left; reflexivity|]. split; [exact Ea|].
      intros r [Hr|Hr] Hrq; [subst; lia|]. exfalso.
      clear IH H. induction t as [|b t IHt]; [exact Hr|].
      cbn [min_row] in Em. destruct Hr as [Hr|Hr].
      * subst b. rewrite Hrq in Em. destruct (min_row t) as [m'|]; [destruct (N.leb _ _)|]; discriminate.
      * destruct (r_inq b); [destruct (min_row t) as [m'|]; [destruct (N.leb _ _)|]; discriminate|].
        exact (IHt Em Hr).
  - destruct (IH m H) as [Hin [Hq Hmin]]. split; [right; exact Hin|]. split; [exact Hq|].
    intros r [Hr|Hr] Hrq; [subst; congruence|]. exact (Hmin r Hr Hrq).
Qed.

Lemma min_row_None t : min_row t = None -> forall r, In r t -> r_inq r = false.
Proof.
  induction t as [|a t IH]; intros H r Hr; [destruct Hr|].
  cbn [min_row] in H. destruct (r_inq a) eqn:Ea.
  - destruct (min_row t) as [m'|]; [destruct (N.leb _ _)|]; discriminate.
  - destruct Hr as [Hr|Hr]; [subst; exact Ea | exact (IH H r Hr)].
Qed.

Lemma take_ids s : ids (fst (take_next_ready s)) = ids s.
Proof.
  unfold take_next_ready, ids. destruct (min_row (ready_tbl s)) as [m|]; [|reflexivity].
  cbn [fst ready_tbl set_ready]. rewrite map_map. apply map_ext.
  intros a. destruct (N.eqb (r_id a) (r_id m)); reflexivity.
Qed.

Lemma take_pending s : pending_tbl (fst (take_next_ready s)) = pending_tbl s.
Proof. unfold take_next_ready. destruct (min_row (ready_tbl s)); reflexivity. Qed.

Lemma take_is_ready s x : is_ready (fst (take_next_ready s)) x = is_ready s x.
Proof.
  destruct (is_ready s x) eqn:E.
  - apply is_ready_In. rewrite take_ids. apply is_ready_In. exact E.
  - destruct (is_ready (fst (take_next_ready s)) x) eqn:E'; [|reflexivity].
    apply is_ready_In in E'. rewrite take_ids in E'. apply is_ready_In in E'. congruence.
Qed.
