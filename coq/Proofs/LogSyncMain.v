(** Top-level statements about the joint system, assembled from the invariants. *)
From Coq Require Import List Arith NArith Bool Lia.
From PV Require Import Model.Dedup Model.LogSync Proofs.LogSyncC20 Proofs.LogSyncScript Proofs.LogSyncOps
  Proofs.LogSyncNode Proofs.LogSyncJoint Proofs.LogSyncLive Proofs.LogSyncTerm Proofs.LogSyncRecv.
Import ListNotations.

(** No reachable state of two honest sides is a deadlock when the transport is safe. *)
Theorem no_reachable_deadlock rA rB logsA logsB cbuf cap ls y :
  safe rA rB logsA logsB cbuf ->
  exec true cbuf rA rB (sys0 logsA logsB cap) ls = Some y ->
  deadlocked true cbuf rA rB y = false.
Proof.
  intros Safe E. apply (deadlock_free rA rB logsA logsB cbuf y); [| |exact Safe].
  - exact (J_reachable rA rB logsA logsB cbuf cap ls y E).
  - exact (B2_exec rA rB cbuf ls _ _ (B2_init logsA logsB cap) E).
Qed.

(** Every run is finite, with a bound that depends on the two replicas only. *)
Theorem run_length_bounded rA rB logsA logsB cbuf cap ls y :
  exec true cbuf rA rB (sys0 logsA logsB cap) ls = Some y ->
  length ls <= measure rA rB logsA logsB (sys0 logsA logsB cap).
Proof.
  intros E. pose proof (runs_bounded rA rB logsA logsB cbuf ls _ _ (J_init rA rB logsA logsB cbuf cap) E). lia.
Qed.

(** Termination over unbounded queues: a run can always be extended until the session is
    finished on both sides, and it cannot be extended for ever. *)
Theorem termination_unbounded rA rB logsA logsB cap ls y :
  exec true None rA rB (sys0 logsA logsB cap) ls = Some y ->
  (finished y = true \/ exists l, enabled true None rA rB y l = true) /\
  length ls <= measure rA rB logsA logsB (sys0 logsA logsB cap).
Proof.
  intros E. split; [|exact (run_length_bounded rA rB logsA logsB None cap ls y E)].
  pose proof (no_reachable_deadlock rA rB logsA logsB None cap ls y I E) as D.
  unfold deadlocked in D. apply andb_false_iff in D. destruct D as [D|D].
  - left. apply negb_false_iff in D. exact D.
  - right. unfold all_labels in D. cbn [forallb] in D.
    repeat (apply andb_false_iff in D; destruct D as [D|D];
            [apply negb_false_iff in D; eexists; exact D|]).
    discriminate.
Qed.

Theorem progress_bounded rA rB logsA logsB c cap ls y :
  1 <= c ->
  msgs (scA rA rB logsA logsB) <= c \/ msgs (scB rA rB logsA logsB) <= c ->
  exec true (Some c) rA rB (sys0 logsA logsB cap) ls = Some y ->
  (finished y = true \/ exists l, enabled true (Some c) rA rB y l = true) /\
  length ls <= measure rA rB logsA logsB (sys0 logsA logsB cap).
Proof.
  intros C1 M E. split; [|exact (run_length_bounded rA rB logsA logsB (Some c) cap ls y E)].
  pose proof (no_reachable_deadlock rA rB logsA logsB (Some c) cap ls y (conj C1 M) E) as D.
  unfold deadlocked in D. apply andb_false_iff in D. destruct D as [D|D].
  - left. apply negb_false_iff in D. exact D.
  - right. unfold all_labels in D. cbn [forallb] in D.
    repeat (apply andb_false_iff in D; destruct D as [D|D];
            [apply negb_false_iff in D; eexists; exact D|]).
    discriminate.
Qed.

(** Non-vacuity: a concrete pair of replicas, a complete run, both sides finished. *)
Definition ex_rB : replica := [((0, 0), [mkrow 0 100 500]); ((1, 0), [mkrow 0 200 300; mkrow 1 201 300])]%N.
Definition ex_logs2 : list (N * list N) := [(0, [0]); (1, [0])]%N.
Definition ex_fair : list label := [LDelivA; LDelivB; LPushA; LPushB; LTickA; LTickB].

Example joint_example :
  let y := sim 200 true None ex_r ex_rB ex_fair (sys0 ex_logs2 ex_logs2 8) in
  finished y = true /\
  NoDup (ids (scA ex_r ex_rB ex_logs2 ex_logs2) ++ ids (scB ex_r ex_rB ex_logs2 ex_logs2)) /\
  ev_ops (n_hist (sa y)) = [(1, 0, mkrow 0 200 300); (1, 0, mkrow 1 201 300)]%N /\
  ev_ops (n_hist (sb y)) = [(0, 0, mkrow 1 101 500)]%N.
Proof.
  cbn zeta. split; [vm_compute; reflexivity|]. split.
  - vm_compute. repeat constructor; cbn; intuition discriminate.
  - vm_compute. split; reflexivity.
Qed.

(** Non-vacuity of [progress_bounded]: with [c = 3] both example scripts fit (2 and 3 sync-phase
    messages) and the adversarial scheduler ends finished; with [c = 1] neither fits and the same
    scheduler ends in a deadlock (the boundary of the known finding). *)
Definition ex_adversary : list label := [LPushA; LPushB; LTickA; LTickB; LDelivA; LDelivB].

Example progress_example :
  msgs (scA ex_r ex_rB ex_logs2 ex_logs2) = 2 /\ msgs (scB ex_r ex_rB ex_logs2 ex_logs2) = 3 /\
  finished (sim 300 true (Some 3) ex_r ex_rB ex_adversary (sys0 ex_logs2 ex_logs2 8)) = true /\
  deadlocked true (Some 1) ex_r ex_rB (sim 300 true (Some 1) ex_r ex_rB ex_adversary (sys0 ex_logs2 ex_logs2 8)) = true.
Proof. vm_compute. repeat split. Qed.
