(** One node of the joint system: the invariants a node keeps while it runs against a store that
    does not change and consumes a prefix of its peer's script.  Used by the joint proofs of C19
    (received_exact, termination) and C21. *)
From Coq Require Import List Arith NArith Bool Lia.
From PV Require Import Model.Dedup Model.LogSync Proofs.LogSyncC20 Proofs.LogSyncScript.
Import ListNotations.

(** ** Scripts are complete words of the grammar *)
Lemma range_ops_are_ops r todo : Forall is_op (flat_map (range_ops r) todo).
Proof.
  induction todo as [|alr todo IH]; [constructor|]. cbn [flat_map]. apply Forall_app. split; [|exact IH].
  unfold range_ops. apply ops_are_ops.
Qed.

Lemma script_complete r logs h : complete_word (script r logs h).
Proof.
  unfold script, complete_word. destruct (N.ltb 0 _).
  - right. eexists _, _, _, _. split; [reflexivity|apply range_ops_are_ops].
  - left. eexists. reflexivity.
Qed.

Lemma script_head r logs h : exists rest, script r logs h = Have (local_heights r logs) :: rest.
Proof. unfold script. eexists. reflexivity. Qed.

(** What the next message of a complete word can be, by position. *)
Lemma word_next sc cons m suf :
  complete_word sc -> cons ++ m :: suf = sc ->
  (cons = [] -> exists h, m = Have h) /\
  (length cons = 1 -> (m = Done /\ suf = []) \/ (exists o b, m = PreSync o b /\ suf <> [])) /\
  (2 <= length cons -> (m = Done /\ suf = []) \/ (is_op m /\ suf <> [])).
Proof.
  intros [[h ->]|[h [o [b [ops [-> F]]]]]] E.
  - destruct cons as [|c0 [|c1 [|c2 cons]]]; cbn in E.
    + inversion E; subst. repeat split; eauto; cbn; intros; lia.
    + inversion E; subst. repeat split; try discriminate; auto; cbn; intros; lia.
    + inversion E.
    + inversion E.
  - destruct cons as [|c0 [|c1 cons]]; cbn in E.
    + inversion E; subst. repeat split; eauto; cbn; intros; lia.
    + inversion E; subst. repeat split; try discriminate; cbn; try (intros; lia).
      intros _. right. eexists _, _. split; [reflexivity|]. destruct ops; discriminate.
    + inversion E as [[E0 E1 E2]]. subst c0 c1. clear E. repeat split; try discriminate; cbn; try (intros; lia).
      intros _. destruct suf as [|x suf'] using rev_ind.
      * left. apply app_inj_tail in E2. destruct E2 as [_ ->]. auto.
      * right. rewrite app_comm_cons, app_assoc in E2. apply app_inj_tail in E2. destruct E2 as [E2 _].
        split; [|destruct suf'; discriminate].
        rewrite <- E2 in F. apply Forall_app in F. destruct F as [_ F]. inversion F; assumption.
Qed.

Lemma word_length sc : complete_word sc -> 2 <= length sc.
Proof.
  intros [[h ->]|[h [o [b [ops [-> _]]]]]]; cbn; [lia|]. rewrite app_length. cbn. lia.
Qed.

(** A complete word holds exactly one Done, at its end. *)
Lemma word_done_last sc cons suf : complete_word sc -> cons ++ Done :: suf = sc -> suf = [].
Proof.
  intros W E. destruct (word_next sc cons Done suf W E) as [H0 [H1 H2]].
  destruct cons as [|c0 [|c1 cons]].
  - destruct (H0 eq_refl) as [h Hh]. discriminate.
  - destruct (H1 eq_refl) as [[_ S]|[o [b [Hm _]]]]; [exact S|discriminate].
  - destruct H2 as [[_ S]|[[a [l [w Hm]]] _]]; [cbn; lia|exact S|discriminate].
Qed.

(** ** An invariant that holds for every store: no Done pending without something to send *)
Definition kinv (s : st) : Prop :=
  match ph s with
  | PSendPreSync needs todo _ bytes => needs = [] -> todo = [] /\ bytes = 0%N
  | PReceivePreSyncOrDone needs _ _ => done_sent s = false -> needs <> []
  | PSync rest None => done_sent s = false -> rest <> []
  | _ => True
  end.

Lemma tick_kinv r s : kinv s -> kinv (fst (tick true r s)).
Proof.
  unfold kinv, tick. destruct s as [p dr ds d]. cbn [ph done_sent done_recv dd].
  destruct p as [logs|todo acc|local|needs todo ops bytes|needs ops bytes|rest cur| |]; intros H;
    try (cbn; exact H); try (cbn; exact I).
  - destruct todo; cbn; exact I.
  - destruct todo as [|alr todo].
    + destruct (N.ltb 0 bytes) eqn:B; cbn; [|discriminate].
      intros _ E. destruct (H E) as [_ Z]. subst bytes. discriminate.
    + cbn. intros E. destruct (H E) as [Z _]. discriminate.
  - destruct cur as [[a lrs]|].
    + destruct lrs; [destruct rest|]; cbn; try exact I; discriminate.
    + unfold arm_on. cbn [done_sent done_recv]. destruct rest as [|alr rest'].
      * cbn. destruct (dr && ds); cbn; [exact I|exact H].
      * destruct ds; cbn; [destruct dr; cbn; [exact I|discriminate]|exact I].
Qed.

Lemma recv_kinv s m : kinv s -> kinv (fst (recv s m)).
Proof.
  unfold kinv, recv. destruct s as [p dr ds d]. cbn [ph done_sent done_recv dd].
  destruct p as [logs|todo acc|local|needs todo ops bytes|needs ops bytes|rest cur| |]; intros H;
    try (cbn; exact H); try (cbn; exact I).
  - destruct m; cbn; try exact I. intros E. rewrite E. auto.
  - destruct m; cbn; auto.
  - destruct cur as [[a lrs]|]; [cbn; exact I|].
    destruct dr; [cbn; exact H|]. destruct m; cbn; auto.
Qed.

(** ** What a node has consumed, against the peer's script *)
Definition cinv (sc_peer : list msg) (s : st) (cons : list msg) : Prop :=
  (exists suf, cons ++ suf = sc_peer) /\
  match ph s with
  | PStart _ | PSendHave _ _ | PReceiveHave _ => cons = [] /\ done_recv s = false
  | PSendPreSync _ _ _ _ | PReceivePreSyncOrDone _ _ _ => length cons = 1 /\ done_recv s = false
  | PSync _ _ => 2 <= length cons /\ (done_recv s = true <-> cons = sc_peer)
  | PEnd => cons = sc_peer
  | PFailed => False
  end.

Lemma tick_cinv sc r s cons : cinv sc s cons -> cinv sc (fst (tick true r s)) cons.
Proof.
  unfold cinv, tick. destruct s as [p dr ds d]. cbn [ph done_sent done_recv dd].
  intros [P H]. split; [exact P|].
  destruct p as [logs|todo acc|local|needs todo ops bytes|needs ops bytes|rest cur| |];
    try (cbn; exact H).
  - destruct todo; cbn; exact H.
  - destruct todo; [destruct (N.ltb 0 bytes)|]; cbn; exact H.
  - destruct cur as [[a lrs]|].
    + destruct lrs; [destruct rest|]; cbn; exact H.
    + destruct (arm_on true _ rest); [destruct rest; cbn; exact H|].
      cbn [done_recv done_sent]. destruct dr; cbn [andb].
      * destruct ds; cbn; [apply H; reflexivity|exact H].
      * cbn. exact H.
Qed.

Lemma app_cons_assoc {A} (l : list A) x suf : (l ++ [x]) ++ suf = l ++ x :: suf.
Proof. rewrite <- app_assoc. reflexivity. Qed.

Lemma prefix_neq_when_suffix {A} (l suf : list A) : suf <> [] -> l <> l ++ suf.
Proof.
  intros N E. apply N. assert (L : length l = length (l ++ suf)) by (rewrite <- E; reflexivity).
  rewrite app_length in L. destruct suf; [reflexivity|cbn in L; lia].
Qed.

Lemma recv_cinv sc s cons m suf :
  complete_word sc -> cinv sc s cons -> can_recv s = true -> cons ++ m :: suf = sc ->
  cinv sc (fst (recv s m)) (cons ++ [m]) /\
  (ph s = PReceiveHave (match ph s with PReceiveHave l => l | _ => [] end) -> exists h, m = Have h).
Proof.
  intros W [_ H] C E.
  destruct (word_next sc cons m suf W E) as [N0 [N1 N2]].
  assert (Pfx : exists suf', (cons ++ [m]) ++ suf' = sc) by (exists suf; rewrite app_cons_assoc; exact E).
  unfold cinv, recv, can_recv in *. destruct s as [p dr ds d]. cbn [ph done_sent done_recv dd] in *.
  destruct p as [logs|todo acc|local|needs todo ops bytes|needs ops bytes|rest cur| |]; try discriminate.
  - (* PReceiveHave *) destruct H as [-> Hd]. destruct (N0 eq_refl) as [h ->].
    split; [|eauto]. split; [exact Pfx|]. cbn. auto.
  - (* PReceivePreSyncOrDone *) destruct H as [L Hd]. split; [|discriminate]. split; [exact Pfx|].
    destruct (N1 L) as [[-> ->]|[o [b [-> Hs]]]]; cbn [fst ph done_recv].
    + rewrite app_length, L. cbn. split; [lia|]. rewrite <- E. split; [intros _; reflexivity|reflexivity].
    + rewrite app_length, L. cbn. split; [lia|]. rewrite Hd. split; [discriminate|].
      intros Q. exfalso. rewrite <- E, <- (app_cons_assoc cons _ suf) in Q.
      exact (prefix_neq_when_suffix _ _ Hs Q).
  - (* PSync *) destruct cur as [[a lrs]|]; [discriminate|]. destruct dr; [discriminate|].
    destruct H as [L Hd]. split; [|discriminate]. split; [exact Pfx|].
    destruct (N2 L) as [[-> ->]|[[a [l [w ->]]] Hs]]; cbn [fst ph done_recv].
    + rewrite app_length. cbn. split; [lia|]. rewrite <- E. split; reflexivity.
    + rewrite app_length. cbn. split; [lia|]. split; [discriminate|].
      intros Q. exfalso. rewrite <- E, <- (app_cons_assoc cons _ suf) in Q.
      exact (prefix_neq_when_suffix _ _ Hs Q).
Qed.

(** ** The node invariant *)
Section Node.
  Variable r : replica.
  Variable logs : list (N * list N).
  Variable h_peer : heights.
  Variable sc_peer : list msg.
  Hypothesis peer_word : complete_word sc_peer.
  Hypothesis peer_head : exists rest, sc_peer = Have h_peer :: rest.

  Definition sc_own : list msg := script r logs h_peer.

  Definition hv_of (cons : list msg) : option heights :=
    match cons with [] => None | _ => Some h_peer end.

  Definition ninv (n : node) : Prop :=
    kinv (n_st n) /\
    sinv r logs (n_st n) (sent (n_hist n)) (hv_of (n_cons n)) /\
    cinv sc_peer (n_st n) (n_cons n).

  Lemma ninv_init cap : ninv (node0 logs cap).
  Proof.
    unfold ninv, node0. cbn [n_st n_hist n_cons]. split; [exact I|]. split.
    - split; cbn; auto.
    - split; [exists sc_peer; reflexivity|]. cbn. auto.
  Qed.

  (** Everything emitted so far is a prefix of the own script. *)
  Lemma ninv_sent_prefix n : ninv n -> exists suf, sent (n_hist n) ++ suf = sc_own.
  Proof.
    intros [_ [[_ S] [_ C]]]. unfold sc_own. destruct (script_head r logs h_peer) as [rest Hr].
    destruct (ph (n_st n)) eqn:P.
    - destruct S as [_ [-> _]]. eexists. reflexivity.
    - destruct S as [_ [-> _]]. eexists. reflexivity.
    - destruct S as [-> [-> _]]. exists rest. rewrite Hr. reflexivity.
    - destruct S as [h [Hh E]]. destruct C as [L _]. unfold hv_of in Hh.
      destruct (n_cons n); [discriminate|]. injection Hh as <-. eexists. exact E.
    - destruct S as [h [Hh E]]. destruct C as [L _]. unfold hv_of in Hh.
      destruct (n_cons n); [discriminate|]. injection Hh as <-. eexists. exact E.
    - destruct S as [h [Hh E]]. destruct C as [L _]. unfold hv_of in Hh.
      destruct (n_cons n); [cbn in L; lia|]. injection Hh as <-. eexists. exact E.
    - destruct S as [h [Hh E]]. unfold hv_of in Hh.
      destruct (n_cons n) eqn:Cn; [|injection Hh as <-; eexists; exact E].
      exfalso. pose proof (word_length _ peer_word) as WL. rewrite <- C in WL. cbn in WL. lia.
    - destruct C.
  Qed.

  Lemma ninv_post_script n :
    ninv n -> post (ph (n_st n)) = true -> sent (n_hist n) ++ remaining r (n_st n) = sc_own.
  Proof.
    intros [_ [Sv [_ C]]] Po. apply (sinv_post r logs _ _ _ Po) in Sv. destruct Sv as [_ [h [Hh E]]].
    unfold hv_of in Hh. destruct (n_cons n) eqn:Cn.
    - discriminate.
    - injection Hh as <-. exact E.
  Qed.

  Lemma node_tick_ninv n n' :
    ninv n -> node_tick true r n = Some n' ->
    ninv n' /\ n_cons n' = n_cons n /\ n_pend n = [] /\ n_parked n = false /\ n_parked n' = false /\
    sent (n_hist n') = sent (n_hist n) ++ n_pend n' /\
    n_st n' = fst (tick true r (n_st n)) /\ tick_enabled true (n_st n) = true.
  Proof.
    intros [K [S C]] T. unfold node_tick in T.
    destruct (n_pend n) eqn:Pe; [|discriminate]. destruct (n_parked n) eqn:Pa; [discriminate|].
    destruct (tick_enabled true (n_st n)) eqn:En; [|discriminate]. injection T as <-.
    unfold ninv. cbn [n_st n_pend n_parked n_hist n_cons]. rewrite sent_app.
    split; [|repeat split; auto].
    split; [apply tick_kinv; exact K|]. split; [|apply tick_cinv; exact C].
    pose proof (step_sinv r logs (n_st n) (Tick r) _ _ eq_refl S) as S'. cbn [step] in S'.
    assert (A : accepted (n_st n) (Tick r) = None) by (unfold accepted; destruct (ph (n_st n)); reflexivity).
    rewrite A in S'. revert S'. destruct (hv_of (n_cons n)); intros S'; exact S'.
  Qed.

  Lemma node_recv_ninv n m q n' q' suf :
    ninv n -> node_recv n (m :: q) = Some (n', q') -> n_cons n ++ m :: suf = sc_peer ->
    ninv n' /\ q' = q /\ n_cons n' = n_cons n ++ [m] /\ n_pend n = [] /\ n_pend n' = [] /\
    n_parked n = false /\ n_parked n' = false /\ sent (n_hist n') = sent (n_hist n) /\
    n_st n' = fst (recv (n_st n) m) /\ can_recv (n_st n) = true /\
    n_hist n' = n_hist n ++ snd (recv (n_st n) m).
  Proof.
    intros [K [S C]] T E. unfold node_recv in T.
    destruct (n_pend n) eqn:Pe; [|discriminate]. destruct (n_parked n) eqn:Pa; [discriminate|].
    destruct (can_recv (n_st n)) eqn:En; [|discriminate]. injection T as <- <-.
    unfold ninv. cbn [n_st n_pend n_parked n_hist n_cons].
    destruct (recv_cinv sc_peer (n_st n) (n_cons n) m suf peer_word C En E) as [C' Hhave].
    assert (NF : ph (fst (recv (n_st n) m)) <> PFailed).
    { intros F. destruct C' as [_ C']. rewrite F in C'. exact C'. }
    assert (S0 : sent (snd (recv (n_st n) m)) = []).
    { unfold recv. destruct (ph (n_st n)); try reflexivity.
      - destruct m; reflexivity.
      - destruct m; reflexivity.
      - destruct cur; [reflexivity|]. destruct (done_recv (n_st n)); [reflexivity|].
        destruct m; try reflexivity. destruct (snd (insert _ _)); reflexivity. }
    rewrite sent_app, S0, app_nil_r.
    split; [|repeat split; auto].
    split; [apply recv_kinv; exact K|]. split; [|exact C'].
    pose proof (step_sinv r logs (n_st n) (Recv m) _ _ I S) as S'. cbn [step] in S'.
    rewrite S0, app_nil_r in S'.
    assert (HV : match hv_of (n_cons n) with Some h => Some h | None => accepted (n_st n) (Recv m) end
                 = hv_of (n_cons n ++ [m])).
    { unfold hv_of. destruct (n_cons n) as [|c0 cs] eqn:Cn; [|reflexivity].
      cbn [app]. destruct C as [_ C].
      unfold accepted. destruct (ph (n_st n)) eqn:P; try (unfold can_recv in En; rewrite P in En; discriminate).
      + destruct (Hhave eq_refl) as [h ->].
        destruct peer_head as [rest Hr]. rewrite Hr in E. cbn in E. inversion E. reflexivity.
      + destruct C as [L _]. cbn in L. lia.
      + destruct C as [L _]. cbn in L. lia. }
    rewrite HV in S'. exact S'.
  Qed.
End Node.
