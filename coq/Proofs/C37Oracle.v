(** The C37 oracle and the C37 theorems say the same thing: for every interleaving of sends,
    in-order receives and replays, the oracle of Oracle/C37.v evaluated on the *model's own*
    observations is true.  (So an implementation that behaves like the model never raises a
    false alarm, and the oracle demands nothing the theorems do not give.) *)
From Coq Require Import List NArith Bool Arith Lia.
From PV Require Import Model.TwoParty Proofs.TwoParty Oracle.C37.
Import ListNotations.

(** The oracle's bookkeeping [t] describes world [w]. *)
Definition Rel (w : world) (t : track) : Prop :=
  (forall p, t_plains t p = map plain_of (done w p ++ pending w p)) /\
  (forall p, t_ptr t p = List.length (done w p)) /\
  t_clean t = true.

Lemma nth_error_map_app_head {A B} (f : A -> B) (l : list A) (x : A) (r : list A) :
  nth_error (map f (l ++ x :: r)) (List.length l) = Some (f x).
Proof. induction l as [|a l IH]; cbn; [reflexivity|exact IH]. Qed.

Lemma nth_error_map_all {A B} (f : A -> B) (l : list A) :
  nth_error (map f l) (List.length l) = None.
Proof. apply nth_error_None. rewrite map_length. apply le_n. Qed.

Lemma upd_eq {A} (f : party -> A) p v q : upd f p v q = if party_eqb q p then v else f q.
Proof. reflexivity. Qed.

Lemma check_step_model ot w t e :
  Inv ot w -> Rel w t -> in_order_event e = true ->
  let '(w', o) := step w e in
  let '(t', ok) := check_step t e o in
  ok = true /\ Rel w' t'.
Proof.
  intros HI (Hp & Hn & Hc) Hev.
  destruct e as [p x|p|p i|p k]; [| | |discriminate].
  - (* Send *)
    cbn [step]. destruct (send p (wst w p) x) as [[s' m]|er] eqn:Es; cbn [check_step].
    + split; [reflexivity|]. split; [|split]; cbn [t_plains t_ptr t_clean pending done]; [| |exact Hc].
      * intros q. rewrite !upd_eq. destruct (party_eqb q (other p)) eqn:E.
        -- assert (q = other p) by (destruct q, p; cbn in *; congruence). subst q.
           rewrite Hp, (app_assoc (done w (other p))), (map_app plain_of (done w (other p) ++ pending w (other p))).
           cbn [map]. rewrite (send_carries_plain _ _ _ _ _ Es). reflexivity.
        -- apply Hp.
      * exact Hn.
    + split; [reflexivity|]. split; [exact Hp|split; [exact Hn|exact Hc]].
  - (* Recv *)
    cbn [step check_step]. destruct (pending w p) as [|m q] eqn:Ep.
    + rewrite Hp, Hn, Ep, app_nil_r, nth_error_map_all.
      split; [reflexivity|]. split; [intros q; rewrite Hp; reflexivity|split; [exact Hn|exact Hc]].
    + pose proof (HI p) as H. rewrite Ep in H.
      pose proof (HI (other p)) as H'. rewrite other_other in H'.
      assert (Hrx : (rcvd w (other p) + 1 <= next_idx (wst w p))%N).
      { destruct H' as (Hnum & _). apply numbered_le in Hnum. exact Hnum. }
      destruct (receive_head _ _ _ _ _ _ _ _ _ _ H Hrx) as (s' & g' & Er & _).
      rewrite Er. rewrite Hp, Hn, Ep, nth_error_map_app_head.
      split; [rewrite N.eqb_refl; apply orb_true_r|].
      split; [|split]; cbn [t_plains t_ptr t_clean pending done]; [| |exact Hc].
      * intros q0. rewrite Hp, !upd_eq. destruct (party_eqb q0 p) eqn:E.
        -- assert (q0 = p) by (destruct q0, p; cbn in *; congruence). subst q0.
           rewrite Ep, <- app_assoc. reflexivity.
        -- reflexivity.
      * intros q0. rewrite !upd_eq. destruct (party_eqb q0 p) eqn:E.
        -- assert (q0 = p) by (destruct q0, p; cbn in *; congruence). subst q0.
           rewrite app_length. cbn. lia.
        -- apply Hn.
  - (* Replay *)
    cbn [step check_step]. destruct (nth_error (done w p) i) as [m|] eqn:En.
    + assert (Hlt : i < List.length (done w p)) by (apply nth_error_Some; congruence).
      destruct (replay_err _ _ _ _ _ _ _ _ _ _ (HI p) (nth_error_In _ _ En)) as [er Er].
      rewrite Er, Hn. apply Nat.ltb_lt in Hlt. rewrite Hlt.
      split; [reflexivity|]. split; [exact Hp|split; [exact Hn|exact Hc]].
    + apply nth_error_None in En. rewrite Hn.
      destruct (Nat.ltb_spec i (List.length (done w p))) as [L|_]; [lia|].
      split; [reflexivity|]. split; [exact Hp|split; [exact Hn|exact Hc]].
Qed.

Lemma check_from_model ot evs : forall w t,
  Inv ot w -> Rel w t -> forallb in_order_event evs = true ->
  check_from t evs (snd (run w evs)) = true.
Proof.
  induction evs as [|e evs IH]; intros w t HI HR Hev; cbn [run snd check_from]; [reflexivity|].
  cbn [forallb] in Hev. apply andb_prop in Hev. destruct Hev as [He Hev].
  pose proof (check_step_model ot w t e HI HR He) as Hs.
  pose proof (step_inv ot w e HI He) as HI1.
  destruct (step w e) as [w1 o]. cbn [fst] in HI1.
  specialize (IH w1).
  destruct (run w1 evs) as [w2 os] eqn:Er. cbn [snd check_from] in *.
  destruct (check_step t e o) as [t1 ok]. destruct Hs as [-> HR1].
  cbn [andb]. exact (IH t1 HI1 HR1 Hev).
Qed.

Theorem model_passes_oracle ot sym evs :
  forallb in_order_event evs = true ->
  check evs (snd (run (init_world ot sym) evs)) = true.
Proof.
  intros Hev. unfold check. apply (check_from_model ot); [apply init_inv| |exact Hev].
  split; [|split]; cbn; auto.
Qed.
