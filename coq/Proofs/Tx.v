(** Proofs about the transaction permit protocol model (Model/Tx.v).

    Main results (all for every program assignment [P], every trace, no bound):
      [run_inv]              the invariant [Inv] holds in every reachable state
      [mutual_exclusion]     at most one owner of the semaphore permit
      [serializable]         db = the committed transactions applied in commit order
      [aborted_leave_no_trace]
      [no_permanent_block]   a waiting task => the permit owner has an enabled non-cancel step
      [step_decreases]       every step strictly decreases a measure (no infinite traces)
    Trusted assumptions: none beyond what Model/Tx.v lists as modelled-not-verified. *)
From Coq Require Import List Arith NArith Bool Lia.
From PV Require Import Model.Tx.
Import ListNotations.

(** * Access lemmas for the state setters *)
Lemma upd_eq {A} (f : nat -> A) i v : upd f i v i = v.
Proof. unfold upd. rewrite Nat.eqb_refl. reflexivity. Qed.
Lemma upd_neq {A} (f : nat -> A) i v j : j <> i -> upd f i v j = f j.
Proof. unfold upd. destruct (Nat.eqb_spec j i); congruence. Qed.

Lemma tpc_set_pc s i p j : tpc (tasks (set_pc s i p) j) = if Nat.eqb j i then p else tpc (tasks s j).
Proof. unfold set_pc, set_tasks, upd; cbn [tasks]. destruct (Nat.eqb j i); reflexivity. Qed.
Lemma trb_set_pc s i p j : trb (tasks (set_pc s i p) j) = trb (tasks s j).
Proof. unfold set_pc, set_tasks, upd; cbn [tasks]. destruct (Nat.eqb_spec j i); subst; reflexivity. Qed.
Lemma tpc_set_rb s i r j : tpc (tasks (set_rb s i r) j) = tpc (tasks s j).
Proof. unfold set_rb, set_tasks, upd; cbn [tasks]. destruct (Nat.eqb_spec j i); subst; reflexivity. Qed.
Lemma trb_set_rb s i r j : trb (tasks (set_rb s i r) j) = if Nat.eqb j i then r else trb (tasks s j).
Proof. unfold set_rb, set_tasks, upd; cbn [tasks]. destruct (Nat.eqb j i); reflexivity. Qed.

Lemma tasks_set_avail s b : tasks (set_avail s b) = tasks s.
Proof. reflexivity. Qed.
Lemma tasks_set_queue s q : tasks (set_queue s q) = tasks s.
Proof. reflexivity. Qed.
Lemma tasks_set_slot s o : tasks (set_slot s o) = tasks s.
Proof. reflexivity. Qed.
Lemma tasks_commit_db s i p : tasks (commit_db s i p) = tasks s.
Proof. reflexivity. Qed.
Lemma avail_set_pc s i p : avail (set_pc s i p) = avail s.
Proof. reflexivity. Qed.
Lemma queue_set_pc s i p : queue (set_pc s i p) = queue s.
Proof. reflexivity. Qed.
Lemma slot_set_pc s i p : slot (set_pc s i p) = slot s.
Proof. reflexivity. Qed.
Lemma db_set_pc s i p : db (set_pc s i p) = db s.
Proof. reflexivity. Qed.
Lemma log_set_pc s i p : log (set_pc s i p) = log s.
Proof. reflexivity. Qed.
Lemma avail_set_rb s i r : avail (set_rb s i r) = avail s.
Proof. reflexivity. Qed.
Lemma queue_set_rb s i r : queue (set_rb s i r) = queue s.
Proof. reflexivity. Qed.
Lemma slot_set_rb s i r : slot (set_rb s i r) = slot s.
Proof. reflexivity. Qed.
Lemma db_set_rb s i r : db (set_rb s i r) = db s.
Proof. reflexivity. Qed.
Lemma log_set_rb s i r : log (set_rb s i r) = log s.
Proof. reflexivity. Qed.
Lemma avail_set_avail s b : avail (set_avail s b) = b.
Proof. reflexivity. Qed.
Lemma queue_set_avail s b : queue (set_avail s b) = queue s.
Proof. reflexivity. Qed.
Lemma slot_set_avail s b : slot (set_avail s b) = slot s.
Proof. reflexivity. Qed.
Lemma db_set_avail s b : db (set_avail s b) = db s.
Proof. reflexivity. Qed.
Lemma log_set_avail s b : log (set_avail s b) = log s.
Proof. reflexivity. Qed.
Lemma avail_set_queue s q : avail (set_queue s q) = avail s.
Proof. reflexivity. Qed.
Lemma queue_set_queue s q : queue (set_queue s q) = q.
Proof. reflexivity. Qed.
Lemma slot_set_queue s q : slot (set_queue s q) = slot s.
Proof. reflexivity. Qed.
Lemma db_set_queue s q : db (set_queue s q) = db s.
Proof. reflexivity. Qed.
Lemma log_set_queue s q : log (set_queue s q) = log s.
Proof. reflexivity. Qed.
Lemma avail_set_slot s o : avail (set_slot s o) = avail s.
Proof. reflexivity. Qed.
Lemma queue_set_slot s o : queue (set_slot s o) = queue s.
Proof. reflexivity. Qed.
Lemma slot_set_slot s o : slot (set_slot s o) = o.
Proof. reflexivity. Qed.
Lemma db_set_slot s o : db (set_slot s o) = db s.
Proof. reflexivity. Qed.
Lemma log_set_slot s o : log (set_slot s o) = log s.
Proof. reflexivity. Qed.
Lemma avail_commit_db s i p : avail (commit_db s i p) = avail s.
Proof. reflexivity. Qed.
Lemma queue_commit_db s i p : queue (commit_db s i p) = queue s.
Proof. reflexivity. Qed.
Lemma slot_commit_db s i p : slot (commit_db s i p) = slot s.
Proof. reflexivity. Qed.
Lemma db_commit_db s i p : db (commit_db s i p) = db s ++ p.
Proof. reflexivity. Qed.
Lemma log_commit_db s i p : log (commit_db s i p) = log s ++ [i].
Proof. reflexivity. Qed.
Global Hint Rewrite tpc_set_pc trb_set_pc tpc_set_rb trb_set_rb tasks_set_avail tasks_set_queue tasks_set_slot tasks_commit_db avail_set_pc queue_set_pc slot_set_pc db_set_pc log_set_pc avail_set_rb queue_set_rb slot_set_rb db_set_rb log_set_rb avail_set_avail queue_set_avail slot_set_avail db_set_avail log_set_avail avail_set_queue queue_set_queue slot_set_queue db_set_queue log_set_queue avail_set_slot queue_set_slot slot_set_slot db_set_slot log_set_slot avail_commit_db queue_commit_db slot_commit_db db_commit_db log_commit_db : tx.

Lemma owner_eq_dec (a b : owner) : {a = b} + {a <> b}.
Proof. decide equality; apply Nat.eq_dec. Qed.

Lemma firstn_snoc_nth {A} (l : list A) k w :
  nth_error l k = Some w -> firstn (S k) l = firstn k l ++ [w].
Proof.
  revert k. induction l as [|a l IH]; intros [|k] H; cbn in *; try discriminate.
  - inversion H; reflexivity.
  - rewrite (IH _ H). reflexivity.
Qed.

Section Protocol.
Variable P : nat -> prog.

(** * The invariant *)
Definition queue_ok (s : state) : Prop :=
  NoDup (queue s) /\ forall j, In j (queue s) <-> tpc (tasks s j) = PWait.

Definition nobody (s : state) : Prop := forall o, owns s o = false.
Definition sole (s : state) (o : owner) : Prop :=
  owns s o = true /\ forall o', owns s o' = true -> o' = o.

Definition slot_ok (s : state) (o : owner) : Prop :=
  match o with
  | OwT i =>
      match tpc (tasks s i) with
      | PGranted => slot s = None
      | PHold k => slot s = Some (firstn k (writes (P i))) /\ k <= length (writes (P i))
      | PCommitting p | PRollingBack p => slot s = None /\ p = writes (P i)
      | _ => False
      end
  | OwR i =>
      match trb (tasks s i) with
      | RbStart => True
      | RbRolling => slot s = None
      | _ => False
      end
  end.

Definition own_ok (s : state) : Prop :=
  if avail s then nobody s /\ queue s = [] /\ slot s = None
  else exists o, sole s o /\ slot_ok s o.

Definition pc_clause (lg : list nat) (i : nat) (p : pc) : Prop :=
  match p with
  | PCommitting _ => pfin (P i) = FCommit
  | PRollingBack _ => pfin (P i) = FRollback
  | PDone OCommitted => pfin (P i) = FCommit /\ In i lg
  | PDone ORolledBack => pfin (P i) = FRollback
  | PDone ODropped => pfin (P i) = FDrop
  | PDone OError => pfin (P i) = FError
  | PDone OPanic => False
  | _ => True
  end.
Definition pc_ok (s : state) : Prop := forall i, pc_clause (log s) i (tpc (tasks s i)).

Definition log_ok (s : state) : Prop :=
  NoDup (log s) /\ (forall i, In i (log s) -> tpc (tasks s i) = PDone OCommitted)
  /\ db s = apply_all P (log s).

Record Inv (s : state) : Prop := {
  inv_q : queue_ok s; inv_own : own_ok s; inv_pc : pc_ok s; inv_log : log_ok s }.

(** "state [s1] is [s] with the pc of task [i] set to [p]" / rb set to [r], pointwise *)
Definition pc_upd (s s1 : state) (i : nat) (p : pc) : Prop :=
  forall j, tpc (tasks s1 j) = if Nat.eqb j i then p else tpc (tasks s j).
Definition rb_upd (s s1 : state) (i : nat) (r : rbpc) : Prop :=
  forall j, trb (tasks s1 j) = if Nat.eqb j i then r else trb (tasks s j).
Definition pc_same (s s1 : state) : Prop := forall j, tpc (tasks s1 j) = tpc (tasks s j).
Definition rb_same (s s1 : state) : Prop := forall j, trb (tasks s1 j) = trb (tasks s j).

(** ** ownership helpers *)
Lemma owner_facts s o :
  own_ok s -> owns s o = true -> avail s = false /\ sole s o /\ slot_ok s o.
Proof.
  unfold own_ok. destruct (avail s).
  - intros [H _] Ho. rewrite H in Ho. discriminate.
  - intros [o0 [[H1 H2] H3]] Ho. assert (o = o0) by auto. subst. repeat split; auto.
Qed.

Lemma others_false s o :
  own_ok s -> owns s o = true -> forall o', o' <> o -> owns s o' = false.
Proof.
  intros H Ho o' Hne. destruct (owner_facts _ _ H Ho) as (_ & [_ Hu] & _).
  destruct (owns s o') eqn:E; auto. apply Hu in E. contradiction.
Qed.

Lemma own_ok_sole s o :
  avail s = false -> owns s o = true -> (forall o', o' <> o -> owns s o' = false) ->
  slot_ok s o -> own_ok s.
Proof.
  intros Ha Ho Hn Hs. unfold own_ok. rewrite Ha. exists o. split; [split; auto|auto].
  intros o' Ho'. destruct (owner_eq_dec o' o); auto. rewrite Hn in Ho'; [discriminate|auto].
Qed.

Lemma owns_pc_upd s s1 i p j : pc_upd s s1 i p ->
  owns s1 (OwT j) = if Nat.eqb j i then active_pc p else owns s (OwT j).
Proof. intros H. unfold owns. rewrite H. destruct (Nat.eqb j i); reflexivity. Qed.
Lemma owns_rb_upd s s1 i r j : rb_upd s s1 i r ->
  owns s1 (OwR j) = if Nat.eqb j i then active_rb r else owns s (OwR j).
Proof. intros H. unfold owns. rewrite H. destruct (Nat.eqb j i); reflexivity. Qed.
Lemma owns_pc_same s s1 j : pc_same s s1 -> owns s1 (OwT j) = owns s (OwT j).
Proof. intros H. unfold owns. rewrite H. reflexivity. Qed.
Lemma owns_rb_same s s1 j : rb_same s s1 -> owns s1 (OwR j) = owns s (OwR j).
Proof. intros H. unfold owns. rewrite H. reflexivity. Qed.

(** ** generic preservation lemmas *)
Lemma queue_ok_upd s s1 i p :
  queue_ok s -> pc_upd s s1 i p -> queue s1 = queue s ->
  tpc (tasks s i) <> PWait -> p <> PWait -> queue_ok s1.
Proof.
  intros [Hn Hq] Hu Hqq Hi Hp. unfold queue_ok. rewrite Hqq. split; auto.
  intros j. rewrite Hu. destruct (Nat.eqb_spec j i).
  - subst. rewrite Hq. split; intros; congruence.
  - apply Hq.
Qed.

Lemma queue_ok_same s s1 :
  queue_ok s -> pc_same s s1 -> queue s1 = queue s -> queue_ok s1.
Proof.
  intros [Hn Hq] Hu Hqq. unfold queue_ok. rewrite Hqq. split; auto.
  intros j. rewrite Hu. apply Hq.
Qed.

Lemma pc_clause_mono l l' i p : incl l l' -> pc_clause l i p -> pc_clause l' i p.
Proof.
  intros Hi. destruct p; cbn; auto. destruct o; cbn; auto. intros [H1 H2]; split; auto.
Qed.

Lemma pc_ok_upd s s1 i p :
  pc_ok s -> pc_upd s s1 i p -> incl (log s) (log s1) -> pc_clause (log s1) i p -> pc_ok s1.
Proof.
  intros H Hu Hl Hc j. rewrite Hu. destruct (Nat.eqb_spec j i).
  - subst. exact Hc.
  - eapply pc_clause_mono; eauto.
Qed.

Lemma pc_ok_same s s1 : pc_ok s -> pc_same s s1 -> log s1 = log s -> pc_ok s1.
Proof. intros H Hu Hl j. rewrite Hu, Hl. apply H. Qed.

Lemma log_ok_upd s s1 i p :
  log_ok s -> pc_upd s s1 i p -> log s1 = log s -> db s1 = db s ->
  tpc (tasks s i) <> PDone OCommitted -> log_ok s1.
Proof.
  intros (Hn & Hl & Hd) Hu Hll Hdd Hi. unfold log_ok. rewrite Hll, Hdd. repeat split; auto.
  intros j Hj. rewrite Hu. destruct (Nat.eqb_spec j i).
  - subst. apply Hl in Hj. contradiction.
  - auto.
Qed.

Lemma log_ok_same s s1 :
  log_ok s -> pc_same s s1 -> log s1 = log s -> db s1 = db s -> log_ok s1.
Proof.
  intros (Hn & Hl & Hd) Hu Hll Hdd. unfold log_ok. rewrite Hll, Hdd. repeat split; auto.
  intros j Hj. rewrite Hu. auto.
Qed.

(** ** releasing the semaphore *)
Record PreRel (s : state) : Prop := {
  pr_q : queue_ok s; pr_av : avail s = false; pr_no : nobody s; pr_slot : slot s = None;
  pr_pc : pc_ok s; pr_log : log_ok s }.

Lemma inv_release s : PreRel s -> Inv (release s).
Proof.
  intros [[Hnd Hq] Ha Hno Hs Hpc Hlog]. unfold release. destruct (queue s) as [|j q] eqn:Q.
  - constructor.
    + unfold queue_ok. cbn [queue set_avail tasks]. rewrite Q. split; auto.
    + unfold own_ok. cbn [avail set_avail]. repeat split; auto.
    + exact Hpc.
    + exact Hlog.
  - assert (Hj : tpc (tasks s j) = PWait) by (apply Hq; left; reflexivity).
    inversion Hnd as [|? ? Hnj Hndq]; subst.
    set (s1 := set_pc (set_queue s q) j PGranted).
    assert (Hu : pc_upd s s1 j PGranted) by (intros k; unfold s1; autorewrite with tx; reflexivity).
    assert (Hr : rb_same s s1) by (intros k; unfold s1; autorewrite with tx; reflexivity).
    constructor.
    + unfold queue_ok. split; [exact Hndq|].
      intros k. rewrite Hu. unfold s1; autorewrite with tx. destruct (Nat.eqb_spec k j).
      * subst. split; intros; [contradiction|discriminate].
      * rewrite <- Hq. split; intros H; [right; exact H|]. destruct H; [congruence|exact H].
    + apply own_ok_sole with (o := OwT j).
      * unfold s1; autorewrite with tx. exact Ha.
      * rewrite (owns_pc_upd _ _ _ _ _ Hu), Nat.eqb_refl. reflexivity.
      * intros [k|k] Hne.
        -- rewrite (owns_pc_upd _ _ _ _ _ Hu). destruct (Nat.eqb_spec k j); [congruence|apply Hno].
        -- rewrite (owns_rb_same _ _ _ Hr). apply Hno.
      * unfold slot_ok. rewrite Hu, Nat.eqb_refl. unfold s1; autorewrite with tx. exact Hs.
    + eapply pc_ok_upd; eauto.
      * unfold s1; autorewrite with tx. apply incl_refl.
      * exact I.
    + eapply log_ok_upd; eauto; try (unfold s1; autorewrite with tx; reflexivity). congruence.
Qed.

(** ** the individual step shapes *)
Ltac unf := repeat match goal with x := _ : state |- _ => unfold x end; unfold spawn_rb, dequeue.
Ltac desc := unf; intros ?k; autorewrite with tx; try reflexivity.
Ltac proj := unf; autorewrite with tx; try reflexivity.
Ltac fin :=
  first [ reflexivity | assumption | exact I | discriminate | congruence | apply incl_refl
        | (unf; autorewrite with tx;
           first [reflexivity | assumption | discriminate | congruence | apply incl_refl]) ].

Lemma active_not_wait p : active_pc p = true -> p <> PWait.
Proof. intros H E; subst; discriminate. Qed.
Lemma active_not_done p o : active_pc p = true -> p <> PDone o.
Proof. intros H E; subst; discriminate. Qed.

Lemma NoDup_snoc {A} (l : list A) x : NoDup l -> ~ In x l -> NoDup (l ++ [x]).
Proof.
  induction l as [|a l IH]; intros Hn Hx; cbn.
  - constructor; [intros []|constructor].
  - inversion Hn; subst. constructor.
    + rewrite in_app_iff. intros [H|[H|[]]]; [contradiction|subst; apply Hx; left; reflexivity].
    + apply IH; auto. intros H; apply Hx; right; exact H.
Qed.

(** a task that is not an owner changes to another non-owner pc *)
Lemma own_ok_inactive s s1 i p :
  own_ok s -> pc_upd s s1 i p -> rb_same s s1 ->
  active_pc (tpc (tasks s i)) = false -> active_pc p = false ->
  avail s1 = avail s -> slot s1 = slot s -> (avail s = true -> queue s1 = []) -> own_ok s1.
Proof.
  intros Ho Hu Hr Hi Hp Ha Hs Hq.
  assert (Heq : forall o, owns s1 o = owns s o).
  { intros [k|k].
    - rewrite (owns_pc_upd _ _ _ _ _ Hu). destruct (Nat.eqb_spec k i); [subst|reflexivity].
      unfold owns. congruence.
    - apply owns_rb_same; exact Hr. }
  unfold own_ok in *. rewrite Ha. destruct (avail s).
  - destruct Ho as (Hn & _ & Hsl). repeat split; auto; [|congruence].
    intros o. rewrite Heq. apply Hn.
  - destruct Ho as [o [[H1 H2] H3]]. exists o. split; [split|].
    + rewrite Heq; exact H1.
    + intros o'. rewrite Heq. apply H2.
    + destruct o as [k|k]; unfold slot_ok in *.
      * rewrite Hu, Hs. destruct (Nat.eqb_spec k i); [subst|exact H3].
        unfold owns in H1. congruence.
      * rewrite Hr, Hs. exact H3.
Qed.

Lemma inv_begin_free s i :
  Inv s -> tpc (tasks s i) = PInit -> avail s = true -> Inv (set_pc (set_avail s false) i PGranted).
Proof.
  intros [Hq Ho Hpc Hl] Hi Ha. set (s1 := set_pc (set_avail s false) i PGranted).
  assert (Hu : pc_upd s s1 i PGranted) by (desc).
  assert (Hr : rb_same s s1) by (desc).
  unfold own_ok in Ho. rewrite Ha in Ho. destruct Ho as (Hn & _ & Hs).
  constructor.
  - eapply queue_ok_upd; eauto; try fin.
  - apply own_ok_sole with (o := OwT i).
    + proj.
    + rewrite (owns_pc_upd _ _ _ _ _ Hu), Nat.eqb_refl. reflexivity.
    + intros [k|k] Hne.
      * rewrite (owns_pc_upd _ _ _ _ _ Hu). destruct (Nat.eqb_spec k i); [congruence|apply Hn].
      * rewrite (owns_rb_same _ _ _ Hr). apply Hn.
    + unfold slot_ok. rewrite Hu, Nat.eqb_refl. proj. exact Hs.
  - eapply pc_ok_upd; eauto; try fin.
  - eapply log_ok_upd; eauto; try fin.
Qed.

Lemma inv_begin_wait s i :
  Inv s -> tpc (tasks s i) = PInit -> avail s = false ->
  Inv (set_pc (set_queue s (queue s ++ [i])) i PWait).
Proof.
  intros [[Hnd Hq] Ho Hpc Hl] Hi Ha. set (s1 := set_pc (set_queue s (queue s ++ [i])) i PWait).
  assert (Hu : pc_upd s s1 i PWait) by (desc).
  assert (Hr : rb_same s s1) by (desc).
  assert (Hni : ~ In i (queue s)) by (rewrite Hq; congruence).
  constructor.
  - unfold queue_ok. replace (queue s1) with (queue s ++ [i]) by (proj). split.
    + apply NoDup_snoc; auto.
    + intros k. rewrite Hu, in_app_iff. destruct (Nat.eqb_spec k i).
      * subst. split; auto. intros _. right; left; reflexivity.
      * rewrite <- Hq. split; [intros [H|[H|[]]]; [exact H|congruence]|intros H; left; exact H].
  - assert (Hina : active_pc (tpc (tasks s i)) = false) by (rewrite Hi; reflexivity).
    assert (Hav : avail s = true -> queue s1 = []) by congruence.
    eapply own_ok_inactive; eauto; try fin.
  - eapply pc_ok_upd; eauto; try fin.
  - eapply log_ok_upd; eauto; try fin.
Qed.

(** the owner task moves to another owning pc *)
Lemma inv_owner_step s s1 i p :
  Inv s -> owns s (OwT i) = true -> pc_upd s s1 i p -> rb_same s s1 -> active_pc p = true ->
  avail s1 = avail s -> queue s1 = queue s -> log s1 = log s -> db s1 = db s ->
  slot_ok s1 (OwT i) -> pc_clause (log s1) i p -> Inv s1.
Proof.
  intros [Hq Ho Hpc Hl] Hi Hu Hr Hp Ha Hqq Hll Hdd Hs Hc.
  assert (Hact : active_pc (tpc (tasks s i)) = true) by exact Hi.
  destruct (owner_facts _ _ Ho Hi) as (Hav & _ & _).
  constructor.
  - eapply queue_ok_upd; eauto using active_not_wait.
  - apply own_ok_sole with (o := OwT i); auto; [congruence| |].
    + rewrite (owns_pc_upd _ _ _ _ _ Hu), Nat.eqb_refl. exact Hp.
    + intros [k|k] Hne.
      * rewrite (owns_pc_upd _ _ _ _ _ Hu). destruct (Nat.eqb_spec k i); [congruence|].
        apply (others_false _ _ Ho Hi). congruence.
      * rewrite (owns_rb_same _ _ _ Hr). apply (others_false _ _ Ho Hi). discriminate.
  - eapply pc_ok_upd; eauto. rewrite Hll. apply incl_refl.
  - eapply log_ok_upd; eauto using active_not_done.
Qed.

(** the owner task ends and its TransactionPermit is dropped uncommitted *)
Lemma inv_spawn s i x :
  Inv s -> owns s (OwT i) = true -> pc_clause (log s) i (PDone x) ->
  Inv (spawn_rb (set_pc s i (PDone x)) i).
Proof.
  intros [Hq Ho Hpc Hl] Hi Hc. set (s1 := spawn_rb (set_pc s i (PDone x)) i).
  assert (Hu : pc_upd s s1 i (PDone x)) by (desc).
  assert (Hr : rb_upd s s1 i RbStart) by (desc).
  assert (Hact : active_pc (tpc (tasks s i)) = true) by exact Hi.
  destruct (owner_facts _ _ Ho Hi) as (Hav & _ & _).
  constructor.
  - eapply queue_ok_upd; eauto using active_not_wait; try fin.
  - apply own_ok_sole with (o := OwR i).
    + proj. exact Hav.
    + rewrite (owns_rb_upd _ _ _ _ _ Hr), Nat.eqb_refl. reflexivity.
    + intros [k|k] Hne.
      * rewrite (owns_pc_upd _ _ _ _ _ Hu). destruct (Nat.eqb_spec k i); [reflexivity|].
        apply (others_false _ _ Ho Hi). congruence.
      * rewrite (owns_rb_upd _ _ _ _ _ Hr). destruct (Nat.eqb_spec k i); [congruence|].
        apply (others_false _ _ Ho Hi). discriminate.
    + unfold slot_ok. rewrite Hr, Nat.eqb_refl. exact I.
  - eapply pc_ok_upd; eauto; try fin.
  - eapply log_ok_upd; eauto using active_not_done; try fin.
Qed.

Lemma prerel_task s i x :
  Inv s -> owns s (OwT i) = true -> slot s = None -> pc_clause (log s) i (PDone x) ->
  PreRel (set_pc s i (PDone x)).
Proof.
  intros [Hq Ho Hpc Hl] Hi Hs Hc. set (s1 := set_pc s i (PDone x)).
  assert (Hu : pc_upd s s1 i (PDone x)) by (desc).
  assert (Hr : rb_same s s1) by (desc).
  assert (Hact : active_pc (tpc (tasks s i)) = true) by exact Hi.
  destruct (owner_facts _ _ Ho Hi) as (Hav & _ & _).
  constructor.
  - eapply queue_ok_upd; eauto using active_not_wait; try fin.
  - proj. exact Hav.
  - intros [k|k].
    + rewrite (owns_pc_upd _ _ _ _ _ Hu). destruct (Nat.eqb_spec k i); [reflexivity|].
      apply (others_false _ _ Ho Hi). congruence.
    + rewrite (owns_rb_same _ _ _ Hr). apply (others_false _ _ Ho Hi). discriminate.
  - proj. exact Hs.
  - eapply pc_ok_upd; eauto; try fin.
  - eapply log_ok_upd; eauto using active_not_done; try fin.
Qed.

Lemma apply_all_snoc l i : apply_all P (l ++ [i]) = apply_all P l ++ writes (P i).
Proof. unfold apply_all. rewrite flat_map_app. cbn. rewrite app_nil_r. reflexivity. Qed.

Lemma prerel_commit s i p :
  Inv s -> tpc (tasks s i) = PCommitting p ->
  PreRel (commit_db (set_pc s i (PDone OCommitted)) i p).
Proof.
  intros [Hq Ho Hpc Hl] Hi. set (s1 := commit_db (set_pc s i (PDone OCommitted)) i p).
  assert (Hu : pc_upd s s1 i (PDone OCommitted)) by (desc).
  assert (Hr : rb_same s s1) by (desc).
  assert (Hown : owns s (OwT i) = true) by (unfold owns; rewrite Hi; reflexivity).
  destruct (owner_facts _ _ Ho Hown) as (Hav & _ & Hsl).
  unfold slot_ok in Hsl. rewrite Hi in Hsl. destruct Hsl as [Hs Hp].
  assert (Hfin : pfin (P i) = FCommit) by (specialize (Hpc i); rewrite Hi in Hpc; exact Hpc).
  destruct Hl as (Hnd & Hlog & Hdb).
  assert (Hni : ~ In i (log s)) by (intros H; apply Hlog in H; congruence).
  constructor.
  - eapply queue_ok_upd; eauto; try fin.
  - proj. exact Hav.
  - intros [k|k].
    + rewrite (owns_pc_upd _ _ _ _ _ Hu). destruct (Nat.eqb_spec k i); [reflexivity|].
      apply (others_false _ _ Ho Hown). congruence.
    + rewrite (owns_rb_same _ _ _ Hr). apply (others_false _ _ Ho Hown). discriminate.
  - proj. exact Hs.
  - eapply pc_ok_upd; eauto; proj.
    + apply incl_appl, incl_refl.
    + cbn. split; [exact Hfin|]. rewrite in_app_iff. right; left; reflexivity.
  - unfold log_ok. replace (log s1) with (log s ++ [i]) by (proj).
    replace (db s1) with (db s ++ p) by (proj). repeat split.
    + apply NoDup_snoc; auto.
    + intros k. rewrite in_app_iff, Hu. destruct (Nat.eqb_spec k i); [reflexivity|].
      intros [H|[H|[]]]; [auto|congruence].
    + rewrite apply_all_snoc, Hdb, Hp. reflexivity.
Qed.

Lemma prerel_rb s i :
  Inv s -> trb (tasks s i) = RbRolling -> PreRel (set_rb s i RbDone).
Proof.
  intros [Hq Ho Hpc Hl] Hi. set (s1 := set_rb s i RbDone).
  assert (Hu : pc_same s s1) by (desc).
  assert (Hr : rb_upd s s1 i RbDone) by (desc).
  assert (Hown : owns s (OwR i) = true) by (unfold owns; rewrite Hi; reflexivity).
  destruct (owner_facts _ _ Ho Hown) as (Hav & _ & Hsl).
  unfold slot_ok in Hsl. rewrite Hi in Hsl.
  constructor.
  - eapply queue_ok_same; eauto.
  - exact Hav.
  - intros [k|k].
    + rewrite (owns_pc_same _ _ _ Hu). apply (others_false _ _ Ho Hown). discriminate.
    + rewrite (owns_rb_upd _ _ _ _ _ Hr). destruct (Nat.eqb_spec k i); [reflexivity|].
      apply (others_false _ _ Ho Hown). congruence.
  - exact Hsl.
  - eapply pc_ok_same; eauto.
  - eapply log_ok_same; eauto.
Qed.

Lemma inv_rb_take s i :
  Inv s -> trb (tasks s i) = RbStart -> Inv (set_rb (set_slot s None) i RbRolling).
Proof.
  intros [Hq Ho Hpc Hl] Hi. set (s1 := set_rb (set_slot s None) i RbRolling).
  assert (Hu : pc_same s s1) by (desc).
  assert (Hr : rb_upd s s1 i RbRolling) by (desc).
  assert (Hown : owns s (OwR i) = true) by (unfold owns; rewrite Hi; reflexivity).
  destruct (owner_facts _ _ Ho Hown) as (Hav & _ & _).
  constructor.
  - eapply queue_ok_same; eauto.
  - apply own_ok_sole with (o := OwR i).
    + exact Hav.
    + rewrite (owns_rb_upd _ _ _ _ _ Hr), Nat.eqb_refl. reflexivity.
    + intros [k|k] Hne.
      * rewrite (owns_pc_same _ _ _ Hu). apply (others_false _ _ Ho Hown). discriminate.
      * rewrite (owns_rb_upd _ _ _ _ _ Hr). destruct (Nat.eqb_spec k i); [congruence|].
        apply (others_false _ _ Ho Hown). congruence.
    + unfold slot_ok. rewrite Hr, Nat.eqb_refl. reflexivity.
  - eapply pc_ok_same; eauto.
  - eapply log_ok_same; eauto.
Qed.

Lemma inv_cancel_init s i :
  Inv s -> tpc (tasks s i) = PInit -> Inv (set_pc s i (PDone OCancelled)).
Proof.
  intros [Hq Ho Hpc Hl] Hi. set (s1 := set_pc s i (PDone OCancelled)).
  assert (Hu : pc_upd s s1 i (PDone OCancelled)) by (desc).
  assert (Hr : rb_same s s1) by (desc).
  constructor.
  - eapply queue_ok_upd; eauto; try fin.
  - assert (Hina : active_pc (tpc (tasks s i)) = false) by (rewrite Hi; reflexivity).
    assert (Hav : avail s = true -> queue s1 = []).
    { intros Ha. unfold own_ok in Ho. rewrite Ha in Ho. apply Ho. }
    eapply own_ok_inactive; eauto; try fin.
  - eapply pc_ok_upd; eauto; try fin.
  - eapply log_ok_upd; eauto; try fin.
Qed.

Lemma inv_cancel_wait s i :
  Inv s -> tpc (tasks s i) = PWait -> Inv (set_pc (dequeue s i) i (PDone OCancelled)).
Proof.
  intros [[Hnd Hq] Ho Hpc Hl] Hi. set (s1 := set_pc (dequeue s i) i (PDone OCancelled)).
  assert (Hu : pc_upd s s1 i (PDone OCancelled)) by (desc).
  assert (Hr : rb_same s s1) by (desc).
  assert (Hqq : queue s1 = filter (fun j => negb (Nat.eqb j i)) (queue s)) by (proj).
  constructor.
  - unfold queue_ok. rewrite Hqq. split.
    + apply NoDup_filter. exact Hnd.
    + intros k. rewrite filter_In, Hu, Hq. destruct (Nat.eqb_spec k i); cbn.
      * split; [intros [_ H]; discriminate|discriminate].
      * split; [intros [H _]; exact H|auto].
  - assert (Hina : active_pc (tpc (tasks s i)) = false) by (rewrite Hi; reflexivity).
    assert (Hav : avail s = true -> queue s1 = []).
    { intros Ha. unfold own_ok in Ho. rewrite Ha in Ho. destruct Ho as (_ & H & _).
      rewrite Hqq, H. reflexivity. }
    eapply own_ok_inactive; eauto; try fin.
  - eapply pc_ok_upd; eauto; try fin.
  - eapply log_ok_upd; eauto; try fin.
Qed.

(** * Every step preserves the invariant *)
Lemma init_inv : Inv init.
Proof.
  constructor.
  - split; [constructor|]. intros j; cbn. split; [intros []|discriminate].
  - unfold own_ok; cbn. repeat split; auto. intros [k|k]; reflexivity.
  - intros i; exact I.
  - split; [constructor|]. split; [intros i []|reflexivity].
Qed.

Lemma owner_T s i : tpc (tasks s i) = PGranted \/ (exists k, tpc (tasks s i) = PHold k)
  \/ (exists p, tpc (tasks s i) = PCommitting p) \/ (exists p, tpc (tasks s i) = PRollingBack p) ->
  owns s (OwT i) = true.
Proof. unfold owns. intros [H|[[k H]|[[p H]|[p H]]]]; rewrite H; reflexivity. Qed.

Theorem step_inv s l s' : Inv s -> step P s l = Some s' -> Inv s'.
Proof.
  intros HI H. destruct l as [i|i|i]; unfold step in H.
  - destruct (tpc (tasks s i)) as [| | |k|p|p|o] eqn:Hi.
    + destruct (avail s) eqn:Ha; inversion H; subst; clear H.
      * apply inv_begin_free; auto.
      * apply inv_begin_wait; auto.
    + discriminate.
    + assert (Hown : owns s (OwT i) = true) by (apply owner_T; auto).
      destruct (owner_facts _ _ (inv_own _ HI) Hown) as (Hav & _ & Hsl).
      unfold slot_ok in Hsl. rewrite Hi in Hsl. rewrite Hsl in H. inversion H; subst; clear H.
      eapply inv_owner_step with (i := i) (p := PHold 0); eauto; try desc; try fin.
      unfold slot_ok. autorewrite with tx. rewrite Nat.eqb_refl. cbn. split; [reflexivity|lia].
    + assert (Hown : owns s (OwT i) = true) by (apply owner_T; eauto).
      destruct (owner_facts _ _ (inv_own _ HI) Hown) as (Hav & _ & Hsl).
      unfold slot_ok in Hsl. rewrite Hi in Hsl. destruct Hsl as [Hsl Hk]. rewrite Hsl in H.
      destruct (nth_error (writes (P i)) k) as [w|] eqn:Hn.
      * inversion H; subst; clear H.
        eapply inv_owner_step with (i := i) (p := PHold (S k)); eauto; try desc; try fin.
        unfold slot_ok. autorewrite with tx. rewrite Nat.eqb_refl.
        rewrite (firstn_snoc_nth _ _ _ Hn). split; [reflexivity|].
        apply Nat.le_succ_l. apply nth_error_Some. congruence.
      * apply nth_error_None in Hn.
        assert (Hall : firstn k (writes (P i)) = writes (P i)) by (apply firstn_all2; exact Hn).
        destruct (pfin (P i)) eqn:Hf; inversion H; subst; clear H.
        -- eapply inv_owner_step with (i := i) (p := PCommitting (firstn k (writes (P i))));
             eauto; try desc; try fin.
           unfold slot_ok. autorewrite with tx. rewrite Nat.eqb_refl. split; [reflexivity|exact Hall].
        -- eapply inv_owner_step with (i := i) (p := PRollingBack (firstn k (writes (P i))));
             eauto; try desc; try fin.
           unfold slot_ok. autorewrite with tx. rewrite Nat.eqb_refl. split; [reflexivity|exact Hall].
        -- apply inv_spawn; auto.
        -- apply inv_spawn; auto.
    + inversion H; subst; clear H. apply inv_release, prerel_commit; auto.
    + inversion H; subst; clear H.
      assert (Hown : owns s (OwT i) = true) by (apply owner_T; eauto 6).
      destruct (owner_facts _ _ (inv_own _ HI) Hown) as (Hav & _ & Hsl).
      unfold slot_ok in Hsl. rewrite Hi in Hsl. destruct Hsl as [Hsl _].
      apply inv_release, prerel_task; auto.
      pose proof (inv_pc _ HI i) as Hc. rewrite Hi in Hc. exact Hc.
    + discriminate.
  - destruct (tpc (tasks s i)) as [| | |k|p|p|o] eqn:Hi; inversion H; subst; clear H.
    + apply inv_cancel_init; auto.
    + apply inv_cancel_wait; auto.
    + assert (Hown : owns s (OwT i) = true) by (apply owner_T; auto).
      destruct (owner_facts _ _ (inv_own _ HI) Hown) as (Hav & _ & Hsl).
      unfold slot_ok in Hsl. rewrite Hi in Hsl.
      apply inv_release, prerel_task; auto. exact I.
    + apply inv_spawn; auto; [apply owner_T; eauto|exact I].
    + apply inv_spawn; auto; [apply owner_T; eauto 6|exact I].
    + apply inv_spawn; auto; [apply owner_T; eauto 6|exact I].
  - destruct (trb (tasks s i)) eqn:Hi; inversion H; subst; clear H.
    + apply inv_rb_take; auto.
    + apply inv_release, prerel_rb; auto.
Qed.

Lemma run_inv tr : forall s s', Inv s -> run P s tr = Some s' -> Inv s'.
Proof.
  induction tr as [|l r IH]; intros s s' HI H; cbn in H.
  - inversion H; subst; exact HI.
  - destruct (step P s l) as [s1|] eqn:E; [|discriminate].
    eapply IH; [eapply step_inv; eauto|exact H].
Qed.

Definition reachable (s : state) : Prop := exists tr, run P init tr = Some s.

Theorem reachable_inv s : reachable s -> Inv s.
Proof. intros [tr H]. eapply run_inv; [apply init_inv|exact H]. Qed.

(** * Main theorems *)

(** At most one owner of the semaphore permit (a task inside begin/holding a TransactionPermit/
    inside commit or rollback, or a detached rollback task), and none while a permit is available. *)
Theorem mutual_exclusion s o1 o2 :
  reachable s -> owns s o1 = true -> owns s o2 = true -> o1 = o2.
Proof.
  intros Hr H1 H2. apply reachable_inv in Hr.
  destruct (owner_facts _ _ (inv_own _ Hr) H1) as (_ & [_ Hu] & _). symmetry. auto.
Qed.

Theorem available_means_unowned s o : reachable s -> avail s = true -> owns s o = false.
Proof.
  intros Hr Ha. apply reachable_inv in Hr. pose proof (inv_own _ Hr) as Ho.
  unfold own_ok in Ho. rewrite Ha in Ho. apply Ho.
Qed.

(** The pending writes in the transaction slot are exactly the writes issued so far by the one
    task that holds the TransactionPermit (or are about to be rolled back by the detached task). *)
Theorem slot_belongs_to_owner s p :
  reachable s -> slot s = Some p ->
  (exists i k, tpc (tasks s i) = PHold k /\ p = firstn k (writes (P i)))
  \/ (exists i, trb (tasks s i) = RbStart).
Proof.
  intros Hr Hs. apply reachable_inv in Hr. pose proof (inv_own _ Hr) as Ho. unfold own_ok in Ho.
  destruct (avail s).
  - destruct Ho as (_ & _ & H). congruence.
  - destruct Ho as [[i|i] [_ Hsl]]; unfold slot_ok in Hsl.
    + destruct (tpc (tasks s i)) eqn:E; try contradiction; try (destruct Hsl; congruence); try congruence.
      destruct Hsl as [H1 _]. left. exists i, k. split; congruence.
    + destruct (trb (tasks s i)) eqn:E; try contradiction; [right; eauto|congruence].
Qed.

Lemma log_release s : log (release s) = log s.
Proof. unfold release. destruct (queue s); reflexivity. Qed.
Lemma db_release s : db (release s) = db s.
Proof. unfold release. destruct (queue s); reflexivity. Qed.

Lemma log_step s l s' : step P s l = Some s' -> log s' = log s ++ commit_mark s l.
Proof.
  intros H. destruct l as [i|i|i]; unfold step in H; cbn [commit_mark].
  - destruct (tpc (tasks s i)) eqn:Hi; try discriminate.
    + destruct (avail s); inversion H; subst; cbn; rewrite app_nil_r; reflexivity.
    + destruct (slot s); inversion H; subst; rewrite ?log_release; cbn; rewrite app_nil_r; reflexivity.
    + destruct (nth_error (writes (P i)) k); [|destruct (pfin (P i))]; try destruct (slot s);
        inversion H; subst; cbn; rewrite app_nil_r; reflexivity.
    + inversion H; subst. rewrite log_release. reflexivity.
    + inversion H; subst. rewrite log_release. cbn. rewrite app_nil_r. reflexivity.
  - rewrite app_nil_r. destruct (tpc (tasks s i)); inversion H; subst; rewrite ?log_release; reflexivity.
  - rewrite app_nil_r. destruct (trb (tasks s i)); inversion H; subst; rewrite ?log_release; reflexivity.
Qed.

Lemma log_run tr : forall s s', run P s tr = Some s' -> log s' = log s ++ commits_of P s tr.
Proof.
  induction tr as [|l r IH]; intros s s' H; cbn in *.
  - inversion H; subst. rewrite app_nil_r. reflexivity.
  - destruct (step P s l) as [s1|] eqn:E; [|discriminate].
    rewrite (IH _ _ H), (log_step _ _ _ E), app_assoc. reflexivity.
Qed.

(** Serializability: after any trace (any interleaving, any cancellation points) the committed
    database is the result of applying, one after another and in commit order, exactly the
    transactions whose commit took effect. *)
Theorem serializable tr s :
  run P init tr = Some s -> db s = apply_all P (commits_of P init tr).
Proof.
  intros H. pose proof (run_inv _ _ _ init_inv H) as HI.
  destruct (inv_log _ HI) as (_ & _ & Hdb). rewrite Hdb, (log_run _ _ _ H). reflexivity.
Qed.

(** The commit order has no repetitions and consists exactly of the tasks that ended with
    outcome "committed"; these are tasks whose program ends with a commit. *)
Theorem committed_exactly tr s :
  run P init tr = Some s ->
  NoDup (commits_of P init tr) /\
  forall i, In i (commits_of P init tr) <-> tpc (tasks s i) = PDone OCommitted.
Proof.
  intros H. pose proof (run_inv _ _ _ init_inv H) as HI.
  destruct (inv_log _ HI) as (Hnd & Hl & _). rewrite (log_run _ _ _ H) in *. cbn in *.
  split; [exact Hnd|]. intros i. split; [apply Hl|].
  intros E. pose proof (inv_pc _ HI i) as Hc. rewrite E in Hc. cbn in Hc.
  rewrite (log_run _ _ _ H) in Hc. apply Hc.
Qed.

(** Outcomes are faithful to the programs, and the two panics and the TransactionMissing
    error of the store API are unreachable. *)
Theorem outcome_faithful s i o :
  reachable s -> tpc (tasks s i) = PDone o ->
  match o with
  | OCommitted => pfin (P i) = FCommit
  | ORolledBack => pfin (P i) = FRollback
  | ODropped => pfin (P i) = FDrop
  | OError => pfin (P i) = FError
  | OCancelled => True
  | OPanic => False
  end.
Proof.
  intros Hr E. apply reachable_inv in Hr. pose proof (inv_pc _ Hr i) as Hc. rewrite E in Hc.
  destruct o; cbn in Hc; tauto.
Qed.

(** Aborted transactions leave no trace: with keys distinct across tasks, no write of a task that
    did not commit (rolled back, dropped its permit, failed, was cancelled anywhere, or is still
    running) is in the committed database. *)
Theorem aborted_leave_no_trace s i w :
  reachable s ->
  (forall a b k, In k (writes (P a)) -> In k (writes (P b)) -> a = b) ->
  tpc (tasks s i) <> PDone OCommitted -> In w (writes (P i)) -> ~ In w (db s).
Proof.
  intros Hr Hd Hn Hw Hin. apply reachable_inv in Hr.
  destruct (inv_log _ Hr) as (_ & Hl & Hdb). rewrite Hdb in Hin. unfold apply_all in Hin.
  apply in_flat_map in Hin. destruct Hin as [j [Hj Hwj]].
  assert (j = i) by (eapply Hd; eauto). subst. apply Hn, Hl, Hj.
Qed.

(** ... and they do not keep anything: once no task and no rollback task is in flight, the permit
    is available again and the transaction slot is empty. *)
Theorem quiescent_free s :
  reachable s ->
  (forall i, active_pc (tpc (tasks s i)) = false) ->
  (forall i, active_rb (trb (tasks s i)) = false) ->
  (forall i, tpc (tasks s i) <> PWait) ->
  avail s = true /\ slot s = None.
Proof.
  intros Hr Hp Hb Hw. apply reachable_inv in Hr. pose proof (inv_own _ Hr) as Ho.
  unfold own_ok in Ho. destruct (avail s).
  - split; [reflexivity|apply Ho].
  - destruct Ho as [[i|i] [[H _] _]]; unfold owns in H; [rewrite Hp in H|rewrite Hb in H]; discriminate.
Qed.

(** No permanent block: whenever a task waits for the semaphore, the permit has exactly one owner
    (not a waiter) and that owner has an enabled step that is not a cancellation. *)
Lemma owner_enabled s o : owns s o = true -> exists s', step P s (olabel o) = Some s'.
Proof.
  destruct o as [i|i]; unfold owns, olabel, step; intros H.
  - destruct (tpc (tasks s i)); try discriminate.
    + destruct (slot s); eauto.
    + destruct (nth_error (writes (P i)) k); [|destruct (pfin (P i))]; destruct (slot s); eauto.
    + eauto.
    + eauto.
  - destruct (trb (tasks s i)); try discriminate; eauto.
Qed.

Theorem no_permanent_block s i :
  reachable s -> tpc (tasks s i) = PWait ->
  exists o s', owns s o = true /\ is_cancel (olabel o) = false /\ step P s (olabel o) = Some s'.
Proof.
  intros Hr Hw. apply reachable_inv in Hr. pose proof (inv_own _ Hr) as Ho.
  destruct (inv_q _ Hr) as [_ Hq]. apply Hq in Hw.
  unfold own_ok in Ho. destruct (avail s).
  - destruct Ho as (_ & H & _). rewrite H in Hw. destruct Hw.
  - destruct Ho as [o [[H _] _]]. destruct (owner_enabled _ _ H) as [s' Hs].
    exists o, s'. repeat split; auto. destruct o; reflexivity.
Qed.

(** A task that has not finished can always move on by itself unless it waits for the permit
    (then [no_permanent_block] applies); a spawned rollback task can always move on. *)
Theorem task_enabled s i :
  reachable s -> (forall o, tpc (tasks s i) <> PDone o) -> tpc (tasks s i) <> PWait ->
  exists s', step P s (LStep i) = Some s'.
Proof.
  intros _ Hd Hw. unfold step. destruct (tpc (tasks s i)) eqn:E.
  - destruct (avail s); eauto.
  - congruence.
  - destruct (slot s); eauto.
  - destruct (nth_error (writes (P i)) k); [|destruct (pfin (P i))]; destruct (slot s); eauto.
  - eauto.
  - eauto.
  - exfalso. eapply Hd; eauto.
Qed.

(** * Termination measure: every step strictly decreases the remaining work *)
Lemma tm_release s j : queue_ok s -> t_measure P (release s) j <= t_measure P s j.
Proof.
  intros [_ Hq]. unfold release. destruct (queue s) as [|k q] eqn:Q.
  - apply le_n.
  - assert (Hk : tpc (tasks s k) = PWait) by (apply Hq; left; reflexivity).
    unfold t_measure. autorewrite with tx. destruct (Nat.eqb_spec j k); [subst|apply le_n].
    rewrite Hk. cbn [pc_measure]. lia.
Qed.

Ltac mfin :=
  unfold t_measure, spawn_rb, dequeue; autorewrite with tx; rewrite ?Nat.eqb_refl;
  try match goal with |- context [Nat.eqb ?x ?i] => destruct (Nat.eqb_spec x i); [subst|] end;
  repeat match goal with H : tpc (tasks _ _) = _ |- _ => rewrite H end;
  repeat match goal with H : trb (tasks _ _) = _ |- _ => rewrite H end;
  cbn [pc_measure rb_measure]; try lia.

Ltac meas := split; [intros ?j|]; mfin.

Ltac meas_rel Hpre :=
  split;
  [intros ?j; eapply Nat.le_trans; [apply tm_release; apply (pr_q _ Hpre)|]
  |eapply Nat.le_lt_trans; [apply tm_release; apply (pr_q _ Hpre)|]]; mfin.

Lemma step_measure s l s' :
  Inv s -> step P s l = Some s' ->
  (forall j, t_measure P s' j <= t_measure P s j)
  /\ t_measure P s' (actor l) < t_measure P s (actor l).
Proof.
  intros HI H. destruct l as [i|i|i]; unfold step in H; cbn [actor].
  - destruct (tpc (tasks s i)) as [| | |k|p|p|o] eqn:Hi.
    + destruct (avail s) eqn:Ha; inversion H; subst; clear H; meas.
    + discriminate.
    + assert (Hown : owns s (OwT i) = true) by (apply owner_T; auto).
      destruct (owner_facts _ _ (inv_own _ HI) Hown) as (Hav & _ & Hsl).
      unfold slot_ok in Hsl. rewrite Hi in Hsl. rewrite Hsl in H. inversion H; subst; clear H. meas.
    + assert (Hown : owns s (OwT i) = true) by (apply owner_T; eauto).
      destruct (owner_facts _ _ (inv_own _ HI) Hown) as (Hav & _ & Hsl).
      unfold slot_ok in Hsl. rewrite Hi in Hsl. destruct Hsl as [Hsl Hk]. rewrite Hsl in H.
      destruct (nth_error (writes (P i)) k) as [w|] eqn:Hn.
      * assert (k < length (writes (P i))) by (apply nth_error_Some; congruence).
        inversion H; subst; clear H. meas.
      * destruct (pfin (P i)) eqn:Hf; inversion H; subst; clear H; meas.
    + inversion H; subst; clear H. pose proof (prerel_commit _ _ _ HI Hi) as Hpre. meas_rel Hpre.
    + inversion H; subst; clear H.
      assert (Hown : owns s (OwT i) = true) by (apply owner_T; eauto 6).
      destruct (owner_facts _ _ (inv_own _ HI) Hown) as (Hav & _ & Hsl).
      unfold slot_ok in Hsl. rewrite Hi in Hsl. destruct Hsl as [Hsl _].
      pose proof (inv_pc _ HI i) as Hc. rewrite Hi in Hc.
      pose proof (prerel_task _ _ ORolledBack HI Hown Hsl Hc) as Hpre. meas_rel Hpre.
    + discriminate.
  - destruct (tpc (tasks s i)) as [| | |k|p|p|o] eqn:Hi; inversion H; subst; clear H.
    + meas.
    + meas.
    + assert (Hown : owns s (OwT i) = true) by (apply owner_T; auto).
      destruct (owner_facts _ _ (inv_own _ HI) Hown) as (Hav & _ & Hsl).
      unfold slot_ok in Hsl. rewrite Hi in Hsl.
      pose proof (prerel_task _ _ OCancelled HI Hown Hsl I) as Hpre. meas_rel Hpre.
    + meas.
    + meas.
    + meas.
  - destruct (trb (tasks s i)) eqn:Hi; inversion H; subst; clear H.
    + meas.
    + pose proof (prerel_rb _ _ HI Hi) as Hpre. meas_rel Hpre.
Qed.

Definition sum (f : nat -> nat) (l : list nat) : nat := fold_right (fun i acc => f i + acc) 0 l.

Lemma sum_le f g l : (forall j, f j <= g j) -> sum f l <= sum g l.
Proof. intros H. unfold sum. induction l as [|a l IH]; cbn [fold_right]; [lia|]. specialize (H a). lia. Qed.

Lemma sum_lt f g l i :
  (forall j, f j <= g j) -> In i l -> f i < g i -> sum f l < sum g l.
Proof.
  intros H Hin Hi. induction l as [|a l IH]; [destruct Hin|].
  unfold sum in *. cbn [fold_right]. destruct Hin as [E|Hin].
  - subst. pose proof (sum_le f g l H) as Hs. unfold sum in Hs. lia.
  - specialize (IH Hin). specialize (H a). lia.
Qed.

(** Every step of a task below [n] (program step, cancellation or rollback-task step) strictly
    decreases [measure]; so every trace over [n] tasks is finite and, by [no_permanent_block] and
    [task_enabled], can only end when all of them are done. *)
Theorem step_decreases s l s' n :
  reachable s -> step P s l = Some s' -> actor l < n -> measure P n s' < measure P n s.
Proof.
  intros Hr H Hn. apply reachable_inv in Hr. destruct (step_measure _ _ _ Hr H) as [Hle Hlt].
  unfold measure. apply (sum_lt (t_measure P s') (t_measure P s) (seq 0 n) (actor l)); auto.
  apply in_seq. lia.
Qed.

Theorem trace_length_bounded tr : forall s s' n,
  reachable s -> run P s tr = Some s' -> Forall (fun l => actor l < n) tr ->
  length tr + measure P n s' <= measure P n s.
Proof.
  induction tr as [|l r IH]; intros s s' n Hr H Hf; cbn in *.
  - inversion H; subst. lia.
  - destruct (step P s l) as [s1|] eqn:E; [|discriminate]. inversion Hf; subst.
    assert (Hr1 : reachable s1).
    { destruct Hr as [t Ht]. exists (t ++ [l]). clear - Ht E.
      revert Ht. generalize init. induction t as [|a t IHt]; intros s0 Ht; cbn in *.
      - inversion Ht; subst. rewrite E. reflexivity.
      - destruct (step P s0 a); [apply IHt; exact Ht|discriminate]. }
    pose proof (step_decreases _ _ _ n Hr E H2). specialize (IH _ _ n Hr1 H H3). lia.
Qed.

End Protocol.

(** * Non-vacuity: a concrete run that exercises waiting, hand-off, commit, a cancelled holder,
      the detached rollback task, and satisfies the hypotheses of the theorems above. *)
Definition exP : nat -> prog := fun i =>
  match i with
  | 0 => {| writes := [1; 2]%N; pfin := FCommit |}
  | 1 => {| writes := [3]%N; pfin := FDrop |}
  | 2 => {| writes := [4]%N; pfin := FCommit |}
  | _ => {| writes := []; pfin := FRollback |}
  end.
Definition ex_tr : list label :=
  [LStep 0; LStep 1; LStep 2; LStep 0; LStep 0; LStep 0; LStep 0; LStep 0;
   LStep 1; LStep 1; LCancel 1; LRb 1; LRb 1; LStep 2; LStep 2; LStep 2; LStep 2].

Example ex_db : option_map db (run exP init ex_tr) = Some [1; 2; 4]%N.
Proof. vm_compute. reflexivity. Qed.
Example ex_commits : commits_of exP init ex_tr = [0; 2].
Proof. vm_compute. reflexivity. Qed.
Example ex_reachable_waiting :
  exists s, reachable exP s /\ tpc (tasks s 1) = PWait /\ owns s (OwT 0) = true.
Proof.
  destruct (run exP init [LStep 0; LStep 1]) as [s|] eqn:E; [|vm_compute in E; discriminate].
  exists s. split; [exists [LStep 0; LStep 1]; exact E|].
  vm_compute in E. inversion E; subst. split; reflexivity.
Qed.
Example ex_reachable_rb_owner :
  exists s, reachable exP s /\ owns s (OwR 1) = true /\ tpc (tasks s 2) = PWait /\ slot s = Some [3%N].
Proof.
  destruct (run exP init (firstn 11 ex_tr)) as [s|] eqn:E; [|vm_compute in E; discriminate].
  exists s. split; [exists (firstn 11 ex_tr); exact E|].
  vm_compute in E. inversion E; subst. repeat split; reflexivity.
Qed.
Example ex_keys_distinct :
  forall a b k, In k (writes (exP a)) -> In k (writes (exP b)) -> a = b.
Proof.
  intros a b k.
  destruct a as [|[|[|a]]]; destruct b as [|[|[|b]]]; cbn; intros Ha Hb;
    try reflexivity; try contradiction;
    repeat match goal with H : _ \/ _ |- _ => destruct H end; try contradiction; subst; try discriminate.
Qed.
Example ex_actors_bounded : Forall (fun l => actor l < 3) ex_tr.
Proof. repeat constructor. Qed.
