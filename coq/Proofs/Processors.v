(** Proofs about the processor-stream model (C13).

    Structure: (1) sequential-run lemmas for an abstract processor, (2) the per-layer invariant
    [LInv] preserved by every step of the Buffer task, the pump and the consumer, (3) the stream
    invariant [SInv] (layers composed: what a layer received is what its upstream emitted),
    preserved by every label, hence by every schedule, (4) at quiescence the invariant gives
    "exactly once, in order" per layer ([scheck]) unless an item was dropped with a cancelled
    [next()] future, (5) that cannot happen in the cancel-safe class, (6) progress,
    (7) the refutation witness for composed processors.

    [peff] (the processors' behaviour) is opaque in all proofs below: the theorems hold for any
    effect function, in particular for FIFO, re-ordering and failing processors. *)
From Coq Require Import List Arith NArith Bool Lia Permutation.
From PV Require Import Model.Processors.
Import ListNotations.

(** * 1. Sequential runs *)

Lemma run_snoc p xs x : run p (xs ++ [x]) = runf p (run p xs) x.
Proof. unfold run. rewrite fold_left_app. reflexivity. Qed.

Lemma run_snoc_peff p xs x h' ps er :
  peff p (heldof p xs) x = (h', ps, er) ->
  heldof p (xs ++ [x]) = h' /\
  pushes p (xs ++ [x]) = pushes p xs ++ ps /\
  failed p (xs ++ [x]) = (if er then failed p xs ++ [x] else failed p xs).
Proof.
  unfold heldof, pushes, failed. rewrite run_snoc.
  destruct (run p xs) as [[h q] e]. cbn [fst snd]. unfold runf. intros ->.
  cbn [fst snd]. auto.
Qed.

Lemma run_nil p : heldof p [] = [] /\ pushes p [] = [] /\ failed p [] = [].
Proof. unfold heldof, pushes, failed, run. cbn. auto. Qed.

Global Opaque peff slowb run.

(** * Projections distribute over append *)

Lemma projQ_app a b : projQ (a ++ b) = projQ a ++ projQ b.
Proof. apply flat_map_app. Qed.
Lemma projQ1_app a b : projQ1 (a ++ b) = projQ1 a ++ projQ1 b.
Proof. apply flat_map_app. Qed.
Lemma projP1_app a b : projP1 (a ++ b) = projP1 a ++ projP1 b.
Proof. apply flat_map_app. Qed.
Lemma projP2_app a b : projP2 (a ++ b) = projP2 a ++ projP2 b.
Proof. apply flat_map_app. Qed.
Lemma oks_app a b : oks (a ++ b) = oks a ++ oks b.
Proof. apply flat_map_app. Qed.
Lemma ers_app a b : ers (a ++ b) = ers a ++ ers b.
Proof. apply flat_map_app. Qed.
Lemma okitems_app a b : okitems (a ++ b) = okitems a ++ okitems b.
Proof. unfold okitems. rewrite projQ_app. apply oks_app. Qed.
Lemma nonok_app a b : nonok (a ++ b) = nonok a ++ nonok b.
Proof. apply filter_app. Qed.

Lemma res_eqb_eq a b : res_eqb a b = true -> a = b.
Proof.
  destruct a, b; cbn; intros H; try discriminate; apply N.eqb_eq in H; now subst.
Qed.
Lemma res_eqb_refl a : res_eqb a a = true.
Proof. destruct a; cbn; apply N.eqb_refl. Qed.
Lemma out_eqb_eq a b : out_eqb a b = true -> a = b.
Proof.
  destruct a, b; cbn; intros H; try discriminate;
    try (apply res_eqb_eq in H; now subst); apply N.eqb_eq in H; now subst.
Qed.
Lemma out_eqb_refl a : out_eqb a a = true.
Proof. destruct a; cbn; try apply res_eqb_refl; apply N.eqb_refl. Qed.

Lemma eqb_list_refl {A} (e : A -> A -> bool) (l : list A) :
  (forall x, e x x = true) -> eqb_list e l l = true.
Proof. intros R. induction l; cbn; [reflexivity|]. now rewrite R, IHl. Qed.
Lemma eqb_list_eq {A} (e : A -> A -> bool) (a b : list A) :
  (forall x y, e x y = true -> x = y) -> eqb_list e a b = true -> a = b.
Proof.
  intros R. revert b. induction a as [|x a IH]; intros [|y b] H; cbn in H; try discriminate; auto.
  apply andb_true_iff in H as [H1 H2]. f_equal; auto.
Qed.

(** * 2. The per-layer invariant *)

Definition cur (t : task) : list N := match t with TProc x => [x] | TSel _ => [] end.
Definition infl (t : task) : list N := match t with TSel (NHand y) => [y] | _ => [] end.

Definition LRest (c : lcfg) (l : layer) : Prop :=
  match c with
  | Single p =>
      pushes p (done1 l) = projQ (hist l) ++ q1 l /\ projQ1 (hist l) = [] /\ projP2 (hist l) = []
      /\ infl (tk l) = [] /\ lost l = [] /\ q2 l = []
  | Comp p1 p2 =>
      pushes p1 (done1 l) = pop1 l ++ q1 l /\ projQ1 (hist l) = ers (pop1 l)
      /\ held2 l = heldof p2 (done2 l) /\ pushes p2 (done2 l) = projQ (hist l) ++ q2 l
      /\ projP2 (hist l) = failed p2 (done2 l)
      /\ (lost l = [] -> oks (pop1 l) = done2 l ++ infl (tk l))
      /\ ((forall y, slowb p2 y = false) -> lost l = [])
      /\ Permutation (oks (pop1 l)) (done2 l ++ infl (tk l) ++ lost l)
  end.

Record LInv (c : lcfg) (l : layer) : Prop := mkLInv {
  i_ins : ins l = done1 l ++ cur (tk l) ++ inq l;
  i_held1 : held1 l = heldof (firstp c) (done1 l);
  i_p1 : projP1 (hist l) = failed (firstp c) (done1 l);
  i_hist : hist l = emitted l ++ outq l;
  i_rest : LRest c l
}.

Lemma LInv_empty c : LInv c empty_layer.
Proof.
  destruct (run_nil (firstp c)) as (H1 & H2 & H3).
  split; cbn; auto.
  destruct c as [p|p1 p2]; cbn.
  - destruct (run_nil p) as (A & B & C). rewrite B. repeat split; auto.
  - destruct (run_nil p1) as (A & B & C). destruct (run_nil p2) as (A2 & B2 & C2).
    rewrite B, A2, B2, C2. repeat split; auto.
Qed.

Ltac inv_some :=
  match goal with
  | H : Some _ = Some _ |- _ => injection H as <-
  end.

(** One step of the Buffer task keeps the invariant and touches neither the record of what came
    in nor of what was taken out. *)
Lemma lstep_inv c l a l' :
  lstep c l a = Some l' -> LInv c l ->
  LInv c l' /\ ins l' = ins l /\ emitted l' = emitted l /\ side l' = side l.
Proof.
  intros H [Iins Iheld Ip1 Ihist Irest].
  destruct l as [inq0 h1 q10 h2 q20 tk0 outq0 ins0 side0 d1 p1l d2 lost0 hist0 em0].
  cbn [inq held1 q1 held2 q2 tk outq ins side done1 pop1 done2 lost hist emitted] in *.
  unfold lstep in H. cbn [inq held1 q1 held2 q2 tk outq ins side done1 pop1 done2 lost hist emitted] in H.
  destruct a as [o|x|x|r|r|y].
  - (* Pull is not a task step *) destruct tk0; discriminate.
  - (* Recv *)
    destruct tk0 as [m|x0]; [|discriminate].
    destruct inq0 as [|x' rest]; [discriminate|].
    destruct (N.eqb x x' && cancellable c m) eqn:E; [|discriminate].
    inv_some. apply andb_true_iff in E as [Ex Ec]. apply N.eqb_eq in Ex. subst x'.
    cbn [ins emitted side]. split; [|auto].
    split; cbn [inq held1 q1 held2 q2 tk outq ins side done1 pop1 done2 lost hist emitted].
    + cbn [cur] in *. exact Iins.
    + exact Iheld.
    + exact Ip1.
    + exact Ihist.
    + destruct c as [p|pa pb]; cbn [LRest] in *; cbn [inq held1 q1 held2 q2 tk outq ins side done1 pop1 done2 lost hist emitted] in *.
      * destruct Irest as (A & B & C & D & E & F). cbn [infl] in D.
        destruct m as [|y]; [|discriminate D]. cbn [inflight]. rewrite app_nil_r.
        repeat split; auto.
      * destruct Irest as (A & B & C & D & E & F & G & P).
        repeat split; auto.
        -- intros Hl. apply app_eq_nil in Hl as [Hl Hm].
           destruct m as [|y]; [|discriminate Hm]. cbn [infl] in *. auto.
        -- intros Hs. destruct m as [|y]; cbn [inflight].
           ++ rewrite app_nil_r. auto.
           ++ cbn [cancellable] in Ec. rewrite Hs in Ec. discriminate.
        -- cbn [infl]. destruct m as [|y]; cbn [inflight infl] in *.
           ++ rewrite app_nil_r. exact P.
           ++ cbn [app] in *. eapply perm_trans; [exact P|].
              apply Permutation_app_head. apply Permutation_cons_append.
  - (* ProcEnd *)
    destruct tk0 as [m|x0]; [destruct m; discriminate|].
    destruct (N.eqb x x0) eqn:Ex; [|discriminate]. apply N.eqb_eq in Ex. subst x0.
    destruct (peff (firstp c) h1 x) as [[h' ps] er] eqn:Ep.
    inv_some. cbn [ins emitted side]. split; [|auto].
    rewrite Iheld in Ep. destruct (run_snoc_peff _ _ _ _ _ _ Ep) as (R1 & R2 & R3).
    assert (HQ : projQ (hist0 ++ (if er then [OP1 x] else [])) = projQ hist0)
      by (rewrite projQ_app; destruct er; cbn; apply app_nil_r).
    assert (HQ1 : projQ1 (hist0 ++ (if er then [OP1 x] else [])) = projQ1 hist0)
      by (rewrite projQ1_app; destruct er; cbn; apply app_nil_r).
    assert (HP2 : projP2 (hist0 ++ (if er then [OP1 x] else [])) = projP2 hist0)
      by (rewrite projP2_app; destruct er; cbn; apply app_nil_r).
    split; cbn [inq held1 q1 held2 q2 tk outq ins side done1 pop1 done2 lost hist emitted].
    + cbn [cur app] in *. rewrite Iins. rewrite <- app_assoc. reflexivity.
    + symmetry. exact R1.
    + rewrite projP1_app, R3, Ip1. destruct er; cbn; [reflexivity|apply app_nil_r].
    + rewrite Ihist. symmetry. apply app_assoc.
    + destruct c as [p|pa pb]; cbn [LRest firstp] in *; cbn [inq held1 q1 held2 q2 tk outq ins side done1 pop1 done2 lost hist emitted] in *.
      * destruct Irest as (A & B & C & D & E & F).
        rewrite HQ, HQ1, HP2, R2, A. rewrite app_assoc. repeat split; auto.
      * destruct Irest as (A & B & C & D & E & F & G & P).
        rewrite HQ, HQ1, HP2, R2, A. rewrite app_assoc. cbn [infl] in *.
        repeat split; auto.
  - (* Next *)
    destruct tk0 as [m|x0]; [|discriminate]. destruct m as [|y]; [|discriminate].
    destruct c as [p|pa pb]; cbn [LRest firstp] in *; cbn [inq held1 q1 held2 q2 tk outq ins side done1 pop1 done2 lost hist emitted] in *.
    + destruct q10 as [|r' rest]; [discriminate|].
      destruct (res_eqb r r'); [|discriminate]. inv_some. cbn [ins emitted side]. split; [|auto].
      destruct Irest as (A & B & C & D & E & F).
      split; cbn [inq held1 q1 held2 q2 tk outq ins side done1 pop1 done2 lost hist emitted]; cbn [LRest]; cbn [inq held1 q1 held2 q2 tk outq ins side done1 pop1 done2 lost hist emitted].
      * exact Iins.
      * exact Iheld.
      * rewrite projP1_app. cbn. rewrite app_nil_r. exact Ip1.
      * rewrite Ihist. symmetry. apply app_assoc.
      * rewrite projQ_app, projQ1_app, projP2_app. cbn. rewrite !app_nil_r, A, <- app_assoc.
        repeat split; auto.
    + destruct q20 as [|r' rest]; [discriminate|].
      destruct (res_eqb r r'); [|discriminate]. inv_some. cbn [ins emitted side]. split; [|auto].
      destruct Irest as (A & B & C & D & E & F & G & P).
      cbn [infl app] in F, P. rewrite ?app_nil_r in F.
      split; cbn [inq held1 q1 held2 q2 tk outq ins side done1 pop1 done2 lost hist emitted]; cbn [LRest infl app]; cbn [inq held1 q1 held2 q2 tk outq ins side done1 pop1 done2 lost hist emitted].
      * exact Iins.
      * exact Iheld.
      * rewrite projP1_app. cbn. rewrite app_nil_r. exact Ip1.
      * rewrite Ihist. symmetry. apply app_assoc.
      * rewrite projQ_app, projQ1_app, projP2_app. cbn. rewrite !app_nil_r, D, <- app_assoc.
        repeat split; auto.
  - (* Hand *)
    destruct tk0 as [m|x0]; [|discriminate]. destruct m as [|y]; [|discriminate].
    destruct c as [p|pa pb]; [discriminate|]. cbn [LRest firstp] in *; cbn [inq held1 q1 held2 q2 tk outq ins side done1 pop1 done2 lost hist emitted] in *.
    destruct q10 as [|r' rest]; [discriminate|].
    destruct (res_eqb r r'); [|discriminate].
    destruct Irest as (A & B & C & D & E & F & G & P). cbn [infl app] in *.
    rewrite ?app_nil_r in F.
    destruct r' as [y|y]; inv_some; (cbn [ins emitted side]; split; [|auto]).
    + split; cbn [inq held1 q1 held2 q2 tk outq ins side done1 pop1 done2 lost hist emitted]; cbn [LRest cur infl]; cbn [inq held1 q1 held2 q2 tk outq ins side done1 pop1 done2 lost hist emitted].
      * exact Iins.
      * exact Iheld.
      * exact Ip1.
      * exact Ihist.
      * rewrite A, <- app_assoc. rewrite oks_app, ers_app. cbn. rewrite !app_nil_r.
        repeat split; auto.
        -- intros Hl. rewrite (F Hl). reflexivity.
        -- eapply perm_trans; [apply Permutation_app_tail; exact P|].
           cbn [app]. rewrite <- app_assoc. apply Permutation_app_head.
           apply Permutation_sym, Permutation_cons_append.
    + split; cbn [inq held1 q1 held2 q2 tk outq ins side done1 pop1 done2 lost hist emitted]; cbn [LRest cur infl]; cbn [inq held1 q1 held2 q2 tk outq ins side done1 pop1 done2 lost hist emitted].
      * exact Iins.
      * exact Iheld.
      * rewrite projP1_app. cbn. rewrite app_nil_r. exact Ip1.
      * rewrite Ihist. symmetry. apply app_assoc.
      * rewrite projQ_app, projQ1_app, projP2_app, oks_app, ers_app. cbn. rewrite !app_nil_r.
        rewrite A, <- app_assoc, B. repeat split; auto.
  - (* HandEnd *)
    destruct tk0 as [m|x0]; [|discriminate]. destruct m as [|y']; [discriminate|].
    destruct c as [p|pa pb]; [discriminate|].
    destruct (N.eqb y y') eqn:Ey; [|discriminate]. apply N.eqb_eq in Ey. subst y'.
    destruct (peff pb h2 y) as [[h' ps] er] eqn:Ep. inv_some.
    cbn [ins emitted side]. split; [|auto].
    cbn [LRest firstp] in *; cbn [inq held1 q1 held2 q2 tk outq ins side done1 pop1 done2 lost hist emitted] in *.
    destruct Irest as (A & B & C & D & E & F & G & P). cbn [infl] in *.
    rewrite C in Ep. destruct (run_snoc_peff _ _ _ _ _ _ Ep) as (R1 & R2 & R3).
    assert (HQ : projQ (hist0 ++ (if er then [OP2 y] else [])) = projQ hist0)
      by (rewrite projQ_app; destruct er; cbn; apply app_nil_r).
    assert (HQ1 : projQ1 (hist0 ++ (if er then [OP2 y] else [])) = projQ1 hist0)
      by (rewrite projQ1_app; destruct er; cbn; apply app_nil_r).
    assert (HP1 : projP1 (hist0 ++ (if er then [OP2 y] else [])) = projP1 hist0)
      by (rewrite projP1_app; destruct er; cbn; apply app_nil_r).
    split; cbn [inq held1 q1 held2 q2 tk outq ins side done1 pop1 done2 lost hist emitted]; cbn [LRest cur infl]; cbn [inq held1 q1 held2 q2 tk outq ins side done1 pop1 done2 lost hist emitted].
    + exact Iins.
    + exact Iheld.
    + rewrite HP1. exact Ip1.
    + rewrite Ihist. symmetry. apply app_assoc.
    + rewrite HQ, HQ1, R2, D, <- app_assoc. repeat split; auto.
      * rewrite projP2_app, R3, E. destruct er; cbn; [reflexivity|apply app_nil_r].
      * intros Hl. rewrite (F Hl). now rewrite app_nil_r.
      * cbn [app] in *. rewrite <- app_assoc. exact P.
Qed.

(** The pump and the consumer. *)
Lemma LRest_io c i h1 q10 h2 q20 tk0 outq0 ins0 side0 d1 p1l d2 lost0 hist0 em0 i' s s' :
  LRest c (mkL i h1 q10 h2 q20 tk0 outq0 ins0 side0 d1 p1l d2 lost0 hist0 em0) ->
  LRest c (mkL i' h1 q10 h2 q20 tk0 outq0 s s' d1 p1l d2 lost0 hist0 em0).
Proof. destruct c; intros H; exact H. Qed.

Lemma accept_inv c l o :
  LInv c l ->
  LInv c (accept l o) /\ ins (accept l o) = ins l ++ okitems [o] /\
  side (accept l o) = side l ++ nonok [o] /\ emitted (accept l o) = emitted l.
Proof.
  intros [Iins Iheld Ip1 Ihist Irest].
  destruct l as [inq0 h1 q10 h2 q20 tk0 outq0 ins0 side0 d1 p1l d2 lost0 hist0 em0].
  cbn [inq held1 q1 held2 q2 tk outq ins side done1 pop1 done2 lost hist emitted] in *.
  assert (Hok : forall y, LInv c (accept (mkL inq0 h1 q10 h2 q20 tk0 outq0 ins0 side0 d1 p1l d2 lost0 hist0 em0) (OQ (Ok y)))).
  { intros y. cbn [accept]. cbn [inq held1 q1 held2 q2 tk outq ins side done1 pop1 done2 lost hist emitted].
    split; cbn [inq held1 q1 held2 q2 tk outq ins side done1 pop1 done2 lost hist emitted]; auto;
      try (eapply LRest_io; exact Irest).
    rewrite Iins, <- !app_assoc. reflexivity. }
  assert (Hno : forall o', LInv c (mkL inq0 h1 q10 h2 q20 tk0 outq0 ins0 (side0 ++ [o']) d1 p1l d2 lost0 hist0 em0)).
  { intros o'. split; cbn [inq held1 q1 held2 q2 tk outq ins side done1 pop1 done2 lost hist emitted]; auto;
      try (eapply LRest_io; exact Irest). }
  destruct o as [[y|y]|x|x|x].
  - split; [apply Hok|]. cbn. rewrite app_nil_r. auto.
  - split; [apply Hno|]. cbn. rewrite app_nil_r. auto.
  - split; [apply Hno|]. cbn. rewrite app_nil_r. auto.
  - split; [apply Hno|]. cbn. rewrite app_nil_r. auto.
  - split; [apply Hno|]. cbn. rewrite app_nil_r. auto.
Qed.

Lemma take_inv c l o l' :
  take l = Some (o, l') -> LInv c l ->
  LInv c l' /\ ins l' = ins l /\ side l' = side l /\ emitted l' = emitted l ++ [o]
  /\ lost l' = lost l.
Proof.
  intros H [Iins Iheld Ip1 Ihist Irest].
  destruct l as [inq0 h1 q10 h2 q20 tk0 outq0 ins0 side0 d1 p1l d2 lost0 hist0 em0].
  unfold take in H.
  cbn [inq held1 q1 held2 q2 tk outq ins side done1 pop1 done2 lost hist emitted] in *.
  destruct outq0 as [|o' r]; [discriminate|]. injection H as <- <-.
  cbn [inq held1 q1 held2 q2 tk outq ins side done1 pop1 done2 lost hist emitted].
  split; [|auto].
  split; cbn [inq held1 q1 held2 q2 tk outq ins side done1 pop1 done2 lost hist emitted]; auto;
    try (destruct c; exact Irest).
  all: rewrite Ihist, <- app_assoc; reflexivity.
Qed.

(** * 3. The stream invariant: layers composed *)

Fixpoint src_all (s : stream) : list N :=
  match s with Src gone rest => gone ++ rest | Lay _ up _ => src_all up end.

Fixpoint SInv (s : stream) : Prop :=
  match s with
  | Src _ _ => True
  | Lay c up l =>
      SInv up /\ LInv c l /\ ins l = okitems (emitted_of up) /\ side l = nonok (emitted_of up)
  end.

Lemma emit_inv s o s' :
  emit s = Some (o, s') -> SInv s ->
  SInv s' /\ emitted_of s' = emitted_of s ++ [o] /\ src_all s' = src_all s /\ shape s' = shape s
  /\ lost_of s' = lost_of s.
Proof.
  destruct s as [gone rest|c up l]; cbn [emit].
  - destruct rest as [|x r]; [discriminate|]. intros H _. injection H as <- <-.
    cbn. rewrite map_app, <- app_assoc. cbn. auto.
  - destruct (take l) as [[o' l']|] eqn:T; [|discriminate]. intros H. injection H as <- <-.
    intros (Su & Li & Hi & Hs). destruct (take_inv _ _ _ _ T Li) as (Li' & A & B & C & D).
    cbn [SInv emitted_of src_all shape lost_of]. rewrite A, B, C, D. auto.
Qed.

Lemma step_inv s : forall d a s',
  step s d a = Some s' -> SInv s ->
  SInv s' /\ emitted_of s' = emitted_of s /\ src_all s' = src_all s /\ shape s' = shape s.
Proof.
  induction s as [gone rest|c up IH l]; intros d a s' H I; [discriminate|].
  destruct I as (Su & Li & Hi & Hs). cbn [step] in H.
  destruct d as [|d'].
  - destruct a as [o|x|x|r|r|y].
    + destruct (emit up) as [[o' up']|] eqn:E; [|discriminate].
      destruct (out_eqb o o'); [|discriminate]. injection H as <-.
      destruct (emit_inv _ _ _ E Su) as (Su' & A & B & C & D).
      destruct (accept_inv c l o' Li) as (Li' & A' & B' & C').
      cbn [SInv emitted_of src_all shape]. rewrite A, okitems_app, nonok_app, A', B', C', Hi, Hs, B, C.
      auto.
    + destruct (lstep c l (Recv x)) as [l'|] eqn:E; [|discriminate]. injection H as <-.
      destruct (lstep_inv _ _ _ _ E Li) as (Li' & A & B & C).
      cbn [SInv emitted_of src_all shape]. rewrite A, B, C. auto.
    + destruct (lstep c l (ProcEnd x)) as [l'|] eqn:E; [|discriminate]. injection H as <-.
      destruct (lstep_inv _ _ _ _ E Li) as (Li' & A & B & C).
      cbn [SInv emitted_of src_all shape]. rewrite A, B, C. auto.
    + destruct (lstep c l (Next r)) as [l'|] eqn:E; [|discriminate]. injection H as <-.
      destruct (lstep_inv _ _ _ _ E Li) as (Li' & A & B & C).
      cbn [SInv emitted_of src_all shape]. rewrite A, B, C. auto.
    + destruct (lstep c l (Hand r)) as [l'|] eqn:E; [|discriminate]. injection H as <-.
      destruct (lstep_inv _ _ _ _ E Li) as (Li' & A & B & C).
      cbn [SInv emitted_of src_all shape]. rewrite A, B, C. auto.
    + destruct (lstep c l (HandEnd y)) as [l'|] eqn:E; [|discriminate]. injection H as <-.
      destruct (lstep_inv _ _ _ _ E Li) as (Li' & A & B & C).
      cbn [SInv emitted_of src_all shape]. rewrite A, B, C. auto.
  - destruct (step up d' a) as [up'|] eqn:E; [|discriminate]. injection H as <-.
    destruct (IH _ _ _ E Su) as (Su' & A & B & C).
    cbn [SInv emitted_of src_all shape]. rewrite A, B, C. auto.
Qed.

Lemma tstep_inv s a s' :
  tstep s a = Some s' -> SInv s -> SInv s' /\ src_all s' = src_all s /\ shape s' = shape s.
Proof.
  destruct a as [d b|o]; cbn [tstep]; intros H I.
  - destruct (step_inv _ _ _ _ H I) as (A & B & C & D). auto.
  - destruct (emit s) as [[o' s'']|] eqn:E; [|discriminate].
    destruct (out_eqb o o'); [|discriminate]. injection H as <-.
    destruct (emit_inv _ _ _ E I) as (A & B & C & D & _). auto.
Qed.

Lemma run_trace_inv tr : forall s s',
  run_trace s tr = Some s' -> SInv s -> SInv s' /\ src_all s' = src_all s /\ shape s' = shape s.
Proof.
  induction tr as [|a r IH]; intros s s' H I; cbn [run_trace] in H.
  - injection H as <-. auto.
  - destruct (tstep s a) as [s1|] eqn:E; [|discriminate].
    destruct (tstep_inv _ _ _ E I) as (I1 & A & B).
    destruct (IH _ _ H I1) as (I2 & A2 & B2). rewrite A2, B2. auto.
Qed.

Definition fresh (s : stream) : Prop := emitted_of s = [].

Lemma build_inv cs : forall acc,
  SInv acc -> fresh acc ->
  SInv (build cs acc) /\ src_all (build cs acc) = src_all acc
  /\ shape (build cs acc) = shape acc ++ cs.
Proof.
  induction cs as [|c r IH]; intros acc I F; cbn [build].
  - rewrite app_nil_r. auto.
  - destruct (IH (Lay c acc empty_layer)) as (A & B & C).
    + cbn [SInv]. rewrite F. repeat split; auto. apply LInv_empty.
    + reflexivity.
    + split; [exact A|]. split; [exact B|]. rewrite C. cbn [shape]. now rewrite <- app_assoc.
Qed.

Lemma init_inv cs xs : SInv (init cs xs) /\ src_all (init cs xs) = xs /\ shape (init cs xs) = cs.
Proof.
  unfold init. destruct (build_inv cs (Src [] xs) I eq_refl) as (A & B & C). auto.
Qed.

(** * 4. At quiescence: exactly once, in order, unless an item went with a dropped future *)

Lemma lquiet_inv l :
  lquiet l = true -> inq l = [] /\ q1 l = [] /\ q2 l = [] /\ outq l = [] /\ tk l = TSel NIdle.
Proof.
  unfold lquiet. destruct (inq l), (q1 l), (q2 l), (outq l), (tk l) as [[|y]|x]; try discriminate.
  auto.
Qed.

Lemma lcheck_quiet c l :
  LInv c l -> lquiet l = true -> lost l = [] -> lcheck c (ins l) (emitted l) = true.
Proof.
  intros [Iins Iheld Ip1 Ihist Irest] Q Hl.
  destruct (lquiet_inv _ Q) as (Q1 & Q2 & Q3 & Q4 & Q5).
  rewrite Q5, Q1 in Iins. cbn [cur app] in Iins. rewrite app_nil_r in Iins.
  rewrite Q4, app_nil_r in Ihist.
  destruct c as [p|p1 p2]; cbn [LRest firstp lcheck] in *.
  - destruct Irest as (A & B & C & D & E & F).
    rewrite Q2, app_nil_r in A.
    rewrite <- Ihist, Iins, <- A, Ip1, B, C.
    rewrite !eqb_list_refl; auto using res_eqb_refl, N.eqb_refl.
  - destruct Irest as (A & B & C & D & E & F & G & P).
    rewrite Q2, app_nil_r in A. rewrite Q3, app_nil_r in D.
    specialize (F Hl). rewrite Q5 in F. cbn [infl] in F. rewrite app_nil_r in F.
    rewrite <- Ihist, Iins, A, F, <- D, Ip1, B, E.
    rewrite !eqb_list_refl; auto using res_eqb_refl, N.eqb_refl.
Qed.

Lemma src_quiet gone rest : quiescent (Src gone rest) = true -> rest = [].
Proof. cbn. destruct rest; [auto|discriminate]. Qed.

Lemma scheck_quiet s :
  SInv s -> quiescent s = true -> lost_of s = [] -> scheck s (src_all s) = true.
Proof.
  induction s as [gone rest|c up IH l]; intros I Q Hl.
  - apply src_quiet in Q. subst rest. cbn. rewrite app_nil_r.
    apply eqb_list_refl, N.eqb_refl.
  - destruct I as (Su & Li & Hi & Hs). cbn [quiescent] in Q. apply andb_true_iff in Q as [Qu Ql].
    cbn [lost_of] in Hl. apply app_eq_nil in Hl as [Hlu Hll].
    cbn [scheck src_all]. rewrite <- Hi, (lcheck_quiet _ _ Li Ql Hll). cbn [andb]. auto.
Qed.

(** * 5. The cancel-safe class never loses an item *)

Lemma safe_no_loss s : SInv s -> safe s -> lost_of s = [].
Proof.
  induction s as [gone rest|c up IH l]; intros I S; [reflexivity|].
  destruct I as (Su & [_ _ _ _ Irest] & _). destruct S as [Sc Sup]. cbn [lost_of].
  rewrite (IH Su Sup). cbn [app].
  destruct c as [p|p1 p2]; cbn [LRest safe_cfg] in *.
  - tauto.
  - destruct Irest as (_ & _ & _ & _ & _ & _ & G & _). auto.
Qed.

Fixpoint safe_shape (cs : list lcfg) : Prop :=
  match cs with [] => True | c :: r => safe_cfg c /\ safe_shape r end.

Lemma safe_shape_app a b : safe_shape (a ++ b) <-> safe_shape a /\ safe_shape b.
Proof. induction a as [|c a IH]; cbn; tauto. Qed.

Lemma safe_of_shape s : safe_shape (shape s) -> safe s.
Proof.
  induction s as [gone rest|c up IH l]; cbn; [auto|].
  intros H. apply safe_shape_app in H as [Hu [Hc _]]. auto.
Qed.

(** Schedules in which no [Recv] drops an item-holding [next()] future. *)
Fixpoint no_drop (s : stream) (tr : list label) : bool :=
  match tr with
  | [] => true
  | a :: r =>
      match tstep s a with
      | Some s' => negb (drops_item s a) && no_drop s' r
      | None => true
      end
  end.

Lemma no_drop_no_loss tr : forall s s',
  run_trace s tr = Some s' -> no_drop s tr = true -> lost_of s = [] -> lost_of s' = [].
Proof.
  induction tr as [|a r IH]; intros s s' H ND Hl; cbn [run_trace no_drop] in *.
  - injection H as <-. exact Hl.
  - destruct (tstep s a) as [s1|] eqn:E; [|discriminate].
    apply andb_true_iff in ND as [N1 N2]. apply (IH _ _ H N2).
    unfold drops_item in N1. rewrite E in N1. apply negb_true_iff, negb_false_iff in N1.
    apply Nat.eqb_eq in N1. rewrite Hl in N1. cbn in N1.
    destruct (lost_of s1); [reflexivity|discriminate].
Qed.

Lemma init_no_loss cs xs : lost_of (init cs xs) = [].
Proof.
  unfold init. generalize (Src [] xs) (eq_refl : lost_of (Src [] xs) = []).
  induction cs as [|c r IH]; intros acc H; cbn [build]; [exact H|].
  apply IH. cbn [lost_of]. rewrite H. reflexivity.
Qed.

(** * Main theorems over schedules *)

(** Every schedule of a stream built from cancel-safe layers (any number of layers, each its own
    Buffer; composed layers only with a second processor whose [process] does not suspend):
    when nothing is left to do, every layer has delivered exactly what the sequential run of its
    processors yields on what it received, in order. *)
Theorem exactly_once_in_order_safe cs xs tr s' :
  safe_shape cs ->
  run_trace (init cs xs) tr = Some s' -> quiescent s' = true -> scheck s' xs = true.
Proof.
  intros S H Q. destruct (init_inv cs xs) as (I0 & A0 & B0).
  destruct (run_trace_inv _ _ _ H I0) as (I & A & B).
  rewrite <- A0, <- A. apply scheck_quiet; auto.
  apply safe_no_loss; auto. apply safe_of_shape. rewrite B, B0. exact S.
Qed.

(** Any shape, any schedule that contains no item-dropping [Recv]. *)
Theorem exactly_once_in_order_no_drop cs xs tr s' :
  run_trace (init cs xs) tr = Some s' -> no_drop (init cs xs) tr = true ->
  quiescent s' = true -> scheck s' xs = true.
Proof.
  intros H ND Q. destruct (init_inv cs xs) as (I0 & A0 & B0).
  destruct (run_trace_inv _ _ _ H I0) as (I & A & B).
  rewrite <- A0, <- A. apply scheck_quiet; auto.
  eapply no_drop_no_loss; eauto. apply init_no_loss.
Qed.

(** End to end: the Ok items leaving the last layer are the chain specification. *)
Lemma scheck_chain s xs :
  scheck s xs = true -> okitems (emitted_of s) = chain_spec (shape s) xs.
Proof.
  revert xs. induction s as [gone rest|c up IH l]; intros xs H; cbn [scheck] in H.
  - apply eqb_list_eq in H; [|intros x y; apply N.eqb_eq]. subst xs. cbn [emitted_of shape chain_spec fold_left].
    unfold okitems. induction gone as [|g r IHg]; cbn; [reflexivity|]. f_equal. exact IHg.
  - apply andb_true_iff in H as [H1 H2]. specialize (IH _ H2).
    cbn [shape emitted_of]. unfold chain_spec in *. rewrite fold_left_app. cbn [fold_left].
    rewrite <- IH. unfold okitems at 1.
    destruct c as [p|p1 p2]; cbn [lcheck lspec] in *;
      repeat (apply andb_true_iff in H1 as [H1 ?]);
      apply eqb_list_eq in H1; auto using res_eqb_eq; now rewrite H1.
Qed.

Theorem fifo_preserved_safe cs xs tr s' :
  safe_shape cs ->
  run_trace (init cs xs) tr = Some s' -> quiescent s' = true ->
  okitems (emitted_of s') = chain_spec cs xs.
Proof.
  intros S H Q. destruct (init_inv cs xs) as (I0 & A0 & B0).
  destruct (run_trace_inv _ _ _ H I0) as (I & A & B).
  rewrite <- B0, <- B. apply scheck_chain. eapply exactly_once_in_order_safe; eauto.
Qed.

(** A FIFO processor that never fails: the sequential run is "add the tag", so the chain
    specification of FIFO layers is the input order itself (tags added). *)
Definition fifo (p : pcfg) : Prop := perrs p = [] /\ nerrs p = [] /\ grp p <= 1.

(** Loss accounting for every schedule and every shape: whatever was dequeued from the first
    processor of a composed layer was processed by the second one, is being processed, or went
    with a dropped future ([lost]) — nothing disappears anywhere else. *)
Theorem loss_accounting c up l :
  SInv (Lay c up l) ->
  match c with
  | Single _ => lost l = []
  | Comp _ _ => Permutation (oks (pop1 l)) (done2 l ++ infl (tk l) ++ lost l)
  end.
Proof.
  intros (_ & [_ _ _ _ Irest] & _). destruct c; cbn [LRest] in Irest; tauto.
Qed.

(** * 6. Progress: a state that is not quiescent has an enabled label (no deadlock in the
    model; together with the theorems above: every maximal schedule ends exactly-once). *)

Lemma lprogress c l :
  LInv c l -> lquiet l = false -> (exists a l', lstep c l a = Some l') \/ outq l <> [].
Proof.
  intros [_ _ _ _ Irest] Q.
  destruct l as [inq0 h1 q10 h2 q20 tk0 outq0 ins0 side0 d1 p1l d2 lost0 hist0 em0].
  unfold lquiet in Q. unfold lstep.
  cbn [inq held1 q1 held2 q2 tk outq ins side done1 pop1 done2 lost hist emitted] in *.
  destruct tk0 as [[|y]|x].
  - destruct inq0 as [|x r].
    + destruct q10 as [|r1 rest1].
      * destruct q20 as [|r2 rest2].
        -- destruct outq0; [discriminate|]. right. discriminate.
        -- destruct c as [p|p1 p2]; cbn [LRest] in Irest;
             cbn [inq held1 q1 held2 q2 tk outq ins side done1 pop1 done2 lost hist emitted] in Irest.
           ++ destruct Irest as (_ & _ & _ & _ & _ & F). discriminate F.
           ++ left. exists (Next r2). cbn. rewrite res_eqb_refl. eauto.
      * left. destruct c as [p|p1 p2].
        -- exists (Next r1). cbn. rewrite res_eqb_refl. eauto.
        -- exists (Hand r1). cbn. rewrite res_eqb_refl. destruct r1; eauto.
    + left. exists (Recv x). cbn. rewrite N.eqb_refl. cbn. eauto.
  - destruct c as [p|p1 p2]; cbn [LRest] in Irest;
      cbn [inq held1 q1 held2 q2 tk outq ins side done1 pop1 done2 lost hist emitted infl] in Irest.
    + destruct Irest as (_ & _ & _ & D & _). discriminate D.
    + left. exists (HandEnd y). cbn. rewrite N.eqb_refl.
      destruct (peff p2 h2 y) as [[h' ps] er]. eauto.
  - left. exists (ProcEnd x). cbn. rewrite N.eqb_refl.
    destruct (peff (firstp c) h1 x) as [[h' ps] er]. eauto.
Qed.

Lemma sprogress s :
  SInv s -> quiescent s = false ->
  (exists d a s', step s d a = Some s') \/ (exists o s', emit s = Some (o, s')).
Proof.
  induction s as [gone rest|c up IH l]; intros I Q.
  - right. cbn in *. destruct rest as [|x r]; [discriminate|]. eauto.
  - destruct I as (Su & Li & _). cbn [quiescent] in Q.
    destruct (quiescent up) eqn:Qu.
    + cbn [andb] in Q. destruct (lprogress _ _ Li Q) as [(a & l' & E)|Ho].
      * left. exists 0, a.
        destruct a as [o|x|x|r|r|y]; cbn [step]; try (rewrite E; eauto).
        unfold lstep in E. destruct (tk l); discriminate.
      * right. cbn [emit]. unfold take. destruct (outq l); [congruence|]. eauto.
    + destruct (IH Su eq_refl) as [(d & a & up' & E)|(o & up' & E)].
      * left. exists (S d), a. cbn [step]. rewrite E. eauto.
      * left. exists 0, (Pull o). cbn [step]. rewrite E, out_eqb_refl. eauto.
Qed.

Theorem progress cs xs tr s :
  run_trace (init cs xs) tr = Some s -> quiescent s = false -> exists a s', tstep s a = Some s'.
Proof.
  intros H Q. destruct (init_inv cs xs) as (I0 & _). destruct (run_trace_inv _ _ _ H I0) as (I & _).
  destruct (sprogress _ I Q) as [(d & a & s' & E)|(o & s' & E)].
  - exists (L d a), s'. exact E.
  - exists (Yield o), s'. cbn. rewrite E, out_eqb_refl. reflexivity.
Qed.

(** * 7. Refutation for composed processors, and non-vacuity examples *)

Definition pfifo (t : N) (d : list nat) : pcfg := mkP t [] [] 1 d false.

(** Two FIFO processors composed behind one Buffer; the second one's [process] yields once.
    Schedule: 1 arrives, is processed by the first processor, handed over (second.process(101)
    suspended), 2 arrives, the recv branch wins: the [next()] future holding 101 is dropped. *)
Definition wit_cfg : list lcfg := [Comp (pfifo 100 []) (pfifo 200 [1])].
Definition wit_in : list N := [1; 2]%N.
Definition wit_tr : list label :=
  [ L 0 (Pull (OQ (Ok 1))); L 0 (Recv 1); L 0 (ProcEnd 1); L 0 (Hand (Ok 101));
    L 0 (Pull (OQ (Ok 2))); L 0 (Recv 2); L 0 (ProcEnd 2); L 0 (Hand (Ok 102));
    L 0 (HandEnd 102); L 0 (Next (Ok 302)); Yield (OQ (Ok 302)) ]%N.

Theorem composed_refuted :
  exists cs xs tr s',
    run_trace (init cs xs) tr = Some s' /\ quiescent s' = true /\ scheck s' xs = false
    /\ okitems (emitted_of s') <> chain_spec cs xs.
Proof.
  exists wit_cfg, wit_in, wit_tr.
  destruct (run_trace (init wit_cfg wit_in) wit_tr) as [s'|] eqn:E; [|vm_compute in E; discriminate].
  exists s'. split; [reflexivity|].
  vm_compute in E. injection E as <-. vm_compute. repeat split; auto. discriminate.
Qed.

(** Non-vacuity of the safe-class theorems: a three-layer stream (FIFO single, composed with a
    non-suspending second processor, group-reversing single with failures) and a schedule that
    reaches quiescence. *)
Definition ex_cfg : list lcfg :=
  [Single (pfifo 100 [2]); Comp (mkP 0 [102%N] [] 1 [1] false) (pfifo 1000 [])].
Definition ex_in : list N := [1; 2]%N.
Definition ex_tr : list label :=
  [ L 1 (Pull (OQ (Ok 1))); L 1 (Pull (OQ (Ok 2))); L 1 (Recv 1); L 1 (ProcEnd 1); L 1 (Recv 2);
    L 1 (ProcEnd 2); L 1 (Next (Ok 101)); L 1 (Next (Ok 102));
    L 0 (Pull (OQ (Ok 101))); L 0 (Pull (OQ (Ok 102))); L 0 (Recv 101); L 0 (ProcEnd 101);
    L 0 (Hand (Ok 101)); L 0 (HandEnd 101); L 0 (Recv 102); L 0 (ProcEnd 102); L 0 (Next (Ok 1101));
    Yield (OP1 102); Yield (OQ (Ok 1101)) ]%N.

Lemma slowb_nil t y : slowb (pfifo t []) y = false.
Proof. Transparent slowb. reflexivity. Opaque slowb. Qed.

Example ex_safe : safe_shape ex_cfg.
Proof. cbn. repeat split; auto; try (intros y; apply slowb_nil). Qed.

Example ex_reaches_quiescence :
  exists s', run_trace (init ex_cfg ex_in) ex_tr = Some s' /\ quiescent s' = true
             /\ okitems (emitted_of s') = [1101%N] /\ emitted_of s' = [OP1 102%N; OQ (Ok 1101%N)].
Proof.
  destruct (run_trace (init ex_cfg ex_in) ex_tr) as [s'|] eqn:E; [|vm_compute in E; discriminate].
  exists s'. split; [reflexivity|]. vm_compute in E. injection E as <-. vm_compute. auto.
Qed.

(** Non-vacuity of [exactly_once_in_order_no_drop] on a configuration OUTSIDE the safe class:
    the witness configuration with the schedule in which 2 arrives only after the hand-over of
    101 has completed. *)
Definition nd_tr : list label :=
  [ L 0 (Pull (OQ (Ok 1))); L 0 (Recv 1); L 0 (ProcEnd 1); L 0 (Hand (Ok 101)); L 0 (HandEnd 101);
    L 0 (Pull (OQ (Ok 2))); L 0 (Recv 2); L 0 (ProcEnd 2); L 0 (Next (Ok 301)); L 0 (Hand (Ok 102));
    L 0 (HandEnd 102); L 0 (Next (Ok 302)); Yield (OQ (Ok 301)); Yield (OQ (Ok 302)) ]%N.

Example ex_no_drop :
  exists s', run_trace (init wit_cfg wit_in) nd_tr = Some s' /\ no_drop (init wit_cfg wit_in) nd_tr = true
             /\ quiescent s' = true /\ okitems (emitted_of s') = [301; 302]%N.
Proof.
  destruct (run_trace (init wit_cfg wit_in) nd_tr) as [s'|] eqn:E; [|vm_compute in E; discriminate].
  exists s'. split; [reflexivity|]. vm_compute in E. injection E as <-. vm_compute. auto.
Qed.

(** ... and the witness schedule is rejected by [no_drop] (the class is not empty). *)
Example wit_has_drop : no_drop (init wit_cfg wit_in) wit_tr = false.
Proof. vm_compute. reflexivity. Qed.

Theorem invariant_every_schedule cs xs tr s' :
  run_trace (init cs xs) tr = Some s' -> SInv s' /\ src_all s' = xs /\ shape s' = cs.
Proof.
  intros H. destruct (init_inv cs xs) as (I & A & B).
  destruct (run_trace_inv _ _ _ H I) as (I' & A' & B'). rewrite A', B'. auto.
Qed.

(** * 8. FIFO processors: the chain specification is the input order *)

Definition ltag (c : lcfg) : N := match c with Single p => tag p | Comp p1 p2 => N.add (tag p1) (tag p2) end.
Fixpoint sumtags (cs : list lcfg) : N := match cs with [] => 0%N | c :: r => N.add (ltag c) (sumtags r) end.
Definition fifo_cfg (c : lcfg) : Prop := match c with Single p => fifo p | Comp p1 p2 => fifo p1 /\ fifo p2 end.
Fixpoint fifo_shape (cs : list lcfg) : Prop := match cs with [] => True | c :: r => fifo_cfg c /\ fifo_shape r end.

Lemma fifo_peff p h x : fifo p -> peff p h x = (h, [Ok (N.add x (tag p))], false).
Proof.
  Transparent peff. intros (A & B & C). unfold peff. rewrite A, B. cbn [memN existsb].
  destruct (Nat.leb_spec (grp p) 1); [reflexivity|lia]. Opaque peff.
Qed.

Lemma fifo_run p : fifo p -> forall xs,
  pushes p xs = map (fun x => Ok (N.add x (tag p))) xs /\ failed p xs = [].
Proof.
  intros F xs. induction xs as [|x xs IH] using rev_ind.
  - destruct (run_nil p) as (_ & B & C). rewrite B, C. auto.
  - destruct IH as [IH1 IH2].
    destruct (run_snoc_peff p xs x _ _ _ (fifo_peff p (heldof p xs) x F)) as (_ & R2 & R3).
    rewrite R2, R3, IH1, IH2, map_app. auto.
Qed.

Lemma oks_map_Ok (f : N -> N) xs : oks (map (fun x => Ok (f x)) xs) = map f xs.
Proof. induction xs as [|x r IH]; cbn; [reflexivity|]. f_equal. exact IH. Qed.

Lemma fifo_lspec c I : fifo_cfg c -> lspec c I = map (fun x => N.add x (ltag c)) I.
Proof.
  destruct c as [p|p1 p2]; cbn [fifo_cfg lspec ltag].
  - intros F. destruct (fifo_run p F I) as [A _]. rewrite A. apply oks_map_Ok.
  - intros [F1 F2]. destruct (fifo_run p1 F1 I) as [A _]. rewrite A, oks_map_Ok.
    destruct (fifo_run p2 F2 (map (fun x => N.add x (tag p1)) I)) as [B _]. rewrite B, oks_map_Ok, map_map.
    apply map_ext. intros x. now rewrite N.add_assoc.
Qed.

Lemma fifo_chain cs : fifo_shape cs -> forall xs,
  chain_spec cs xs = map (fun x => N.add x (sumtags cs)) xs.
Proof.
  unfold chain_spec. induction cs as [|c r IH]; intros F xs; cbn [fold_left sumtags].
  - rewrite <- (map_id xs) at 1. apply map_ext. intros x. now rewrite N.add_0_r.
  - destruct F as [Fc Fr]. rewrite (IH Fr), (fifo_lspec c xs Fc), map_map.
    apply map_ext. intros x. now rewrite N.add_assoc.
Qed.

Theorem fifo_order_safe cs xs tr s' :
  safe_shape cs -> fifo_shape cs ->
  run_trace (init cs xs) tr = Some s' -> quiescent s' = true ->
  okitems (emitted_of s') = map (fun x => N.add x (sumtags cs)) xs.
Proof.
  intros S F H Q. rewrite <- (fifo_chain cs F). eapply fifo_preserved_safe; eauto.
Qed.

Example ex_fifo :
  safe_shape [Single (pfifo 100 [2]); Comp (pfifo 10 [1]) (pfifo 1000 [])] /\
  fifo_shape [Single (pfifo 100 [2]); Comp (pfifo 10 [1]) (pfifo 1000 [])].
Proof.
  cbn. unfold fifo. cbn. repeat split; auto; try (intros y; apply slowb_nil).
Qed.

(** * 9. At every moment: what a layer has emitted is a prefix of what it will have emitted
    (no duplicate, no re-ordering, at any point of any loss-free schedule). *)

Lemma fold_runf_pushes p : forall b st,
  exists extra, snd (fst (fold_left (runf p) b st)) = snd (fst st) ++ extra.
Proof.
  induction b as [|x b IH]; intros st; cbn [fold_left].
  - exists []. now rewrite app_nil_r.
  - destruct (IH (runf p st x)) as [e He]. rewrite He.
    destruct st as [[h q] e0]. unfold runf. destruct (peff p h x) as [[h' ps] er]. cbn [fst snd].
    exists (ps ++ e). now rewrite app_assoc.
Qed.

Lemma pushes_app_prefix p a b : exists extra, pushes p (a ++ b) = pushes p a ++ extra.
Proof.
  Transparent run. unfold pushes, run. rewrite fold_left_app. apply fold_runf_pushes. Opaque run.
Qed.

Definition specQ (c : lcfg) (I : list N) : list res :=
  match c with Single p => pushes p I | Comp p1 p2 => pushes p2 (oks (pushes p1 I)) end.

Theorem prefix_any_time c up l :
  SInv (Lay c up l) -> lost l = [] -> exists rest, specQ c (ins l) = projQ (emitted l) ++ rest.
Proof.
  intros (_ & [Iins _ _ Ihist Irest] & _) Hl.
  rewrite Iins. destruct (pushes_app_prefix (firstp c) (done1 l) (cur (tk l) ++ inq l)) as [e1 E1].
  assert (HQ : projQ (hist l) = projQ (emitted l) ++ projQ (outq l)) by (rewrite Ihist; apply projQ_app).
  destruct c as [p|p1 p2]; cbn [LRest firstp specQ] in *.
  - destruct Irest as (A & _). rewrite E1, A, HQ. rewrite <- !app_assoc. eauto.
  - destruct Irest as (A & _ & _ & D & _ & F & _). specialize (F Hl).
    rewrite E1, A, !oks_app, F. rewrite <- !app_assoc.
    destruct (pushes_app_prefix p2 (done2 l) (infl (tk l) ++ oks (q1 l) ++ oks e1)) as [e2 E2].
    rewrite E2, D, HQ. rewrite <- !app_assoc. eauto.
Qed.

(** * 10. Cancel-safe class: nothing is ever dropped, at any point of any schedule; a hand-over
    cannot be cancelled; budgeted [process] is outside the class. *)

(** Every reachable state (not only the quiescent ones) of every schedule of a stream built from
    cancel-safe layers: no item was dropped with a cancelled future. *)
Theorem nothing_dropped_safe cs xs tr s' :
  safe_shape cs -> run_trace (init cs xs) tr = Some s' -> lost_of s' = [].
Proof.
  intros S H. destruct (init_inv cs xs) as (I0 & A0 & B0).
  destruct (run_trace_inv _ _ _ H I0) as (I & A & B).
  apply safe_no_loss; auto. apply safe_of_shape. rewrite B, B0. exact S.
Qed.

(** In a cancel-safe layer the recv branch of Buffer's select! cannot win while the composed
    [next()] holds an intermediate item: the model has no such step (so an implementation trace
    showing an input received between [Hand (Ok y)] and [HandEnd y] is not a trace of the model). *)
Theorem handover_not_cancellable_safe c l y x :
  safe_cfg c -> tk l = TSel (NHand y) -> lstep c l (Recv x) = None.
Proof.
  intros S T. unfold lstep. rewrite T. destruct (inq l) as [|x' r]; [reflexivity|].
  destruct c as [p|p1 p2]; cbn [cancellable safe_cfg] in *.
  - now rewrite andb_false_r.
  - now rewrite S, andb_false_r.
Qed.

(** ... and in ANY layer a step that loses something is a [Recv] taken while an item is in hand
    whose [second.process] can suspend. *)
Theorem loss_only_by_cancelled_handover c l a l' :
  lstep c l a = Some l' -> lost l' <> lost l ->
  exists x y p1 p2, a = Recv x /\ tk l = TSel (NHand y) /\ c = Comp p1 p2 /\ slowb p2 y = true
                    /\ lost l' = lost l ++ [y].
Proof.
  intros H NE. unfold lstep in H.
  destruct a as [o|x|x|r|r|y0]; destruct (tk l) as [m|x0] eqn:T; try discriminate.
  - (* Recv *)
    destruct (inq l) as [|x' rest]; [discriminate|].
    destruct (N.eqb x x' && cancellable c m) eqn:E; [|discriminate].
    injection H as <-. cbn [lost] in *. apply andb_true_iff in E as [_ Ec].
    destruct m as [|y]; cbn [inflight] in *; [rewrite app_nil_r in NE; contradiction|].
    destruct c as [p|p1 p2]; cbn [cancellable] in Ec; [discriminate|].
    exists x, y, p1, p2. auto.
  - (* ProcEnd *)
    destruct (N.eqb x x0); [|discriminate].
    destruct (peff (firstp c) (held1 l) x) as [[h' ps] er]. injection H as <-. cbn [lost] in NE. contradiction.
  - (* Next *)
    destruct m; [|discriminate].
    destruct c; [destruct (q1 l) as [|r' rest]|destruct (q2 l) as [|r' rest]]; try discriminate;
      (destruct (res_eqb r r'); [|discriminate]); injection H as <-; cbn [lost] in NE; contradiction.
  - (* Hand *)
    destruct m; [|discriminate]. destruct c; [discriminate|].
    destruct (q1 l) as [|r' rest]; [discriminate|]. destruct (res_eqb r r'); [|discriminate].
    destruct r'; injection H as <-; cbn [lost] in NE; contradiction.
  - (* HandEnd *)
    destruct m as [|y']; [discriminate|]. destruct c as [|p1 p2]; [discriminate|].
    destruct (N.eqb y0 y'); [|discriminate].
    destruct (peff p2 (held2 l) y0) as [[h' ps] er]. injection H as <-. cbn [lost] in NE. contradiction.
Qed.

(** A second processor whose [process] passes a budgeted tokio resource is never in the
    cancel-safe class, whatever its yield counts. *)
Theorem budgeted_process_is_suspending p y : bproc p = true -> slowb p y = true.
Proof. Transparent slowb. unfold slowb. intros ->. reflexivity. Opaque slowb. Qed.

Example ex_budgeted_not_safe :
  ~ safe_shape [Comp (pfifo 100 []) (mkP 1000 [] [] 1 [] true)].
Proof. cbn. intros [H _]. specialize (H 0%N). rewrite budgeted_process_is_suspending in H; [discriminate|reflexivity]. Qed.

(** Non-vacuity of [nothing_dropped_safe] / [handover_not_cancellable_safe]: a burst released by
    a group-reversing first processor (3 items at once) in a cancel-safe composed layer; in the
    state after [Hand (Ok 103)] the arrival of input 4 cannot be received. *)
Definition burst_cfg : list lcfg := [Comp (mkP 100 [] [] 3 [] false) (pfifo 1000 [])].
Definition burst_in : list N := [1; 2; 3; 4]%N.
Definition burst_tr : list label :=
  [ L 0 (Pull (OQ (Ok 1))); L 0 (Recv 1); L 0 (ProcEnd 1); L 0 (Pull (OQ (Ok 2))); L 0 (Recv 2); L 0 (ProcEnd 2);
    L 0 (Pull (OQ (Ok 3))); L 0 (Recv 3); L 0 (ProcEnd 3); L 0 (Pull (OQ (Ok 4))); L 0 (Hand (Ok 103)) ]%N.

Example ex_burst_safe : safe_shape burst_cfg.
Proof. cbn. repeat split; auto; try (intros y; apply slowb_nil). Qed.

Example ex_burst_recv_rejected :
  exists s, run_trace (init burst_cfg burst_in) burst_tr = Some s /\ lost_of s = []
            /\ tstep s (L 0 (Recv 4%N)) = None /\ exists s', tstep s (L 0 (HandEnd 103%N)) = Some s'.
Proof.
  destruct (run_trace (init burst_cfg burst_in) burst_tr) as [s|] eqn:E; [|vm_compute in E; discriminate].
  exists s. split; [reflexivity|]. vm_compute in E. injection E as <-.
  split; [reflexivity|]. split; [vm_compute; reflexivity|]. eexists. vm_compute. reflexivity.
Qed.
