(** C31, third part: the members traversal ([members_inner]) does not depend on the iteration
    order of the state map when accesses carry no conditions. *)
From Coq Require Import List NArith Bool Lia Permutation.
From PV Require Import Lib.AListC31 Model.GroupCrdt Proofs.GroupCrdt.
Import ListNotations.

Lemma mlookup_set m' m a l :
  mlookup m' (set member_eqb m a l) = if member_eqb m' m then Some a else mlookup m' l.
Proof. apply lookup_set. exact member_eqb_spec. Qed.

Definition amax (c a : access) : access := if acc_lt c a then a else c.

Definition upd (m : member) (cur : option access) (e : member * access) : option access :=
  if member_eqb m (fst e)
  then Some (match cur with Some c => amax c (snd e) | None => snd e end)
  else cur.

Lemma mlookup_upsert m l e : mlookup m (upsert_max l e) = upd m (mlookup m l) e.
Proof.
  unfold upsert_max, upd. destruct (mlookup (fst e) l) as [cur|] eqn:E.
  - unfold amax. destruct (acc_lt cur (snd e)) eqn:Hlt.
    + rewrite mlookup_set. destruct (member_eqb_spec m (fst e)) as [->|Hne]; [|reflexivity].
      rewrite E, Hlt. reflexivity.
    + destruct (member_eqb_spec m (fst e)) as [->|Hne]; [|reflexivity].
      rewrite E, Hlt. reflexivity.
  - rewrite mlookup_set. destruct (member_eqb_spec m (fst e)) as [->|Hne]; [|reflexivity].
    rewrite E. reflexivity.
Qed.

Lemma mlookup_fold m l : forall ms,
  mlookup m (fold_left upsert_max l ms) = fold_left (upd m) l (mlookup m ms).
Proof.
  induction l as [|e r IH]; intros ms; cbn [fold_left]; [reflexivity|].
  rewrite IH, mlookup_upsert. reflexivity.
Qed.

(** The list of (member, access) pairs [members_inner] offers to the result map, in order. *)
Definition contrib_of (rec : N -> option access -> list (member * access)) (root : option access)
           (e : member * access) : list (member * access) :=
  let next := clip (snd e) root in
  (fst e, next) :: (if fst (fst e) then rec (snd (fst e)) (Some next) else []).

Fixpoint contribs (fuel : nat) (cs : gstate) (g : N) (root : option access) : list (member * access) :=
  match fuel with
  | O => []
  | S f => flat_map (contrib_of (contribs f cs) root) (entries_of cs g)
  end.

Lemma minner_contribs fuel cs : forall g ms root,
  minner fuel cs g ms root = fold_left upsert_max (contribs fuel cs g root) ms.
Proof.
  induction fuel as [|f IH]; intros g ms root; cbn [minner contribs]; [reflexivity|].
  generalize (entries_of cs g) as es. intros es. revert ms.
  induction es as [|e r IHr]; intros ms; cbn [fold_left flat_map]; [reflexivity|].
  rewrite fold_left_app, IHr. f_equal.
  unfold contrib_of. cbv zeta. cbn [fold_left].
  destruct (fst (fst e)); [apply IH|reflexivity].
Qed.

(** ** without conditions [amax] is the maximum of a total order *)
Lemma amax_nc c a : nc c -> nc a -> nc (amax c a).
Proof. unfold amax. destruct (acc_lt c a); auto. Qed.

Lemma amax_swap c a b : nc c -> nc a -> nc b -> amax (amax c a) b = amax (amax c b) a.
Proof.
  destruct c as [cc lc], a as [ca la], b as [cb lb]. unfold nc. cbn [cond]. intros -> -> ->.
  destruct lc, la, lb; reflexivity.
Qed.

Lemma amax_comm a b : nc a -> nc b -> amax a b = amax b a.
Proof.
  destruct a as [ca la], b as [cb lb]. unfold nc. cbn [cond]. intros -> ->.
  destruct la, lb; reflexivity.
Qed.

Definition oanc (o : option access) : Prop := forall a, o = Some a -> nc a.

Lemma upd_oanc m c e : oanc c -> nc (snd e) -> oanc (upd m c e).
Proof.
  intros Hc He a. unfold upd. destruct (member_eqb m (fst e)); [|apply Hc].
  intros E; inversion E; subst. destruct c as [c0|]; [|exact He].
  apply amax_nc; [apply Hc; reflexivity|exact He].
Qed.

Lemma upd_swap m c e1 e2 :
  oanc c -> nc (snd e1) -> nc (snd e2) -> upd m (upd m c e1) e2 = upd m (upd m c e2) e1.
Proof.
  intros Hc H1 H2. unfold upd.
  destruct (member_eqb m (fst e1)), (member_eqb m (fst e2)); try reflexivity.
  f_equal. destruct c as [c0|].
  - apply amax_swap; [apply Hc; reflexivity|assumption|assumption].
  - apply amax_comm; assumption.
Qed.

Lemma fold_upd_perm m l l' :
  Permutation l l' -> Forall (fun e => nc (snd e)) l ->
  forall c, oanc c -> fold_left (upd m) l c = fold_left (upd m) l' c.
Proof.
  induction 1 as [|x l l' HP IH|x y l|l l' l'' HP1 IH1 HP2 IH2]; intros Hl c Hc.
  - reflexivity.
  - inversion Hl; subst. cbn [fold_left]. apply IH; [assumption|]. apply upd_oanc; assumption.
  - inversion Hl as [|? ? Hy Hl']; subst. inversion Hl' as [|? ? Hx Hl'']; subst.
    cbn [fold_left]. f_equal. apply upd_swap; assumption.
  - rewrite IH1 by assumption. apply IH2; [|assumption].
    eapply Permutation_Forall; eassumption.
Qed.

(** ** permutations *)
Lemma perm_filter {A} (f : A -> bool) l l' : Permutation l l' -> Permutation (filter f l) (filter f l').
Proof.
  induction 1 as [|x l l' HP IH|x y l|l l' l'' HP1 IH1 HP2 IH2]; cbn [filter].
  - constructor.
  - destruct (f x); [constructor|]; exact IH.
  - destruct (f x), (f y); try apply Permutation_refl. constructor.
  - eapply Permutation_trans; eassumption.
Qed.

Lemma perm_flat_map2 {A B} (F F' : A -> list B) l l' :
  Permutation l l' -> (forall x, Permutation (F x) (F' x)) ->
  Permutation (flat_map F l) (flat_map F' l').
Proof.
  intros HP HF.
  induction HP as [|x l l' HP IH|x y l|l l' l'' HP1 IH1 HP2 IH2]; cbn [flat_map].
  - constructor.
  - apply Permutation_app; [apply HF|exact IH].
  - rewrite !app_assoc. apply Permutation_app.
    + eapply Permutation_trans; [apply Permutation_app_comm|]. apply Permutation_app; apply HF.
    + clear -HF. induction l as [|z r IHr]; cbn [flat_map]; [constructor|].
      apply Permutation_app; [apply HF|exact IHr].
  - eapply Permutation_trans; [exact IH1|].
    eapply Permutation_trans; [|exact IH2].
    clear -HF. induction l' as [|z r IHr]; cbn [flat_map]; [constructor|].
    apply Permutation_app; [apply Permutation_sym; apply HF|exact IHr].
Qed.

Lemma entries_perm cs cs' g :
  wf cs -> wf cs' -> geq cs cs' -> Permutation (entries_of cs g) (entries_of cs' g).
Proof.
  intros W W' E. unfold entries_of. apply Permutation_map. apply perm_filter.
  apply (ext_perm key_eqb key_eqb_spec); assumption.
Qed.

Lemma entries_nc cs g : wf cs -> gnc cs -> Forall (fun e => nc (snd e)) (entries_of cs g).
Proof.
  intros W H. unfold entries_of. apply Forall_map. apply Forall_forall. intros [k v] Hin.
  apply filter_In in Hin. destruct Hin as [Hin _]. cbn [snd].
  apply (H k v). apply (in_lookup key_eqb key_eqb_spec); assumption.
Qed.

Lemma clip_nc a root : nc a -> oanc root -> nc (clip a root).
Proof.
  intros Ha Hr. unfold clip. destruct root as [r|]; [|exact Ha].
  destruct (acc_le a r); [exact Ha|apply Hr; reflexivity].
Qed.

Lemma contribs_nc fuel cs : wf cs -> gnc cs -> forall g root, oanc root ->
  Forall (fun e => nc (snd e)) (contribs fuel cs g root).
Proof.
  intros W H. induction fuel as [|f IH]; intros g root Hr; cbn [contribs]; [constructor|].
  apply Forall_forall. intros x Hx. apply in_flat_map in Hx. destruct Hx as [e [He Hx]].
  pose proof (entries_nc cs g W H) as Hen. rewrite Forall_forall in Hen. specialize (Hen e He).
  unfold contrib_of in Hx. destruct Hx as [<-|Hx].
  - cbn [snd]. apply clip_nc; assumption.
  - destruct (fst (fst e)); [|contradiction].
    assert (Hn : oanc (Some (clip (snd e) root))).
    { intros a E; inversion E; subst. apply clip_nc; assumption. }
    specialize (IH (snd (fst e)) _ Hn). rewrite Forall_forall in IH. apply IH. exact Hx.
Qed.

Lemma contribs_perm fuel cs cs' :
  wf cs -> wf cs' -> geq cs cs' ->
  forall g root, Permutation (contribs fuel cs g root) (contribs fuel cs' g root).
Proof.
  intros W W' E. induction fuel as [|f IH]; intros g root; cbn [contribs]; [constructor|].
  apply perm_flat_map2; [apply entries_perm; assumption|].
  intros e. unfold contrib_of. constructor. destruct (fst (fst e)); [apply IH|constructor].
Qed.

Lemma mlookup_filter_individuals m l :
  mlookup m (filter (fun e => negb (fst (fst e))) l) = if negb (fst m) then mlookup m l else None.
Proof.
  unfold mlookup. apply (lookup_filter_key member_eqb member_eqb_spec (fun k => negb (fst k))).
Qed.

(** The traversal gives the same map whatever the iteration order of the state. *)
Theorem traverse_deterministic cs cs' g :
  wf cs -> wf cs' -> gnc cs -> geq cs cs' ->
  forall m, mlookup m (traverse_cs cs g) = mlookup m (traverse_cs cs' g).
Proof.
  intros W W' H E m. unfold traverse_cs. rewrite !minner_contribs, !mlookup_fold.
  apply fold_upd_perm.
  - apply contribs_perm; assumption.
  - apply contribs_nc; try assumption. intros a Ha; discriminate.
  - intros a Ha; discriminate.
Qed.

Theorem members_query_deterministic cs cs' g :
  wf cs -> wf cs' -> gnc cs -> geq cs cs' ->
  forall m, mlookup m (members_cs cs g) = mlookup m (members_cs cs' g).
Proof.
  intros W W' H E m. unfold members_cs. rewrite !mlookup_filter_individuals.
  destruct (negb (fst m)); [|reflexivity]. apply traverse_deterministic; assumption.
Qed.

Example members_query_hyps_satisfiable :
  let a l := {| cond := None; lvl := l |} in
  let cs := [((100, (false, 0)), {| mc := 1; acc := a Manage; ac := 0 |});
             ((100, (true, 101)), {| mc := 1; acc := a Read; ac := 0 |});
             ((101, (false, 1)), {| mc := 1; acc := a Write; ac := 0 |})]%N in
  wf cs /\ wf (rev cs) /\ gnc cs /\ geq cs (rev cs) /\
  mlookup (false, 1%N) (members_cs cs 100%N) = Some (a Read).
Proof.
  cbv zeta. repeat split.
  - repeat constructor; cbn; intuition discriminate.
  - repeat constructor; cbn; intuition discriminate.
  - intros k v. unfold glookup. cbn [lookup].
    repeat (match goal with |- context [key_eqb k ?c] => destruct (key_eqb k c) end;
            [intros E; inversion E; reflexivity|]). discriminate.
  - intros k. unfold glookup. cbn [rev app lookup].
    destruct (key_eqb_spec k (100%N, (false, 0%N))) as [->|H1]; [reflexivity|].
    destruct (key_eqb_spec k (100%N, (true, 101%N))) as [->|H2]; [reflexivity|].
    destruct (key_eqb_spec k (101%N, (false, 1%N))) as [->|H3]; reflexivity.
Qed.
