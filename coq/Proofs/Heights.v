(** Proofs about the state-vector diff model (Model/Heights.v). *)
From Coq Require Import List Arith NArith Bool Lia.
From PV Require Import Model.Heights Model.Cursor Oracle.C06.
Import ListNotations.

(** * Well-formedness: unique keys, as in a BTreeMap *)

Definition wf_heights {V : Type} (m : list (N * list (N * V))) : Prop :=
  NoDup (keys m) /\ Forall (fun p => NoDup (keys (snd p))) m.

Lemma existsb_eqb_In (x : N) (l : list N) : existsb (N.eqb x) l = true <-> In x l.
Proof.
  rewrite existsb_exists. split.
  - intros [y [Hin Heq]]. apply N.eqb_eq in Heq. subst. exact Hin.
  - intros Hin. exists x. split; [exact Hin|apply N.eqb_refl].
Qed.

Lemma nodupb_spec (l : list N) : nodupb l = true <-> NoDup l.
Proof.
  induction l as [|x r IH]; cbn [nodupb].
  - split; [constructor|reflexivity].
  - rewrite andb_true_iff, negb_true_iff, IH. split.
    + intros [Hx Hr]. constructor; [|exact Hr].
      intros Hin. apply existsb_eqb_In in Hin. congruence.
    + intros Hnd. inversion Hnd as [|? ? Hx Hr]; subst. split; [|exact Hr].
      destruct (existsb (N.eqb x) r) eqn:E; [|reflexivity].
      apply existsb_eqb_In in E. contradiction.
Qed.

Lemma wf_heightsb_spec {V : Type} (m : list (N * list (N * V))) :
  wf_heightsb m = true <-> wf_heights m.
Proof.
  unfold wf_heightsb, wf_heights. rewrite andb_true_iff, nodupb_spec, forallb_forall, Forall_forall.
  split; intros [H1 H2]; (split; [exact H1|]); intros p Hp; apply nodupb_spec, H2, Hp.
Qed.

Lemma wf_heights_cons {V : Type} a (ll : list (N * V)) rest :
  wf_heights ((a, ll) :: rest) ->
  ~ In a (keys rest) /\ NoDup (keys ll) /\ wf_heights rest.
Proof.
  intros [Hk Hi]. cbn [keys map fst] in Hk. inversion Hk as [|? ? Hn Hr]; subst.
  inversion Hi as [|? ? Hll Hrest]; subst. cbn [snd] in Hll.
  split; [exact Hn|]. split; [exact Hll|]. split; assumption.
Qed.

(** * Association lists *)

Lemma alookup_In {V : Type} (k : N) (m : list (N * V)) v : alookup k m = Some v -> In (k, v) m.
Proof.
  induction m as [|[k' v'] r IH]; cbn [alookup]; [discriminate|].
  destruct (N.eqb k k') eqn:E.
  - apply N.eqb_eq in E. subst. intros H. inversion H. left. reflexivity.
  - intros H. right. apply IH, H.
Qed.

Lemma alookup_notin {V : Type} (k : N) (m : list (N * V)) : ~ In k (keys m) -> alookup k m = None.
Proof.
  induction m as [|[k' v'] r IH]; cbn [alookup keys map fst]; [reflexivity|].
  intros Hn. destruct (N.eqb k k') eqn:E.
  - apply N.eqb_eq in E. subst. exfalso. apply Hn. left. reflexivity.
  - apply IH. intros Hin. apply Hn. right. exact Hin.
Qed.

Lemma alookup_some_in_keys {V : Type} (k : N) (m : list (N * V)) v :
  alookup k m = Some v -> In k (keys m).
Proof. intros H. apply alookup_In in H. apply (in_map fst) in H. exact H. Qed.

Lemma alookup_none_notin {V : Type} (k : N) (m : list (N * V)) : alookup k m = None -> ~ In k (keys m).
Proof.
  induction m as [|[k' v'] r IH]; cbn [alookup keys map fst]; [intros _ H; exact H|].
  destruct (N.eqb k k') eqn:E; [discriminate|].
  intros H [Heq|Hin].
  - subst. rewrite N.eqb_refl in E. discriminate.
  - exact (IH H Hin).
Qed.

Lemma alookup_nodup_In {V : Type} (k : N) (m : list (N * V)) v :
  NoDup (keys m) -> In (k, v) m -> alookup k m = Some v.
Proof.
  induction m as [|[k' v'] r IH]; cbn [alookup keys map fst]; [intros _ []|].
  intros Hnd [Heq|Hin].
  - inversion Heq; subst. rewrite N.eqb_refl. reflexivity.
  - inversion Hnd as [|? ? Hn Hr]; subst.
    destruct (N.eqb k k') eqn:E.
    + apply N.eqb_eq in E. subst. exfalso. apply Hn. apply (in_map fst) in Hin. exact Hin.
    + apply IH; assumption.
Qed.

Lemma alookup_ainsert {V : Type} (k k' : N) (v : V) (m : list (N * V)) :
  alookup k' (ainsert k v m) = if N.eqb k' k then Some v else alookup k' m.
Proof.
  induction m as [|[k0 v0] r IH]; cbn [ainsert alookup].
  - destruct (N.eqb k' k); reflexivity.
  - destruct (N.eqb k k0) eqn:E0.
    + apply N.eqb_eq in E0. subst k0. cbn [alookup]. destruct (N.eqb k' k); reflexivity.
    + destruct (N.ltb k k0).
      * cbn [alookup]. destruct (N.eqb k' k); reflexivity.
      * cbn [alookup]. rewrite IH. destruct (N.eqb k' k0) eqn:E1; [|reflexivity].
        destruct (N.eqb k' k) eqn:E2; [|reflexivity].
        apply N.eqb_eq in E1, E2. subst. rewrite N.eqb_refl in E0. discriminate.
Qed.

Lemma lookup2_set2 {V : Type} (m : list (N * list (N * V))) (a l a' l' : N) (v : V) :
  lookup2 (set2 m a l v) a' l' =
  if N.eqb a' a && N.eqb l' l then Some v else lookup2 m a' l'.
Proof.
  unfold lookup2, set2. rewrite alookup_ainsert.
  destruct (N.eqb a' a) eqn:Ea; cbn [andb]; [|reflexivity].
  apply N.eqb_eq in Ea. subst a'. rewrite alookup_ainsert.
  destruct (N.eqb l' l); [reflexivity|].
  destruct (alookup a m); reflexivity.
Qed.

Lemma lookup2_cons {V : Type} a0 (ll : list (N * V)) rest a l :
  lookup2 ((a0, ll) :: rest) a l = if N.eqb a a0 then alookup l ll else lookup2 rest a l.
Proof. unfold lookup2. cbn [alookup]. destruct (N.eqb a a0); reflexivity. Qed.

Lemma lookup2_notin {V : Type} (m : list (N * list (N * V))) a l :
  ~ In a (keys m) -> lookup2 m a l = None.
Proof. intros H. unfold lookup2. rewrite (alookup_notin _ _ H). reflexivity. Qed.

(** * The inner loop *)

Lemma compare_logs_keys ll rl k : In k (keys (compare_logs ll rl)) -> In k (keys ll).
Proof.
  induction ll as [|[l h] rest IH]; cbn [compare_logs keys map fst]; [tauto|].
  destruct (alookup l rl) as [r|].
  - destruct (N.ltb r h).
    + cbn [keys map fst]. intros [H|H]; [left; exact H|right; apply IH, H].
    + intros H. right. apply IH, H.
  - cbn [keys map fst]. intros [H|H]; [left; exact H|right; apply IH, H].
Qed.

Lemma compare_logs_nodup ll rl : NoDup (keys ll) -> NoDup (keys (compare_logs ll rl)).
Proof.
  induction ll as [|[l h] rest IH]; cbn [compare_logs keys map fst]; [constructor|].
  intros Hnd. inversion Hnd as [|? ? Hn Hr]; subst.
  assert (Hn' : ~ In l (keys (compare_logs rest rl))) by (intros Hin; apply Hn, (compare_logs_keys _ _ _ Hin)).
  destruct (alookup l rl) as [r|].
  - destruct (N.ltb r h); [|apply IH, Hr].
    cbn [keys map fst]. constructor; [exact Hn'|apply IH, Hr].
  - cbn [keys map fst]. constructor; [exact Hn'|apply IH, Hr].
Qed.

Definition spec_logs (ll rl : logs) (l : N) : option range :=
  match alookup l ll with
  | Some h =>
      match alookup l rl with
      | None => Some (None, Some h)
      | Some r => if N.ltb r h then Some (Some r, Some h) else None
      end
  | None => None
  end.

Lemma compare_logs_spec ll rl l :
  NoDup (keys ll) -> alookup l (compare_logs ll rl) = spec_logs ll rl l.
Proof.
  unfold spec_logs.
  induction ll as [|[l0 h0] rest IH]; cbn [compare_logs alookup keys map fst]; [reflexivity|].
  intros Hnd. inversion Hnd as [|? ? Hn Hr]; subst. specialize (IH Hr).
  destruct (N.eqb l l0) eqn:E.
  - apply N.eqb_eq in E. subst l0.
    assert (Hnone : alookup l (compare_logs rest rl) = None).
    { apply alookup_notin. intros Hin. apply Hn, (compare_logs_keys _ _ _ Hin). }
    destruct (alookup l rl) as [r|].
    + destruct (N.ltb r h0).
      * cbn [alookup]. rewrite N.eqb_refl. reflexivity.
      * exact Hnone.
    + cbn [alookup]. rewrite N.eqb_refl. reflexivity.
  - destruct (alookup l0 rl) as [r0|].
    + destruct (N.ltb r0 h0); [cbn [alookup]; rewrite E|]; exact IH.
    + cbn [alookup]. rewrite E. exact IH.
Qed.

Lemma alookup_map_all (ll : logs) l :
  alookup l (map (fun p => (fst p, (@None N, Some (snd p)))) ll) =
  match alookup l ll with Some h => Some (None, Some h) | None => None end.
Proof.
  induction ll as [|[l0 h0] rest IH]; cbn [map alookup fst snd]; [reflexivity|].
  destruct (N.eqb l l0); [reflexivity|exact IH].
Qed.

Lemma keys_map_all (ll : logs) :
  keys (map (fun p => (fst p, (@None N, Some (snd p)))) ll) = keys ll.
Proof. unfold keys. rewrite map_map. reflexivity. Qed.

Lemma logs_eqb_incl ll rl l h :
  logs_eqb ll rl = true -> alookup l ll = Some h -> alookup l rl = Some h.
Proof.
  unfold logs_eqb. rewrite andb_true_iff, forallb_forall. intros [_ Hall] Hl.
  apply alookup_In in Hl. specialize (Hall _ Hl). cbn [fst snd] in Hall.
  destruct (alookup l rl) as [v|]; [|discriminate].
  apply N.eqb_eq in Hall. subst. reflexivity.
Qed.

Lemma logs_eqb_refl ll : NoDup (keys ll) -> logs_eqb ll ll = true.
Proof.
  intros Hnd. unfold logs_eqb. rewrite Nat.eqb_refl. cbn [andb].
  apply forallb_forall. intros [l h] Hin. cbn [fst snd].
  rewrite (alookup_nodup_In _ _ _ Hnd Hin). apply N.eqb_refl.
Qed.

(** * [compare] *)

Lemma compare_keys L R k : In k (keys (compare L R)) -> In k (keys L).
Proof.
  induction L as [|[a ll] rest IH]; cbn [compare keys map fst]; [tauto|].
  destruct (alookup a R) as [rl|].
  - destruct (logs_eqb ll rl); [intros H; right; apply IH, H|].
    destruct (compare_logs ll rl) as [|e d]; [intros H; right; apply IH, H|].
    cbn [keys map fst]. intros [H|H]; [left; exact H|right; apply IH, H].
  - cbn [keys map fst]. intros [H|H]; [left; exact H|right; apply IH, H].
Qed.

Lemma compare_wf L R : wf_heights L -> wf_heights (compare L R).
Proof.
  induction L as [|[a ll] rest IH]; intros Hwf.
  - cbn [compare]. split; constructor.
  - apply wf_heights_cons in Hwf. destruct Hwf as [Hn [Hll Hrest]]. specialize (IH Hrest).
    assert (Hn' : ~ In a (keys (compare rest R))) by (intros Hin; apply Hn, (compare_keys _ _ _ Hin)).
    cbn [compare]. destruct (alookup a R) as [rl|].
    + destruct (logs_eqb ll rl); [exact IH|].
      pose proof (compare_logs_nodup ll rl Hll) as Hd.
      destruct (compare_logs ll rl) as [|e d]; [exact IH|].
      destruct IH as [IH1 IH2]. split.
      * cbn [keys map fst]. constructor; assumption.
      * constructor; [exact Hd|exact IH2].
    + destruct IH as [IH1 IH2]. split.
      * cbn [keys map fst]. constructor; assumption.
      * constructor; [|exact IH2]. cbn [snd]. rewrite keys_map_all. exact Hll.
Qed.

(** The main fact: read through [lookup2], the diff is exactly [spec_range]. *)
Theorem compare_spec :
  forall (L R : heights) (a l : N),
    wf_heights L -> lookup2 (compare L R) a l = spec_range L R a l.
Proof.
  intros L R a l. unfold spec_range.
  induction L as [|[a0 ll] rest IH]; intros Hwf.
  - reflexivity.
  - apply wf_heights_cons in Hwf. destruct Hwf as [Hn [Hll Hrest]]. specialize (IH Hrest).
    rewrite (lookup2_cons a0 ll rest a l).
    destruct (N.eqb a a0) eqn:Ea.
    + apply N.eqb_eq in Ea. subst a0.
      assert (Hnone : lookup2 (compare rest R) a l = None).
      { apply lookup2_notin. intros Hin. apply Hn, (compare_keys _ _ _ Hin). }
      cbn [compare]. unfold lookup2 at 2. destruct (alookup a R) as [rl|].
      * pose proof (compare_logs_spec ll rl l Hll) as Hs. unfold spec_logs in Hs.
        destruct (logs_eqb ll rl) eqn:Eeq.
        { rewrite Hnone. destruct (alookup l ll) as [h|] eqn:El; [|reflexivity].
          rewrite (logs_eqb_incl _ _ _ _ Eeq El). rewrite N.ltb_irrefl. reflexivity. }
        destruct (compare_logs ll rl) as [|e d].
        { rewrite Hnone. cbn [alookup] in Hs. exact Hs. }
        rewrite lookup2_cons, N.eqb_refl. exact Hs.
      * rewrite lookup2_cons, N.eqb_refl. rewrite alookup_map_all.
        destruct (alookup l ll); reflexivity.
    + cbn [compare]. destruct (alookup a0 R) as [rl|].
      * destruct (logs_eqb ll rl); [exact IH|].
        destruct (compare_logs ll rl) as [|e d]; [exact IH|].
        rewrite lookup2_cons, Ea. exact IH.
      * rewrite lookup2_cons, Ea. exact IH.
Qed.

(** "A range for exactly those pairs where the remote is missing the log or is behind." *)
Theorem compare_range_iff :
  forall (L R : heights) (a l : N),
    wf_heights L ->
    ((exists rg, lookup2 (compare L R) a l = Some rg) <->
     (exists h, lookup2 L a l = Some h /\
                (lookup2 R a l = None \/ exists r, lookup2 R a l = Some r /\ (r < h)%N))).
Proof.
  intros L R a l Hwf. rewrite (compare_spec L R a l Hwf). unfold spec_range.
  destruct (lookup2 L a l) as [h|].
  - destruct (lookup2 R a l) as [r|].
    + destruct (N.ltb_spec r h) as [Hlt|Hge].
      * split; [|intros _; eexists; reflexivity].
        intros _. exists h. split; [reflexivity|]. right. exists r. split; [reflexivity|exact Hlt].
      * split; [intros [rg Hrg]; discriminate|].
        intros [h' [Hh [Hnone|[r' [Hr Hlt]]]]]; [discriminate|].
        inversion Hh; inversion Hr; subst. lia.
    + split; [|intros _; eexists; reflexivity].
      intros _. exists h. split; [reflexivity|]. left. reflexivity.
  - split; [intros [rg Hrg]; discriminate|intros [h [Hh _]]; discriminate].
Qed.

(** The empty inner map: only for an author the remote does not know and whose local map is empty. *)
Theorem compare_empty_inner :
  forall (L R : heights) (a : N),
    wf_heights L -> alookup a (compare L R) = Some [] ->
    alookup a L = Some [] /\ alookup a R = None.
Proof.
  intros L R a. induction L as [|[a0 ll] rest IH]; intros Hwf; cbn [compare alookup]; [discriminate|].
  apply wf_heights_cons in Hwf. destruct Hwf as [Hn [Hll Hrest]]. specialize (IH Hrest).
  destruct (N.eqb a a0) eqn:Ea.
  - apply N.eqb_eq in Ea. subst a0.
    assert (Hnone : alookup a (compare rest R) = None).
    { apply alookup_notin. intros Hin. apply Hn, (compare_keys _ _ _ Hin). }
    destruct (alookup a R) as [rl|].
    + destruct (logs_eqb ll rl); [rewrite Hnone; discriminate|].
      destruct (compare_logs ll rl) as [|e d]; [rewrite Hnone; discriminate|].
      cbn [alookup]. rewrite N.eqb_refl. discriminate.
    + cbn [alookup]. rewrite N.eqb_refl. intros H. inversion H as [Hm].
      destruct ll; [split; reflexivity|discriminate].
  - destruct (alookup a0 R) as [rl|].
    + destruct (logs_eqb ll rl); [exact IH|].
      destruct (compare_logs ll rl) as [|e d]; [exact IH|].
      cbn [alookup]. rewrite Ea. exact IH.
    + cbn [alookup]. rewrite Ea. exact IH.
Qed.

(** * Merging the diff *)

Lemma apply_logs_lookup :
  forall (d : list (N * range)) (R : heights) (a0 a l : N),
    NoDup (keys d) ->
    lookup2 (apply_logs R a0 d) a l =
    if N.eqb a a0 then
      match alookup l d with
      | Some (_, Some u) => Some u
      | _ => lookup2 R a l
      end
    else lookup2 R a l.
Proof.
  unfold apply_logs.
  induction d as [|[l0 [f u]] rest IH]; intros R a0 a l Hnd.
  - cbn [fold_left alookup]. destruct (N.eqb a a0); reflexivity.
  - cbn [keys map fst] in Hnd. inversion Hnd as [|? ? Hn Hr]; subst.
    cbn [fold_left fst snd alookup].
    destruct u as [u|].
    + rewrite (IH (set2 R a0 l0 u) a0 a l Hr). rewrite lookup2_set2.
      destruct (N.eqb a a0) eqn:Ea; cbn [andb]; [|reflexivity].
      destruct (N.eqb l l0) eqn:El; [|reflexivity].
      apply N.eqb_eq in El. subst l0. rewrite (alookup_notin _ _ Hn). reflexivity.
    + rewrite (IH R a0 a l Hr).
      destruct (N.eqb a a0) eqn:Ea; [|reflexivity].
      destruct (N.eqb l l0) eqn:El; [|reflexivity].
      apply N.eqb_eq in El. subst l0. rewrite (alookup_notin _ _ Hn). reflexivity.
Qed.

Definition merged (R : heights) (D : ranges) (a l : N) : option N :=
  match lookup2 D a l with
  | Some (_, Some u) => Some u
  | _ => lookup2 R a l
  end.

Lemma apply_diff_lookup :
  forall (D : ranges) (R : heights) (a l : N),
    wf_heights D -> lookup2 (apply_diff R D) a l = merged R D a l.
Proof.
  unfold apply_diff, merged.
  induction D as [|[a0 d] rest IH]; intros R a l Hwf.
  - reflexivity.
  - apply wf_heights_cons in Hwf. destruct Hwf as [Hn [Hd Hrest]].
    cbn [fold_left fst snd]. rewrite (IH (apply_logs R a0 d) a l Hrest).
    rewrite lookup2_cons. rewrite (apply_logs_lookup d R a0 a l Hd).
    destruct (N.eqb a a0) eqn:Ea; [|reflexivity].
    apply N.eqb_eq in Ea. subst a0. rewrite (lookup2_notin rest a l Hn). reflexivity.
Qed.

(** Merging [compare L R] into [R] gives the pointwise maximum of both maps — on the logs of
    [L] the maximum, logs only in [R] unchanged ([omax None y = y]). *)
Theorem merge_is_max :
  forall (L R : heights) (a l : N),
    wf_heights L ->
    lookup2 (apply_diff R (compare L R)) a l = omax (lookup2 L a l) (lookup2 R a l).
Proof.
  intros L R a l Hwf.
  rewrite (apply_diff_lookup _ R a l (compare_wf L R Hwf)). unfold merged.
  rewrite (compare_spec L R a l Hwf). unfold spec_range, omax.
  destruct (lookup2 L a l) as [h|]; [|reflexivity].
  destruct (lookup2 R a l) as [r|]; [|reflexivity].
  destruct (N.ltb_spec r h) as [Hlt|Hge]; f_equal; lia.
Qed.

(** * Consequences *)

Lemma compare_all_known :
  forall (L R : heights),
    wf_heights L -> (forall a ll, In (a, ll) L -> alookup a R = Some ll) -> compare L R = [].
Proof.
  induction L as [|[a ll] rest IH]; intros R Hwf Hall; [reflexivity|].
  apply wf_heights_cons in Hwf. destruct Hwf as [Hn [Hll Hrest]].
  cbn [compare]. rewrite (Hall a ll (or_introl eq_refl)). rewrite (logs_eqb_refl ll Hll).
  apply IH; [exact Hrest|]. intros a' ll' Hin. apply Hall. right. exact Hin.
Qed.

Theorem compare_self_empty : forall (L : heights), wf_heights L -> compare L L = [].
Proof.
  intros L Hwf. apply compare_all_known; [exact Hwf|].
  intros a ll Hin. apply alookup_nodup_In; [apply Hwf|exact Hin].
Qed.

(** Order on optional lower bounds of a range: [None] ("from the start") is below everything. *)
Definition from_le (x y : option N) : Prop :=
  match x, y with
  | None, _ => True
  | Some a, Some b => (a <= b)%N
  | Some _, None => False
  end.

(** Heights order: [R'] knows at least what [R] knows. *)
Definition heights_le (R R' : heights) : Prop :=
  forall a l r, lookup2 R a l = Some r -> exists r', lookup2 R' a l = Some r' /\ (r <= r')%N.

(** The further ahead the remote, the less it needs: every range needed by the more advanced
    remote [R'] is needed by [R] too, up to the same height and starting no later. *)
Theorem compare_antimonotone :
  forall (L R R' : heights) (a l : N) (f' u' : option N),
    wf_heights L -> heights_le R R' ->
    lookup2 (compare L R') a l = Some (f', u') ->
    exists f, lookup2 (compare L R) a l = Some (f, u') /\ from_le f f'.
Proof.
  intros L R R' a l f' u' Hwf Hle. rewrite !(compare_spec L _ a l Hwf). unfold spec_range.
  destruct (lookup2 L a l) as [h|]; [|discriminate].
  destruct (lookup2 R a l) as [r|] eqn:ER.
  - destruct (Hle a l r ER) as [r' [ER' Hrr']]. rewrite ER'.
    destruct (N.ltb_spec r' h) as [Hlt'|Hge']; [|discriminate].
    intros H. inversion H; subst.
    destruct (N.ltb_spec r h) as [Hlt|Hge]; [|lia].
    exists (Some r). split; [reflexivity|exact Hrr'].
  - intros H. exists None. split; [|exact I].
    destruct (lookup2 R' a l) as [r'|].
    + destruct (N.ltb r' h); [|discriminate]. inversion H; subst. reflexivity.
    + inversion H; subst. reflexivity.
Qed.

(** [Cursor::compare] is [compare] with the cursor's state as the remote side. *)
Theorem cursor_compare_spec :
  forall (c : cursor) (other : heights) (a l : N),
    wf_heights other -> lookup2 (cursor_compare c other) a l = spec_range other (cstate c) a l.
Proof. intros c other a l Hwf. unfold cursor_compare. apply compare_spec, Hwf. Qed.

(** * Soundness of the oracle *)

Lemma lookup2_in_pairs {V : Type} (m : list (N * list (N * V))) a l v :
  lookup2 m a l = Some v -> In (a, l) (pairs m).
Proof.
  unfold lookup2, pairs. destruct (alookup a m) as [inner|] eqn:Ea; [|discriminate].
  intros Hl. apply in_flat_map. exists (a, inner). split; [apply alookup_In, Ea|].
  cbn [fst snd]. apply alookup_In in Hl. apply (in_map (fun q => (a, fst q))) in Hl. exact Hl.
Qed.

Lemma oN_eqb_eq x y : oN_eqb x y = true -> x = y.
Proof.
  destruct x, y; cbn [oN_eqb]; try discriminate; try reflexivity.
  intros H. apply N.eqb_eq in H. subst. reflexivity.
Qed.

Lemma orange_eqb_eq x y : orange_eqb x y = true -> x = y.
Proof.
  destruct x as [[f1 u1]|], y as [[f2 u2]|]; cbn [orange_eqb]; try discriminate; try reflexivity.
  rewrite andb_true_iff. intros [H1 H2]. apply oN_eqb_eq in H1, H2. subst. reflexivity.
Qed.

Theorem check_one_sound :
  forall (L R : heights) (D : ranges),
    check_one L R D = true ->
    forall a l,
      lookup2 D a l = spec_range L R a l /\
      lookup2 (apply_diff R D) a l = omax (lookup2 L a l) (lookup2 R a l).
Proof.
  intros L R D. unfold check_one. rewrite !andb_true_iff, !forallb_forall.
  intros [[Hwf H1] H2] a l. apply wf_heightsb_spec in Hwf.
  assert (Hin : In (a, l) (pairs L ++ pairs R ++ pairs D) ->
                lookup2 D a l = spec_range L R a l /\
                lookup2 (apply_diff R D) a l = omax (lookup2 L a l) (lookup2 R a l)).
  { intros Hin. split.
    - apply orange_eqb_eq. exact (H1 (a, l) Hin).
    - apply oN_eqb_eq. exact (H2 (a, l) Hin). }
  destruct (lookup2 L a l) as [h|] eqn:EL.
  { apply Hin. apply in_or_app. left. exact (lookup2_in_pairs _ _ _ _ EL). }
  destruct (lookup2 R a l) as [r|] eqn:ER.
  { apply Hin. apply in_or_app. right. apply in_or_app. left.
    exact (lookup2_in_pairs _ _ _ _ ER). }
  destruct (lookup2 D a l) as [rg|] eqn:ED.
  { apply Hin. apply in_or_app. right. apply in_or_app. right.
    exact (lookup2_in_pairs _ _ _ _ ED). }
  split.
  - unfold spec_range. rewrite EL. reflexivity.
  - rewrite (apply_diff_lookup D R a l Hwf). unfold merged. rewrite ED, ER. reflexivity.
Qed.

(** * Non-vacuity: the hypotheses are satisfiable by non-trivial maps. *)

Definition exL : heights := [(0, [(0, 5); (1, 2)]); (1, [(0, 7)]); (2, []); (3, [(4, 1)])]%N.
Definition exR : heights := [(0, [(0, 3); (1, 2); (2, 9)]); (1, [(0, 9)]); (3, [(4, 1)])]%N.

Example ex_wf : wf_heights exL /\ wf_heights exR.
Proof. split; apply wf_heightsb_spec; vm_compute; reflexivity. Qed.

Example ex_compare :
  compare exL exR = [(0, [(0, (Some 3, Some 5))]); (2, [])]%N /\
  lookup2 (apply_diff exR (compare exL exR)) 0%N 0%N = Some 5%N /\
  lookup2 (apply_diff exR (compare exL exR)) 1%N 0%N = Some 9%N /\
  lookup2 (apply_diff exR (compare exL exR)) 0%N 2%N = Some 9%N.
Proof. vm_compute. repeat split. Qed.

Example ex_antimonotone : heights_le [(0, [(0, 1)])]%N exR.
Proof.
  intros a l r H. unfold lookup2 in H. cbn [alookup] in H.
  destruct (N.eqb a 0) eqn:Ea; [|discriminate]. cbn [alookup] in H.
  destruct (N.eqb l 0) eqn:El; [|discriminate]. inversion H; subst.
  apply N.eqb_eq in Ea, El. subst. exists 3%N. split; [reflexivity|lia].
Qed.

Example ex_check : check exL exR (compare exL exR) (cursor_compare (cursor_new 0 exR) exL) = true.
Proof. vm_compute. reflexivity. Qed.
