(** Soundness of the C38 oracle: whatever [check] accepts satisfies the per-answer demand. *)
From Coq Require Import List NArith Bool Lia.
From PV Require Import Model.KeyRegistry Oracle.C38.
Import ListNotations.
Local Open Scope N_scope.

(** The property-relevant part of an observation. *)
Definition obs_ok (pool : list bundle) (o : op) (x : obs) : Prop :=
  match o, x with
  | AddOT t _ b, OA | AddLT t _ b, OA => valid_at t b = true
  | GetOT t _, OG (Some k) v | GetLT t _, OG (Some k) v =>
      v = true /\ exists b, find_tag pool k = Some b /\ valid_at t b = true
  | _, _ => True
  end.

Theorem check_sound pool : forall ops os acc,
  check_all pool acc ops os = true -> Forall2 (obs_ok pool) ops os.
Proof.
  induction ops as [|o ops IH]; intros os acc H; destruct os as [|x os]; try discriminate.
  - constructor.
  - cbn [check_all] in H.
    destruct o as [t i b|t i b|t i|t i|t|t i l|t i l|t i]; destruct x as [| |[k|] v| | |]; try discriminate;
      try (apply andb_true_iff in H; destruct H as [H1 H2]);
      (constructor; [|eapply IH; eassumption]); cbn [obs_ok]; try exact I; try assumption.
    all: destruct (find_tag pool k) as [b'|]; [|discriminate].
    all: repeat (apply andb_true_iff in H1; destruct H1 as [H1 ?]).
    all: split; [assumption|]; exists b'; split; [reflexivity|].
    all: unfold valid_at, life_ok; repeat (apply andb_true_iff; split); assumption.
Qed.
