(** C09: the row-level model of the operation, topic and cursor tables refines the abstract
    collections step by step, with equal outputs.  Definitions: Model/Stores.v. *)
From Coq Require Import List NArith Bool Lia.
From PV Require Import Model.Stores.
Import ListNotations.
Local Open Scope N_scope.

(** * Keyed row lists *)
Section Keyed.
  Context {A : Type} (key : A -> N).

  Definition lookup (l : list A) (k : N) : option A := find (fun r => key r =? k) l.
  Definition present (l : list A) (k : N) : bool := existsb (fun r => key r =? k) l.

  Lemma present_lookup l k : present l k = is_some (lookup l k).
  Proof.
    unfold present, lookup. induction l as [|x t IH]; cbn [existsb find]; auto.
    destruct (key x =? k); auto.
  Qed.

  Lemma lookup_key l k r : lookup l k = Some r -> key r = k.
  Proof. unfold lookup. intros H. apply find_some in H. destruct H as [_ H]. now apply N.eqb_eq. Qed.

  Lemma lookup_snoc l x k :
    lookup (l ++ [x]) k = match lookup l k with Some y => Some y | None => if key x =? k then Some x else None end.
  Proof.
    unfold lookup. induction l as [|y t IH]; cbn [app find]; auto. destruct (key y =? k); auto.
  Qed.

  Lemma lookup_delete l id k :
    lookup (filter (fun r => negb (key r =? id)) l) k = if k =? id then None else lookup l k.
  Proof.
    unfold lookup. induction l as [|y t IH]; cbn [filter find].
    - destruct (k =? id); auto.
    - destruct (key y =? id) eqn:E; cbn [negb find].
      + rewrite IH. destruct (k =? id) eqn:F; auto. destruct (key y =? k) eqn:G; auto.
        apply N.eqb_eq in E, G. apply N.eqb_neq in F. congruence.
      + destruct (key y =? k) eqn:G; auto. destruct (k =? id) eqn:F; auto.
        apply N.eqb_eq in F, G. apply N.eqb_neq in E. congruence.
  Qed.

  Lemma lookup_map (g : A -> A) l k :
    (forall r, key (g r) = key r) -> lookup (map g l) k = option_map g (lookup l k).
  Proof.
    intros Hg. unfold lookup. induction l as [|y t IH]; cbn [map find option_map]; auto.
    rewrite Hg. destruct (key y =? k); auto.
  Qed.
End Keyed.

(** * Triples *)

Lemma eqb3_eq x y : eqb3 x y = true <-> x = y.
Proof.
  destruct x as [[a b] c], y as [[a' b'] c']. unfold eqb3. cbn [fst snd].
  rewrite !andb_true_iff, !N.eqb_eq. split; [intros [[-> ->] ->]; auto|]. intros H. inversion H. auto.
Qed.

Lemma eqb3_sym x y : eqb3 x y = eqb3 y x.
Proof. unfold eqb3. now rewrite (N.eqb_sym (fst (fst x))), (N.eqb_sym (snd (fst x))), (N.eqb_sym (snd x)). Qed.

Lemma eqb3_refl x : eqb3 x x = true.
Proof. now apply eqb3_eq. Qed.

Lemma has_triple_in rows x : has_triple rows x = true <-> In x rows.
Proof.
  unfold has_triple. rewrite existsb_exists. split.
  - intros [y [H1 H2]]. apply eqb3_eq in H2. now subst.
  - intros H. exists x. split; auto. apply eqb3_refl.
Qed.

Lemma has_triple_snoc rows x y : has_triple (rows ++ [x]) y = eqb3 x y || has_triple rows y.
Proof.
  unfold has_triple. rewrite existsb_app. cbn [existsb]. rewrite orb_false_r, (eqb3_sym y x). apply orb_comm.
Qed.

Lemma has_triple_remove rows x y :
  has_triple (filter (fun z => negb (eqb3 x z)) rows) y = negb (eqb3 x y) && has_triple rows y.
Proof.
  unfold has_triple. induction rows as [|z t IH]; cbn [filter existsb].
  - now rewrite andb_false_r.
  - destruct (eqb3 x z) eqn:E; cbn [negb existsb].
    + rewrite IH. apply eqb3_eq in E. subst z. destruct (eqb3 y x) eqn:F.
      * rewrite (eqb3_sym x y), F. reflexivity.
      * reflexivity.
    + rewrite IH. destruct (eqb3 y z) eqn:F; cbn [orb]; auto.
      apply eqb3_eq in F. subst z. rewrite E. reflexivity.
  Qed.

(** * Refinement *)

Definition spec_eq (m m' : spec) : Prop :=
  (forall k, s_ops m k = s_ops m' k) /\ (forall x, s_topics m x = s_topics m' x) /\
  (forall n, s_cursors m n = s_cursors m' n).

Lemma spec_eq_refl m : spec_eq m m.
Proof. repeat split. Qed.

Lemma spec_eq_sym m m' : spec_eq m m' -> spec_eq m' m.
Proof. intros [H1 [H2 H3]]. repeat split; intros; symmetry; auto. Qed.

Lemma spec_eq_trans a b c : spec_eq a b -> spec_eq b c -> spec_eq a c.
Proof. intros [H1 [H2 H3]] [G1 [G2 G3]]. repeat split; intros; etransitivity; eauto. Qed.

(** Output of the row-level model vs output of the abstract collection. *)
Definition out_ok (o : out) (so : sout) : Prop :=
  match o, so with
  | OB b, SB b' => b = b'
  | OOp x, SOp y => x = y
  | OPairs l, SSet p => NoDup l /\ forall q, In q l <-> p q = true
  | OCur x, SCur y => x = y
  | OUnit, SUnit => True
  | _, _ => False
  end.

(** The UNIQUE constraint, as an invariant of the topic table. *)
Definition inv (i : impl) : Prop := NoDup (i_topics i).

Definition opval_of (r : oprow) : opval := (op_hdr r, op_body r, op_log r).

Lemma abs_ops i id : s_ops (abs i) id = option_map opval_of (lookup op_id (i_ops i) id).
Proof. reflexivity. Qed.

Lemma abs_cursors i n : s_cursors (abs i) n = option_map snd (lookup fst (i_cursors i) n).
Proof. reflexivity. Qed.

Lemma find_op_lookup rows id : find_op rows id = lookup op_id rows id.
Proof. reflexivity. Qed.

Lemma find_fst_lookup (rows : list (N * N)) n : find (fun r => fst r =? n) rows = lookup fst rows n.
Proof. reflexivity. Qed.

Ltac norm :=
  repeat match goal with
         | |- context [find_op ?l ?k] => change (find_op l k) with (lookup op_id l k)
         | |- context [find (fun r => fst r =? ?n) ?l] => change (find (fun r => fst r =? n) l) with (lookup fst l n)
         end.

Lemma has_op_abs i id : has_op (i_ops i) id = is_some (s_ops (abs i) id).
Proof.
  rewrite abs_ops. change (has_op (i_ops i) id) with (present op_id (i_ops i) id).
  rewrite present_lookup. destruct (lookup op_id (i_ops i) id); reflexivity.
Qed.

Lemma nodup_snoc {A} (l : list A) x : NoDup l -> ~ In x l -> NoDup (l ++ [x]).
Proof.
  induction l as [|y t IH]; cbn [app]; intros H Hn.
  - constructor; auto.
  - inversion H as [|? ? Hy Ht]; subst. constructor.
    + rewrite in_app_iff. cbn [In]. intros [I|[I|[]]]; [auto|]. subst. apply Hn. now left.
    + apply IH; auto. intros I. apply Hn. now right.
Qed.

Lemma resolve_nodup rows t :
  NoDup rows -> NoDup (map (fun x : triple => (snd (fst x), snd x)) (filter (fun x => fst (fst x) =? t) rows)).
Proof.
  induction rows as [|[[t' a] l] r IH]; cbn [filter map]; intros H; [constructor|].
  inversion H as [|? ? Hn Hr]; subst. cbn [fst snd]. destruct (t' =? t) eqn:E; auto.
  cbn [map fst snd]. constructor; auto. intros Hin. apply Hn. apply in_map_iff in Hin.
  destruct Hin as [[[t2 a2] l2] [H1 H2]]. apply filter_In in H2. cbn [fst snd] in *.
  destruct H2 as [H2 H3]. apply N.eqb_eq in E, H3. inversion H1. subst. auto.
Qed.

Lemma resolve_in rows t q :
  In q (map (fun x : triple => (snd (fst x), snd x)) (filter (fun x => fst (fst x) =? t) rows)) <->
  has_triple rows (t, fst q, snd q) = true.
Proof.
  rewrite has_triple_in, in_map_iff. split.
  - intros [[[t2 a2] l2] [H1 H2]]. apply filter_In in H2. cbn [fst snd] in *. destruct H2 as [H2 H3].
    apply N.eqb_eq in H3. subst. cbn [fst snd]. auto.
  - intros H. exists (t, fst q, snd q). cbn [fst snd]. split; [now destruct q|].
    apply filter_In. cbn [fst]. split; auto. apply N.eqb_refl.
Qed.

(** Step-wise refinement: for every row-level state (with unique topic rows) and every command
    with a signed header, the abstraction of the next row-level state is the abstract step of
    the abstraction, the outputs correspond, and the invariant is kept. *)
Theorem step_refines : forall (i : impl) (c : cmd),
  inv i -> cmd_signed c = true ->
  spec_eq (abs (fst (step_impl i c))) (fst (step_spec (abs i) c)) /\
  out_ok (snd (step_impl i c)) (snd (step_spec (abs i) c)) /\
  inv (fst (step_impl i c)).
Proof.
  intros i c Hinv Hs. destruct c; cbn [step_impl step_spec cmd_signed] in *.
  - (* OpInsert *)
    subst signed. cbn [negb]. rewrite has_op_abs. destruct (s_ops (abs i) id) as [v|] eqn:E; cbn [is_some fst snd].
    + split; [apply spec_eq_refl|]. split; [reflexivity|exact Hinv].
    + split; [|split; [reflexivity|exact Hinv]]. repeat split; cbn [abs set_ops s_ops s_topics s_cursors i_ops i_topics i_cursors]; auto.
      intros k. norm. rewrite lookup_snoc. cbn [op_id].
      unfold upd; cbv beta; norm. rewrite abs_ops in E. rewrite (N.eqb_sym k id). destruct (id =? k) eqn:F.
      * apply N.eqb_eq in F. subst k. destruct (lookup op_id (i_ops i) id); [discriminate|]. reflexivity.
      * norm. destruct (lookup op_id (i_ops i) k); reflexivity.
  - (* OpGet *)
    cbn [fst snd]. split; [apply spec_eq_refl|]. split; [|exact Hinv]. cbn [out_ok]. f_equal.
    rewrite abs_ops. norm.
    destruct (lookup op_id (i_ops i) id) as [r|] eqn:E; cbn [option_map]; auto.
    apply lookup_key in E. rewrite E. reflexivity.
  - (* OpHas *)
    cbn [fst snd]. split; [apply spec_eq_refl|]. split; [|exact Hinv]. cbn [out_ok]. apply has_op_abs.
  - (* OpDelete *)
    cbn [fst snd]. split; [|split; [cbn [out_ok]; apply has_op_abs|exact Hinv]].
    repeat split; cbn [abs set_ops s_ops s_topics s_cursors i_ops i_topics i_cursors]; auto.
    intros k. norm.
    rewrite lookup_delete. unfold upd; cbv beta; norm. destruct (k =? id); reflexivity.
  - (* OpDeletePayload *)
    cbn [fst snd]. split; [|split; [cbn [out_ok]; apply has_op_abs|exact Hinv]].
    repeat split; cbn [abs set_ops s_ops s_topics s_cursors i_ops i_topics i_cursors]; auto.
    intros k. norm.
    rewrite lookup_map by (intros r; destruct (op_id r =? id); reflexivity).
    unfold upd; cbv beta; norm. norm. norm.
    destruct (k =? id) eqn:F.
    + apply N.eqb_eq in F. subst k. destruct (lookup op_id (i_ops i) id) as [r|] eqn:E; cbn [option_map]; auto.
      apply lookup_key in E. rewrite E, N.eqb_refl. reflexivity.
    + destruct (lookup op_id (i_ops i) k) as [r|] eqn:E; cbn [option_map]; auto.
      apply lookup_key in E. rewrite E, F. reflexivity.
  - (* TAssociate *)
    change (s_topics (abs i) (t, a, l)) with (has_triple (i_topics i) (t, a, l)).
    destruct (has_triple (i_topics i) (t, a, l)) eqn:E; cbn [fst snd negb].
    + split; [|split; [reflexivity|exact Hinv]]. repeat split; cbn [abs s_ops s_topics s_cursors]; auto.
      intros x. destruct (eqb3 (t, a, l) x) eqn:F; auto. apply eqb3_eq in F. subst x. cbn [orb]. auto.
    + split; [|split; [reflexivity|]].
      * repeat split; cbn [abs set_topics s_ops s_topics s_cursors i_ops i_topics i_cursors]; auto.
        intros x. apply has_triple_snoc.
      * unfold inv. cbn [set_topics i_topics]. apply nodup_snoc; auto. intros Hin.
        apply has_triple_in in Hin. congruence.
  - (* TRemove *)
    cbn [fst snd]. split; [|split; [reflexivity|]].
    + repeat split; cbn [abs set_topics s_ops s_topics s_cursors i_ops i_topics i_cursors]; auto.
      intros x. apply has_triple_remove.
    + unfold inv. cbn [set_topics i_topics]. now apply NoDup_filter.
  - (* TResolve *)
    cbn [fst snd]. split; [apply spec_eq_refl|]. split; [|exact Hinv]. cbn [out_ok]. split.
    + now apply resolve_nodup.
    + intros q. apply resolve_in.
  - (* CSet *)
    change (has_name (i_cursors i) name) with (present fst (i_cursors i) name). rewrite present_lookup.
    destruct (lookup fst (i_cursors i) name) as [r|] eqn:E; cbn [is_some fst snd].
    + split; [|split; [exact I|exact Hinv]].
      repeat split; cbn [abs set_cursors s_ops s_topics s_cursors i_ops i_topics i_cursors]; auto.
      intros n. norm.
      rewrite lookup_map.
      2:{ intros r0. destruct (fst r0 =? name) eqn:F; auto. apply N.eqb_eq in F. auto. }
      unfold upd; cbv beta; norm. norm. destruct (n =? name) eqn:F.
      * apply N.eqb_eq in F. subst n. rewrite E. cbn [option_map]. apply lookup_key in E. rewrite E, N.eqb_refl. reflexivity.
      * destruct (lookup fst (i_cursors i) n) as [r0|] eqn:G; cbn [option_map]; auto.
        apply lookup_key in G. rewrite G, F. reflexivity.
    + split; [|split; [exact I|exact Hinv]].
      repeat split; cbn [abs set_cursors s_ops s_topics s_cursors i_ops i_topics i_cursors]; auto.
      intros n. norm. rewrite lookup_snoc. cbn [fst].
      unfold upd; cbv beta; norm. norm. rewrite (N.eqb_sym n name). destruct (name =? n) eqn:F.
      * apply N.eqb_eq in F. subst n. rewrite E. reflexivity.
      * destruct (lookup fst (i_cursors i) n); reflexivity.
  - (* CGet *)
    cbn [fst snd]. split; [apply spec_eq_refl|]. split; [reflexivity|exact Hinv].
  - (* CDelete *)
    cbn [fst snd]. split; [|split; [exact I|exact Hinv]].
    repeat split; cbn [abs set_cursors s_ops s_topics s_cursors i_ops i_topics i_cursors]; auto.
    intros n. norm.
    rewrite lookup_delete. unfold upd; cbv beta; norm. norm. destruct (n =? name); reflexivity.
Qed.

Example step_refines_ex :
  let i := mkimpl [mkoprow 1 1 (Some 1) 0] [(0, 1, 2)] [(3, 9)] in
  inv i /\ snd (step_impl i (OpInsert 1 1 None 2 true)) = OB false /\
  snd (step_impl i (OpInsert 2 2 None 2 true)) = OB true /\ snd (step_impl i (TResolve 0)) = OPairs [(1, 2)].
Proof. repeat split; try reflexivity. repeat constructor; intros []. Qed.

(** An unsigned header: NOT NULL is violated, OR IGNORE swallows it, nothing is stored. *)
Lemma unsigned_insert_reports_false : forall i id hdr body log,
  step_impl i (OpInsert id hdr body log false) = (i, OB false).
Proof. reflexivity. Qed.

(** * Lifting to command sequences *)

Definition sout_eq (a b : sout) : Prop :=
  match a, b with
  | SB x, SB y => x = y
  | SOp x, SOp y => x = y
  | SSet p, SSet q => forall z, p z = q z
  | SCur x, SCur y => x = y
  | SUnit, SUnit => True
  | _, _ => False
  end.

Lemma out_ok_ext o a b : out_ok o a -> sout_eq a b -> out_ok o b.
Proof.
  destruct o, a, b; cbn [out_ok sout_eq]; try tauto; try congruence.
  intros [H1 H2] H3. split; auto. intros q. rewrite H2, H3. tauto.
Qed.

Lemma step_spec_ext m m' c :
  spec_eq m m' ->
  spec_eq (fst (step_spec m c)) (fst (step_spec m' c)) /\ sout_eq (snd (step_spec m c)) (snd (step_spec m' c)).
Proof.
  intros [H1 [H2 H3]]. destruct c; cbn [step_spec].
  - rewrite <- (H1 id). destruct (s_ops m id); cbn [fst snd sout_eq]; split; auto; repeat split; auto.
    cbn [s_ops]. intros k. unfold upd; cbv beta; norm. destruct (k =? id); auto.
  - cbn [fst snd sout_eq]. rewrite H1. repeat split; auto.
  - cbn [fst snd sout_eq]. rewrite H1. repeat split; auto.
  - cbn [fst snd sout_eq]. rewrite H1. repeat split; auto. cbn [s_ops]. intros k. unfold upd; cbv beta; norm. destruct (k =? id); auto.
  - cbn [fst snd sout_eq]. rewrite H1. repeat split; auto. cbn [s_ops]. intros k. unfold upd; cbv beta; norm. destruct (k =? id); auto.
  - cbn [fst snd sout_eq]. rewrite H2. repeat split; auto. cbn [s_topics]. intros x. now rewrite H2.
  - cbn [fst snd sout_eq]. rewrite H2. repeat split; auto. cbn [s_topics]. intros x. now rewrite H2.
  - cbn [fst snd sout_eq]. repeat split; auto.
  - cbn [fst snd sout_eq]. repeat split; auto. cbn [s_cursors]. intros n. unfold upd; cbv beta; norm. destruct (n =? name); auto.
  - cbn [fst snd sout_eq]. rewrite H3. repeat split; auto.
  - cbn [fst snd sout_eq]. repeat split; auto. cbn [s_cursors]. intros n. unfold upd; cbv beta; norm. destruct (n =? name); auto.
Qed.

(** Any command sequence (signed headers), started in corresponding states, produces
    corresponding outputs and ends in corresponding states. *)
Theorem run_refines_from : forall (cs : list cmd) (i : impl) (m : spec),
  inv i -> spec_eq (abs i) m -> forallb cmd_signed cs = true ->
  Forall2 out_ok (snd (run_impl i cs)) (snd (run_spec m cs)) /\
  spec_eq (abs (fst (run_impl i cs))) (fst (run_spec m cs)) /\ inv (fst (run_impl i cs)).
Proof.
  induction cs as [|c r IH]; intros i m Hinv Heq Hs; cbn [run_impl run_spec].
  - cbn [fst snd]. auto.
  - cbn [forallb] in Hs. apply andb_true_iff in Hs. destruct Hs as [Hc Hr].
    destruct (step_refines i c Hinv Hc) as [R1 [R2 R3]].
    destruct (step_spec_ext (abs i) m c Heq) as [E1 E2].
    destruct (step_impl i c) as [i1 o]. destruct (step_spec m c) as [m1 so]. cbn [fst snd] in *.
    specialize (IH i1 m1 R3 (spec_eq_trans _ _ _ R1 E1) Hr).
    destruct (run_impl i1 r) as [i2 os]. destruct (run_spec m1 r) as [m2 sos]. cbn [fst snd] in *.
    destruct IH as [I1 [I2 I3]]. split; [|auto]. constructor; auto. eapply out_ok_ext; eauto.
Qed.

Theorem run_refines : forall cs : list cmd,
  forallb cmd_signed cs = true ->
  Forall2 out_ok (snd (run_impl empty cs)) (snd (run_spec spec_empty cs)).
Proof.
  intros cs H. apply run_refines_from; auto.
  - constructor.
  - repeat split.
Qed.

Example run_refines_ex :
  let cs := [OpInsert 1 1 (Some 1) 0 true; OpInsert 1 1 (Some 1) 2 true; OpDeletePayload 1; OpGet 1;
             TAssociate 0 1 2; TAssociate 0 1 2; TResolve 0; CSet 3 9; CSet 3 10; CGet 3] in
  forallb cmd_signed cs = true /\
  snd (run_impl empty cs) = [OB true; OB false; OB true; OOp (Some (1, 1, None)); OB true; OB false;
                             OPairs [(1, 2)]; OUnit; OUnit; OCur (Some 10)].
Proof. split; reflexivity. Qed.

(** * Corollaries in the words of the property *)

(** After an insert that reported [true]: the same id is reported [false] from then on (until
    deleted), and reading it back returns the same id, header and body. *)
Theorem insert_once_and_read_back : forall i id hdr body log i',
  step_impl i (OpInsert id hdr body log true) = (i', OB true) ->
  (forall hdr' body' log' s', snd (step_impl i' (OpInsert id hdr' body' log' s')) = OB false) /\
  snd (step_impl i' (OpGet id)) = OOp (Some (id, hdr, body)) /\
  snd (step_impl i' (OpHas id)) = OB true /\
  snd (step_impl i (OpHas id)) = OB false.
Proof.
  intros i id hdr body log i' H. cbn [step_impl negb] in H.
  destruct (has_op (i_ops i) id) eqn:E; [inversion H|]. inversion H; subst i'. clear H.
  assert (L : lookup op_id (i_ops i ++ [mkoprow id hdr body log]) id = Some (mkoprow id hdr body log)).
  { rewrite lookup_snoc. change (has_op (i_ops i) id) with (present op_id (i_ops i) id) in E.
    rewrite present_lookup in E. destruct (lookup op_id (i_ops i) id); [discriminate|].
    cbn [op_id]. now rewrite N.eqb_refl. }
  assert (P : has_op (i_ops i ++ [mkoprow id hdr body log]) id = true).
  { change (present op_id (i_ops i ++ [mkoprow id hdr body log]) id = true). rewrite present_lookup, L. reflexivity. }
  repeat split.
  - intros hdr' body' log' s'. cbn [step_impl set_ops i_ops]. destruct (negb s'); auto. rewrite P. reflexivity.
  - cbn [step_impl set_ops i_ops snd]. unfold find_op. fold (lookup op_id (i_ops i ++ [mkoprow id hdr body log]) id).
    rewrite L. reflexivity.
  - cbn [step_impl set_ops i_ops snd]. now rewrite P.
  - cbn [step_impl snd]. now rewrite E.
Qed.

(** A cursor read returns the last cursor written under that name. *)
Theorem cursor_last_writer_wins : forall i n v,
  snd (step_impl (fst (step_impl i (CSet n v))) (CGet n)) = OCur (Some v) /\
  (forall n', n' <> n ->
     snd (step_impl (fst (step_impl i (CSet n v))) (CGet n')) = snd (step_impl i (CGet n'))) /\
  snd (step_impl (fst (step_impl i (CDelete n))) (CGet n)) = OCur None.
Proof.
  intros i n v.
  assert (G : forall j k, snd (step_impl j (CGet k)) = OCur (s_cursors (abs j) k)) by reflexivity.
  assert (T : forall c, cmd_signed c = true -> forall k,
            s_cursors (abs (fst (step_impl (mkimpl (i_ops i) [] (i_cursors i)) c))) k =
            s_cursors (fst (step_spec (abs (mkimpl (i_ops i) [] (i_cursors i))) c)) k).
  { intros c Hc k. destruct (step_refines (mkimpl (i_ops i) [] (i_cursors i)) c) as [[_ [_ H]] _]; auto. constructor. }
  (* the cursor table does not depend on the topic table *)
  assert (S : forall c k, (exists a b, c = CSet a b) \/ (exists a, c = CDelete a) ->
            s_cursors (abs (fst (step_impl i c))) k =
            s_cursors (abs (fst (step_impl (mkimpl (i_ops i) [] (i_cursors i)) c))) k).
  { intros c k [[a [b ->]]|[a ->]]; cbn [step_impl i_cursors]; [destruct (has_name (i_cursors i) a)|]; reflexivity. }
  rewrite !G. split; [|split].
  - rewrite S by eauto. rewrite T by reflexivity. cbn [step_spec fst s_cursors]. unfold upd; cbv beta; norm. now rewrite N.eqb_refl.
  - intros n' Hn. rewrite G, S by eauto. rewrite T by reflexivity. cbn [step_spec fst s_cursors]. unfold upd; cbv beta; norm.
    apply N.eqb_neq in Hn. rewrite Hn. reflexivity.
  - rewrite S by eauto. rewrite T by reflexivity. cbn [step_spec fst s_cursors]. unfold upd; cbv beta; norm. now rewrite N.eqb_refl.
Qed.
