(** Proofs about the symbolic 2SM model (Model/TwoParty.v).

    Main results (re-stated in Properties/C37.v):
    - [decrypts_in_send_order]: in every world reachable by any interleaving of sends of both
      parties, in-order receives and replays, the next pending message of either direction is
      accepted and yields exactly the plaintext it was sent with;
    - [replay_rejected]: in every such world, handing a party a message it already processed
      is an error and leaves the world unchanged.

    Trusted (by construction of the model, see its header): ideal PKE / ideal X3DH channel /
    fresh keys as names.  No axioms, no section hypotheses. *)
From Coq Require Import List NArith Bool Lia.
From PV Require Import Model.TwoParty.
Import ListNotations.
Local Open Scope N_scope.

(** * Small facts *)

Lemma party_eqb_refl p : party_eqb p p = true.
Proof. destruct p; reflexivity. Qed.

Lemma party_eqb_other p : party_eqb (other p) p = false.
Proof. destruct p; reflexivity. Qed.

Lemma party_eqb_other' p : party_eqb p (other p) = false.
Proof. destruct p; reflexivity. Qed.

Lemma other_other p : other (other p) = p.
Proof. destruct p; reflexivity. Qed.

Lemma party_cases p q : q = p \/ q = other p.
Proof. destruct p, q; auto. Qed.

Lemma upd_same {A} (f : party -> A) p v : upd f p v p = v.
Proof. unfold upd. now rewrite party_eqb_refl. Qed.

Lemma upd_other {A} (f : party -> A) p v : upd f p v (other p) = f (other p).
Proof. unfold upd. now rewrite party_eqb_other. Qed.

Lemma upd_other' {A} (f : party -> A) p v : upd f (other p) v p = f p.
Proof. unfold upd. now rewrite party_eqb_other'. Qed.

Lemma key_eqb_refl k : key_eqb k k = true.
Proof.
  destruct k as [p n w]. unfold key_eqb.
  rewrite party_eqb_refl, N.eqb_refl, Bool.eqb_reflx. reflexivity.
Qed.

Lemma key_eqb_idx_neq p n n' w : n <> n' -> key_eqb (K p n w) (K p n' w) = false.
Proof.
  intros H. unfold key_eqb. rewrite party_eqb_refl.
  destruct (N.eqb_spec n n') as [E|E]; [contradiction|reflexivity].
Qed.

(** * Association list facts *)

Lemma lookup_app i l j k :
  lookup i (l ++ [(j, k)]) = match lookup i l with Some x => Some x | None => if N.eqb i j then Some k else None end.
Proof.
  induction l as [|[j0 k0] l IH]; cbn [lookup app].
  - reflexivity.
  - destruct (N.eqb i j0); [reflexivity|exact IH].
Qed.

Lemma lookup_filter (f : N -> bool) i l :
  lookup i (filter (fun e : N * key => f (fst e)) l) = if f i then lookup i l else None.
Proof.
  induction l as [|[j k] l IH]; cbn [lookup filter fst].
  - now destruct (f i).
  - destruct (f j) eqn:Fj; cbn [lookup].
    + destruct (N.eqb_spec i j) as [->|N]; [now rewrite Fj|exact IH].
    + destruct (N.eqb_spec i j) as [->|N]; [now rewrite Fj, IH, Fj|exact IH].
Qed.

(** * The pairing invariant *)

(** Messages [q] of sender [x] carry the consecutive indices [n, n+1, ...] up to (excluding)
    [nend], and the keys generated in those sends. *)
Fixpoint numbered (x : party) (n : N) (q : list msg) (nend : N) : Prop :=
  match q with
  | [] => n = nend
  | m :: q' =>
      pl_next_index (payload_of m) = n /\ pl_recv_secret (payload_of m) = K x n true /\
      pl_sender_vk (payload_of m) = K x n false /\ numbered x (n + 1) q' nend
  end.

Definition own_idx (m : msg) : list N := match m_key_used m with OwnKey j => [j] | _ => [] end.
Definition own_idxs (q : list msg) : list N := flat_map own_idx q.

Fixpoint sorted_from (lo : N) (l : list N) : Prop :=
  match l with [] => True | j :: r => lo <= j /\ sorted_from (j + 1) r end.

(** A pending message for [y] is encrypted to a key [y] will hold when its turn comes. *)
Definition keyed_ok (ot : bool) (y : party) (rx : N) (m : msg) : Prop :=
  match m_key_used m, m_ct m with
  | PreKey, CPre b pl => pl_next_index pl = 1 /\ b = bundle_of ot y
  | ReceivedKey, CHpke k pl => 2 <= pl_next_index pl /\ k = K (other y) (pl_next_index pl - 1) true
  | OwnKey j, CHpke k pl => k = K y j false /\ j <= rx
  | _, _ => False
  end.

(** An already processed message can never be opened again by [y]. *)
Definition dead (y : party) (s : st) (ry : N) (m : msg) : Prop :=
  match m_key_used m, m_ct m with
  | PreKey, CPre _ _ => 1 <= ry
  | ReceivedKey, CHpke k _ => exists n, k = K (other y) n true /\ n < ry
  | OwnKey j, CHpke _ _ => j < min_idx s
  | _, _ => True
  end.

Definition own_ok (y : party) (s : st) : Prop :=
  1 <= min_idx s /\ min_idx s <= next_idx s /\
  forall j, lookup j (own_keys s) =
            if N.leb (min_idx s) j && N.ltb j (next_idx s) then Some (K y j false) else None.

(** What the sender [x] believes about the receiver [y]. *)
Definition link (ot : bool) (x y : party) (sx sy : st) (rx : N) (pend : list msg) : Prop :=
  match next_used sx with
  | PreKey => their_vk sx = None /\ next_idx sx = 1 /\ rx = 0
  | ReceivedKey => their_vk sx = Some (K x (next_idx sx - 1) true) /\ 2 <= next_idx sx
  | OwnKey r => their_vk sx = Some (K y r false) /\ r = rx /\ 1 <= r /\
                Forall (fun j => j < r) (own_idxs pend) /\ min_idx sy <= r
  end /\ (their_bundle sx = None \/ their_bundle sx = Some (bundle_of ot y)).

(** Direction [other y -> y]: [sx] sender state, [sy], [gy] receiver state and key manager,
    [rx], [ry] how many messages sender / receiver processed, [pend], [dn] pending and
    processed messages of the receiver. *)
Definition DI (ot : bool) (y : party) (sx sy : st) (gy : mgr) (rx ry : N) (pend dn : list msg) : Prop :=
  numbered (other y) (ry + 1) pend (next_idx sx) /\
  recv_key sy = (if N.eqb ry 0 then None else Some (K (other y) ry true)) /\
  own_ok y sy /\
  Forall (keyed_ok ot y rx) pend /\
  sorted_from (min_idx sy) (own_idxs pend) /\
  min_idx sy <= rx + 1 /\
  link ot (other y) y sx sy rx pend /\
  (ry = 0 -> gy = init_mgr ot y) /\ mg_owner gy = y /\
  Forall (dead y sy ry) dn.

Definition Inv (ot : bool) (w : world) : Prop :=
  forall p, DI ot p (wst w (other p)) (wst w p) (wmgr w p) (rcvd w (other p)) (rcvd w p)
               (pending w p) (done w p).

Lemma DI_intro ot y sx sy gy rx ry pend dn :
  numbered (other y) (ry + 1) pend (next_idx sx) ->
  recv_key sy = (if N.eqb ry 0 then None else Some (K (other y) ry true)) ->
  own_ok y sy ->
  Forall (keyed_ok ot y rx) pend ->
  sorted_from (min_idx sy) (own_idxs pend) ->
  min_idx sy <= rx + 1 ->
  link ot (other y) y sx sy rx pend ->
  (ry = 0 -> gy = init_mgr ot y) -> mg_owner gy = y ->
  Forall (dead y sy ry) dn ->
  DI ot y sx sy gy rx ry pend dn.
Proof. unfold DI. intuition. Qed.

(** * Helper lemmas on the invariant's ingredients *)

Lemma numbered_le x n q nend : numbered x n q nend -> n <= nend.
Proof.
  revert n; induction q as [|m q IH]; intros n H; cbn [numbered] in H.
  - lia.
  - destruct H as (_ & _ & _ & H). apply IH in H. lia.
Qed.

Lemma numbered_snoc x n q nend m :
  numbered x n q nend ->
  pl_next_index (payload_of m) = nend -> pl_recv_secret (payload_of m) = K x nend true ->
  pl_sender_vk (payload_of m) = K x nend false ->
  numbered x n (q ++ [m]) (nend + 1).
Proof.
  revert n; induction q as [|m0 q IH]; intros n H H1 H2 H3; cbn [numbered app] in *.
  - subst n. auto.
  - destruct H as (A & B & C & D). repeat split; auto.
Qed.

Lemma own_idxs_app q1 q2 : own_idxs (q1 ++ q2) = own_idxs q1 ++ own_idxs q2.
Proof. unfold own_idxs. apply flat_map_app. Qed.

Lemma sorted_from_snoc lo l r :
  sorted_from lo l -> Forall (fun j => j < r) l -> lo <= r -> sorted_from lo (l ++ [r]).
Proof.
  revert lo; induction l as [|j l IH]; intros lo S F L; cbn [sorted_from app] in *.
  - auto.
  - destruct S as [S1 S2]. inversion F as [|? ? F1 F2]; subst. split; [exact S1|].
    apply IH; auto. lia.
Qed.

Lemma sorted_from_weaken lo lo' l : lo' <= lo -> sorted_from lo l -> sorted_from lo' l.
Proof. destruct l; cbn [sorted_from]; [auto|]. intros L [A B]. split; [lia|exact B]. Qed.

Lemma keyed_ok_mono ot y rx rx' m : rx <= rx' -> keyed_ok ot y rx m -> keyed_ok ot y rx' m.
Proof.
  unfold keyed_ok. intros L. destruct (m_key_used m), (m_ct m); auto.
  intros [A B]. split; [exact A|lia].
Qed.

Lemma keyed_own_bound ot y rx q :
  Forall (keyed_ok ot y rx) q -> Forall (fun j => j <= rx) (own_idxs q).
Proof.
  induction 1 as [|m q H _ IH]; [constructor|].
  unfold own_idxs in *. cbn [flat_map]. apply Forall_app. split; [|exact IH].
  unfold own_idx, keyed_ok in *. destruct (m_key_used m); try constructor.
  - destruct (m_ct m); [contradiction|]. destruct H. lia.
  - constructor.
Qed.

Lemma dead_mono y s s' r r' m :
  min_idx s <= min_idx s' -> r <= r' -> dead y s r m -> dead y s' r' m.
Proof.
  unfold dead. intros L1 L2. destruct (m_key_used m), (m_ct m); auto.
  - lia.
  - intros (n & A & B). exists n. split; [exact A|lia].
  - lia.
Qed.

(** * The shape of [send] and [receive] results *)

Lemma send_carries_plain me s x s' m : send me s x = Ok (s', m) -> plain_of m = x.
Proof.
  unfold send. destruct (their_vk s); [|destruct (their_bundle s)]; intros H; inversion H; reflexivity.
Qed.

(** * Component lemma (A): the sender sends *)

Lemma send_dir ot y sx sy gy rx ry pend dn x s' m :
  DI ot y sx sy gy rx ry pend dn ->
  send (other y) sx x = Ok (s', m) ->
  DI ot y s' sy gy rx ry (pend ++ [m]) dn.
Proof.
  intros (Hn & Hr & Ho & Hk & Hs & Hm & (Hl & Hb) & Hg & Hgo & Hd) Hsend.
  pose proof (numbered_le _ _ _ _ Hn) as Hle.
  unfold send in Hsend.
  (* which key is used, the new state and message *)
  assert (Hshape :
    exists c bdl,
      s' = {| next_idx := next_idx sx + 1; min_idx := min_idx sx;
              own_keys := own_keys sx ++ [(next_idx sx, K (other y) (next_idx sx) false)];
              recv_key := recv_key sx; next_used := ReceivedKey; their_bundle := bdl;
              their_vk := Some (K (other y) (next_idx sx) true) |} /\
      m = {| m_ct := c; m_key_used := next_used sx |} /\
      (bdl = None \/ bdl = their_bundle sx) /\
      let pl := {| pl_plain := x; pl_recv_secret := K (other y) (next_idx sx) true;
                   pl_sender_vk := K (other y) (next_idx sx) false;
                   pl_next_index := next_idx sx |} in
      ((their_vk sx = None /\ exists b, their_bundle sx = Some b /\ c = CPre b pl) \/
       (exists k, their_vk sx = Some k /\ c = CHpke k pl))).
  { destruct (their_vk sx) as [k|] eqn:Evk.
    - inversion Hsend; subst. do 2 eexists. split; [reflexivity|]. split; [reflexivity|].
      split; [right; reflexivity|]. right. eexists. split; reflexivity.
    - destruct (their_bundle sx) as [b|] eqn:Eb; [|discriminate].
      inversion Hsend; subst. do 2 eexists. split; [reflexivity|]. split; [reflexivity|].
      split; [left; reflexivity|]. left. split; [reflexivity|]. eexists. split; reflexivity. }
  destruct Hshape as (c & bdl & -> & -> & Hbdl & Hc).
  cbv zeta in Hc.
  assert (Hpl : payload_of {| m_ct := c; m_key_used := next_used sx |} =
                {| pl_plain := x; pl_recv_secret := K (other y) (next_idx sx) true;
                   pl_sender_vk := K (other y) (next_idx sx) false; pl_next_index := next_idx sx |}).
  { unfold payload_of. cbn [m_ct]. destruct Hc as [(_ & b & _ & ->)|(k & _ & ->)]; reflexivity. }
  apply DI_intro; cbn [next_idx min_idx own_keys recv_key next_used their_bundle their_vk].
  - apply numbered_snoc; [exact Hn|rewrite Hpl; reflexivity..].
  - exact Hr.
  - exact Ho.
  - apply Forall_app. split; [exact Hk|]. constructor; [|constructor].
    unfold keyed_ok. cbn [m_key_used m_ct].
    destruct (next_used sx) as [| |r] eqn:Eu.
    + destruct Hl as (Hvk & Hnx & _).
      destruct Hc as [(_ & b & Hb' & ->)|(k & Hk' & _)]; [|congruence].
      cbn [pl_next_index]. split; [exact Hnx|].
      destruct Hb as [Hb|Hb]; congruence.
    + destruct Hl as (Hvk & Hnx).
      destruct Hc as [(Hk' & _)|(k & Hk' & ->)]; [congruence|].
      cbn [pl_next_index]. split; [exact Hnx|congruence].
    + destruct Hl as (Hvk & Hr' & _).
      destruct Hc as [(Hk' & _)|(k & Hk' & ->)]; [congruence|].
      split; [congruence|lia].
  - rewrite own_idxs_app. unfold own_idxs at 2. cbn [flat_map]. unfold own_idx. cbn [m_key_used].
    destruct (next_used sx) as [| |r] eqn:Eu; cbn [app]; try (rewrite app_nil_r; exact Hs).
    destruct Hl as (_ & _ & _ & Hf & Hmr). apply sorted_from_snoc; assumption.
  - exact Hm.
  - unfold link. cbn [next_used their_vk next_idx their_bundle]. split.
    + split; [|lia]. replace (next_idx sx + 1 - 1) with (next_idx sx) by lia. reflexivity.
    + destruct Hbdl as [->| ->]; [left; reflexivity|exact Hb].
  - exact Hg.
  - exact Hgo.
  - exact Hd.
Qed.

(** The sender also is the receiver of the opposite direction; nothing relevant changes there. *)
Lemma send_dir_back ot x sy sx gx ry rx pend dn v s' m :
  DI ot x sy sx gx ry rx pend dn ->
  send x sx v = Ok (s', m) ->
  DI ot x sy s' gx ry rx pend dn.
Proof.
  intros (Hn & Hr & Ho & Hk & Hs & Hm & (Hl & Hb) & Hg & Hgo & Hd) Hsend.
  assert (Hshape : next_idx s' = next_idx sx + 1 /\ min_idx s' = min_idx sx /\
                   own_keys s' = own_keys sx ++ [(next_idx sx, K x (next_idx sx) false)] /\
                   recv_key s' = recv_key sx).
  { unfold send in Hsend. destruct (their_vk sx); [|destruct (their_bundle sx); [|discriminate]];
      inversion Hsend; subst; cbn; auto. }
  destruct Hshape as (E1 & E2 & E3 & E4).
  destruct Ho as (O1 & O2 & O3).
  apply DI_intro; rewrite ?E4, ?E2; auto.
  - unfold own_ok. rewrite E2, E1, E3. split; [exact O1|]. split; [lia|].
    intros j. rewrite lookup_app, O3.
    destruct (N.leb_spec (min_idx sx) j), (N.ltb_spec j (next_idx sx)), (N.ltb_spec j (next_idx sx + 1)),
      (N.eqb_spec j (next_idx sx)); cbn [andb]; try reflexivity; try lia.
    subst j. reflexivity.
  - unfold link in *. rewrite E2. split; [exact Hl|exact Hb].
  - eapply Forall_impl; [|exact Hd]. intros a. apply dead_mono; rewrite ?E2; lia.
Qed.

(** * Component lemma (B): the receiver processes the head of its queue *)

Lemma receive_head ot y sx sy gy rx ry m q dn :
  DI ot y sx sy gy rx ry (m :: q) dn ->
  rx + 1 <= next_idx sy ->
  exists s' g',
    receive y sy gy m = Ok (s', g', plain_of m) /\
    DI ot y sx s' g' rx (ry + 1) q (dn ++ [m]) /\
    next_idx s' = next_idx sy /\ their_bundle s' = their_bundle sy /\
    next_used s' = OwnKey (ry + 1) /\ their_vk s' = Some (K (other y) (ry + 1) false) /\
    min_idx sy <= min_idx s'.
Proof.
  intros (Hn & Hr & Ho & Hk & Hs & Hm & (Hl & Hb) & Hg & Hgo & Hd) Hrx.
  cbn [numbered] in Hn. destruct Hn as (N1 & N2 & N3 & Hn).
  pose proof (Forall_inv Hk) as Hk1. pose proof (Forall_inv_tail Hk) as Hk2.
  destruct Ho as (O1 & O2 & O3).
  (* decrypt succeeds, with these effects *)
  assert (Hdec : exists s1 g1,
            decrypt y sy gy m = Ok (s1, g1, payload_of m) /\
            next_idx s1 = next_idx sy /\ their_bundle s1 = their_bundle sy /\
            mg_owner g1 = y /\
            own_ok y s1 /\ min_idx sy <= min_idx s1 /\
            sorted_from (min_idx s1) (own_idxs q) /\ min_idx s1 <= rx + 1 /\
            (forall r, Forall (fun j => j < r) (own_idxs (m :: q)) -> min_idx sy <= r -> min_idx s1 <= r) /\
            dead y s1 (ry + 1) m).
  { unfold decrypt, keyed_ok, dead, payload_of in *.
    unfold own_idxs in Hs. cbn [flat_map] in Hs. unfold own_idx in Hs.
    destruct (m_key_used m) as [| |j] eqn:Eu; destruct (m_ct m) as [b pl|k pl] eqn:Ec; try contradiction.
    - (* PreKey: first message, X3DH *)
      destruct Hk1 as [Hone ->]. cbn [pl_next_index] in *.
      assert (ry = 0) by lia. subst ry. rewrite Hr. cbn [N.eqb].
      specialize (Hg eq_refl). subst gy.
      exists sy. unfold bundle_of, init_mgr, use_onetime. cbn [b_onetime b_owner mg_onetime mg_owner].
      destruct ot; cbn [memN existsb N.eqb orb filter negb mg_owner].
      + rewrite party_eqb_refl. eexists. split; [reflexivity|].
        cbn [mg_owner]. cbn [app] in Hs. repeat split; auto; try lia.
      + rewrite party_eqb_refl. eexists. split; [reflexivity|].
        cbn [mg_owner]. cbn [app] in Hs. repeat split; auto; try lia.
    - (* ReceivedKey *)
      destruct Hk1 as [H2 ->]. cbn [pl_next_index] in *.
      rewrite Hr. destruct (N.eqb_spec ry 0) as [Z|NZ]; [lia|].
      replace (pl_next_index pl - 1) with ry by lia. rewrite key_eqb_refl.
      exists sy, gy. split; [reflexivity|]. repeat split; auto; try lia.
      exists ry. split; [reflexivity|lia].
    - (* OwnKey j *)
      destruct Hk1 as [-> Hj]. cbn [app sorted_from] in Hs. destruct Hs as [Hs1 Hs2].
      rewrite O3.
      destruct (N.leb_spec (min_idx sy) j) as [_|]; [|lia].
      destruct (N.ltb_spec j (next_idx sy)) as [_|]; [|lia].
      cbn [andb]. rewrite key_eqb_refl.
      eexists. exists gy. split; [reflexivity|].
      unfold own_ok. cbn [next_idx their_bundle min_idx own_keys].
      repeat split; auto; try lia.
      + intros i.
        rewrite (lookup_filter (fun a => negb (N.leb (min_idx sy) a && N.leb a j))), O3.
        destruct (N.leb_spec (min_idx sy) i), (N.leb_spec i j), (N.leb_spec (j + 1) i),
          (N.ltb_spec i (next_idx sy)); cbn [andb negb]; try reflexivity; lia.
      + intros r F _. unfold own_idxs in F. cbn [flat_map] in F. unfold own_idx in F.
        rewrite Eu in F. cbn [app] in F. inversion F; subst. lia. }
  destruct Hdec as (s1 & g1 & Hdec & E1 & E2 & Eg & Ho1 & Hmin & Hs1 & Hm1 & Hlk & Hdead).
  unfold receive. rewrite Hdec.
  do 2 eexists. split; [reflexivity|].
  cbn [next_idx their_bundle next_used their_vk min_idx].
  rewrite N1, N3. split; [|repeat split; auto].
  - (* DI for the shorter queue *)
    apply DI_intro; cbn [next_idx min_idx own_keys recv_key next_used their_bundle their_vk].
    + exact Hn.
    + rewrite N2. destruct (N.eqb_spec (ry + 1) 0); [lia|reflexivity].
    + exact Ho1.
    + exact Hk2.
    + exact Hs1.
    + exact Hm1.
    + unfold link in *. cbn [min_idx]. split; [|exact Hb]. destruct (next_used sx) as [| |r].
      * exact Hl.
      * exact Hl.
      * destruct Hl as (A & B & C & D & E).
        split; [exact A|]. split; [exact B|]. split; [exact C|]. split.
        -- unfold own_idxs in D. cbn [flat_map] in D. apply Forall_app in D. apply D.
        -- apply Hlk; assumption.
    + lia.
    + exact Eg.
    + apply Forall_app. split.
      * eapply Forall_impl; [|exact Hd]. intros a. apply dead_mono; cbn [min_idx]; lia.
      * constructor; [|constructor].
        unfold dead in *. cbn [min_idx]. exact Hdead.
Qed.

(** The receiver also is the sender of the opposite direction. *)
Lemma receive_dir_back ot x sy sx gx ry rx pend dn s' :
  DI ot x sy sx gx ry rx pend dn ->
  next_idx s' = next_idx sy -> their_bundle s' = their_bundle sy ->
  next_used s' = OwnKey (ry + 1) -> their_vk s' = Some (K x (ry + 1) false) ->
  DI ot x s' sx gx (ry + 1) rx pend dn.
Proof.
  intros (Hn & Hr & Ho & Hk & Hs & Hm & (Hl & Hb) & Hg & Hgo & Hd) E1 E2 E3 E4.
  apply DI_intro; rewrite ?E1; auto.
  - eapply Forall_impl; [|exact Hk]. intros a. apply keyed_ok_mono. lia.
  - lia.
  - unfold link. rewrite E3, E4, E2. split; [|exact Hb].
    split; [reflexivity|]. split; [reflexivity|]. split; [lia|]. split; [|lia].
    pose proof (keyed_own_bound _ _ _ _ Hk) as F.
    eapply Forall_impl; [|exact F]. cbn beta. intros; lia.
Qed.

(** * Component lemma (C): replays are rejected *)

Lemma replay_err ot y sx sy gy rx ry pend dn m :
  DI ot y sx sy gy rx ry pend dn -> In m dn -> exists e, receive y sy gy m = Err e.
Proof.
  intros (Hn & Hr & Ho & Hk & Hs & Hm & Hl & Hg & Hgo & Hd) Hin.
  rewrite Forall_forall in Hd. specialize (Hd _ Hin).
  destruct Ho as (O1 & O2 & O3).
  unfold receive, decrypt, dead in *.
  destruct (m_key_used m) as [| |j]; destruct (m_ct m) as [b pl|k pl]; try (eexists; reflexivity).
  - rewrite Hr. destruct (N.eqb_spec ry 0); [lia|]. eexists; reflexivity.
  - destruct Hd as (n & -> & Hlt). rewrite Hr. destruct (N.eqb_spec ry 0); [lia|].
    rewrite key_eqb_idx_neq by lia. eexists; reflexivity.
  - rewrite O3. destruct (N.leb_spec (min_idx sy) j); [lia|]. cbn [andb]. eexists; reflexivity.
Qed.

(** * World level *)

Lemma init_inv ot sym : Inv ot (init_world ot sym).
Proof.
  intros p. unfold DI, init_world. cbn [wst wmgr pending done rcvd].
  assert (Hown : forall q s, s = init_to_receive \/ (exists b, s = init_to_send b) -> own_ok q s).
  { intros q s [->|[b ->]]; unfold own_ok; cbn; repeat split; try lia;
      intros j; destruct (N.leb_spec 1 j), (N.ltb_spec j 1); cbn [andb]; try reflexivity; lia. }
  destruct p, sym; cbn [other numbered own_idxs flat_map sorted_from N.eqb];
    (repeat split; auto; try (cbn; lia); try (apply Hown; eauto);
     try (unfold link; cbn; repeat split; auto)).
Qed.

Lemma step_inv ot w e : Inv ot w -> in_order_event e = true -> Inv ot (fst (step w e)).
Proof.
  intros HI Hev. destruct e as [p x|p|p i|p k]; [| | |discriminate]; cbn [step].
  - (* Send *)
    destruct (send p (wst w p) x) as [[s' m]|er] eqn:Es; [|exact HI].
    cbn [fst]. intros q. cbn [wst wmgr pending done rcvd].
    destruct (party_cases p q) as [->| ->].
    + (* q = p: the sender as receiver of the other direction *)
      rewrite upd_same, upd_other, upd_other'.
      eapply send_dir_back; [apply HI|exact Es].
    + rewrite other_other, upd_same, upd_other, upd_same.
      pose proof (HI (other p)) as H. rewrite other_other in H.
      eapply send_dir; [exact H|rewrite other_other; exact Es].
  - (* Recv *)
    destruct (pending w p) as [|m q] eqn:Ep; [exact HI|].
    pose proof (HI p) as H. rewrite Ep in H.
    pose proof (HI (other p)) as H'. rewrite other_other in H'.
    assert (Hrx : rcvd w (other p) + 1 <= next_idx (wst w p)).
    { destruct H' as (Hn & _). apply numbered_le in Hn. exact Hn. }
    destruct (receive_head _ _ _ _ _ _ _ _ _ _ H Hrx) as (s' & g' & Er & HD & E1 & E2 & E3 & E4 & _).
    rewrite Er. cbn [fst]. intros q0. cbn [wst wmgr pending done rcvd].
    destruct (party_cases p q0) as [->| ->].
    + rewrite !upd_same, !upd_other. exact HD.
    + rewrite other_other, !upd_same, !upd_other.
      eapply receive_dir_back; eauto.
  - (* Replay *)
    destruct (nth_error (done w p) i) as [m|] eqn:En; [|exact HI].
    apply nth_error_In in En.
    destruct (replay_err _ _ _ _ _ _ _ _ _ _ (HI p) En) as [er Er].
    rewrite Er. exact HI.
Qed.

Lemma run_inv ot evs : forall w, Inv ot w -> forallb in_order_event evs = true -> Inv ot (fst (run w evs)).
Proof.
  induction evs as [|e evs IH]; intros w HI Hev; cbn [run].
  - exact HI.
  - cbn [forallb] in Hev. apply andb_prop in Hev. destruct Hev as [He Hev].
    pose proof (step_inv ot w e HI He) as H1.
    destruct (step w e) as [w1 o]. cbn [fst] in H1.
    specialize (IH w1 H1 Hev). destruct (run w1 evs) as [w2 os]. exact IH.
Qed.

(** * Main theorems *)

Theorem decrypts_in_send_order ot sym evs :
  forallb in_order_event evs = true ->
  let w := fst (run (init_world ot sym) evs) in
  forall p m q, pending w p = m :: q ->
    exists w', step w (Recv p) = (w', ORecv (plain_of m)) /\ pending w' p = q /\ rcvd w' p = rcvd w p + 1.
Proof.
  intros Hev w p m q Ep.
  pose proof (run_inv ot evs _ (init_inv ot sym) Hev) as HI. fold w in HI.
  pose proof (HI p) as H. rewrite Ep in H.
  pose proof (HI (other p)) as H'. rewrite other_other in H'.
  assert (Hrx : rcvd w (other p) + 1 <= next_idx (wst w p)).
  { destruct H' as (Hn & _). apply numbered_le in Hn. exact Hn. }
  destruct (receive_head _ _ _ _ _ _ _ _ _ _ H Hrx) as (s' & g' & Er & _).
  cbn [step]. rewrite Ep, Er. eexists. split; [reflexivity|].
  cbn [pending rcvd]. rewrite !upd_same. auto.
Qed.

Theorem replay_rejected ot sym evs :
  forallb in_order_event evs = true ->
  let w := fst (run (init_world ot sym) evs) in
  forall p i m, nth_error (done w p) i = Some m ->
    exists e, step w (Replay p i) = (w, ORecvErr e).
Proof.
  intros Hev w p i m En.
  pose proof (run_inv ot evs _ (init_inv ot sym) Hev) as HI. fold w in HI.
  pose proof (nth_error_In _ _ En) as Hin.
  destruct (replay_err _ _ _ _ _ _ _ _ _ _ (HI p) Hin) as [er Er].
  cbn [step]. rewrite En, Er. eauto.
Qed.

(** [done p] is exactly what [p] processed, [pending p] what it still has to, and together they
    are what the other party sent, in send order: the bookkeeping of [step]. *)
Lemma step_sent w e p :
  in_order_event e = true ->
  let w' := fst (step w e) in
  (done w' p ++ pending w' p =
   done w p ++ pending w p ++
     match e with
     | Send x v => if party_eqb p (other x)
                   then match send x (wst w x) v with Ok (_, m) => [m] | Err _ => [] end else []
     | _ => []
     end).
Proof.
  intros Hev. destruct e as [x v|x|x i|x k]; [| | |discriminate]; cbn [step].
  - destruct (send x (wst w x) v) as [[s' m]|er]; cbn [fst pending done];
      destruct p, x; cbn [upd party_eqb other]; rewrite ?app_nil_r; reflexivity.
  - destruct (pending w x) as [|m q] eqn:Ep; cbn [fst]; [now rewrite app_nil_r|].
    destruct (receive x (wst w x) (wmgr w x) m) as [[[s' g'] v]|er]; cbn [fst pending done];
      [|now rewrite app_nil_r].
    destruct p, x; cbn [upd party_eqb]; rewrite ?Ep, ?app_nil_r, <- ?app_assoc; reflexivity.
  - destruct (nth_error (done w x) i) as [m|]; cbn [fst]; [|now rewrite app_nil_r].
    destruct (receive x (wst w x) (wmgr w x) m) as [[[s' g'] v]|er]; cbn [fst pending done];
      now rewrite app_nil_r.
Qed.

(** Non-vacuity: a concrete interleaving in which both directions have pending and processed
    messages (so both theorems speak about something). *)
Example hypotheses_satisfiable :
  let evs := [Send PA 0; Send PB 1; Send PA 2; Recv PB; Recv PA; Send PB 5; Replay PB 0] in
  forallb in_order_event evs = true /\
  let w := fst (run (init_world false true) evs) in
  List.length (pending w PB) = 1%nat /\ List.length (pending w PA) = 1%nat /\
  List.length (done w PB) = 1%nat /\ List.length (done w PA) = 1%nat.
Proof. vm_compute. repeat split. Qed.
