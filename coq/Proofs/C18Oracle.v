(** Soundness of the C18 oracle: what it accepts satisfies the property statement. *)
From Coq Require Import List NArith Bool Lia Sorted.
From PV Require Import Model.Timestamp Proofs.Timestamp Oracle.C18.
Import ListNotations.
Local Open Scope N_scope.

Lemma check_seq_sound :
  forall nows h outs,
    check_seq h nows outs false = true ->
    length outs = length nows /\ StronglySorted hlt (h :: outs).
Proof.
  induction nows as [|n r IH]; intros h outs H.
  - destruct outs; [|discriminate]. split; [reflexivity|]. constructor; constructor.
  - destruct outs as [|o os]; [discriminate|].
    cbn [check_seq] in H. apply andb_true_iff in H. destruct H as [L H].
    apply hltb_spec in L. destruct (IH _ _ H) as [Hlen Hs].
    split; [cbn [length]; congruence|].
    constructor; [exact Hs|]. constructor; [exact L|].
    apply StronglySorted_inv in Hs. destruct Hs as [_ Hf].
    rewrite Forall_forall in *. intros x Hx. eapply hlt_trans; [exact L|auto].
Qed.

Lemma check_net_sound :
  forall rounds cur outs,
    check_net cur rounds outs false = true ->
    length outs = length rounds /\ Forall (fun p => snd p = true) outs /\
    StronglySorted hlt (cur :: map fst outs).
Proof.
  induction rounds as [|[c n] r IH]; intros cur outs H.
  - destruct outs; [|discriminate]. repeat split; constructor; constructor.
  - destruct outs as [|[o acc] os]; [discriminate|].
    cbn [check_net] in H. apply andb_true_iff in H. destruct H as [H1 H].
    apply andb_true_iff in H1. destruct H1 as [A L]. apply hltb_spec in L.
    destruct (IH _ _ H) as [Hlen [Hacc Hs]].
    repeat split; [cbn [length]; congruence|constructor; [exact A|exact Hacc]|].
    cbn [map fst]. constructor; [exact Hs|]. constructor; [exact L|].
    apply StronglySorted_inv in Hs. destruct Hs as [_ Hf].
    rewrite Forall_forall in *. intros x Hx. eapply hlt_trans; [exact L|auto].
Qed.

(** The model itself passes the oracle (ties the oracle to the theorems). *)
Lemma model_passes_check_seq :
  forall nows h, check_seq h nows (fst (run h nows)) (negb (snd (run h nows))) = true.
Proof.
  induction nows as [|n r IH]; intros h; [reflexivity|].
  cbn [run]. destruct (increment_cases h n) as [[H E]|[[H [L E]]|[H [L E]]]]; rewrite E.
  - specialize (IH (n, 0)). destruct (run (n, 0) r) as [out ok]. cbn [fst snd check_seq] in *.
    rewrite IH, andb_true_r. apply hltb_spec. left. exact H.
  - specialize (IH (fst h, snd h + 1)). destruct (run _ r) as [out ok]. cbn [fst snd check_seq] in *.
    rewrite IH, andb_true_r. apply hltb_spec. right. cbn [fst snd]. lia.
  - cbn [fst snd check_seq negb]. apply N.leb_le in H, L. rewrite H, L. reflexivity.
Qed.
