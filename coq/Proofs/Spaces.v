(** Proofs about the dispatch / replay-guard model of the spaces manager (Model/Spaces.v). *)
From Coq Require Import List NArith Bool Lia.
From PV Require Import Model.Spaces.
Import ListNotations.

(** * Membership and lookup facts *)

Lemma memN_head x l : memN x (x :: l) = true.
Proof. unfold memN. cbn [existsb]. rewrite N.eqb_refl. reflexivity. Qed.

Lemma memN_cons x y l : memN x l = true -> memN x (y :: l) = true.
Proof. unfold memN. cbn [existsb]. intros ->. apply orb_true_r. Qed.

Lemma eqb2_refl x : eqb2 x x = true.
Proof. unfold eqb2. rewrite !N.eqb_refl. reflexivity. Qed.

Lemma mem2_head x l : mem2 x (x :: l) = true.
Proof. unfold mem2. cbn [existsb]. rewrite eqb2_refl. reflexivity. Qed.

Lemma mem2_cons x y l : mem2 x l = true -> mem2 x (y :: l) = true.
Proof. unfold mem2. cbn [existsb]. intros ->. apply orb_true_r. Qed.

Lemma mem2_app_r x a b : mem2 x b = true -> mem2 x (a ++ b) = true.
Proof. unfold mem2. rewrite existsb_app. intros ->. apply orb_true_r. Qed.

Lemma lookup_app_some {A} k (l l' : list (N * A)) v : lookup k l = Some v -> lookup k (l ++ l') = Some v.
Proof.
  induction l as [|[k' v'] l IH]; cbn [lookup app]; [discriminate|].
  destruct (N.eqb k k'); auto.
Qed.

Lemma lookup_app_none {A} k (l : list (N * A)) v : lookup k l = None -> lookup k (l ++ [(k, v)]) = Some v.
Proof.
  induction l as [|[k' v'] l IH]; cbn [lookup app].
  - rewrite N.eqb_refl. reflexivity.
  - destruct (N.eqb k k'); [discriminate|auto].
Qed.

(** * Routing is total after the repair, and was not before *)

Theorem route_total : forall k, route k <> TPanic.
Proof. intros [b|a|sp r|sp|sp]; unfold route, route_cfg; cbn; try discriminate. destruct a; cbn; discriminate. Qed.

Theorem route_asis_refuted : exists k, route_asis k = TPanic.
Proof. exists (KSpaceUpdate 0). reflexivity. Qed.

(** Every kind but [SpaceUpdate] was routed to a handler before the repair as well. *)
Theorem route_asis_outside_known : forall k, (forall sp, k <> KSpaceUpdate sp) -> route_asis k <> TPanic.
Proof. intros [b|a|sp r|sp|sp] Hk; unfold route_asis, route_cfg; cbn; try discriminate. exfalso; eapply Hk; reflexivity. Qed.

(** * The generic replay guard *)
Section GuardProofs.
  Variables (St M K Ev : Type).
  Variable key : M -> K.
  Variable keqb : K -> K -> bool.
  Hypothesis keqb_refl : forall k, keqb k k = true.
  Variable handler : list K -> St -> M -> option (St * list Ev).

  Notation gstep := (gstep St M K Ev key keqb handler).
  Notation grun := (grun St M K Ev key keqb handler).

  Definition gseen (s : list K * St) (m : M) : bool := existsb (keqb (key m)) (fst s).

  Lemma gstep_seen_quiet s m : gseen s m = true -> gstep s m = (s, []).
  Proof. unfold gseen, Spaces.gstep. intros ->. reflexivity. Qed.

  Lemma gstep_monotone s m m' : gseen s m = true -> gseen (fst (gstep s m')) m = true.
  Proof.
    unfold gseen, Spaces.gstep. intros Hs.
    destruct (existsb (keqb (key m')) (fst s)); [exact Hs|].
    destruct (handler (fst s) (snd s) m') as [[s' ev]|]; [|exact Hs].
    cbn [fst existsb]. rewrite Hs. apply orb_true_r.
  Qed.

  (** Processing a message a second time right away: no change, no events — for ANY handler. *)
  Theorem guarded_idempotent s m : gstep (fst (gstep s m)) m = (fst (gstep s m), []).
  Proof.
    unfold Spaces.gstep at 2 3.
    destruct (existsb (keqb (key m)) (fst s)) eqn:Hs.
    - cbn [fst]. unfold Spaces.gstep. rewrite Hs. reflexivity.
    - destruct (handler (fst s) (snd s) m) as [[s' ev]|] eqn:Hh.
      + cbn [fst]. apply gstep_seen_quiet. unfold gseen. cbn [fst existsb]. rewrite keqb_refl. reflexivity.
      + cbn [fst]. unfold Spaces.gstep. rewrite Hs, Hh. reflexivity.
  Qed.

  Lemma grun_monotone ms : forall s m, gseen s m = true -> gseen (grun s ms) m = true.
  Proof. induction ms as [|m' ms IH]; intros s m Hs; cbn [Spaces.grun]; [exact Hs|]. apply IH, gstep_monotone, Hs. Qed.

  (** ... and at any later position: once recorded, re-delivery after an arbitrary history of
      other deliveries changes nothing and emits nothing. *)
  Theorem guarded_idempotent_later s m ms :
    gseen s m = true -> gstep (grun s ms) m = (grun s ms, []).
  Proof. intros Hs. apply gstep_seen_quiet, grun_monotone, Hs. Qed.

  (** A successful first processing records the key. *)
  Lemma gstep_records s m s' ev : handler (fst s) (snd s) m = Some (s', ev) -> gseen (fst (gstep s m)) m = true.
  Proof.
    intros Hh. unfold gseen, Spaces.gstep.
    destruct (existsb (keqb (key m)) (fst s)) eqn:Hs; [exact Hs|].
    rewrite Hh. cbn [fst existsb]. rewrite keqb_refl. reflexivity.
  Qed.
End GuardProofs.

(** * The manager *)
Section ManagerProofs.
  Variable S : Type.
  Variable E : Type.
  Variable H : handlers S E.

  Notation process c := (process S E c H).
  Notation deliver c := (deliver S E c H).
  Notation local := (local S).
  Notation step c := (step S E c H).
  Notation run c := (run S E c H).

  Ltac break :=
    repeat match goal with
           | |- context [match ?x with _ => _ end] => destruct x eqn:?
           end.

  (** ** Totality: with the repaired dispatch no message kind or content reaches a panic, whatever
      the state and whatever the handlers answer. *)
  Theorem process_total : forall st m, snd (process fixed st m) <> Panic.
  Proof.
    intros st m. unfold Spaces.process, run_handler. cbn [su_rejects promote_rejects kb_guard app_guard fixed].
    break; cbn [snd]; try discriminate.
    all: try (rewrite andb_true_l in *; congruence).
  Qed.

  Theorem deliver_total : forall st m, snd (deliver fixed st m) <> Panic.
  Proof. intros. apply process_total. Qed.

  (** As found, three paths panic on remote-chosen input. *)
  Definition any_handlers (s : S) (e : E) : handlers S E :=
    {| kb_valid := fun _ => true; ev_kb := fun _ => e; h_identity := fun _ _ => Some s;
       h_group := fun _ _ => Some (s, []); h_member := fun _ _ => Some (s, []); h_app := fun _ _ => Some (s, [e]) |}.

  (** ** Errors and panics persist nothing *)
  Lemma process_not_done_unchanged c st m :
    (forall ev, snd (process c st m) <> Done ev) -> fst (process c st m) = st.
  Proof.
    unfold Spaces.process, run_handler. intros Hn.
    break; cbn [fst snd] in *; try reflexivity; exfalso; eapply Hn; reflexivity.
  Qed.

  Lemma process_stored c st m : stored (fst (process c st m)) = stored st.
  Proof.
    unfold Spaces.process, run_handler, record.
    break; cbn [fst stored]; try reflexivity; try congruence.
  Qed.

  (** ** Monotonicity of everything the guards and the dispatch preconditions read *)
  Record extends (a b : mstate S) : Prop := {
    ex_auth : forall x, memN x (auth_ops a) = true -> memN x (auth_ops b) = true;
    ex_seen : forall x, mem2 x (space_seen a) = true -> mem2 x (space_seen b) = true;
    ex_spaces : forall x, memN x (spaces a) = true -> memN x (spaces b) = true;
    ex_stored : forall k v, lookup k (stored a) = Some v -> lookup k (stored b) = Some v;
    ex_bundles : forall x, mem2 x (bundles a) = true -> mem2 x (bundles b) = true
  }.

  Lemma extends_refl a : extends a a.
  Proof. constructor; auto. Qed.

  Lemma extends_trans a b c : extends a b -> extends b c -> extends a c.
  Proof. intros [] []. constructor; auto. Qed.

  Lemma store_extends st m : extends st (store_msg st m).
  Proof.
    unfold store_msg. destruct (lookup (mid m) (stored st)) eqn:Hl; [apply extends_refl|].
    constructor; cbn [auth_ops space_seen spaces stored bundles]; auto.
    intros k v Hk. apply lookup_app_some, Hk.
  Qed.

  Lemma record_extends st m s' : extends st (record st m s').
  Proof.
    unfold record. destruct (mkind m) as [b|a|sp r|sp|sp]; try apply extends_refl;
      constructor; cbn [auth_ops space_seen spaces stored bundles]; auto.
    - intros x Hx. apply mem2_cons, Hx.
    - intros x Hx. apply memN_cons, Hx.
    - intros x Hx. apply mem2_cons, mem2_app_r, Hx.
    - intros x Hx. destruct (memN sp (spaces st)); [exact Hx|apply memN_cons, Hx].
    - intros x Hx. apply mem2_cons, mem2_app_r, Hx.
    - intros x Hx. destruct (memN sp (spaces st)); [exact Hx|apply memN_cons, Hx].
  Qed.

  Lemma process_extends c st m : extends st (fst (process c st m)).
  Proof.
    unfold Spaces.process, run_handler.
    break; cbn [fst]; try apply extends_refl; apply record_extends.
  Qed.

  Lemma deliver_extends c st m : extends st (fst (deliver c st m)).
  Proof. unfold Spaces.deliver. eapply extends_trans; [apply store_extends|apply process_extends]. Qed.

  Lemma local_extends st m : extends st (local st m).
  Proof. unfold Spaces.local. eapply extends_trans; [apply store_extends|apply record_extends]. Qed.

  Lemma step_extends c st o : extends st (fst (step c st o)).
  Proof.
    destruct o as [m|m]; cbn [Spaces.step].
    - pose proof (deliver_extends c st m) as He. destruct (Spaces.deliver S E c H st m). exact He.
    - apply local_extends.
  Qed.

  Lemma run_extends c ops : forall st, extends st (run c st ops).
  Proof.
    induction ops as [|o ops IH]; intros st; cbn [Spaces.run]; [apply extends_refl|].
    eapply extends_trans; [apply step_extends|apply IH].
  Qed.

  (** ** "Already processed": what a successful processing (or local authorship) leaves behind *)
  Definition settled (st : mstate S) (m : msg) : Prop :=
    (exists v, lookup (mid m) (stored st) = Some v) /\
    match mkind m with
    | KKeyBundle b => mem2 (mauthor m, b) (bundles st) = true
    | KAuth a => supported a = true /\ memN (mid m) (auth_ops st) = true
    | KSpaceMembership sp ref =>
        exists a, lookup ref (stored st) = Some (SAuth a) /\ supported a = true /\
                  memN sp (spaces st) = true /\ mem2 (sp, mid m) (space_seen st) = true
    | KSpaceUpdate _ => False
    | KApplication sp => memN sp (spaces st) = true /\ mem2 (sp, mid m) (space_seen st) = true
    end.

  Lemma settled_extends a b m : settled a m -> extends a b -> settled b m.
  Proof.
    intros [[v Hv] Hk] [Ha Hs Hsp Hst Hb]. split; [exists v; auto|].
    destruct (mkind m) as [bb|ac|sp r|sp|sp]; auto.
    - destruct Hk; auto.
    - destruct Hk as (ac & ? & ? & ? & ?). exists ac. auto.
    - destruct Hk; auto.
  Qed.

  Lemma settled_quiet st m : settled st m -> deliver fixed st m = (st, Done []).
  Proof.
    intros [[v Hv] Hk]. unfold Spaces.deliver, store_msg. rewrite Hv.
    unfold Spaces.process. cbn [su_rejects promote_rejects kb_guard app_guard fixed].
    destruct (mkind m) as [bb|ac|sp r|sp|sp].
    - rewrite Hk. reflexivity.
    - destruct Hk as [-> ->]. reflexivity.
    - destruct Hk as (ac & -> & -> & -> & ->). reflexivity.
    - contradiction.
    - destruct Hk as [-> ->]. reflexivity.
  Qed.

  Lemma memN_spaces_after sp (l : list N) : memN sp (if memN sp l then l else sp :: l) = true.
  Proof. destruct (memN sp l) eqn:Hm; [exact Hm|apply memN_head]. Qed.

  Lemma done_settled st m ev :
    (exists v, lookup (mid m) (stored st) = Some v) ->
    snd (process fixed st m) = Done ev -> settled (fst (process fixed st m)) m.
  Proof.
    intros Hst. unfold settled. rewrite process_stored. intros Hd. split; [exact Hst|]. revert Hd.
    unfold Spaces.process, run_handler. cbn [su_rejects promote_rejects kb_guard app_guard fixed andb].
    destruct (mkind m) as [bb|ac|sp r|sp|sp] eqn:Hk.
    - destruct (mem2 (mauthor m, bb) (bundles st)) eqn:Hg; cbn [fst snd]; [auto|].
      destruct (kb_valid H m) eqn:Hv; cbn [negb]; [|discriminate].
      destruct (h_identity H st m); cbn [fst snd]; [|discriminate].
      intros _. unfold record. rewrite Hk. cbn [bundles]. apply mem2_head.
    - destruct (supported ac) eqn:Hs; cbn [negb]; [|discriminate].
      destruct (memN (mid m) (auth_ops st)) eqn:Hg; cbn [fst snd]; [auto|].
      destruct (h_group H st m) as [[s' e]|]; cbn [fst snd]; [|discriminate].
      intros _. split; [reflexivity|]. unfold record. rewrite Hk. cbn [auth_ops]. apply memN_head.
    - destruct (lookup r (stored st)) as [[|a| | |]|] eqn:Hl; cbn [fst snd]; try discriminate.
      destruct (supported a) eqn:Hs; cbn [negb]; [|discriminate].
      destruct (memN sp (spaces st) || is_create a) eqn:Hsp; cbn [fst snd]; [|discriminate].
      destruct (memN sp (spaces st) && mem2 (sp, mid m) (space_seen st)) eqn:Hg; cbn [fst snd].
      + intros _. apply andb_true_iff in Hg as [Hg1 Hg2]. exists a. auto.
      + destruct (h_member H st m) as [[s' e]|]; cbn [fst snd]; [|discriminate].
        intros _. exists a. unfold record. rewrite Hk. cbn [stored spaces space_seen].
        repeat split; auto. apply memN_spaces_after. apply mem2_head.
    - discriminate.
    - destruct (memN sp (spaces st)) eqn:Hsp; cbn [fst snd]; [|discriminate].
      destruct (mem2 (sp, mid m) (space_seen st)) eqn:Hg; cbn [fst snd]; [auto|].
      destruct (h_app H st m) as [[s' e]|]; cbn [fst snd]; [|discriminate].
      intros _. unfold record. rewrite Hk. cbn [spaces space_seen]. rewrite Hsp.
      split; [exact Hsp|apply mem2_head].
  Qed.

  (** What prior state each message kind needs in order to be processed at all (everything else
      is an error of the dispatch, before any handler runs). *)
  Theorem dispatch_preconditions st m ev :
    snd (process fixed st m) = Done ev ->
    match mkind m with
    | KKeyBundle _ => True
    | KAuth a => supported a = true
    | KSpaceMembership sp ref =>
        exists a, lookup ref (stored st) = Some (SAuth a) /\ supported a = true /\
                  (memN sp (spaces st) = true \/ is_create a = true)
    | KSpaceUpdate _ => False
    | KApplication sp => memN sp (spaces st) = true
    end.
  Proof.
    unfold Spaces.process, run_handler. cbn [su_rejects promote_rejects kb_guard app_guard fixed andb].
    destruct (mkind m) as [bb|ac|sp r|sp|sp] eqn:Hk; auto.
    - destruct (supported ac); cbn [negb]; [reflexivity|discriminate].
    - destruct (lookup r (stored st)) as [[|a| | |]|] eqn:Hl; cbn [fst snd]; try discriminate.
      destruct (supported a) eqn:Hs; cbn [negb]; [|discriminate].
      destruct (memN sp (spaces st) || is_create a) eqn:Hsp; cbn [fst snd]; [|discriminate].
      intros _. exists a. repeat split; auto. apply orb_true_iff, Hsp.
    - discriminate.
    - destruct (memN sp (spaces st)); [reflexivity|discriminate].
  Qed.

  Lemma store_present (st : mstate S) m : exists v, lookup (mid m) (stored (store_msg st m)) = Some v.
  Proof.
    unfold store_msg. destruct (lookup (mid m) (stored st)) eqn:Hl.
    - eexists; exact Hl.
    - cbn [stored]. eexists. apply lookup_app_none, Hl.
  Qed.

  Lemma deliver_done_settled st m ev :
    snd (deliver fixed st m) = Done ev -> settled (fst (deliver fixed st m)) m.
  Proof. unfold Spaces.deliver. apply done_settled, store_present. Qed.

  Lemma local_settled st m :
    match mkind m with
    | KKeyBundle _ => True
    | KAuth a => supported a = true
    | KSpaceMembership _ ref => exists a, lookup ref (stored (store_msg st m)) = Some (SAuth a) /\ supported a = true
    | KSpaceUpdate _ => False
    | KApplication _ => True
    end -> settled (local st m) m.
  Proof.
    intros Hk. unfold Spaces.local, settled.
    destruct (store_present st m) as [v Hv]. set (st' := store_msg st m) in *.
    split.
    - exists v. unfold record. destruct (mkind m); cbn [stored]; exact Hv.
    - unfold record. destruct (mkind m) as [bb|ac|sp r|sp|sp] eqn:Hkd; cbn [auth_ops space_seen spaces stored bundles].
      + apply mem2_head.
      + split; [exact Hk|apply memN_head].
      + destruct Hk as (a & Hl & Hs). exists a. repeat split; auto. apply memN_spaces_after. apply mem2_head.
      + contradiction.
      + split; [apply memN_spaces_after|apply mem2_head].
  Qed.

  (** ** Main theorems *)

  (** Second processing right after the first: the state does not change and nothing is emitted;
      the result is success (if the first was) or the same error. *)
  Theorem deliver_twice st m :
    deliver fixed (fst (deliver fixed st m)) m = (fst (deliver fixed st m), quiet (snd (deliver fixed st m))).
  Proof.
    destruct (snd (deliver fixed st m)) as [|e|ev] eqn:Ho.
    - exfalso. eapply deliver_total, Ho.
    - (* error: nothing but the stored operation changed, so the same thing happens again *)
      assert (Hf : fst (deliver fixed st m) = store_msg st m).
      { unfold Spaces.deliver in *. apply process_not_done_unchanged. intros ev. rewrite Ho. discriminate. }
      rewrite Hf. unfold Spaces.deliver at 1.
      assert (Hi : store_msg (store_msg st m) m = store_msg st m).
      { destruct (store_present st m) as [v Hv]. unfold store_msg at 1. rewrite Hv. reflexivity. }
      rewrite Hi. unfold Spaces.deliver in Ho, Hf.
      rewrite (surjective_pairing (Spaces.process S E fixed H (store_msg st m) m)), Hf, Ho. reflexivity.
    - apply settled_quiet. eapply deliver_done_settled, Ho.
  Qed.

  (** ... and at any later position: after any history of further deliveries and local
      operations, re-delivering a message that was processed successfully returns success
      without events and leaves the state as it is. *)
  Theorem redelivery_later st m ev ops :
    snd (deliver fixed st m) = Done ev ->
    let st2 := run fixed (fst (deliver fixed st m)) ops in
    deliver fixed st2 m = (st2, Done []).
  Proof.
    intros Hd st2. apply settled_quiet.
    eapply settled_extends; [eapply deliver_done_settled, Hd|apply run_extends].
  Qed.

  (** The same for a peer's own messages (authored locally, then received back). *)
  Theorem own_message_later st m ops :
    settled (local st m) m ->
    let st2 := run fixed (local st m) ops in
    deliver fixed st2 m = (st2, Done []).
  Proof.
    intros Hs st2. apply settled_quiet. eapply settled_extends; [exact Hs|apply run_extends].
  Qed.

  (** More general: any later state whatsoever, reached by steps that only add to the guard
      sets (local API calls included), is quiet for a settled message. *)
  Theorem settled_later st st' m : settled st m -> extends st st' -> deliver fixed st' m = (st', Done []).
  Proof. intros Hs He. apply settled_quiet. eapply settled_extends; eauto. Qed.
End ManagerProofs.

(** * The code as found violates the property (kept for the record; the defects are repaired) *)

Definition H0 : handlers unit N := any_handlers unit N tt 7%N.

Definition kbm : msg := {| mid := 1; mauthor := 2; mkind := KKeyBundle 3; mdeps := []; mhok := true |}.
Definition sum : msg := {| mid := 1; mauthor := 2; mkind := KSpaceUpdate 3; mdeps := []; mhok := true |}.
Definition crm : msg := {| mid := 1; mauthor := 2; mkind := KAuth ACreate; mdeps := []; mhok := true |}.
Definition ptm : msg := {| mid := 2; mauthor := 2; mkind := KSpaceMembership 5 1; mdeps := []; mhok := true |}.
Definition apm : msg := {| mid := 3; mauthor := 2; mkind := KApplication 5; mdeps := [2%N]; mhok := true |}.
Definition prm : msg := {| mid := 4; mauthor := 2; mkind := KAuth APromote; mdeps := [1%N]; mhok := true |}.

Theorem asis_space_update_panics :
  exists st m, snd (deliver unit N asis H0 st m) = Panic.
Proof. exists (init tt), sum. reflexivity. Qed.

Theorem asis_promote_panics :
  exists st m, snd (deliver unit N asis H0 st m) = Panic.
Proof. exists (init tt), prm. reflexivity. Qed.

Theorem asis_key_bundle_reemits :
  exists st m, snd (deliver unit N asis H0 (fst (deliver unit N asis H0 st m)) m) = Done [7%N].
Proof. exists (init tt), kbm. reflexivity. Qed.

Theorem asis_application_reemits :
  exists st m, snd (deliver unit N asis H0 (fst (deliver unit N asis H0 st m)) m) = Done [7%N].
Proof.
  exists (run unit N asis H0 (init tt) [ODeliver crm; ODeliver ptm]), apm. vm_compute. reflexivity.
Qed.

(** Non-vacuity of the main theorems: a successful first delivery exists (so the hypothesis of
    [redelivery_later] is satisfiable) and it is not a no-op. *)
Example redelivery_hyp_sat :
  snd (deliver unit N fixed H0 (run unit N fixed H0 (init tt) [ODeliver crm; ODeliver ptm]) apm) = Done [7%N].
Proof. vm_compute. reflexivity. Qed.

Example guard_nonvacuous :
  gstep unit N N N (fun m => m) N.eqb (fun _ _ m => Some (tt, [m])) ([], tt) 5%N = (([5%N], tt), [5%N]).
Proof. reflexivity. Qed.
