(** C21 refuted: for every buffer size [c] of [futures::mpsc::channel(c)] there are two replicas
    and a schedule of the joint model that ends with both sides parked inside [sink.send] --
    nobody reads any more.  Witness family: each side owns one log of [c + 1] operations the
    other side lacks (for [c = 0] the two Have messages already block each other). *)
From Coq Require Import List Arith NArith Bool Lia.
From PV Require Import Model.Dedup Model.LogSync Proofs.LogSyncC20.
Import ListNotations.

(** Both sides parked is a deadlock, whatever else the state holds. *)
Lemma both_parked_deadlocked cbuf rA rB y :
  n_parked (sa y) = true -> n_parked (sb y) = true -> deadlocked true cbuf rA rB y = true.
Proof.
  intros PA PB. unfold deadlocked, finished, is_end, all_labels, enabled. cbn [forallb sys_step].
  unfold node_tick, node_push, node_recv. rewrite PA, PB.
  destruct (ph (n_st (sa y))), (n_pend (sa y)), (ph (n_st (sb y))), (n_pend (sb y)); reflexivity.
Qed.

Lemma exec_app fixed cbuf rA rB l1 : forall y l2,
  exec fixed cbuf rA rB y (l1 ++ l2) =
  match exec fixed cbuf rA rB y l1 with Some y' => exec fixed cbuf rA rB y' l2 | None => None end.
Proof.
  induction l1 as [|l l1 IH]; intros y l2; [reflexivity|]. cbn [app exec].
  destruct (sys_step fixed cbuf rA rB y l); [apply IH|reflexivity].
Qed.

(** Pushing [k] pending messages into a queue that has room for all but the last one. *)
Lemma exec_pushA cb rA rB k : forall y ms1 ms2,
  length ms1 = S k -> n_pend (sa y) = ms1 ++ ms2 -> n_parked (sa y) = false ->
  length (qab y) + S k = S cb ->
  exists n', exec true (Some cb) rA rB y (repeat LPushA (S k)) = Some (mksys n' (sb y) (qab y ++ ms1) (qba y)) /\
             n_parked n' = true.
Proof.
  induction k as [|k IH]; intros y ms1 ms2 L P Pa Q.
  - destruct ms1 as [|m [|? ?]]; try discriminate. cbn [repeat exec sys_step].
    unfold node_push. rewrite P, Pa. cbn [app option_map fst snd]. eexists. split; [reflexivity|].
    cbn [n_parked]. unfold parks. rewrite app_length. cbn [length]. apply Nat.ltb_lt. lia.
  - destruct ms1 as [|m ms1]; [discriminate|]. cbn [length] in L. injection L as L.
    change (repeat LPushA (S (S k))) with (LPushA :: repeat LPushA (S k)). cbn [exec sys_step].
    unfold node_push at 1. rewrite P, Pa. cbn [app option_map fst snd].
    set (y1 := mksys _ (sb y) (qab y ++ [m]) (qba y)).
    destruct (IH y1 ms1 ms2 L) as [n' [E Pn]].
    + reflexivity.
    + cbn [sa n_parked y1]. unfold parks. rewrite app_length. cbn [length]. apply Nat.ltb_ge. lia.
    + cbn [qab y1]. rewrite app_length. cbn [length]. lia.
    + exists n'. split; [|exact Pn]. rewrite E. cbn [sb qab qba y1]. rewrite <- app_assoc. reflexivity.
Qed.

Lemma exec_pushB cb rA rB k : forall y ms1 ms2,
  length ms1 = S k -> n_pend (sb y) = ms1 ++ ms2 -> n_parked (sb y) = false ->
  length (qba y) + S k = S cb ->
  exists n', exec true (Some cb) rA rB y (repeat LPushB (S k)) = Some (mksys (sa y) n' (qab y) (qba y ++ ms1)) /\
             n_parked n' = true.
Proof.
  induction k as [|k IH]; intros y ms1 ms2 L P Pa Q.
  - destruct ms1 as [|m [|? ?]]; try discriminate. cbn [repeat exec sys_step].
    unfold node_push. rewrite P, Pa. cbn [app option_map fst snd]. eexists. split; [reflexivity|].
    cbn [n_parked]. unfold parks. rewrite app_length. cbn [length]. apply Nat.ltb_lt. lia.
  - destruct ms1 as [|m ms1]; [discriminate|]. cbn [length] in L. injection L as L.
    change (repeat LPushB (S (S k))) with (LPushB :: repeat LPushB (S k)). cbn [exec sys_step].
    unfold node_push at 1. rewrite P, Pa. cbn [app option_map fst snd].
    set (y1 := mksys (sa y) _ (qab y) (qba y ++ [m])).
    destruct (IH y1 ms1 ms2 L) as [n' [E Pn]].
    + reflexivity.
    + cbn [sb n_parked y1]. unfold parks. rewrite app_length. cbn [length]. apply Nat.ltb_ge. lia.
    + cbn [qba y1]. rewrite app_length. cbn [length]. lia.
    + exists n'. split; [|exact Pn]. rewrite E. cbn [sa qab qba y1]. rewrite <- app_assoc. reflexivity.
Qed.

(** ** The run, for any two single-log replicas of the right size *)
Section Witness.
  Variables wsA wsB : list row.
  Variables mA mB : N.
  Hypothesis HmA : maxseq wsA = Some mA.
  Hypothesis HmB : maxseq wsB = Some mB.
  Hypothesis HfA : filter (fun w => in_range (None, Some mA) (r_seq w)) wsA = wsA.
  Hypothesis HfB : filter (fun w => in_range (None, Some mB) (r_seq w)) wsB = wsB.
  Hypothesis HsA : N.ltb 0 (0 + sum_sizes wsA) = true.
  Hypothesis HsB : N.ltb 0 (0 + sum_sizes wsB) = true.

  Definition wrA : replica := [((0, 0), wsA)]%N.
  Definition wrB : replica := [((1, 0), wsB)]%N.
  Definition wlA : list (N * list N) := [(0, [0])]%N.
  Definition wlB : list (N * list N) := [(1, [0])]%N.

  Lemma LhA : log_heights wrA 0 [0%N] = Some [(0%N, mA)].
  Proof. unfold log_heights, heights_of_logs, wrA. cbn. rewrite HmA. reflexivity. Qed.
  Lemma LhB : log_heights wrB 1 [0%N] = Some [(0%N, mB)].
  Proof. unfold log_heights, heights_of_logs, wrB. cbn. rewrite HmB. reflexivity. Qed.
  Lemma LeA : log_entries wrA 0 0 (None, Some mA) = wsA.
  Proof. unfold log_entries, wrA. cbn [rows_of keyb fst snd N.eqb andb]. exact HfA. Qed.
  Lemma LeB : log_entries wrB 1 0 (None, Some mB) = wsB.
  Proof. unfold log_entries, wrB. cbn [rows_of keyb fst snd N.eqb Pos.eqb andb]. exact HfB. Qed.
  Lemma LsA : log_size wrA 0 0 (None, Some mA) = (N.of_nat (length wsA), sum_sizes wsA).
  Proof. unfold log_size. rewrite LeA. reflexivity. Qed.
  Lemma LsB : log_size wrB 1 0 (None, Some mB) = (N.of_nat (length wsB), sum_sizes wsB).
  Proof. unfold log_size. rewrite LeB. reflexivity. Qed.

  Local Arguments maxseq : simpl never.
  Local Arguments sum_sizes : simpl never.
  Local Arguments N.ltb : simpl never.
  Local Arguments N.add : simpl never.
  Local Arguments N.of_nat : simpl never.
  Local Arguments dd_insert_all : simpl never.
  Local Arguments log_heights : simpl never.
  Local Arguments log_size : simpl never.
  Local Arguments log_entries : simpl never.
  Local Arguments op_msgs : simpl never.

  (** One label at a time (the remaining labels are kept abstract while the step is computed). *)
  Ltac step1 := lazymatch goal with |- exec ?f ?cb ?ra ?rb ?y (?l :: ?ls) = ?rhs =>
      let rest := fresh "rest" in let E := fresh "E" in
      remember ls as rest eqn:E; cbn [exec]; cbn; subst rest end.

  (** [c = 0]: the two Have messages block each other. *)
  Lemma deadlock_zero :
    exists y, exec true (Some 0) wrA wrB (sys0 wlA wlB 1)
                   [LTickA; LTickA; LTickA; LPushA; LTickB; LTickB; LTickB; LPushB] = Some y /\
              deadlocked true (Some 0) wrA wrB y = true.
  Proof.
    eexists. split.
    - step1. step1. rewrite LhA. step1. step1.
      step1. step1. rewrite LhB. step1. step1. cbn [exec]. reflexivity.
    - apply both_parked_deadlocked; reflexivity.
  Qed.

  (** [c >= 1]: handshake, both enter the send arm, both fill their queue. *)
  Definition handshake : list label :=
    [LTickA; LTickA; LTickA; LPushA; LTickB; LTickB; LTickB; LPushB; LDelivA; LDelivB;
     LTickA; LTickA; LPushA; LTickB; LTickB; LPushB; LDelivA; LDelivB;
     LTickA; LTickA; LTickB; LTickB].

  Lemma handshake_state c :
    exists y, exec true (Some (S c)) wrA wrB (sys0 wlA wlB 1) handshake = Some y /\
              n_pend (sa y) = map (fun w => Operation 0 0 w) wsA /\ n_parked (sa y) = false /\ qab y = [] /\
              n_pend (sb y) = map (fun w => Operation 1 0 w) wsB /\ n_parked (sb y) = false /\ qba y = [].
  Proof.
    eexists. split.
    - unfold handshake.
      step1. step1. rewrite LhA. step1. step1.
      step1. step1. rewrite LhB. step1. step1.
      step1. step1.
      step1. rewrite LsA. step1. rewrite HsA. step1.
      step1. rewrite LsB. step1. rewrite HsB. step1.
      step1. step1.
      step1. step1. rewrite LeA.
      step1. step1. rewrite LeB.
      cbn [exec]. reflexivity.
    - cbn [sa sb qab qba n_pend n_parked]. rewrite !sent_op_msgs. repeat split; reflexivity.
  Qed.

  Theorem deadlock_succ c :
    length wsA = S (S c) -> length wsB = S (S c) ->
    exists ls y, exec true (Some (S c)) wrA wrB (sys0 wlA wlB 1) ls = Some y /\
                 deadlocked true (Some (S c)) wrA wrB y = true.
  Proof.
    intros LA LB. destruct (handshake_state c) as [y0 [E0 [PA [KA [QA [PB [KB QB]]]]]]].
    destruct (exec_pushA (S c) wrA wrB (S c) y0 (map (fun w => Operation 0 0 w) wsA) []) as [nA [EA PnA]].
    - rewrite map_length. exact LA.
    - rewrite app_nil_r. exact PA.
    - exact KA.
    - rewrite QA. reflexivity.
    - set (y1 := mksys nA (sb y0) (qab y0 ++ map (fun w => Operation 0 0 w) wsA) (qba y0)) in *.
      destruct (exec_pushB (S c) wrA wrB (S c) y1 (map (fun w => Operation 1 0 w) wsB) []) as [nB [EB PnB]].
      + rewrite map_length. exact LB.
      + rewrite app_nil_r. exact PB.
      + exact KB.
      + cbn [qba y1]. rewrite QB. reflexivity.
      + eexists (handshake ++ repeat LPushA (S (S c)) ++ repeat LPushB (S (S c))), _. split.
        * rewrite exec_app, E0, exec_app, EA. exact EB.
        * apply both_parked_deadlocked; [exact PnA|exact PnB].
  Qed.
End Witness.

(** ** The concrete family: [n] rows [0 .. n-1] of 500 bytes in one log *)
Definition rows (a : N) (n : nat) : list row :=
  map (fun i => mkrow (N.of_nat i) (a * 1000000 + N.of_nat i) 500) (seq 0 n).

Lemma rows_bound a s n w : In w (map (fun i => mkrow (N.of_nat i) (a * 1000000 + N.of_nat i) 500) (seq s n)) ->
  (N.of_nat s <= r_seq w < N.of_nat (s + n))%N.
Proof.
  intros H. apply in_map_iff in H. destruct H as [i [<- Hi]]. apply in_seq in Hi. cbn [r_seq]. lia.
Qed.

Lemma maxseq_rows a n : forall s,
  maxseq (map (fun i => mkrow (N.of_nat i) (a * 1000000 + N.of_nat i) 500) (seq s (S n))) = Some (N.of_nat (s + n)).
Proof.
  induction n as [|n IH]; intros s.
  - cbn. rewrite Nat.add_0_r. reflexivity.
  - change (seq s (S (S n))) with (s :: seq (S s) (S n)). cbn [map maxseq]. rewrite IH. cbn [r_seq].
    f_equal. lia.
Qed.

Lemma filter_all {A} (f : A -> bool) l : (forall x, In x l -> f x = true) -> filter f l = l.
Proof.
  induction l as [|x l IH]; intros H; [reflexivity|]. cbn. rewrite (H x (or_introl eq_refl)).
  f_equal. apply IH. intros y Hy. apply H. right. exact Hy.
Qed.

Lemma rows_facts a n :
  maxseq (rows a (S n)) = Some (N.of_nat n) /\
  filter (fun w => in_range (None, Some (N.of_nat n)) (r_seq w)) (rows a (S n)) = rows a (S n) /\
  N.ltb 0 (0 + sum_sizes (rows a (S n))) = true /\
  length (rows a (S n)) = S n.
Proof.
  unfold rows. repeat split.
  - apply (maxseq_rows a n 0).
  - apply filter_all. intros w H. apply rows_bound in H. unfold in_range. cbn [fst snd andb].
    apply N.leb_le. lia.
  - apply N.ltb_lt. change (seq 0 (S n)) with (0 :: seq 1 n). unfold sum_sizes. cbn [map fold_right r_size]. lia.
  - rewrite map_length, seq_length. reflexivity.
Qed.

Theorem refuted_family :
  forall c : nat, exists (rA rB : replica) (logsA logsB : list (N * list N)) (cap : nat) (ls : list label) (y : sys),
    exec true (Some c) rA rB (sys0 logsA logsB cap) ls = Some y /\
    deadlocked true (Some c) rA rB y = true.
Proof.
  intros c.
  destruct (rows_facts 0 c) as [MA [FA [SA LA]]]. destruct (rows_facts 1 c) as [MB [FB [SB LB]]].
  exists (wrA (rows 0 (S c))), (wrB (rows 1 (S c))), wlA, wlB, 1.
  destruct c as [|c].
  - destruct (deadlock_zero (rows 0 1) (rows 1 1) _ _ MA MB) as [y [E D]]. eexists _, y. split; [exact E|exact D].
  - destruct (deadlock_succ _ _ _ _ MA MB FA FB SA SB c LA LB) as [ls [y [E D]]].
    exists ls, y. split; [exact E|exact D].
Qed.
