(** Liveness of the causal orderer model: after every completed [process] call no delivered item
    whose dependencies are all ready is left behind, for every HashSet iteration order -- provided
    the recursion did not run out of fuel ([oof] flag), which [no_oof] excludes for DAGs. *)
From Coq Require Import List Arith NArith Bool Lia Permutation.
From PV Require Import Model.Orderer Proofs.OrdererBase Proofs.OrdererSafety.
Import ListNotations.

(** * definitions *)
Definition Q1 (del : list entry) (s : store) : Prop :=
  forall x ds, In (x, ds) del -> (forall d, In d ds -> is_ready s d = true) -> is_ready s x = true.

Definition Q2 (del : list entry) (s : store) : Prop :=
  forall x ds, In (x, ds) del -> is_ready s x = false ->
    forall d, In d ds -> is_ready s d = false ->
      forall p, In p ds -> In (mkP d x p (x, sortN ds)) (pending_tbl s).

Definition viol (del : list entry) (s : store) (e : entry) : Prop :=
  In e del /\ is_ready s (fst e) = false /\ forall d, In d (snd e) -> is_ready s d = true.

Definition mono (s s' : store) : Prop := forall x, is_ready s x = true -> is_ready s' x = true.

Definition rows_under (s : store) (k x : id) (ds : list id) : Prop :=
  In k ds /\ forall p, In p ds -> In (mkP k x p (x, sortN ds)) (pending_tbl s).

Definition good (del : list entry) (e : entry) : Prop :=
  exists ds, In (fst e, ds) del /\ forall p, In p (snd e) <-> In p ds.

Lemma good_entry_good del k e : good_entry del k e -> good del e.
Proof. intros [ds [A [B _]]]. exists ds. auto. Qed.

Lemma mono_refl s : mono s s.
Proof. intros x H. exact H. Qed.
Lemma mono_trans a b c : mono a b -> mono b c -> mono a c.
Proof. intros H1 H2 x H. apply H2, H1, H. Qed.

Lemma is_ready_ext s s' : ready_tbl s' = ready_tbl s -> forall x, is_ready s' x = is_ready s x.
Proof. intros E x. unfold is_ready. rewrite E. reflexivity. Qed.

Lemma Q2_ext del s s' :
  ready_tbl s' = ready_tbl s -> pending_tbl s' = pending_tbl s -> Q2 del s -> Q2 del s'.
Proof.
  intros Er Ep H x ds Hin Hx d Hd Hdn p Hp. rewrite Ep.
  rewrite (is_ready_ext s s' Er) in Hx, Hdn. exact (H x ds Hin Hx d Hd Hdn p Hp).
Qed.

Lemma viol_ext del s s' e : ready_tbl s' = ready_tbl s -> viol del s' e -> viol del s e.
Proof.
  intros Er [A [B C]]. split; [exact A|]. split.
  - rewrite <- (is_ready_ext s s' Er). exact B.
  - intros d Hd. rewrite <- (is_ready_ext s s' Er). exact (C d Hd).
Qed.

Lemma not_ready_mono s s' x : mono s s' -> is_ready s' x = false -> is_ready s x = false.
Proof.
  intros Hm H. destruct (is_ready s x) eqn:E; [|reflexivity]. apply Hm in E. congruence.
Qed.

Lemma mark_ready_mono s x : mono s (mark_ready s x).
Proof. intros y H. apply mark_ready_is_ready. left. exact H. Qed.

Lemma Q2_mark_ready del s x : Q2 del s -> Q2 del (mark_ready s x).
Proof.
  intros H y ds Hin Hy d Hd Hdn p Hp. rewrite mark_ready_pending.
  apply (H y ds Hin); try assumption.
  - exact (not_ready_mono _ _ _ (mark_ready_mono s x) Hy).
  - exact (not_ready_mono _ _ _ (mark_ready_mono s x) Hdn).
Qed.

(** * the [oof] flag only ever goes up *)
Lemma mark_ready_oof s x : oof (mark_ready s x) = oof s.
Proof. unfold mark_ready. destruct (find _ _) as [r|]; [destruct (r_inq r)|]; reflexivity. Qed.

Section Live.
Variable perm : perm_t.
Hypothesis perm_perm : forall n l, Permutation (perm n l) l.
Variables (del : list entry) (rel : list id).

Lemma perm_incl : forall n l e, In e (perm n l) -> In e l.
Proof. intros n l e H. exact (Permutation_in _ (perm_perm n l) H). Qed.
Lemma perm_incl' : forall n l e, In e l -> In e (perm n l).
Proof. intros n l e H. exact (Permutation_in _ (Permutation_sym (perm_perm n l)) H). Qed.

Notation I := (I del rel).
Notation body := (body perm).

Lemma pp_oof_mono : forall f s k, oof s = true -> oof (process_pending perm f s k) = true.
Proof.
  induction f as [|f IH]; intros s k H; [reflexivity|].
  rewrite pp_unfold. destruct (get_next_pending s k) as [es|]; [|exact H].
  cbn [remove_pending set_pending oof].
  assert (H0 : oof (bump s (length es)) = true) by exact H.
  generalize dependent (bump s (length es)). generalize (perm (tick s) es).
  intros l. induction l as [|e l IHl]; intros st Hst; [exact Hst|].
  cbn [fold_left]. apply IHl. unfold OrdererSafety.body.
  destruct (ready st (snd e)); [|exact Hst]. apply IH. rewrite mark_ready_oof. exact Hst.
Qed.

Lemma body_oof_mono f st e : oof st = true -> oof (body f st e) = true.
Proof.
  intros H. unfold OrdererSafety.body. destruct (ready st (snd e)); [|exact H].
  apply pp_oof_mono. rewrite mark_ready_oof. exact H.
Qed.

Lemma loop_oof_mono f l : forall st, oof st = true -> oof (fold_left (body f) l st) = true.
Proof.
  induction l as [|e l IHl]; intros st H; [exact H|]. cbn [fold_left]. apply IHl, body_oof_mono, H.
Qed.

Lemma oof_false_of_mono {A} (g : A -> store) (a : A) st :
  (oof st = true -> oof (g a) = true) -> oof (g a) = false -> oof st = false.
Proof. intros H1 H2. destruct (oof st); [|reflexivity]. rewrite H1 in H2 by reflexivity. discriminate. Qed.

(** the statement proved by induction on the fuel *)
Definition pp_live_at (f : nat) : Prop :=
  forall s k, I s -> Q2 del s -> is_ready s k = true ->
    oof (process_pending perm f s k) = false ->
    Q2 del (process_pending perm f s k) /\
    mono s (process_pending perm f s k) /\
    (forall v, viol del (process_pending perm f s k) v -> viol del s v) /\
    (forall x ds, In (x, ds) del -> rows_under s k x ds ->
       (forall d, In d ds -> is_ready (process_pending perm f s k) d = true) ->
       is_ready (process_pending perm f s k) x = true).

Lemma body_live f : pp_live_at f ->
  forall st e, I st -> Q2 del st -> good del e -> oof (body f st e) = false ->
    I (body f st e) /\ Q2 del (body f st e) /\ mono st (body f st e) /\
    (forall v, viol del (body f st e) v -> viol del st v) /\
    (forall ds, In (fst e, ds) del -> (forall p, In p (snd e) <-> In p ds) ->
       (forall d, In d ds -> is_ready (body f st e) d = true) -> is_ready (body f st e) (fst e) = true).
Proof.
  intros IH st e HI HQ [ds0 [Hds0 Heq0]] Hoof. unfold OrdererSafety.body in *.
  destruct (ready st (snd e)) eqn:Er.
  - set (c := fst e) in *. set (s1 := mark_ready st c) in *.
    assert (Hpk : PK st) by exact (proj1 (proj1 HI)).
    assert (Hall : forall d, In d ds0 -> is_ready st d = true).
    { intros d Hd. apply (proj1 (ready_spec st (snd e) Hpk) Er). apply Heq0. exact Hd. }
    assert (HI1 : I s1).
    { apply I_mark_ready; [exact HI|]. exists ds0. auto. }
    assert (HQ1 : Q2 del s1) by (apply Q2_mark_ready; exact HQ).
    assert (Hc1 : is_ready s1 c = true) by (apply mark_ready_is_ready; right; reflexivity).
    destruct (IH s1 c HI1 HQ1 Hc1 Hoof) as [HQ2 [Hm [Hv Hp2]]].
    assert (Hm01 : mono st s1) by apply mark_ready_mono.
    split; [apply pp_I; [exact perm_incl | exact HI1]|].
    split; [exact HQ2|]. split; [exact (mono_trans _ _ _ Hm01 Hm)|]. split.
    + intros v Hv2. pose proof (Hv v Hv2) as [Hin [Hn1 Hr1]].
      split; [exact Hin|]. split; [exact (not_ready_mono _ _ _ Hm01 Hn1)|].
      destruct (is_ready st c) eqn:Ec.
      * intros d Hd. specialize (Hr1 d Hd). apply mark_ready_is_ready in Hr1.
        destruct Hr1 as [Hr1|Hr1]; [exact Hr1 | subst d; exact Ec].
      * destruct (memN c (snd v)) eqn:Emem.
        -- exfalso. apply memN_In in Emem. destruct v as [y dy]. cbn [fst snd] in *.
           assert (Hrows : rows_under s1 c y dy).
           { split; [exact Emem|]. intros p Hp. unfold s1. rewrite mark_ready_pending.
             apply (HQ y dy Hin (not_ready_mono _ _ _ Hm01 Hn1) c Emem Ec p Hp). }
           destruct Hv2 as [_ [Hn2 Hr2]]. cbn [fst snd] in *.
           rewrite (Hp2 y dy Hin Hrows Hr2) in Hn2. discriminate.
        -- intros d Hd. specialize (Hr1 d Hd). apply mark_ready_is_ready in Hr1.
           destruct Hr1 as [Hr1|Hr1]; [exact Hr1|]. subst d.
           apply memN_false in Emem. contradiction.
    + intros ds Hds Heq Hall'. apply Hm. exact Hc1.
  - split; [exact HI|]. split; [exact HQ|]. split; [apply mono_refl|]. split; [auto|].
    intros ds Hds Heq Hall'. exfalso.
    destruct (ready_false st (snd e) (proj1 (proj1 HI)) Er) as [d [Hd Hn]].
    rewrite (Hall' d) in Hn; [discriminate|]. apply Heq. exact Hd.
Qed.

Lemma loop_live f : pp_live_at f ->
  forall l st, I st -> Q2 del st -> (forall e, In e l -> good del e) ->
    oof (fold_left (body f) l st) = false ->
    I (fold_left (body f) l st) /\ Q2 del (fold_left (body f) l st) /\
    mono st (fold_left (body f) l st) /\
    (forall v, viol del (fold_left (body f) l st) v -> viol del st v) /\
    (forall e, In e l -> forall ds, In (fst e, ds) del -> (forall p, In p (snd e) <-> In p ds) ->
       (forall d, In d ds -> is_ready (fold_left (body f) l st) d = true) ->
       is_ready (fold_left (body f) l st) (fst e) = true).
Proof.
  intros IH l. induction l as [|e l IHl]; intros st HI HQ Hgood Hoof.
  - cbn [fold_left]. split; [exact HI|]. split; [exact HQ|]. split; [apply mono_refl|].
    split; [auto|]. intros e [].
  - cbn [fold_left] in *.
    assert (Hoof1 : oof (body f st e) = false).
    { destruct (oof (body f st e)) eqn:E; [|reflexivity].
      rewrite (loop_oof_mono f l _ E) in Hoof. discriminate. }
    destruct (body_live f IH st e HI HQ (Hgood e (or_introl eq_refl)) Hoof1)
      as [HI1 [HQ1 [Hm1 [Hv1 Hp1]]]].
    destruct (IHl (body f st e) HI1 HQ1 (fun e' He' => Hgood e' (or_intror He')) Hoof)
      as [HI2 [HQ2 [Hm2 [Hv2 Hp2]]]].
    split; [exact HI2|]. split; [exact HQ2|]. split; [exact (mono_trans _ _ _ Hm1 Hm2)|].
    split; [intros v Hv; exact (Hv1 v (Hv2 v Hv))|].
    intros e' [He'|He'] ds Hds Heq Hall.
    + subst e'.
      destruct (is_ready (fold_left (body f) l (body f st e)) (fst e)) eqn:Efin; [reflexivity|].
      exfalso.
      assert (Hviol : viol del (fold_left (body f) l (body f st e)) (fst e, ds)).
      { split; [exact Hds|]. split; [exact Efin | exact Hall]. }
      apply Hv2 in Hviol. destruct Hviol as [_ [_ Hall1]]. cbn [snd] in Hall1.
      pose proof (Hp1 ds Hds Heq Hall1) as Hr1. apply Hm2 in Hr1. congruence.
    + exact (Hp2 e' He' ds Hds Heq Hall).
Qed.

Lemma group_parents_rows s k x ds :
  InvP del s -> rows_under s k x ds ->
  forall p, In p (group_parents (pending_tbl s) x (x, sortN ds)) <-> In p ds.
Proof.
  intros HP [Hk Hrows] p. rewrite group_parents_In. split.
  - intros [row [Hrow [Ec [Ed Ep]]]]. destruct (HP row Hrow) as [ds' [_ [B [C _]]]].
    rewrite Ed, Ec in B. inversion B as [Es]. subst p.
    apply sortN_In. rewrite Es. apply sortN_In. exact C.
  - intros Hp. exists (mkP k x p (x, sortN ds)). split; [apply Hrows; exact Hp|]. auto.
Qed.

Lemma pp_live : forall f, pp_live_at f.
Proof.
  induction f as [|f IH]; intros s k HI HQ Hk Hoof.
  - discriminate Hoof.
  - rewrite pp_unfold in *. destruct (get_next_pending s k) as [es|] eqn:Eg.
    + set (l := perm (tick s) es) in *. set (s0 := bump s (length es)) in *.
      assert (HI0 : I s0) by (apply I_bump; exact HI).
      assert (HQ0 : Q2 del s0) by (apply (Q2_ext del s); [reflexivity|reflexivity|exact HQ]).
      assert (Hgood : forall e, In e l -> good del e).
      { intros e He. apply (good_entry_good del k). apply (gnp_good del s k es (proj2 HI) Eg).
        exact (perm_incl _ _ _ He). }
      assert (Hoof' : oof (fold_left (body f) l s0) = false) by exact Hoof.
      destruct (loop_live f IH l s0 HI0 HQ0 Hgood Hoof') as [HI1 [HQ1 [Hm1 [Hv1 Hp1]]]].
      set (s1 := fold_left (body f) l s0) in *.
      assert (Hm : mono s s1) by (intros y Hy; apply Hm1; exact Hy).
      split; [|split; [|split]].
      * intros y ds Hin Hy d Hd Hdn p Hp. apply remove_pending_In. cbn [p_id]. split.
        -- exact (HQ1 y ds Hin Hy d Hd Hdn p Hp).
        -- intros E. subst d. change (is_ready s1 k = false) in Hdn. rewrite (Hm k Hk) in Hdn. discriminate.
      * exact Hm.
      * intros v Hv. apply (viol_ext del s s0); [reflexivity|]. apply Hv1.
        apply (viol_ext del s1 (remove_pending s1 k)); [reflexivity | exact Hv].
      * intros x ds Hin Hrows Hall.
        change (is_ready s1 x = true).
        assert (Hall1 : forall d, In d ds -> is_ready s1 d = true) by exact Hall.
        set (e0 := (x, group_parents (pending_tbl s) x (x, sortN ds))).
        assert (He0 : In e0 l).
        { apply perm_incl'. apply (proj2 (gnp_Some_In s k es e0 Eg)).
          destruct Hrows as [Hkin Hrows'].
          exists (mkP k x k (x, sortN ds)). split; [apply Hrows'; exact Hkin|]. split; reflexivity. }
        apply (Hp1 e0 He0 ds Hin); [|exact Hall1].
        exact (group_parents_rows s k x ds (proj2 HI) Hrows).
    + split; [exact HQ|]. split; [apply mono_refl|]. split; [auto|].
      intros x ds Hin [Hkin Hrows] Hall. exfalso.
      exact (proj1 (gnp_None s k) Eg _ (Hrows k Hkin) eq_refl).
Qed.

End Live.

(** * no fuel exhaustion for graphs with a rank function *)
Section Fuel.
Variable perm : perm_t.
Hypothesis perm_incl : forall n l e, In e (perm n l) -> In e l.
Variables (del : list entry) (rel : list id).
Variable rk : id -> nat.
Variable B : nat.
Hypothesis Hrk : forall x ds, In (x, ds) del -> rk x < B /\ forall d, In d ds -> rk d < rk x.

Lemma pp_no_oof : forall f s k,
  I del rel s -> oof s = false -> rk k < B -> B - rk k <= f ->
  oof (process_pending perm f s k) = false.
Proof.
  induction f as [|f IH]; intros s k HI Ho Hk Hf; [lia|].
  rewrite pp_unfold. destruct (get_next_pending s k) as [es|] eqn:Eg; [|exact Ho].
  cbn [remove_pending set_pending oof].
  assert (Hgood : forall e, In e (perm (tick s) es) -> good_entry del k e).
  { intros e He. apply (gnp_good del s k es (proj2 HI) Eg). exact (perm_incl _ _ _ He). }
  assert (HI0 : I del rel (bump s (length es))) by (apply I_bump; exact HI).
  assert (Ho0 : oof (bump s (length es)) = false) by exact Ho.
  generalize dependent (bump s (length es)). generalize dependent (perm (tick s) es).
  clear Eg. intros l. induction l as [|e l IHl]; intros Hgood st HIst Host; [exact Host|].
  cbn [fold_left].
  assert (Hstep : I del rel (body perm f st e) /\ oof (body perm f st e) = false).
  { unfold body. destruct (ready st (snd e)) eqn:Er; [|auto].
    destruct (Hgood e (or_introl eq_refl)) as [ds [Hds [Heq Hkin]]].
    assert (HI1 : I del rel (mark_ready st (fst e))).
    { apply I_mark_ready; [exact HIst|].
      exact (good_can_mark del rel st k e HIst (ex_intro _ ds (conj Hds (conj Heq Hkin))) Er). }
    split; [apply pp_I; [exact perm_incl | exact HI1]|].
    destruct (Hrk (fst e) ds Hds) as [Hb Hlt]. specialize (Hlt k Hkin).
    apply IH; [exact HI1 | rewrite mark_ready_oof; exact Host | exact Hb | lia]. }
  destruct Hstep as [HI' Ho'].
  apply IHl; [intros e' He'; apply Hgood; right; exact He' | exact HI' | exact Ho'].
Qed.

End Fuel.

(** * quiescent invariant over whole runs *)
Definition QI (tr : list event) (s : store) : Prop :=
  InvT tr s /\ Q1 (dels tr) s /\ Q2 (dels tr) s.

Lemma take_oof s : oof (fst (take_next_ready s)) = oof s.
Proof. unfold take_next_ready. destruct (min_row (ready_tbl s)); reflexivity. Qed.

Lemma drain_oof : forall n s, oof (fst (drain n s)) = oof s.
Proof.
  induction n as [|n IH]; intros s; [reflexivity|]. cbn [drain].
  pose proof (take_oof s) as Ht. destruct (take_next_ready s) as [s' [x|]]; cbn [fst] in *.
  - specialize (IH s'). destruct (drain n s') as [s'' l]. cbn [fst] in *. congruence.
  - exact Ht.
Qed.

Lemma drain_is_ready : forall n s x, is_ready (fst (drain n s)) x = is_ready s x.
Proof.
  induction n as [|n IH]; intros s x; [reflexivity|]. cbn [drain].
  pose proof (take_is_ready s x) as Ht. destruct (take_next_ready s) as [s' [y|]]; cbn [fst] in *.
  - specialize (IH s' x). destruct (drain n s') as [s'' l]. cbn [fst] in *. congruence.
  - exact Ht.
Qed.

Lemma drain_pending : forall n s, pending_tbl (fst (drain n s)) = pending_tbl s.
Proof.
  induction n as [|n IH]; intros s; [reflexivity|]. cbn [drain].
  pose proof (take_pending s) as Ht. destruct (take_next_ready s) as [s' [y|]]; cbn [fst] in *.
  - specialize (IH s'). destruct (drain n s') as [s'' l]. cbn [fst] in *. congruence.
  - exact Ht.
Qed.

Lemma Q1_same del s s' : (forall x, is_ready s' x = is_ready s x) -> Q1 del s -> Q1 del s'.
Proof.
  intros E H x ds Hin Hall. rewrite E. apply (H x ds Hin). intros d Hd. rewrite <- E. exact (Hall d Hd).
Qed.

Lemma Q2_same del s s' :
  (forall x, is_ready s' x = is_ready s x) -> pending_tbl s' = pending_tbl s -> Q2 del s -> Q2 del s'.
Proof.
  intros E Ep H x ds Hin Hx d Hd Hdn p Hp. rewrite Ep. rewrite E in Hx, Hdn.
  exact (H x ds Hin Hx d Hd Hdn p Hp).
Qed.

Section RunLive.
Variable perm : perm_t.
Hypothesis perm_perm : forall n l, Permutation (perm n l) l.
Variable fuel : nat.

Let pincl := perm_incl perm perm_perm.

Lemma process_oof_mono s x ds : oof s = true -> oof (process perm fuel s x ds) = true.
Proof.
  intros H. unfold process. destruct (ready s ds); [|exact H].
  apply pp_oof_mono. rewrite mark_ready_oof. exact H.
Qed.

Lemma step_oof_mono s o : oof s = true -> oof (fst (step perm fuel s o)) = true.
Proof.
  intros H. destruct o as [x ds| |]; cbn [step].
  - cbn [fst]. apply process_oof_mono, H.
  - pose proof (take_oof s). destruct (take_next_ready s). cbn [fst] in *. congruence.
  - pose proof (drain_oof (S (length (ready_tbl s))) s). destruct (drain _ s). cbn [fst] in *. congruence.
Qed.

Lemma run_oof_mono : forall ops s, oof s = true -> oof (fst (run perm fuel s ops)) = true.
Proof.
  induction ops as [|o ops IH]; intros s H; [exact H|]. cbn [run].
  pose proof (step_oof_mono s o H) as Hs. destruct (step perm fuel s o) as [s1 o1]. cbn [fst] in Hs.
  specialize (IH s1 Hs). destruct (run perm fuel s1 ops) as [s2 o2]. exact IH.
Qed.

Lemma process_QI tr s x ds :
  QI tr s -> oof (process perm fuel s x ds) = false -> QI (tr ++ [EDel x ds]) (process perm fuel s x ds).
Proof.
  intros [HT [H1 H2]] Hoof. split; [apply process_InvT; [exact pincl | exact HT]|].
  assert (Edel : dels (tr ++ [EDel x ds]) = dels tr ++ [(x, ds)]).
  { rewrite dels_app. reflexivity. }
  rewrite Edel. set (del' := dels tr ++ [(x, ds)]).
  assert (Hincl : incl (dels tr) del') by (apply incl_appl, incl_refl).
  assert (Hnew : In (x, ds) del') by (apply in_app_iff; right; left; reflexivity).
  destruct HT as [HR HP].
  assert (HI : I del' (rels tr) s).
  { split; [apply (InvR_mono (dels tr) (rels tr)); [exact Hincl | apply incl_refl | exact HR]
           | apply (InvP_mono (dels tr)); [exact Hincl | exact HP]]. }
  assert (Hpk : PK s) by exact (proj1 HR).
  unfold process in *. destruct (ready s ds) eqn:Er.
  - assert (Hall : forall d, In d ds -> is_ready s d = true) by exact (proj1 (ready_spec s ds Hpk) Er).
    assert (HQ : Q2 del' s).
    { intros y dy Hin Hy d Hd Hdn p Hp. apply in_app_iff in Hin. destruct Hin as [Hin|[Hin|[]]].
      - exact (H2 y dy Hin Hy d Hd Hdn p Hp).
      - inversion Hin; subst. rewrite (Hall d Hd) in Hdn. discriminate. }
    assert (Hg : good del' (x, ds)) by (exists ds; cbn [fst snd]; split; [exact Hnew | reflexivity]).
    assert (Hb : body perm fuel s (x, ds) = process_pending perm fuel (mark_ready s x) x).
    { unfold body. cbn [fst snd]. rewrite Er. reflexivity. }
    pose proof (body_live perm perm_perm del' (rels tr) fuel (pp_live perm perm_perm del' (rels tr) fuel)
                          s (x, ds) HI HQ Hg) as Hbl.
    rewrite Hb in Hbl. destruct (Hbl Hoof) as [_ [HQ' [Hm [Hv Hp]]]]. cbn [fst snd] in Hp.
    split; [|exact HQ'].
    intros y dy Hin Hally.
    destruct (is_ready (process_pending perm fuel (mark_ready s x) x) y) eqn:Ey; [reflexivity|]. exfalso.
    assert (Hviol : viol del' (process_pending perm fuel (mark_ready s x) x) (y, dy)).
    { split; [exact Hin|]. split; [exact Ey | exact Hally]. }
    apply Hv in Hviol. destruct Hviol as [_ [Hny Hry]]. cbn [fst snd] in *.
    apply in_app_iff in Hin. destruct Hin as [Hin|[Hin|[]]].
    + rewrite (H1 y dy Hin Hry) in Hny. discriminate.
    + inversion Hin; subst. rewrite (Hp dy Hnew (fun p => iff_refl _) Hally) in Ey. discriminate.
  - split.
    + intros y dy Hin Hally. rewrite (is_ready_ext s (mark_pending s x ds) eq_refl) in *.
      apply in_app_iff in Hin. destruct Hin as [Hin|[Hin|[]]].
      * apply (H1 y dy Hin). intros d Hd. rewrite <- (is_ready_ext s (mark_pending s x ds) eq_refl). exact (Hally d Hd).
      * inversion Hin; subst. exfalso.
        destruct (ready_false s dy Hpk Er) as [d [Hd Hn]].
        specialize (Hally d Hd). rewrite (is_ready_ext s (mark_pending s y dy) eq_refl) in Hally. congruence.
    + intros y dy Hin Hy d Hd Hdn p Hp.
      rewrite (is_ready_ext s (mark_pending s x ds) eq_refl) in Hy, Hdn.
      apply mark_pending_In. apply in_app_iff in Hin. destruct Hin as [Hin|[Hin|[]]].
      * left. exact (H2 y dy Hin Hy d Hd Hdn p Hp).
      * inversion Hin; subst. right. exists d, p. auto.
Qed.

Lemma dels_map_rel l : dels (map ERel l) = [].
Proof. induction l as [|a l IH]; [reflexivity | exact IH]. Qed.

Lemma QI_rel_events tr s s' l :
  (forall x, is_ready s' x = is_ready s x) -> pending_tbl s' = pending_tbl s ->
  InvT (tr ++ map ERel l) s' -> QI tr s -> QI (tr ++ map ERel l) s'.
Proof.
  intros E Ep HT [_ [H1 H2]]. split; [exact HT|].
  assert (Ed : dels (tr ++ map ERel l) = dels tr).
  { rewrite dels_app, dels_map_rel, app_nil_r. reflexivity. }
  rewrite Ed. split; [apply (Q1_same _ s); assumption | apply (Q2_same _ s); assumption].
Qed.

Lemma run_QI : forall ops tr s,
  QI tr s -> safe_trace tr -> oof (fst (run perm fuel s ops)) = false ->
  QI (tr ++ events_of ops (snd (run perm fuel s ops))) (fst (run perm fuel s ops)) /\
  safe_trace (tr ++ events_of ops (snd (run perm fuel s ops))).
Proof.
  induction ops as [|o ops IH]; intros tr s HQ Hs Hoof.
  - cbn [run events_of fst snd]. rewrite app_nil_r. auto.
  - cbn [run] in *.
    assert (Hoof1 : oof (fst (step perm fuel s o)) = false).
    { destruct (oof (fst (step perm fuel s o))) eqn:E; [|reflexivity].
      pose proof (run_oof_mono ops _ E) as Hm.
      destruct (step perm fuel s o) as [s1 o1]. cbn [fst] in *.
      destruct (run perm fuel s1 ops) as [s2 o2]. cbn [fst] in *. congruence. }
    destruct o as [x ds| |]; cbn [step] in *.
    + cbn [fst] in Hoof1.
      pose proof (process_QI tr s x ds HQ Hoof1) as HQ'.
      specialize (IH (tr ++ [EDel x ds]) (process perm fuel s x ds) HQ' (safe_snoc_del tr x ds Hs)).
      destruct (run perm fuel (process perm fuel s x ds) ops) as [s2 o2]. cbn [fst snd app events_of] in *.
      rewrite <- app_assoc in IH. exact (IH Hoof).
    + pose proof (take_InvT tr s (proj1 HQ) Hs) as Ht.
      pose proof (take_is_ready s) as Er. pose proof (take_pending s) as Ep.
      destruct (take_next_ready s) as [s' r] eqn:Et. cbn [fst snd] in *.
      destruct Ht as [HT' Hs'].
      assert (HQ' : QI (tr ++ out_events (ONext r)) s').
      { destruct r as [y|]; cbn [out_events] in *.
        - apply (QI_rel_events tr s s' [y]); assumption.
        - rewrite app_nil_r in *. apply (QI_rel_events tr s s' []) in HQ; try assumption.
          + cbn [map] in HQ. rewrite app_nil_r in HQ. exact HQ.
          + cbn [map]. rewrite app_nil_r. exact HT'. }
      specialize (IH _ _ HQ' Hs').
      destruct (run perm fuel s' ops) as [s2 o2]. cbn [fst snd app events_of] in *.
      rewrite <- app_assoc in IH. exact (IH Hoof).
    + pose proof (drain_InvT (S (length (ready_tbl s))) tr s (proj1 HQ) Hs) as Ht.
      pose proof (drain_is_ready (S (length (ready_tbl s))) s) as Er.
      pose proof (drain_pending (S (length (ready_tbl s))) s) as Ep.
      destruct (drain (S (length (ready_tbl s))) s) as [s' l] eqn:Ed. cbn [fst snd] in *.
      destruct Ht as [HT' Hs'].
      assert (HQ' : QI (tr ++ map ERel l) s') by (apply (QI_rel_events tr s s' l); assumption).
      specialize (IH _ _ HQ' Hs').
      destruct (run perm fuel s' ops) as [s2 o2]. cbn [fst snd app events_of out_events] in *.
      rewrite <- app_assoc in IH. exact (IH Hoof).
Qed.

Lemma QI_empty : QI [] empty.
Proof.
  split; [apply InvT_empty|]. split.
  - intros x ds [].
  - intros x ds [].
Qed.

End RunLive.
