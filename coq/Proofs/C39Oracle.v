(** Soundness of the C39 property oracle ([Oracle/C39.v: check]). *)
From Coq Require Import List Arith NArith Bool.
From PV Require Import Oracle.C39.
Import ListNotations.

Definition okey (o : obs) : nat * N := (o_peer o, o_msg o).

Lemma keyeqb_refl k : keyeqb k k = true.
Proof. unfold keyeqb. rewrite Nat.eqb_refl, N.eqb_refl. reflexivity. Qed.

Lemma memK_cons k x l : memK k l = true -> memK k (x :: l) = true.
Proof. unfold memK. cbn [existsb]. intros ->. apply orb_true_r. Qed.

Lemma memK_head k l : memK k (k :: l) = true.
Proof. unfold memK. cbn [existsb]. rewrite keyeqb_refl. reflexivity. Qed.

Lemma quiet_obs_spec o : quiet_obs o = true -> o_nev o = 0 /\ o_chg o = false.
Proof.
  unfold quiet_obs. intros Hq. apply andb_true_iff in Hq as [Hn Hc].
  apply Nat.eqb_eq in Hn. apply negb_true_iff in Hc. auto.
Qed.

Lemma obs_ok_spec b o :
  obs_ok b o = true ->
  o_res o <> 2%N /\ (o_res o = 1%N -> o_nev o = 0 /\ o_chg o = false) /\
  (b = true -> o_nev o = 0 /\ o_chg o = false).
Proof.
  unfold obs_ok. intros Hk. apply andb_true_iff in Hk as [Hp Hq].
  apply negb_true_iff, N.eqb_neq in Hp. split; [exact Hp|]. split.
  - intros Hr. rewrite Hr in Hq. cbn [N.eqb Pos.eqb] in Hq. rewrite orb_true_r in Hq. apply quiet_obs_spec, Hq.
  - intros ->. cbn [orb] in Hq. apply quiet_obs_spec, Hq.
Qed.

(** If the oracle accepts a trace then, at every position: no panic; an error emitted nothing and
    changed nothing; and a delivery of a message the peer authored itself, or processed
    successfully at any earlier position, emitted nothing and changed nothing. *)
Theorem check_sound : forall pre authored o post,
  check authored (pre ++ o :: post) = true ->
  o_res o <> 2%N /\
  (o_res o = 1%N -> o_nev o = 0 /\ o_chg o = false) /\
  ((memK (okey o) authored = true \/
    exists o', In o' pre /\ okey o' = okey o /\ o_res o' = 0%N) ->
   o_nev o = 0 /\ o_chg o = false).
Proof.
  unfold check. induction pre as [|a pre IH]; intros s o post Hc.
  - cbn [app check_from] in Hc. apply andb_true_iff in Hc as [Hk _].
    destruct (obs_ok_spec _ _ Hk) as (Hp & He & Hs).
    split; [exact Hp|]. split; [exact He|].
    intros [Hm|(o' & [] & _)]. apply Hs, Hm.
  - cbn [app check_from] in Hc. apply andb_true_iff in Hc as [_ Hr].
    destruct (IH _ o post Hr) as (Hp & He & Hs). split; [exact Hp|]. split; [exact He|].
    intros Hor. apply Hs. destruct Hor as [Hm|(o' & [Heq|Hin] & Hkey & Hres)].
    + left. destruct (N.eqb (o_res a) 0); [apply memK_cons|]; exact Hm.
    + left. subst o'. rewrite Hres. cbn [N.eqb]. unfold okey in Hkey. rewrite Hkey. apply memK_head.
    + right. exists o'. auto.
Qed.

Example check_accepts :
  check [(0, 5%N)] [Ob 1 5 0 1 true; Ob 1 5 0 0 false; Ob 0 5 0 0 false; Ob 1 9 1 0 false] = true.
Proof. reflexivity. Qed.
Example check_rejects_reemit :
  check [] [Ob 1 5 0 1 true; Ob 1 5 0 1 false] = false.
Proof. reflexivity. Qed.
Example check_rejects_panic : check [] [Ob 1 5 2 0 false] = false.
Proof. reflexivity. Qed.
