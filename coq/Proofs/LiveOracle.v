(** Soundness of the C23 oracle (Oracle/C23.v): what [check_rest] / [check_peer] accept satisfies
    the statements the theorems of Proofs/Live.v establish for the model. *)
From Coq Require Import List Arith NArith Bool.
From PV Require Import Model.Dedup Proofs.Dedup Model.Live Oracle.C23.
Import ListNotations.

Lemma is_sent_spec : forall s op e, is_sent s op e = true <-> e = ESent s op.
Proof.
  intros s op e. destruct e as [a b|a b|a b]; cbn; split; intro H; try discriminate H.
  - apply andb_true_iff in H. destruct H as [H1 H2]. apply N.eqb_eq in H1, H2. subst. reflexivity.
  - inversion H; subst. rewrite !N.eqb_refl. reflexivity.
Qed.

Lemma is_arr_spec : forall s op e, is_arr s op e = true <-> e = EArr s op.
Proof.
  intros s op e. destruct e as [a b|a b|a b]; cbn; split; intro H; try discriminate H.
  - apply andb_true_iff in H. destruct H as [H1 H2]. apply N.eqb_eq in H1, H2. subst. reflexivity.
  - inversion H; subst. rewrite !N.eqb_refl. reflexivity.
Qed.

Lemma existsb_false_notin : forall (p : entry -> bool) l e, existsb p l = false -> In e l -> p e = false.
Proof.
  intros p l e H Hin. destruct (p e) eqn:E; [|reflexivity].
  assert (existsb p l = true) by (apply existsb_exists; exists e; auto). congruence.
Qed.

(** Ordering clauses. *)
Theorem check_seq_sound : forall l, check_seq l = true ->
  forall l1 e l2, l = l1 ++ e :: l2 ->
    match e with
    | ESent s op => ~ In (ESent s op) l2
    | EArr s op => ~ In (ESent s op) l2
    | ECons _ op => forall s', ~ In (ECons s' op) l2
    end.
Proof.
  induction l as [|x l IH]; intros H l1 e l2 E.
  - destruct l1; discriminate E.
  - cbn [check_seq] in H. apply andb_true_iff in H. destruct H as [Hx Hl].
    destruct l1 as [|y l1]; cbn in E; inversion E; subst.
    + destruct e as [s op|s op|s op]; apply negb_true_iff in Hx.
      * intro Hin. pose proof (existsb_false_notin _ _ _ Hx Hin) as F.
        assert (is_sent s op (ESent s op) = true) by (apply is_sent_spec; reflexivity). congruence.
      * intro Hin. pose proof (existsb_false_notin _ _ _ Hx Hin) as F.
        assert (is_sent s op (ESent s op) = true) by (apply is_sent_spec; reflexivity). congruence.
      * intros s' Hin. pose proof (existsb_false_notin _ _ _ Hx Hin) as F. cbn in F.
        rewrite N.eqb_refl in F. discriminate F.
    + eapply IH; [exact Hl | reflexivity].
Qed.

(** Per peer. *)
Theorem check_peer_sound : forall c l, check_peer c l = true ->
  forall l1 s op l2 s', l = l1 ++ EArr s op :: l2 ->
    same_topic c s s' = true -> peer_of c s = peer_of c s' -> ~ In (ESent s' op) l2.
Proof.
  intros c. induction l as [|x l IH]; intros H l1 s op l2 s' E Hs Hp.
  - destruct l1; discriminate E.
  - cbn [check_peer] in H. apply andb_true_iff in H. destruct H as [Hx Hl].
    destruct l1 as [|y l1]; cbn in E; inversion E; subst.
    + apply negb_true_iff in Hx. intro Hin.
      pose proof (existsb_false_notin _ _ _ Hx Hin) as F. cbn in F.
      rewrite N.eqb_refl, Hs, Hp in F. cbn in F.
      assert (opt_eqb (peer_of c s') (peer_of c s') = true) as Ho.
      { destruct (peer_of c s'); cbn; [apply N.eqb_refl | reflexivity]. }
      rewrite Ho in F. discriminate F.
    + eapply IH; [exact Hl | reflexivity | exact Hs | exact Hp].
Qed.

(** Completeness at quiescence. *)
Theorem check_complete_sound : forall c seed l, check_complete c seed l = true ->
  forall s op s', In (EArr s op) l -> In s' (map sid c) -> same_topic c s s' = true ->
    In (ESent s' op) l \/ In (EArr s' op) l \/ In op (seed s').
Proof.
  intros c seed l H s op s' Harr Hin Hs. unfold check_complete in H. rewrite forallb_forall in H.
  specialize (H _ Harr). cbn in H. rewrite forallb_forall in H.
  apply in_map_iff in Hin. destruct Hin as (x & <- & Hx). specialize (H x Hx).
  rewrite Hs in H. cbn in H. unfold knows in H.
  apply orb_true_iff in H. destruct H as [H|H]; [apply orb_true_iff in H; destruct H as [H|H]|].
  - left. apply existsb_exists in H. destruct H as (e & He & Hp). apply is_sent_spec in Hp. subst. exact He.
  - right. left. apply existsb_exists in H. destruct H as (e & He & Hp). apply is_arr_spec in Hp. subst. exact He.
  - right. right. apply memN_true_in. exact H.
Qed.

(** No synced operation is sent again. *)
Theorem check_no_seed_sent_sound : forall seed l, check_no_seed_sent seed l = true ->
  forall s op, In (ESent s op) l -> ~ In op (seed s).
Proof.
  intros seed l H s op Hin Hs. unfold check_no_seed_sent in H. rewrite forallb_forall in H.
  specialize (H _ Hin). cbn in H. apply negb_true_iff in H.
  destruct (memN op (seed s)) eqn:E; [discriminate H|]. apply memN_false_notin in E. contradiction.
Qed.
