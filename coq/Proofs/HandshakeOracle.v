(** Soundness of the C25 oracle (Oracle/C25.v) and the fact that the model itself passes it. *)
From Coq Require Import List Arith Bool String Lia.
From PV Require Import Model.Handshake Proofs.Handshake Oracle.C25.
Import ListNotations.

Lemma sink_faultyb_eq : forall n sf, sink_faultyb n sf = sink_faulty n sf.
Proof. reflexivity. Qed.

Lemma expected_some_clean : forall r items sf evo o,
  expected r items sf evo = Some o -> clean r items sf evo.
Proof.
  intros r items sf evo o H. destruct r as [t|]; cbn in *.
  - destruct items as [|[[t'|]|] rest]; try discriminate H.
    destruct (negb (sink_faultyb 5 sf) && evo) eqn:E; [|discriminate H].
    apply andb_true_iff in E. destruct E as [E1 E2]. apply negb_true_iff in E1.
    repeat split; eauto.
  - destruct items as [|[[t'|]|] rest]; try discriminate H.
    destruct rest as [|[[t2|]|] rest]; try discriminate H.
    destruct (negb (sink_faultyb 3 sf) && evo) eqn:E; [|discriminate H].
    apply andb_true_iff in E. destruct E as [E1 E2]. apply negb_true_iff in E1.
    repeat split; eauto.
Qed.

Lemma expected_none_not_clean : forall r items sf evo,
  expected r items sf evo = None -> ~ clean r items sf evo.
Proof.
  intros r items sf evo H Hc. destruct r as [t|]; cbn in *.
  - destruct Hc as ((rest & ->) & Hs & ->). rewrite sink_faultyb_eq, Hs in H. discriminate H.
  - destruct Hc as ((t' & rest & ->) & Hs & ->). rewrite sink_faultyb_eq, Hs in H. discriminate H.
Qed.

(** What the oracle accepts: a clean environment got Ok (with the expected output), a faulty one
    got an error, and the stream was not polled again after it reported closure. *)
Theorem check_single_sound : forall r items sf evo res n,
  check_single r items sf evo res n = true ->
  n <= 1 /\
  ((clean r items sf evo /\ exists o, expected r items sf evo = Some o /\ res = IOk o) \/
   (~ clean r items sf evo /\ res = IFail)).
Proof.
  intros r items sf evo res n H. unfold check_single in H. apply andb_true_iff in H. destruct H as [Hn H].
  apply Nat.leb_le in Hn. split; [exact Hn|].
  destruct (expected r items sf evo) as [o|] eqn:E.
  - left. split; [eapply expected_some_clean; exact E|]. destruct res as [o'| |]; try discriminate H.
    exists o. split; [reflexivity|]. f_equal.
    destruct o as [x|], o' as [y|]; cbn in H; try discriminate H; [|reflexivity].
    apply String.eqb_eq in H. subst. reflexivity.
  - right. split; [apply expected_none_not_clean; exact E|]. destruct res; try discriminate H. reflexivity.
Qed.

(** The model's own answer passes the oracle in every environment. *)
Ltac ditem i := destruct i as [[?t|]|].
Ltac ditems l :=
  destruct l as [|?i l]; [| ditem i; (destruct l as [|?j l]; [| ditem j])].
Ltac dsf sf := destruct sf as [[|[|[|[|[|?k]]]]]|].

Theorem model_passes_oracle : forall (r : role string) items sf evo,
  check_single r items sf evo
    (ires_of (result_of (run_side r (mkenv items sf evo))))
    (none_polls (trace (obs_of (run_side r (mkenv items sf evo))))) = true.
Proof.
  intros r items sf evo. destruct r as [t|]; ditems items; dsf sf; destruct evo;
    cbv -[String.eqb]; rewrite ?String.eqb_refl; reflexivity.
Qed.
