(** Proofs about the wrapped ephemeral message and the publisher (C16).

    Trusted assumptions = the hypotheses of [Section Ideal]: an ideal (EUF-CMA as an equation,
    deterministic, collision-free) signature scheme and injective encodings.  They are section
    hypotheses, hence explicit premises of every exported theorem; [Sym_*] at the end shows that
    the free term algebra of Model/Ephemeral.v satisfies all of them. *)
From Coq Require Import List NArith Bool Lia Sorted FinFun.
From PV Require Import Model.Timestamp Proofs.Timestamp Model.Ephemeral.
Import ListNotations.
Local Open Scope N_scope.

Section Ideal.
  Variables key skey sigT bytes : Type.
  Variable sk_of : key -> skey.
  Variable sign : skey -> bytes -> sigT.
  Variable verify : key -> bytes -> sigT -> bool.
  Variable enc : fields key -> bytes.

  (** [verify] accepts exactly the signature the owner of the key produces for that message. *)
  Hypothesis verify_spec : forall p m s, verify p m s = true <-> s = sign (sk_of p) m.
  (** No two (key, message) pairs share a signature. *)
  Hypothesis sign_inj : forall k k' m m', sign k m = sign k' m' -> k = k' /\ m = m'.
  (** The CBOR encoding of the signed tuple is injective. *)
  Hypothesis enc_inj : forall f f', enc f = enc f' -> f = f'.

  Notation from_wire := (from_wire key sigT bytes verify enc).
  Notation accept := (accept key sigT bytes verify enc).
  Notation new_message := (new_message key skey sigT bytes sk_of sign enc).
  Notation publish := (publish key skey sigT bytes sk_of sign enc).
  Notation pub_run := (pub_run key skey sigT bytes sk_of sign enc).
  Notation wrapped := (wrapped key sigT).
  Notation incoming := (incoming key sigT).

  Lemma from_wire_ok (w m : wrapped) :
    from_wire w = inl m <->
    m = w /\ ver (wf w) = MESSAGE_VERSION /\ wsig w = sign (sk_of (author (wf w))) (enc (wf w)).
  Proof.
    unfold Ephemeral.from_wire.
    destruct (N.eqb_spec (ver (wf w)) MESSAGE_VERSION) as [E|E]; cbn [negb].
    - destruct (verify (author (wf w)) (enc (wf w)) (wsig w)) eqn:V.
      + apply verify_spec in V. split.
        * intros H. inversion H; subst. repeat split; assumption.
        * intros [H _]. subst. reflexivity.
      + split; [discriminate|]. intros [_ [_ H]]. apply verify_spec in H. congruence.
    - split; [discriminate|]. intros [_ [H _]]. contradiction.
  Qed.

  (** Everything a subscription yields carries the signature of the reported author over
      exactly its version, author, timestamp (both parts) and body. *)
  Theorem yielded_authentic (i : incoming) (m : wrapped) :
    accept i = Some m ->
    i = Decoded m /\ ver (wf m) = MESSAGE_VERSION /\
    wsig m = sign (sk_of (author (wf m))) (enc (wf m)).
  Proof.
    destruct i as [|w]; [discriminate|]. cbn [Ephemeral.accept].
    destruct (from_wire w) as [m'|e] eqn:E; [|discriminate].
    intros H. inversion H. subst m'. apply from_wire_ok in E. destruct E as [A [B C]]. subst. auto.
  Qed.

  (** Complete characterisation for a signature made by key [k] over fields [f1] that arrives
      with fields [f2]: it is yielded iff nothing was changed and [k] is the claimed author's
      own key.  Covers tampering of any field (f1 <> f2) and re-signing under another key. *)
  Theorem accept_iff (k : skey) (f1 f2 : fields key) :
    (exists m, accept (Decoded {| wf := f2; wsig := sign k (enc f1) |}) = Some m) <->
    (ver f2 = MESSAGE_VERSION /\ f1 = f2 /\ k = sk_of (author f2)).
  Proof.
    cbn [Ephemeral.accept]. split.
    - intros [m H]. destruct (from_wire _) as [m'|e] eqn:E; [|discriminate].
      apply from_wire_ok in E. cbn [wf wsig] in E. destruct E as [_ [V S]].
      apply sign_inj in S. destruct S as [S1 S2]. apply enc_inj in S2. auto.
    - intros [V [F K]]. subst f2 k. eexists.
      assert (E : from_wire {| wf := f1; wsig := sign (sk_of (author f1)) (enc f1) |}
                  = inl {| wf := f1; wsig := sign (sk_of (author f1)) (enc f1) |}).
      { apply from_wire_ok. cbn [wf wsig]. auto. }
      rewrite E. reflexivity.
  Qed.

  Theorem tamper_rejected (k : skey) (f1 f2 : fields key) :
    f1 <> f2 \/ k <> sk_of (author f2) \/ ver f2 <> MESSAGE_VERSION ->
    accept (Decoded {| wf := f2; wsig := sign k (enc f1) |}) = None.
  Proof.
    intros H. destruct (accept _) as [m|] eqn:E; [|reflexivity]. exfalso.
    assert (X : exists m, accept (Decoded {| wf := f2; wsig := sign k (enc f1) |}) = Some m) by eauto.
    apply accept_iff in X. destruct X as [A [B C]]. destruct H as [H|[H|H]]; contradiction.
  Qed.

  (** A signature that no key holder produced for these fields is rejected, whatever it is. *)
  Theorem forged_rejected (f : fields key) (s : sigT) :
    s <> sign (sk_of (author f)) (enc f) ->
    accept (Decoded {| wf := f; wsig := s |}) = None.
  Proof.
    intros H. cbn [Ephemeral.accept]. destruct (from_wire _) as [m|e] eqn:E; [|reflexivity].
    apply from_wire_ok in E. cbn [wf wsig] in E. destruct E as [_ [_ S]]. contradiction.
  Qed.

  (** ** Publisher *)

  Lemma new_message_accepted (pk : key) (ts : hts) (b : N) :
    accept (Decoded (new_message pk ts b)) = Some (new_message pk ts b).
  Proof.
    cbn [Ephemeral.accept].
    assert (E : from_wire (new_message pk ts b) = inl (new_message pk ts b)).
    { apply from_wire_ok. cbn. auto. }
    rewrite E. reflexivity.
  Qed.

  Lemma msg_ts_new (pk : key) (ts : hts) (b : N) : msg_ts key sigT (new_message pk ts b) = ts.
  Proof. destruct ts. reflexivity. Qed.

  Lemma pub_run_spec :
    forall script pk st,
      map (msg_ts key sigT) (fst (pub_run pk st script)) = fst (run st (map fst script)) /\
      snd (pub_run pk st script) = snd (run st (map fst script)) /\
      Forall (fun w => accept (Decoded w) = Some w /\ author (wf w) = pk) (fst (pub_run pk st script)) /\
      map (fun w => body (wf w)) (fst (pub_run pk st script)) =
        firstn (length (fst (pub_run pk st script))) (map snd script).
  Proof.
    induction script as [|[now b] r IH]; intros pk st.
    - cbn. repeat split; constructor.
    - cbn [Ephemeral.pub_run map fst run]. unfold Ephemeral.publish.
      destruct (increment st now) as [ts'|]; [|cbn; repeat split; constructor].
      destruct (IH pk ts') as [I1 [I2 [I3 I4]]].
      destruct (pub_run pk ts' r) as [ms ok]. destruct (run ts' (map fst r)) as [out ok'].
      cbn [fst snd map length firstn] in *. repeat split.
      + rewrite I1, msg_ts_new. reflexivity.
      + exact I2.
      + constructor; [split; [apply new_message_accepted|reflexivity]|exact I3].
      + rewrite I4. reflexivity.
  Qed.

  (** Successive publishes of one publisher, under any clock script, carry strictly increasing
      timestamps; every published message is accepted by subscribers; all are distinct. *)
  Theorem timestamps_strictly_increase (pk : key) (t0 : N) (script : list (N * N)) :
    N.of_nat (length script) <= u64max ->
    let '(ms, ok) := pub_run pk (hnow t0) script in
    ok = true /\ length ms = length script /\
    StronglySorted hlt (hnow t0 :: map (msg_ts key sigT) ms) /\
    Forall (fun w => accept (Decoded w) = Some w /\ author (wf w) = pk) ms /\
    map (fun w => body (wf w)) ms = map snd script.
  Proof.
    intros G. destruct (pub_run_spec script pk (hnow t0)) as [A [B [C D]]].
    destruct (run_sorted (map fst script) (hnow t0)) as [R1 [R2 R3]].
    { cbn [hnow snd]. rewrite map_length. lia. }
    destruct (pub_run pk (hnow t0) script) as [ms ok]. cbn [fst snd] in *.
    assert (L : length ms = length script).
    { rewrite <- (map_length (msg_ts key sigT) ms), A, R2, map_length. reflexivity. }
    repeat split.
    - congruence.
    - exact L.
    - rewrite A. exact R3.
    - exact C.
    - rewrite D, L, <- (map_length snd script). apply firstn_all.
  Qed.

  Theorem no_two_equal_messages (pk : key) (t0 : N) (script : list (N * N))
          (wire : Type) (wenc : wrapped -> wire) :
    Injective wenc ->
    N.of_nat (length script) <= u64max ->
    NoDup (map wenc (fst (pub_run pk (hnow t0) script))).
  Proof.
    intros Hinj G. pose proof (timestamps_strictly_increase pk t0 script G) as H.
    destruct (pub_run pk (hnow t0) script) as [ms ok]. destruct H as [_ [_ [S _]]]. cbn [fst].
    apply Injective_map_NoDup; [exact Hinj|].
    apply sorted_nodup in S. apply NoDup_cons_iff in S. destruct S as [_ S].
    exact (NoDup_map_inv _ _ S).
  Qed.
End Ideal.

(** * The hypotheses are satisfiable: the symbolic instance *)

Lemma fields_eqb_eq (a b : fields Sym.key) : Sym.fields_eqb a b = true <-> a = b.
Proof.
  unfold Sym.fields_eqb. rewrite !andb_true_iff, !N.eqb_eq. split.
  - intros [[[[A B] C] D] E]. destruct a, b. cbn in *. congruence.
  - intros ->. auto.
Qed.

Lemma Sym_verify_spec : forall p m s, Sym.verify p m s = true <-> s = Sym.sign (Sym.sk_of p) m.
Proof.
  intros p m s. unfold Sym.verify, Sym.sign, Sym.sk_of. destruct s as [k m'|].
  - rewrite andb_true_iff, N.eqb_eq, fields_eqb_eq. split; [intros [A B]; congruence|intros H; inversion H; auto].
  - split; discriminate.
Qed.

Lemma Sym_sign_inj : forall k k' m m', Sym.sign k m = Sym.sign k' m' -> k = k' /\ m = m'.
Proof. intros k k' m m' H. inversion H. auto. Qed.

Lemma Sym_enc_inj : forall f f', Sym.enc f = Sym.enc f' -> f = f'.
Proof. intros f f' H. exact H. Qed.

(** Non-vacuity of the main statements on the instance. *)
Example accept_nonvacuous :
  let f := {| ver := 1; author := 3; time := 1000; logical := 2; body := 77 |} in
  Sym.accept (Decoded {| wf := f; wsig := Sym.sign 3 (Sym.enc f) |}) <> None /\
  Sym.accept (Decoded {| wf := f; wsig := Sym.sign 4 (Sym.enc f) |}) = None /\
  Sym.accept (Decoded {| wf := {| ver := 1; author := 3; time := 1000; logical := 3; body := 77 |};
                         wsig := Sym.sign 3 (Sym.enc f) |}) = None.
Proof. cbn. repeat split; discriminate. Qed.

Example publisher_nonvacuous :
  map (msg_ts Sym.key Sym.sigT) (fst (Sym.pub_run 3 (hnow 1000) [(500, 1); (1000, 1); (1001, 1); (7, 2)]))
  = [(1000, 1); (1000, 2); (1001, 0); (1001, 1)].
Proof. reflexivity. Qed.
