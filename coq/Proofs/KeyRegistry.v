(** Proofs about the key-registry model (C38). *)
From Coq Require Import List NArith Bool Lia.
From PV Require Import Model.KeyRegistry.
Import ListNotations.
Local Open Scope N_scope.

(** Invariant: every stored bundle carries a verifying signature (it was checked when added). *)
Definition AllSig (m : amap) : Prop :=
  forall i l b, lookup m i = Some l -> In b l -> sig_ok b = true.
Definition Inv (y : reg) : Prop := AllSig (onetime y) /\ AllSig (longterm y).

Lemma lookup_update_same m i v : lookup (update m i v) i = Some v.
Proof.
  induction m as [|[k w] m IH]; cbn [update lookup].
  - now rewrite N.eqb_refl.
  - destruct (N.eqb_spec k i) as [E|E]; cbn [lookup].
    + subst. now rewrite N.eqb_refl.
    + destruct (N.eqb_spec k i); [contradiction|exact IH].
Qed.

Lemma lookup_update_other m i j v : i <> j -> lookup (update m i v) j = lookup m j.
Proof.
  intros H. induction m as [|[k w] m IH]; cbn [update lookup].
  - destruct (N.eqb_spec i j); [contradiction|reflexivity].
  - destruct (N.eqb_spec k i) as [E|E]; cbn [lookup].
    + subst. destruct (N.eqb_spec i j); [contradiction|reflexivity].
    + destruct (N.eqb_spec k j); [reflexivity|exact IH].
Qed.

Lemma AllSig_update m i v :
  AllSig m -> (forall b, In b v -> sig_ok b = true) -> AllSig (update m i v).
Proof.
  intros HA Hv j l b Hl Hb. destruct (N.eq_dec i j) as [<-|E].
  - rewrite lookup_update_same in Hl. injection Hl as <-. auto.
  - rewrite lookup_update_other in Hl by exact E. eapply HA; eauto.
Qed.

Lemma AllSig_push m i b : AllSig m -> sig_ok b = true -> AllSig (push m i b).
Proof.
  intros HA Hb. unfold push. apply AllSig_update; [exact HA|].
  intros x [<-|Hx]; [exact Hb|].
  destruct (lookup m i) as [l|] eqn:E; [eapply HA; eauto|destruct Hx].
Qed.

Lemma lookup_map_filter (f : bundle -> bool) m i :
  lookup (map (fun kv : N * list bundle => (fst kv, filter f (snd kv))) m) i =
  option_map (filter f) (lookup m i).
Proof.
  induction m as [|[k w] m IH]; [reflexivity|]. cbn [map lookup fst snd].
  destruct (k =? i); [reflexivity|exact IH].
Qed.

Lemma AllSig_filter f m :
  AllSig m -> AllSig (map (fun kv : N * list bundle => (fst kv, filter f (snd kv))) m).
Proof.
  intros HA i l b Hl Hb. rewrite lookup_map_filter in Hl.
  destruct (lookup m i) as [l0|] eqn:E; [|discriminate]. injection Hl as <-.
  apply filter_In in Hb. eapply HA; eauto. tauto.
Qed.

Lemma verify_none t b : verify t b = None <-> valid_at t b = true.
Proof.
  unfold verify, valid_at. destruct (life_ok t b), (sig_ok b); cbn; split; congruence.
Qed.

(** ** Accepting *)

Theorem never_accept_invalid_onetime t y i b :
  snd (add_onetime t y i b) = Accepted -> valid_at t b = true.
Proof.
  unfold add_onetime. destruct (verify t b) eqn:E; cbn [snd]; [discriminate|].
  intros _. now apply verify_none.
Qed.

Theorem never_accept_invalid_longterm t y i b :
  snd (add_longterm t y i b) = Accepted -> valid_at t b = true.
Proof.
  unfold add_longterm. destruct (verify t b) eqn:E; cbn [snd]; [discriminate|].
  intros _. now apply verify_none.
Qed.

(** A rejected bundle leaves the registry untouched. *)
Theorem rejected_not_stored t y i b :
  valid_at t b = false ->
  add_onetime t y i b = (y, Rejected (match verify t b with Some e => e | None => ELifetime end)) /\
  add_longterm t y i b = (y, Rejected (match verify t b with Some e => e | None => ELifetime end)).
Proof.
  intros H. unfold add_onetime, add_longterm.
  destruct (verify t b) eqn:E; [auto|]. apply verify_none in E. congruence.
Qed.

(** ** Returning *)

Lemma pop_valid_spec t l :
  (forall b, snd (pop_valid t l) = Some b -> valid_at t b = true /\ In b l) /\
  (forall b, In b (fst (pop_valid t l)) -> In b l).
Proof.
  induction l as [|x l [IH1 IH2]]; cbn [pop_valid].
  - cbn [fst snd]. split; [discriminate|tauto].
  - destruct (valid_at t x) eqn:E; cbn [fst snd].
    + split; [intros b Hb; injection Hb as <-; split; [exact E|now left]|intros b Hb; now right].
    + split; [intros b Hb; destruct (IH1 b Hb); split; [assumption|now right]|intros b Hb; right; auto].
Qed.

(** A one-time bundle is handed out only if no newer stored bundle verifies (LIFO order kept). *)
Lemma lkb_fold_spec t : forall vec acc,
  (forall c, acc = Some c -> life_ok t c = true) ->
  forall b, fold_left (lkb_step t) vec acc = Some b -> life_ok t b = true /\ (acc = Some b \/ In b vec).
Proof.
  induction vec as [|x vec IH]; intros acc Ha b H; cbn [fold_left] in H.
  - split; [now apply Ha|now left].
  - apply IH in H.
    + destruct H as [H1 [H2|H2]]; split; auto.
      unfold lkb_step in H2. destruct (life_ok t x) eqn:E; [|now left].
      destruct acc as [c|]; [destruct (na c <? na x)|]; try (now left);
        injection H2 as <-; right; now left.
      right. now right.
    + intros c Hc. unfold lkb_step in Hc. destruct (life_ok t x) eqn:E; [|now apply Ha].
      destruct acc as [c0|]; [destruct (na c0 <? na x)|]; try (injection Hc as <-; exact E); now apply Ha.
Qed.

Lemma latest_key_bundle_spec t vec b :
  latest_key_bundle t vec = Some b -> life_ok t b = true /\ In b vec.
Proof.
  intros H. apply lkb_fold_spec in H; [|discriminate].
  destruct H as [H1 [H2|H2]]; [discriminate|auto].
Qed.

(** The long-term answer has the furthest expiry among the bundles valid now. *)
Lemma lkb_fold_max t : forall vec acc b,
  fold_left (lkb_step t) vec acc = Some b ->
  (forall c, acc = Some c -> na c <= na b) /\
  (forall x, In x vec -> life_ok t x = true -> na x <= na b).
Proof.
  induction vec as [|x vec IH]; intros acc b H; cbn [fold_left] in H.
  - subst. split; [intros c Hc; injection Hc as <-; lia|intros ? []].
  - destruct (IH _ _ H) as [H1 H2]. split.
    + intros c ->. unfold lkb_step in H1. destruct (life_ok t x); [|now apply H1].
      destruct (N.ltb_spec (na c) (na x)) as [L|L]; [specialize (H1 _ eq_refl); lia|now apply H1].
    + intros z [Ez|Hz] Hv; [subst z|now apply H2].
      unfold lkb_step in H1. rewrite Hv in H1. destruct acc as [c|]; [|now apply H1].
      destruct (N.ltb_spec (na c) (na x)) as [L|L]; [now apply H1|specialize (H1 _ eq_refl); lia].
Qed.

Theorem step_ok get_ot y o :
  (forall t y i, Inv y ->
     Inv (fst (get_ot t y i)) /\
     forall b, snd (get_ot t y i) = Got (Some b) -> valid_at t b = true) ->
  Inv y -> Inv (fst (step get_ot y o)) /\ answer_ok o (snd (step get_ot y o)).
Proof.
  intros Hget [HO HL]. destruct o as [t i b|t i b|t i|t i|t]; cbn [step].
  - unfold add_onetime. destruct (verify t b) eqn:E; cbn [fst snd answer_ok]; [split; [split|]; auto|].
    apply verify_none in E. split; [|exact E]. split; cbn [onetime longterm]; [|exact HL].
    apply AllSig_push; [exact HO|]. unfold valid_at in E. apply andb_true_iff in E. tauto.
  - unfold add_longterm. destruct (verify t b) eqn:E; cbn [fst snd answer_ok]; [split; [split|]; auto|].
    apply verify_none in E. split; [|exact E]. split; cbn [onetime longterm]; [exact HO|].
    apply AllSig_push; [exact HL|]. unfold valid_at in E. apply andb_true_iff in E. tauto.
  - destruct (Hget t y i (conj HO HL)) as [H1 H2]. split; [exact H1|].
    destruct (snd (get_ot t y i)) as [| |[b|]| |] eqn:E; cbn [answer_ok]; auto.
  - unfold get_longterm. destruct (lookup (longterm y) i) as [l|] eqn:E; [|cbn [fst snd answer_ok]; split; [split; assumption|exact I]].
    destruct (latest_key_bundle t (rev l)) as [b|] eqn:E2; cbn [fst snd].
    + split; [split; assumption|]. cbn [answer_ok].
      apply latest_key_bundle_spec in E2. destruct E2 as [Hv Hi].
      unfold valid_at. rewrite Hv. cbn [andb]. eapply HL; eauto. now apply in_rev.
    + split; [split; assumption|]. destruct l; cbn [answer_ok]; auto.
  - unfold remove_expired. cbn [fst snd answer_ok]. split; [|exact I].
    split; cbn [onetime longterm]; now apply AllSig_filter.
Qed.

Lemma get_onetime_ok t y i :
  Inv y ->
  Inv (fst (get_onetime t y i)) /\
  forall b, snd (get_onetime t y i) = Got (Some b) -> valid_at t b = true.
Proof.
  intros [HO HL]. unfold get_onetime.
  destruct (lookup (onetime y) i) as [l|] eqn:E; cbn [fst snd]; [|split; [split; assumption|discriminate]].
  destruct (pop_valid_spec t l) as [P1 P2].
  destruct (pop_valid t l) as [l' r] eqn:EP. cbn [fst snd] in *. split.
  - split; cbn [onetime longterm]; [|exact HL].
    apply AllSig_update; [exact HO|]. intros b Hb. eapply HO; eauto.
  - intros b Hb. injection Hb as ->. now apply P1.
Qed.

Lemma run_ok get_ot :
  (forall t y i, Inv y ->
     Inv (fst (get_ot t y i)) /\
     forall b, snd (get_ot t y i) = Got (Some b) -> valid_at t b = true) ->
  forall ops y, Inv y -> Forall2 answer_ok ops (snd (run get_ot y ops)).
Proof.
  intros Hget. induction ops as [|o ops IH]; intros y HI; cbn [run].
  - constructor.
  - destruct (step_ok get_ot y o Hget HI) as [H1 H2].
    destruct (step get_ot y o) as [y1 x]. cbn [fst snd] in *.
    specialize (IH y1 H1). destruct (run get_ot y1 ops) as [y2 xs]. cbn [snd] in *.
    constructor; assumption.
Qed.

Lemma Inv_init : Inv init.
Proof. split; intros i l b H; discriminate. Qed.

(** Main theorem (repaired code): for every sequence of operations with arbitrary clock
    readings, every accepted bundle is valid when accepted and every returned bundle (one-time
    or long-term) is valid — lifetime and signature — when returned. *)
Theorem never_accept_or_return_invalid ops :
  Forall2 answer_ok ops (snd (run get_onetime init ops)).
Proof. apply run_ok; [intros; now apply get_onetime_ok|exact Inv_init]. Qed.

(** The long-term answer is the valid bundle with the furthest expiry. *)
Theorem longterm_is_furthest t y i b l x :
  lookup (longterm y) i = Some l -> snd (get_longterm t y i) = Got (Some b) ->
  In x l -> life_ok t x = true -> na x <= na b.
Proof.
  intros E H Hx Hv. unfold get_longterm in H. rewrite E in H.
  destruct (latest_key_bundle t (rev l)) as [c|] eqn:E2; cbn [snd] in H.
  - injection H as ->. unfold latest_key_bundle in E2. apply lkb_fold_max in E2.
    apply (proj2 E2); [now apply in_rev in Hx|exact Hv].
  - destruct l; discriminate.
Qed.

(** Before the repair the one-time path returned bundles that expired while stored:
    accepted at t = 1001 with lifetime (999, 1003), popped at t = 1004. *)
Definition witness_bundle : bundle := {| nb := 999; na := 1003; sig_ok := true; tag := 0 |}.
Definition witness_ops : list op := [AddOT 1001 0 witness_bundle; GetOT 1004 0].

Theorem asis_returns_expired :
  snd (run get_onetime_asis init witness_ops) = [Accepted; Got (Some witness_bundle)] /\
  valid_at 1004 witness_bundle = false.
Proof. vm_compute. split; reflexivity. Qed.

Theorem asis_refuted : ~ Forall2 answer_ok witness_ops (snd (run get_onetime_asis init witness_ops)).
Proof.
  intros H. destruct asis_returns_expired as [E V]. rewrite E in H.
  inversion H as [|? ? ? ? _ H2]; subst. inversion H2 as [|? ? ? ? H3 _]; subst.
  cbn [answer_ok] in H3. congruence.
Qed.

(** The repaired code on the same input skips the expired bundle. *)
Example repaired_on_witness :
  snd (run get_onetime init witness_ops) = [Accepted; Got None].
Proof. vm_compute. reflexivity. Qed.

(** Non-vacuity: a run in which bundles are accepted, returned, skipped and rejected. *)
Example run_example :
  let b1 := {| nb := 990; na := 1010; sig_ok := true; tag := 1 |} in
  let b2 := {| nb := 990; na := 1002; sig_ok := true; tag := 2 |} in
  let b3 := {| nb := 990; na := 1020; sig_ok := false; tag := 3 |} in
  snd (run get_onetime init
         [AddOT 1000 0 b1; AddOT 1000 0 b2; AddOT 1000 0 b3; AddLT 1000 0 b1; AddLT 1000 0 b2;
          GetLT 1001 0; GetOT 1003 0; GetOT 1003 0; GetLT 1011 0])
  = [Accepted; Accepted; Rejected ESig; Accepted; Accepted; Got (Some b1); Got (Some b1); Got None; Expired].
Proof. vm_compute. reflexivity. Qed.
