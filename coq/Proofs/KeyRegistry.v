(** Proofs about the key-registry model (C38). *)
From Coq Require Import List NArith Bool Lia.
From PV Require Import Model.KeyRegistry.
Import ListNotations.
Local Open Scope N_scope.

Lemma lookup_update_same m i v : lookup (update m i v) i = Some v.
Proof.
  induction m as [|[k w] m IH]; cbn [update lookup].
  - now rewrite N.eqb_refl.
  - destruct (N.eqb_spec k i) as [E|E]; cbn [lookup].
    + subst. now rewrite N.eqb_refl.
    + destruct (N.eqb_spec k i); [contradiction|exact IH].
Qed.

Lemma lookup_update_other m i j v : i <> j -> lookup (update m i v) j = lookup m j.
Proof.
  intros H. induction m as [|[k w] m IH]; cbn [update lookup].
  - destruct (N.eqb_spec i j); [contradiction|reflexivity].
  - destruct (N.eqb_spec k i) as [E|E]; cbn [lookup].
    + subst. destruct (N.eqb_spec i j); [contradiction|reflexivity].
    + destruct (N.eqb_spec k j); [reflexivity|exact IH].
Qed.

Lemma bundle_eqb_eq a b : bundle_eqb a b = true <-> a = b.
Proof.
  unfold bundle_eqb. destruct a as [a1 a2 a3 a4], b as [b1 b2 b3 b4]; cbn [nb na sig_ok tag].
  split.
  - intros H. repeat (apply andb_true_iff in H; destruct H as [H ?]).
    apply N.eqb_eq in H. apply N.eqb_eq in H0. apply N.eqb_eq in H2. apply eqb_prop in H1.
    now subst.
  - intros H. injection H as -> -> -> ->.
    now rewrite !N.eqb_refl, eqb_reflx.
Qed.

Lemma contains_In l b : contains l b = true <-> In b l.
Proof.
  unfold contains. rewrite existsb_exists. split.
  - intros [x [Hx E]]. apply bundle_eqb_eq in E. now subst.
  - intros H. exists b. split; [exact H|now apply bundle_eqb_eq].
Qed.

Lemma verify_none t b : verify t b = None <-> valid_at t b = true.
Proof.
  unfold verify, valid_at. destruct (life_ok t b), (sig_ok b); cbn; split; congruence.
Qed.

(** ** Accepting *)

Theorem never_accept_invalid_onetime t y i b :
  snd (add_onetime t y i b) = Accepted -> valid_at t b = true.
Proof.
  unfold add_onetime. destruct (verify t b) eqn:E; cbn [snd]; [discriminate|].
  intros _. now apply verify_none.
Qed.

Theorem never_accept_invalid_longterm t y i b :
  snd (add_longterm t y i b) = Accepted -> valid_at t b = true.
Proof.
  unfold add_longterm. destruct (verify t b) eqn:E; cbn [snd]; [discriminate|].
  intros _. now apply verify_none.
Qed.

(** A rejected bundle leaves the registry untouched. *)
Theorem rejected_not_stored t y i b :
  valid_at t b = false ->
  add_onetime t y i b = (y, Rejected (match verify t b with Some e => e | None => ELifetime end)) /\
  add_longterm t y i b = (y, Rejected (match verify t b with Some e => e | None => ELifetime end)).
Proof.
  intros H. unfold add_onetime, add_longterm.
  destruct (verify t b) eqn:E; [auto|]. apply verify_none in E. congruence.
Qed.

(** ** Returning *)

Lemma pop_valid_spec t l :
  (forall b, snd (pop_valid t l) = Some b -> valid_at t b = true /\ In b l) /\
  (forall b, In b (fst (pop_valid t l)) -> In b l).
Proof.
  induction l as [|x l [IH1 IH2]]; cbn [pop_valid].
  - cbn [fst snd]. split; [discriminate|tauto].
  - destruct (valid_at t x) eqn:E; cbn [fst snd].
    + split; [intros b Hb; injection Hb as <-; split; [exact E|now left]|intros b Hb; now right].
    + split; [intros b Hb; destruct (IH1 b Hb); split; [assumption|now right]|intros b Hb; right; auto].
Qed.

(** [latest_key_bundle] with per-bundle filter [ok]: the answer passes the filter and is one of
    the given bundles. *)
Lemma lkb_fold_spec ok : forall vec acc,
  (forall c, acc = Some c -> ok c = true) ->
  forall b, fold_left (lkb_step_gen ok) vec acc = Some b -> ok b = true /\ (acc = Some b \/ In b vec).
Proof.
  induction vec as [|x vec IH]; intros acc Ha b H; cbn [fold_left] in H.
  - split; [now apply Ha|now left].
  - apply IH in H.
    + destruct H as [H1 [H2|H2]]; split; auto.
      unfold lkb_step_gen in H2. destruct (ok x) eqn:E; [|now left].
      destruct acc as [c|]; [destruct (na c <? na x)|]; try (now left);
        injection H2 as <-; right; now left.
      right. now right.
    + intros c Hc. unfold lkb_step_gen in Hc. destruct (ok x) eqn:E; [|now apply Ha].
      destruct acc as [c0|]; [destruct (na c0 <? na x)|]; try (injection Hc as <-; exact E); now apply Ha.
Qed.

Lemma latest_key_bundle_spec t vec b :
  latest_key_bundle t vec = Some b -> valid_at t b = true /\ In b vec.
Proof.
  intros H. apply lkb_fold_spec in H; [|discriminate].
  destruct H as [H1 [H2|H2]]; [discriminate|auto].
Qed.

Lemma latest_key_bundle_asis_spec t vec b :
  latest_key_bundle_asis t vec = Some b -> life_ok t b = true /\ In b vec.
Proof.
  intros H. apply lkb_fold_spec in H; [|discriminate].
  destruct H as [H1 [H2|H2]]; [discriminate|auto].
Qed.

(** The long-term answer has the furthest expiry among the bundles that pass the filter. *)
Lemma lkb_fold_max ok : forall vec acc b,
  fold_left (lkb_step_gen ok) vec acc = Some b ->
  (forall c, acc = Some c -> na c <= na b) /\
  (forall x, In x vec -> ok x = true -> na x <= na b).
Proof.
  induction vec as [|x vec IH]; intros acc b H; cbn [fold_left] in H.
  - subst. split; [intros c Hc; injection Hc as <-; lia|intros ? []].
  - destruct (IH _ _ H) as [H1 H2]. split.
    + intros c ->. unfold lkb_step_gen in H1. destruct (ok x); [|now apply H1].
      destruct (N.ltb_spec (na c) (na x)) as [L|L]; [specialize (H1 _ eq_refl); lia|now apply H1].
    + intros z [Ez|Hz] Hv; [subst z|now apply H2].
      unfold lkb_step_gen in H1. rewrite Hv in H1. destruct acc as [c|]; [|now apply H1].
      destruct (N.ltb_spec (na c) (na x)) as [L|L]; [now apply H1|specialize (H1 _ eq_refl); lia].
Qed.

(** Whatever the stored state is — built by [add_*], restored from persistence, left behind by a
    clock change — the one-time getter only hands out a bundle that verifies now ... *)
Theorem get_onetime_valid t y i b :
  snd (get_onetime t y i) = Got (Some b) -> valid_at t b = true.
Proof.
  unfold get_onetime. destruct (lookup (onetime y) i) as [l|]; cbn [snd]; [|discriminate].
  destruct (pop_valid_spec t l) as [P1 _].
  destruct (pop_valid t l) as [l' r]. cbn [fst snd] in *.
  intros Hb. injection Hb as ->. now apply P1.
Qed.

(** ... and it is one of the stored ones. *)
Theorem get_onetime_stored t y i b :
  snd (get_onetime t y i) = Got (Some b) -> In b (stored (onetime y) i).
Proof.
  unfold get_onetime, stored. destruct (lookup (onetime y) i) as [l|]; cbn [snd]; [|discriminate].
  destruct (pop_valid_spec t l) as [P1 _].
  destruct (pop_valid t l) as [l' r]. cbn [fst snd] in *.
  intros Hb. injection Hb as ->. now apply P1.
Qed.

(** ... and so does the long-term getter. *)
Theorem get_longterm_valid t y i b :
  snd (get_longterm t y i) = Got (Some b) -> valid_at t b = true /\ In b (stored (longterm y) i).
Proof.
  unfold get_longterm, get_longterm_gen, stored.
  destruct (lookup (longterm y) i) as [l|]; cbn [snd]; [|discriminate].
  destruct (latest_key_bundle t (rev l)) as [c|] eqn:E2; cbn [snd].
  - intros H. injection H as ->. apply latest_key_bundle_spec in E2.
    destruct E2 as [Hv Hi]. split; [exact Hv|now apply in_rev].
  - destruct l; discriminate.
Qed.

Theorem get_valid_from_any_state t y i b :
  (snd (get_onetime t y i) = Got (Some b) -> valid_at t b = true) /\
  (snd (get_longterm t y i) = Got (Some b) -> valid_at t b = true).
Proof.
  split; [apply get_onetime_valid|]. intros H. now apply get_longterm_valid in H.
Qed.

Theorem get_returns_stored t y i b :
  (snd (get_onetime t y i) = Got (Some b) -> In b (stored (onetime y) i)) /\
  (snd (get_longterm t y i) = Got (Some b) -> In b (stored (longterm y) i)).
Proof.
  split; [apply get_onetime_stored|]. intros H. now apply get_longterm_valid in H.
Qed.

(** Registering a bundle that is already stored: verified like any other bundle. *)
Theorem readd_requires_valid t y i b :
  In b (stored (longterm y) i) ->
  (snd (add_longterm t y i b) = Accepted -> valid_at t b = true) /\
  (valid_at t b = true -> add_longterm t y i b = (y, Accepted)) /\
  (valid_at t b = false -> exists e, add_longterm t y i b = (y, Rejected e)).
Proof.
  intros Hin. split; [apply never_accept_invalid_longterm|]. split.
  - intros Hv. unfold add_longterm. apply verify_none in Hv. rewrite Hv.
    apply contains_In in Hin. now rewrite Hin.
  - intros Hv. destruct (rejected_not_stored t y i b Hv) as [_ H]. eauto.
Qed.

(** A bundle that is not stored yet and verifies is pushed; nothing else changes. *)
Theorem add_longterm_fresh t y i b :
  ~ In b (stored (longterm y) i) -> valid_at t b = true ->
  add_longterm t y i b = ({| onetime := onetime y; longterm := push (longterm y) i b |}, Accepted).
Proof.
  intros Hn Hv. unfold add_longterm. apply verify_none in Hv. rewrite Hv.
  destruct (contains (stored (longterm y) i) b) eqn:E; [|reflexivity].
  apply contains_In in E. contradiction.
Qed.

Theorem step_ok get_ot y o :
  (forall t y i b, snd (get_ot t y i) = Got (Some b) -> valid_at t b = true) ->
  answer_ok o (snd (step get_ot y o)).
Proof.
  intros Hget. destruct o as [t i b|t i b|t i|t i|t|t i l|t i l|t i]; cbn [step].
  - destruct (snd (add_onetime t y i b)) eqn:E; cbn [answer_ok]; auto.
    now apply never_accept_invalid_onetime in E.
  - destruct (snd (add_longterm t y i b)) eqn:E; cbn [answer_ok]; auto.
    now apply never_accept_invalid_longterm in E.
  - destruct (snd (get_ot t y i)) as [| |[b|]| | |] eqn:E; cbn [answer_ok]; auto.
    eapply Hget; eauto.
  - destruct (snd (get_longterm t y i)) as [| |[b|]| | |] eqn:E; cbn [answer_ok]; auto.
    now apply get_longterm_valid in E.
  - cbn [remove_expired snd answer_ok]. exact I.
  - cbn [set_onetime snd answer_ok]. exact I.
  - cbn [set_longterm snd answer_ok]. exact I.
  - cbn [count snd answer_ok]. exact I.
Qed.

Lemma run_ok get_ot :
  (forall t y i b, snd (get_ot t y i) = Got (Some b) -> valid_at t b = true) ->
  forall ops y, Forall2 answer_ok ops (snd (run get_ot y ops)).
Proof.
  intros Hget. induction ops as [|o ops IH]; intros y; cbn [run].
  - constructor.
  - pose proof (step_ok get_ot y o Hget) as H2.
    destruct (step get_ot y o) as [y1 x]. cbn [fst snd] in *.
    specialize (IH y1). destruct (run get_ot y1 ops) as [y2 xs]. cbn [snd] in *.
    constructor; assumption.
Qed.

(** Main theorem (repaired code): from ANY registry state [y] (not only states built by
    [add_*]) and for every sequence of operations — including restoring arbitrary persisted
    lists — with arbitrary clock readings, every accepted bundle is valid when accepted and every
    returned bundle (one-time or long-term) is valid — lifetime and signature — when returned. *)
Theorem never_accept_or_return_invalid y ops :
  Forall2 answer_ok ops (snd (run get_onetime y ops)).
Proof. apply run_ok. intros. eapply get_onetime_valid; eauto. Qed.

(** The long-term answer is the valid bundle with the furthest expiry. *)
Theorem longterm_is_furthest t y i b l x :
  lookup (longterm y) i = Some l -> snd (get_longterm t y i) = Got (Some b) ->
  In x l -> valid_at t x = true -> na x <= na b.
Proof.
  intros E H Hx Hv. unfold get_longterm, get_longterm_gen in H. rewrite E in H.
  destruct (latest_key_bundle t (rev l)) as [c|] eqn:E2; cbn [snd] in H.
  - injection H as ->. unfold latest_key_bundle, lkb_step in E2. apply lkb_fold_max in E2.
    apply (proj2 E2); [now apply in_rev in Hx|exact Hv].
  - destruct l; discriminate.
Qed.

(** Before the repair the one-time path returned bundles that expired while stored:
    accepted at t = 1001 with lifetime (999, 1003), popped at t = 1004. *)
Definition witness_bundle : bundle := {| nb := 999; na := 1003; sig_ok := true; tag := 0 |}.
Definition witness_ops : list op := [AddOT 1001 0 witness_bundle; GetOT 1004 0].

Theorem asis_returns_expired :
  snd (run get_onetime_asis init witness_ops) = [Accepted; Got (Some witness_bundle)] /\
  valid_at 1004 witness_bundle = false.
Proof. vm_compute. split; reflexivity. Qed.

Theorem asis_refuted : ~ Forall2 answer_ok witness_ops (snd (run get_onetime_asis init witness_ops)).
Proof.
  intros H. destruct asis_returns_expired as [E V]. rewrite E in H.
  inversion H as [|? ? ? ? _ H2]; subst. inversion H2 as [|? ? ? ? H3 _]; subst.
  cbn [answer_ok] in H3. congruence.
Qed.

(** The repaired code on the same input skips the expired bundle. *)
Example repaired_on_witness :
  snd (run get_onetime init witness_ops) = [Accepted; Got None].
Proof. vm_compute. reflexivity. Qed.

(** Non-vacuity: a run in which bundles are accepted, returned, skipped and rejected. *)
Example run_example :
  let b1 := {| nb := 990; na := 1010; sig_ok := true; tag := 1 |} in
  let b2 := {| nb := 990; na := 1002; sig_ok := true; tag := 2 |} in
  let b3 := {| nb := 990; na := 1020; sig_ok := false; tag := 3 |} in
  snd (run get_onetime init
         [AddOT 1000 0 b1; AddOT 1000 0 b2; AddOT 1000 0 b3; AddLT 1000 0 b1; AddLT 1000 0 b2;
          GetLT 1001 0; GetOT 1003 0; GetOT 1003 0; GetLT 1011 0])
  = [Accepted; Accepted; Rejected ESig; Accepted; Accepted; Got (Some b1); Got (Some b1); Got None; Expired].
Proof. vm_compute. reflexivity. Qed.

(** Before the second repair the long-term path re-checked only the lifetime of a stored
    bundle: a restored state holding a bundle whose signature does not verify hands it out. *)
Definition witness_badsig : bundle := {| nb := 990; na := 1010; sig_ok := false; tag := 1 |}.
Definition witness_restored : reg := fst (set_longterm init 0 [witness_badsig]).

Theorem asis_longterm_returns_unverified :
  snd (get_longterm_asis 1000 witness_restored 0) = Got (Some witness_badsig) /\
  valid_at 1000 witness_badsig = false.
Proof. vm_compute. split; reflexivity. Qed.

Theorem asis_longterm_refuted :
  ~ (forall t y i b, snd (get_longterm_asis t y i) = Got (Some b) -> valid_at t b = true).
Proof.
  intros H. destruct asis_longterm_returns_unverified as [E V].
  apply H in E. congruence.
Qed.

(** ... while for states in which every stored long-term signature verifies (all states built by
    [add_*]) the code before the repair already answered with valid bundles only. *)
Theorem asis_longterm_outside_known t y i b :
  (forall x, In x (stored (longterm y) i) -> sig_ok x = true) ->
  snd (get_longterm_asis t y i) = Got (Some b) -> valid_at t b = true.
Proof.
  unfold get_longterm_asis, get_longterm_gen, stored. intros HS.
  destruct (lookup (longterm y) i) as [l|]; cbn [snd]; [|discriminate].
  destruct (latest_key_bundle_asis t (rev l)) as [c|] eqn:E2; cbn [snd].
  - intros H. injection H as ->. apply latest_key_bundle_asis_spec in E2.
    destruct E2 as [Hv Hi]. unfold valid_at. rewrite Hv. cbn [andb]. apply HS. now apply in_rev.
  - destruct l; discriminate.
Qed.

Example repaired_on_restored :
  snd (get_longterm 1000 witness_restored 0) = Expired.
Proof. vm_compute. reflexivity. Qed.

(** Non-vacuity for the restored-state and re-registration theorems: a restored list
    [valid; not yet valid with a later expiry; expired; bad signature] (push order), both
    getters, then the valid bundle registered again before and after its expiry. *)
Example restored_example :
  let v := {| nb := 990; na := 1003; sig_ok := true; tag := 0 |} in
  let f := {| nb := 1005; na := 1100; sig_ok := true; tag := 1 |} in
  let e := {| nb := 900; na := 999; sig_ok := true; tag := 2 |} in
  let s := {| nb := 990; na := 1200; sig_ok := false; tag := 3 |} in
  snd (run get_onetime init
         [SetLT 1000 0 [s; e; f; v]; SetOT 1000 0 [s; e; f; v]; Count 1000 0;
          GetLT 1000 0; GetOT 1000 0; GetOT 1000 0; Count 1000 0;
          AddLT 1001 0 v; Count 1001 0; AddLT 1003 0 v; GetLT 1006 0])
  = [Done; Done; Cnt 4 4; Got (Some v); Got (Some v); Got None; Cnt 0 4;
     Accepted; Cnt 0 4; Rejected ELifetime; Got (Some f)].
Proof. vm_compute. reflexivity. Qed.
