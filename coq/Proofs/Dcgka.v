(** Proofs about the knowledge model of the data-scheme group encryption (Model/Dcgka.v).

    - [knowledge_is_justified]: in EVERY execution (any events, any delivery order) a member
      holds a secret only if it generated it, was a recipient of its direct messages, or was
      added by a message whose welcome bundle contained it;
    - [removed_never_learns_later]: consequence in the property's words;
    - [decrypt_iff_knows];
    - [seq_members_know_all]: in every sequential history (each operation issued by a current
      member when everything before was delivered to everyone) all current members hold every
      secret generated so far and agree on the membership;
    - [members_know_latest_refuted]: with an add concurrent to an update the new member misses
      the newest secret.
    No axioms, no section hypotheses. *)
From Coq Require Import List Arith Bool Lia.
From PV Require Import Model.Dcgka.
Import ListNotations.

(** * Sets as lists *)

Lemma In_ins x y l : In x (ins y l) <-> x = y \/ In x l.
Proof.
  induction l as [|h t IH]; cbn [ins In].
  - intuition.
  - destruct (y <? h); [cbn [In]; intuition|].
    destruct (Nat.eqb_spec y h) as [->|N]; cbn [In]; [intuition|].
    rewrite IH. intuition.
Qed.

Lemma In_rem x y l : In x (rem y l) <-> x <> y /\ In x l.
Proof.
  unfold rem. rewrite filter_In. destruct (Nat.eqb_spec x y) as [->|N]; cbn [negb]; intuition congruence.
Qed.

Lemma In_union x a b : In x (union a b) <-> In x a \/ In x b.
Proof.
  unfold union. revert a. induction b as [|h t IH]; intros a; cbn [fold_left In].
  - intuition.
  - rewrite IH, In_ins. intuition.
Qed.

Lemma In_of_list x l : In x (of_list l) <-> In x l.
Proof. unfold of_list. rewrite In_union. cbn [In]. intuition. Qed.

Lemma mem_In x l : mem x l = true <-> In x l.
Proof.
  unfold mem. rewrite existsb_exists. split.
  - intros (y & Hy & E). apply Nat.eqb_eq in E. now subst.
  - intros H. exists x. split; [exact H|apply Nat.eqb_refl].
Qed.

Lemma mem_false x l : mem x l = false <-> ~ In x l.
Proof. rewrite <- mem_In. destruct (mem x l); intuition congruence. Qed.

Lemma upd_same {A} (f : member -> A) p v : upd f p v p = v.
Proof. unfold upd. now rewrite Nat.eqb_refl. Qed.

Lemma upd_other {A} (f : member -> A) p q v : q <> p -> upd f p v q = f q.
Proof. unfold upd. intros H. destruct (Nat.eqb_spec q p); [contradiction|reflexivity]. Qed.

(** * Knowledge is justified (all executions) *)

(** [c] generated secret [s] or was sent it in a direct message. *)
Definition gen_by (ms : list message) (s : sid) (c : member) : Prop :=
  exists m, nth_error ms s = Some m /\ generates (m_op m) = true /\ (m_sender m = c \/ In c (m_rcpt m)).

(** [c] was added by a message whose welcome bundle contains [s]. *)
Definition welcomed_with (ms : list message) (s : sid) (c : member) : Prop :=
  exists a m, nth_error ms a = Some m /\ m_op m = Add c /\ In s (m_bundle m).

Definition justified (ms : list message) (c : member) (s : sid) : Prop :=
  gen_by ms s c \/ welcomed_with ms s c.

Lemma justified_mono ms ms' c s : justified ms c s -> justified (ms ++ ms') c s.
Proof.
  intros [(m & H1 & H2)|(a & m & H1 & H2)]; [left; exists m|right; exists a, m];
    (split; [rewrite nth_error_app1; [exact H1|apply nth_error_Some; congruence]|exact H2]).
Qed.

Definition genuine (ms : list message) (km : nat * message) : Prop := nth_error ms (fst km) = Some (snd km).

Definition KSt (ms : list message) (c : member) (s : mstate) : Prop :=
  (forall x, In x (knows s) -> justified ms c x) /\ Forall (genuine ms) (queued s).

Definition KInv (w : world) : Prop := forall c, KSt (msgs w) c (st w c).

Lemma KSt_mono ms ms' c s : KSt ms c s -> KSt (ms ++ ms') c s.
Proof.
  intros [H1 H2]. split.
  - intros x Hx. apply justified_mono. auto.
  - eapply Forall_impl; [|exact H2]. intros [k m]. unfold genuine. cbn [fst snd]. intros H.
    rewrite nth_error_app1; [exact H|apply nth_error_Some; congruence].
Qed.

Lemma process1_K ms j s k m :
  KSt ms j s -> nth_error ms k = Some m -> KSt ms j (process1 j s k m).
Proof.
  intros [H1 H2] Hk. unfold process1. split; cbn [knows queued]; [|exact H2].
  intros x Hx.
  assert (Hsec : generates (m_op m) = true -> mem j (m_rcpt m) = true -> In x (ins k (knows s)) -> justified ms j x).
  { intros G R Hi. apply In_ins in Hi. destruct Hi as [->|Hi]; [|auto].
    left. exists m. split; [exact Hk|]. split; [exact G|]. right. now apply mem_In. }
  destruct (m_op m) as [init|y| y|] eqn:Eo.
  - destruct (mem j (m_rcpt m)) eqn:R; auto.
  - destruct (Nat.eqb_spec y j) as [->|N]; [|auto].
    apply In_union in Hx. destruct Hx as [Hx|Hx]; [auto|].
    right. exists k, m. auto.
  - destruct (mem j (m_rcpt m)) eqn:R; auto.
  - destruct (mem j (m_rcpt m)) eqn:R; auto.
Qed.

Lemma process_all_K ms j l : forall s,
  KSt ms j s -> Forall (genuine ms) l -> KSt ms j (fst (process_all j s l)).
Proof.
  induction l as [|[k m] l IH]; intros s HS HF; cbn [process_all].
  - exact HS.
  - inversion HF as [|? ? Hg HF']; subst. unfold genuine in Hg. cbn [fst snd] in Hg.
    specialize (IH (process1 j s k m) (process1_K _ _ _ _ _ HS Hg) HF').
    destruct (process_all j (process1 j s k m) l) as [s2 sig]. exact IH.
Qed.

Lemma deliver1_K ms j s k m :
  KSt ms j s -> nth_error ms k = Some m -> KSt ms j (fst (deliver1 j s k m)).
Proof.
  intros HS Hk. unfold deliver1.
  destruct (welcomed s).
  - destruct (m_op m) eqn:Eo; cbn [fst]; try exact HS; apply process1_K; assumption.
  - destruct (is_welcome j m).
    + destruct HS as [H1 H2].
      pose proof (process_all_K ms j (queued s ++ [(k, m)])
                    {| welcomed := false; view := view s; knows := knows s; queued := [] |}) as P.
      destruct (process_all j _ (queued s ++ [(k, m)])) as [s1 sig]. cbn [fst] in *.
      apply P.
      * split; cbn [knows queued]; [exact H1|constructor].
      * apply Forall_app. split; [exact H2|]. constructor; [exact Hk|constructor].
    + cbn [fst]. destruct HS as [H1 H2]. split; cbn [knows queued]; [exact H1|].
      apply Forall_app. split; [exact H2|]. constructor; [exact Hk|constructor].
Qed.

Lemma deliver_K w j k : KInv w -> KInv (fst (deliver w j k)) /\ msgs (fst (deliver w j k)) = msgs w.
Proof.
  intros HI. unfold deliver.
  destruct ((j <? nmem w) && negb (mem k (dlv w j))); [|auto].
  destruct (nth_error (msgs w) k) as [m|] eqn:Ek; [|auto].
  pose proof (deliver1_K (msgs w) j (st w j) k m (HI j) Ek) as H.
  destruct (deliver1 j (st w j) k m) as [s1 o]. cbn [fst] in H.
  destruct o; cbn [fst msgs]; auto; (split; [|reflexivity]);
    intros c; cbn [st msgs]; unfold upd; destruct (Nat.eqb_spec c j) as [->|N]; auto.
Qed.

Lemma issue_K ms i s k o s1 m :
  KSt ms i s -> issue i s k o = Some (s1, m) -> k = length ms ->
  KSt (ms ++ [m]) i s1 /\ m_sender m = i /\ m_op m = match o with Create init => Create (ins i (of_list init)) | _ => o end
  /\ m_bundle m = knows s.
Proof.
  intros HS Hi ->.
  assert (Hnew : forall m', generates (m_op m') = true -> m_sender m' = i ->
                 forall x, In x (ins (length ms) (knows s)) -> justified (ms ++ [m']) i x).
  { intros m' G S x Hx. apply In_ins in Hx. destruct Hx as [->|Hx].
    - left. exists m'. split; [rewrite nth_error_app2, Nat.sub_diag; [reflexivity|lia]|]. auto.
    - apply justified_mono. apply HS. exact Hx. }
  pose proof (KSt_mono ms [m] i s HS) as [M1 M2].
  unfold issue in Hi. destruct o as [init|x|x|].
  - destruct (welcomed s); [discriminate|]. inversion Hi; subst; clear Hi.
    split; [|auto]. split; cbn [knows queued]; [apply Hnew; reflexivity|exact M2].
  - destruct (welcomed s && negb (x =? i)); [|discriminate]. inversion Hi; subst; clear Hi.
    split; [|auto]. split; cbn [knows queued]; [exact M1|exact M2].
  - destruct (welcomed s); [|discriminate]. inversion Hi; subst; clear Hi.
    split; [|auto]. split; cbn [knows queued]; [apply Hnew; reflexivity|exact M2].
  - destruct (welcomed s); [|discriminate]. inversion Hi; subst; clear Hi.
    split; [|auto]. split; cbn [knows queued]; [apply Hnew; reflexivity|exact M2].
Qed.

Lemma do_issue_K w i o : KInv w -> KInv (fst (do_issue w i o)).
Proof.
  intros HI. unfold do_issue. destruct (i <? nmem w); [|exact HI].
  destruct (issue i (st w i) (length (msgs w)) o) as [[s1 m]|] eqn:Ei; [|exact HI].
  cbn [fst]. intros c. cbn [st msgs]. unfold upd. destruct (Nat.eqb_spec c i) as [->|N].
  - eapply issue_K; eauto.
  - apply KSt_mono. apply HI.
Qed.

Lemma deliver_frame w j k :
  msgs (fst (deliver w j k)) = msgs w /\ nmem (fst (deliver w j k)) = nmem w.
Proof.
  unfold deliver. destruct ((j <? nmem w) && negb (mem k (dlv w j))); [|auto].
  destruct (nth_error (msgs w) k); [|auto].
  destruct (deliver1 j (st w j) k m) as [s1 o]. destruct o; auto.
Qed.

(** anything preserved by single deliveries is preserved by [fold_left qstep] *)
Lemma fold_qstep_inv (P : world -> Prop) :
  (forall w j k, P w -> P (fst (deliver w j k))) ->
  forall l acc, P (fst acc) -> P (fst (fold_left qstep l acc)).
Proof.
  intros HP. induction l as [|[j k] l IH]; intros [w0 log] H; cbn [fold_left]; [exact H|].
  apply IH. unfold qstep. specialize (HP w0 j k H). destruct (deliver w0 j k) as [w1 o]. exact HP.
Qed.

Lemma quiesce_inv (P : world -> Prop) :
  (forall w j k, P w -> P (fst (deliver w j k))) -> forall w, P w -> P (fst (quiesce w)).
Proof. intros HP w H. unfold quiesce. apply fold_qstep_inv; assumption. Qed.

Lemma step_K w e : KInv w -> KInv (fst (step w e)).
Proof.
  intros HI. destruct e as [i o|j k| |]; cbn [step].
  - pose proof (do_issue_K w i o HI). destruct (do_issue w i o). exact H.
  - pose proof (deliver_K w j k HI) as [H _]. destruct (deliver w j k). exact H.
  - pose proof (quiesce_inv KInv (fun w0 j k H => proj1 (deliver_K w0 j k H)) w HI) as H.
    destruct (quiesce w). exact H.
  - exact HI.
Qed.

Lemma run_K evs : forall w, KInv w -> KInv (run w evs).
Proof. induction evs as [|e evs IH]; intros w HI; cbn [run]; [exact HI|]. apply IH, step_K, HI. Qed.

Lemma init_K n : KInv (init_world n).
Proof. intros c. split; cbn; [contradiction|constructor]. Qed.

Theorem knowledge_is_justified n evs c s :
  let w := run (init_world n) evs in
  In s (knows (st w c)) -> justified (msgs w) c s.
Proof. intros w H. exact (proj1 (run_K evs _ (init_K n) c) s H). Qed.

(** messages are only ever appended, the member count never changes *)
Lemma step_msgs w e : (exists ms', msgs (fst (step w e)) = msgs w ++ ms') /\ nmem (fst (step w e)) = nmem w.
Proof.
  destruct e as [i o|j k| |]; cbn [step].
  - unfold do_issue. destruct (i <? nmem w); [|split; [exists []; now rewrite app_nil_r|reflexivity]].
    destruct (issue i (st w i) (length (msgs w)) o) as [[s1 m]|];
      [|split; [exists []; now rewrite app_nil_r|reflexivity]].
    split; [exists [m]|]; reflexivity.
  - pose proof (deliver_frame w j k) as [H1 H2]. destruct (deliver w j k) as [w1 o]. cbn [fst] in *.
    split; [exists []; now rewrite app_nil_r|exact H2].
  - assert (H : msgs (fst (quiesce w)) = msgs w /\ nmem (fst (quiesce w)) = nmem w).
    { apply (quiesce_inv (fun w0 => msgs w0 = msgs w /\ nmem w0 = nmem w)); [|auto].
      intros w0 j k [A B]. pose proof (deliver_frame w0 j k) as [C D]. split; congruence. }
    destruct (quiesce w) as [w1 log]. cbn [fst] in *. destruct H as [H1 H2].
    split; [exists []; now rewrite app_nil_r|exact H2].
  - split; [exists []; now rewrite app_nil_r|reflexivity].
Qed.

Lemma run_msgs evs : forall w, (exists ms', msgs (run w evs) = msgs w ++ ms') /\ nmem (run w evs) = nmem w.
Proof.
  induction evs as [|e evs IH]; intros w; cbn [run].
  - split; [exists []; now rewrite app_nil_r|reflexivity].
  - destruct (step_msgs w e) as [[m1 E1] N1]. destruct (IH (fst (step w e))) as [[m2 E2] N2].
    split; [exists (m1 ++ m2); rewrite E2, E1, app_assoc; reflexivity|congruence].
Qed.

Lemma issue_sender i s k o s1 m : issue i s k o = Some (s1, m) -> m_sender m = i.
Proof.
  unfold issue. destruct o as [init|x|x|];
    [destruct (welcomed s)|destruct (welcomed s && negb (x =? i))|destruct (welcomed s)|destruct (welcomed s)];
    intros H; try discriminate; inversion H; reflexivity.
Qed.

(** The property's second half: a member that is neither the generator nor a recipient of the
    direct messages of the operation generating secret [s] — in particular one the generator had
    already removed from its view — never holds [s], unless a later add hands it over in a
    welcome bundle. *)
Theorem removed_never_learns_later n evs1 g o evs2 c s1 m :
  let w1 := run (init_world n) evs1 in
  let s := length (msgs w1) in
  g < n -> issue g (st w1 g) s o = Some (s1, m) ->
  c <> g -> ~ In c (m_rcpt m) ->
  let w := run w1 (Issue g o :: evs2) in
  (forall a ma, nth_error (msgs w) a = Some ma -> m_op ma = Add c -> ~ In s (m_bundle ma)) ->
  ~ In s (knows (st w c)).
Proof.
  intros w1 s Hg Hi Hc Hr w Hadd Hin.
  assert (Ew : w = run (init_world n) (evs1 ++ Issue g o :: evs2)).
  { unfold w, w1. clear. generalize (init_world n). induction evs1 as [|e l IH]; intros w0; cbn [run app]; [reflexivity|apply IH]. }
  pose proof (knowledge_is_justified n (evs1 ++ Issue g o :: evs2) c s) as J.
  cbv zeta in J. rewrite <- Ew in J. specialize (J Hin).
  (* message number s in w is m *)
  assert (Hm : nth_error (msgs w) s = Some m).
  { unfold w. cbn [run step]. unfold do_issue.
    assert (Hn : nmem w1 = n) by (unfold w1; rewrite (proj2 (run_msgs evs1 (init_world n))); reflexivity).
    rewrite Hn. apply Nat.ltb_lt in Hg. rewrite Hg. fold s. rewrite Hi.
    cbn [fst].
    match goal with |- nth_error (msgs (run ?W evs2)) s = _ => destruct (run_msgs evs2 W) as [[ms' E] _] end.
    rewrite E. cbn [msgs]. rewrite nth_error_app1 by (rewrite app_length; cbn; unfold s; lia).
    rewrite nth_error_app2 by (unfold s; lia). unfold s. rewrite Nat.sub_diag. reflexivity. }
  destruct J as [(m' & H1 & _ & [H2|H2])|(a & ma & H1 & H2 & H3)].
  - rewrite Hm in H1. inversion H1; subst m'. apply issue_sender in Hi. congruence.
  - rewrite Hm in H1. inversion H1; subst m'. contradiction.
  - exact (Hadd a ma H1 H2 H3).
Qed.

(** * Decryption follows knowledge (ideal AEAD, by definition of the model) *)
Lemma decrypt_iff_knows w j s : can_decrypt w j s = true <-> In s (knows (st w j)).
Proof. unfold can_decrypt. apply mem_In. Qed.

(** * Sequential histories: all current members hold all secrets *)

Definition generated (ms : list message) (s : sid) : Prop :=
  exists m, nth_error ms s = Some m /\ generates (m_op m) = true.

Definition holds_all (w : world) (j : member) : Prop :=
  forall s, generated (msgs w) s -> In s (knows (st w j)).

(** every issued control message has been delivered to every member *)
Definition quiescent (w : world) : Prop :=
  forall j k, j < nmem w -> k < length (msgs w) -> In k (dlv w j).

Definition deliveries_only (evs : list event) : bool :=
  forallb (fun e => match e with Issue _ _ => false | _ => true end) evs.

(** [M] is the membership everybody agrees on; its members hold every secret. *)
Definition SeqInv (w : world) (M : list member) : Prop :=
  quiescent w /\
  (forall j k, In k (dlv w j) -> k < length (msgs w)) /\
  (forall j, j < nmem w -> welcomed (st w j) = true -> forall x, In x (view (st w j)) <-> In x M) /\
  (forall j, In j M -> j < nmem w /\ welcomed (st w j) = true /\ holds_all w j).

Lemma process_all_snoc j l : forall s k m,
  fst (process_all j s (l ++ [(k, m)])) = process1 j (fst (process_all j s l)) k m.
Proof.
  induction l as [|[k0 m0] l IH]; intros s k m; cbn [process_all app fst].
  - reflexivity.
  - specialize (IH (process1 j s k0 m0) k m).
    destruct (process_all j (process1 j s k0 m0) (l ++ [(k, m)])) as [a b].
    destruct (process_all j (process1 j s k0 m0) l) as [c d]. exact IH.
Qed.

Section Round.
  (** One operation issued in world [w] as message [m] number [K], then deliveries. *)
  Variable w : world.
  Variable i : member.
  Variable m : message.
  Variable Post : member -> mstate -> Prop.
  Let K := length (msgs w).

  Hypothesis Hold : forall j k, In k (dlv w j) -> k < K.
  Hypothesis Hquiet : quiescent w.
  Hypothesis Hpost : forall j s1 o, j < nmem w -> j <> i -> deliver1 j (st w j) K m = (s1, o) -> o <> DErr -> Post j s1.

  Definition RJ (w' : world) : Prop :=
    msgs w' = msgs w ++ [m] /\ nmem w' = nmem w /\
    (forall j k, In k (dlv w' j) -> k <= K) /\
    (forall j k, j < nmem w -> k < K -> In k (dlv w' j)) /\
    (forall j, j < nmem w -> In K (dlv w' j) -> Post j (st w' j)) /\
    (forall j, ~ In K (dlv w' j) -> st w' j = st w j /\ j <> i).

  Lemma RJ_deliver w' j k : RJ w' -> RJ (fst (deliver w' j k)).
  Proof.
    intros HJ. pose proof HJ as (Hm & Hn & Hle & Hlt & Hp & Hu). unfold deliver.
    destruct (j <? nmem w') eqn:Ej; cbn [andb]; [|exact HJ].
    destruct (mem k (dlv w' j)) eqn:Ek; cbn [negb]; [exact HJ|].
    destruct (nth_error (msgs w') k) as [mk|] eqn:En; [|exact HJ].
    apply Nat.ltb_lt in Ej. rewrite Hn in Ej. apply mem_false in Ek.
    (* k must be K *)
    assert (k = K).
    { assert (k < length (msgs w')) by (apply nth_error_Some; congruence).
      rewrite Hm, app_length in H. cbn [length] in H. fold K in H.
      destruct (Nat.eq_dec k K); [assumption|]. exfalso. apply Ek. apply Hlt; [exact Ej|lia]. }
    subst k.
    assert (mk = m).
    { rewrite Hm, nth_error_app2 in En by (unfold K; lia). unfold K in En. rewrite Nat.sub_diag in En.
      cbn in En. congruence. }
    subst mk.
    destruct (Hu j Ek) as [Est Hji]. rewrite Est.
    destruct (deliver1 j (st w j) K m) as [s1 o] eqn:Ed.
    destruct o; cbn [fst]; try exact HJ;
      (split; [exact Hm|]; split; [exact Hn|]; cbn [dlv st]; split; [|split; [|split]]).
    all: try (intros j0 k0; unfold upd; destruct (Nat.eqb_spec j0 j) as [->|N]; [rewrite In_ins; intros [->|H]; [lia|eauto]|eauto]).
    all: try (intros j0 k0 H1 H2; unfold upd; destruct (Nat.eqb_spec j0 j) as [->|N]; [rewrite In_ins; right; auto|auto]).
    all: try (intros j0 H1; unfold upd; destruct (Nat.eqb_spec j0 j) as [->|N];
              [intros _; eapply Hpost; eauto; discriminate|auto]).
    all: intros j0; unfold upd; destruct (Nat.eqb_spec j0 j) as [->|N];
         [rewrite In_ins; intros H; exfalso; apply H; left; reflexivity|auto].
  Qed.

  Lemma RJ_run evs : forall w', deliveries_only evs = true -> RJ w' -> RJ (run w' evs).
  Proof.
    induction evs as [|e evs IH]; intros w' Hev HJ; cbn [run]; [exact HJ|].
    cbn [deliveries_only forallb] in Hev. apply andb_prop in Hev. destruct Hev as [He Hev].
    apply IH; [exact Hev|].
    destruct e as [i0 o0|j k| |]; cbn [step]; [discriminate| | |exact HJ].
    - pose proof (RJ_deliver w' j k HJ). destruct (deliver w' j k). exact H.
    - pose proof (quiesce_inv RJ (fun w0 j k H => RJ_deliver w0 j k H) w' HJ). destruct (quiesce w'). exact H.
  Qed.

  (** after the issuer's own step ([s_i] its new state) *)
  Lemma RJ_start s_i :
    i < nmem w -> Post i s_i ->
    RJ {| nmem := nmem w; st := upd (st w) i s_i; msgs := msgs w ++ [m]; dlv := upd (dlv w) i (ins K (dlv w i)) |}.
  Proof.
    intros Hi Hp. unfold RJ. cbn [msgs nmem dlv st]. repeat split.
    - intros j k. unfold upd. destruct (Nat.eqb_spec j i) as [->|N].
      + rewrite In_ins. intros [->|H]; [lia|]. apply Hold in H. lia.
      + intros H. apply Hold in H. lia.
    - intros j k Hj Hk. unfold upd. destruct (Nat.eqb_spec j i) as [->|N].
      + rewrite In_ins. right. apply Hquiet; assumption.
      + apply Hquiet; assumption.
    - intros j Hj. unfold upd. destruct (Nat.eqb_spec j i) as [->|N]; [intros _; exact Hp|].
      intros H. apply Hold in H. lia.
    - unfold upd. destruct (Nat.eqb_spec j i) as [->|N]; [|reflexivity].
      exfalso. apply H. rewrite upd_same. apply In_ins. left. reflexivity.
    - intros ->. apply H. rewrite upd_same. apply In_ins. left. reflexivity.
  Qed.
End Round.

Definition PostOf (ms' : list message) (M' : list member) (j : member) (s : mstate) : Prop :=
  (welcomed s = true -> forall x, In x (view s) <-> In x M') /\
  (In j M' -> welcomed s = true /\ forall s0, generated ms' s0 -> In s0 (knows s)).

Lemma generated_snoc ms m s0 :
  generated (ms ++ [m]) s0 <-> generated ms s0 \/ (s0 = length ms /\ generates (m_op m) = true).
Proof.
  unfold generated. split.
  - intros (m0 & H1 & H2). destruct (Nat.lt_ge_cases s0 (length ms)) as [L|L].
    + left. exists m0. rewrite nth_error_app1 in H1 by exact L. auto.
    + right. rewrite nth_error_app2 in H1 by exact L.
      destruct (s0 - length ms) as [|d] eqn:E; cbn in H1; [|destruct d; discriminate].
      inversion H1; subst m0. split; [lia|exact H2].
  - intros [(m0 & H1 & H2)|[-> H2]].
    + exists m0. split; [|exact H2]. rewrite nth_error_app1; [exact H1|apply nth_error_Some; congruence].
    + exists m. split; [|exact H2]. rewrite nth_error_app2, Nat.sub_diag; [reflexivity|lia].
Qed.

Definition valid_op (n : nat) (i : member) (o : op) : Prop :=
  match o with Create _ => False | Add x => x < n /\ x <> i | _ => True end.

Definition next_members (M : list member) (o : op) : list member :=
  match o with Add x => ins x M | Remove x => rem x M | _ => M end.

(** What one operation of a current member does to everybody (the issuer and every receiver). *)
Lemma op_post w M i o :
  SeqInv w M -> In i M -> valid_op (nmem w) i o ->
  exists s_i m,
    issue i (st w i) (length (msgs w)) o = Some (s_i, m) /\
    PostOf (msgs w ++ [m]) (next_members M o) i s_i /\
    forall j s1 ob, j < nmem w -> j <> i -> deliver1 j (st w j) (length (msgs w)) m = (s1, ob) -> ob <> DErr ->
                    PostOf (msgs w ++ [m]) (next_members M o) j s1.
Proof.
  intros (Hq & Hd & Hv & Hm) Hi Hval.
  destruct (Hm i Hi) as (Hin & Hwi & Hall_i).
  pose proof (Hv i Hin Hwi) as Hvi.
  set (K := length (msgs w)).
  unfold issue. rewrite Hwi.
  (* facts about an arbitrary receiver *)
  assert (Hunw : forall j, welcomed (st w j) = false -> ~ In j M).
  { intros j Hw Hj. destruct (Hm j Hj) as (_ & Hw' & _). congruence. }
  destruct o as [init|x|x|]; cbn [valid_op] in Hval.
  - contradiction.
  - (* Add x *)
    destruct Hval as [Hx Hxi]. destruct (Nat.eqb_spec x i) as [E|_]; [contradiction|]. cbn [andb negb].
    do 2 eexists. split; [reflexivity|]. cbn [next_members].
    assert (Hgen : forall s0, generated (msgs w ++ [{| m_sender := i; m_op := Add x; m_rcpt := [];
                     m_bundle := knows (st w i); m_history := view (st w i) |}]) s0 -> generated (msgs w) s0).
    { intros s0 H. apply generated_snoc in H. destruct H as [H|[_ H]]; [exact H|discriminate]. }
    split.
    + split; cbn [welcomed view knows].
      * intros _ y. rewrite !In_ins, Hvi. reflexivity.
      * intros _. split; [reflexivity|]. intros s0 H. apply Hall_i, Hgen, H.
    + intros j s1 ob Hj Hji Hdel _. unfold deliver1 in Hdel. cbn [m_op is_welcome] in Hdel.
      destruct (welcomed (st w j)) eqn:Hwj.
      * inversion Hdel; subst s1; clear Hdel. unfold process1. cbn [m_op m_history m_bundle m_rcpt].
        destruct (Nat.eqb_spec x j) as [->|Nx]; split; cbn [welcomed view knows].
        -- intros _ y. rewrite !In_ins, Hvi. reflexivity.
        -- intros _. split; [rewrite Hwj; reflexivity|]. intros s0 H. apply In_union. right. apply Hall_i, Hgen, H.
        -- intros _ y. rewrite !In_ins, (Hv j Hj Hwj). reflexivity.
        -- intros H. apply In_ins in H. destruct H as [->|H]; [contradiction|].
           destruct (Hm j H) as (_ & _ & Hall_j). split; [rewrite Hwj; reflexivity|]. intros s0 G. apply Hall_j, Hgen, G.
      * destruct (Nat.eqb_spec x j) as [->|Nx].
        -- (* the welcome of an unwelcomed member: whatever was queued, the last step decides *)
           pose proof (process_all_snoc j (queued (st w j))
                         {| welcomed := false; view := view (st w j); knows := knows (st w j); queued := [] |}
                         K {| m_sender := i; m_op := Add j; m_rcpt := []; m_bundle := knows (st w i);
                              m_history := view (st w i) |}) as Hsn.
           fold K in Hdel.
           destruct (process_all j _ (queued (st w j) ++ _)) as [sa sig]. cbn [fst] in Hsn.
           inversion Hdel; subst s1; clear Hdel. rewrite Hsn. unfold process1.
           cbn [m_op m_history m_bundle m_rcpt]. rewrite Nat.eqb_refl.
           assert (Hmem : mem j (ins j (view (st w i))) = true) by (apply mem_In, In_ins; left; reflexivity).
           split; cbn [welcomed view knows].
           ++ intros _ y. rewrite !In_ins, Hvi. reflexivity.
           ++ intros _. split; [rewrite Hmem; apply orb_true_r|].
              intros s0 H. apply In_union. right. apply Hall_i, Hgen, H.
        -- inversion Hdel; subst s1; clear Hdel. split; cbn [welcomed]; [discriminate|].
           intros H. apply In_ins in H. destruct H as [->|H]; [contradiction|]. exfalso. exact (Hunw j Hwj H).
  - (* Remove x *)
    do 2 eexists. split; [reflexivity|]. cbn [next_members].
    set (m := {| m_sender := i; m_op := Remove x; m_rcpt := rem x (rem i (view (st w i)));
                 m_bundle := knows (st w i); m_history := [] |}).
    assert (Hgen : forall s0 kn, generated (msgs w ++ [m]) s0 -> (forall s', generated (msgs w) s' -> In s' kn) ->
                                 In s0 (ins K kn)).
    { intros s0 kn H Hk. apply In_ins. apply generated_snoc in H. destruct H as [H|[-> _]]; auto. }
    split.
    + split; cbn [welcomed view knows].
      * intros _ y. rewrite !In_rem, Hvi. reflexivity.
      * intros _. split; [reflexivity|]. intros s0 H. apply Hgen; [exact H|exact Hall_i].
    + intros j s1 ob Hj Hji Hdel _. unfold deliver1 in Hdel. cbn [m_op is_welcome m] in Hdel.
      destruct (welcomed (st w j)) eqn:Hwj.
      * inversion Hdel; subst s1; clear Hdel. unfold process1, m. cbn [m_op m_rcpt].
        split; cbn [welcomed view knows].
        -- intros _ y. rewrite !In_rem, (Hv j Hj Hwj). reflexivity.
        -- intros H. apply In_rem in H. destruct H as [Hjx HjM].
           destruct (Hm j HjM) as (_ & _ & Hall_j). split; [rewrite Hwj; reflexivity|].
           assert (R : mem j (rem x (rem i (view (st w i)))) = true).
           { apply mem_In. rewrite !In_rem, Hvi. auto. }
           rewrite R. intros s0 G. apply Hgen; [exact G|exact Hall_j].
      * inversion Hdel; subst s1; clear Hdel. split; cbn [welcomed]; [discriminate|].
        intros H. apply In_rem in H. destruct H as [_ H]. exfalso. exact (Hunw j Hwj H).
  - (* Update *)
    do 2 eexists. split; [reflexivity|]. cbn [next_members].
    set (m := {| m_sender := i; m_op := Update; m_rcpt := rem i (view (st w i));
                 m_bundle := knows (st w i); m_history := [] |}).
    assert (Hgen : forall s0 kn, generated (msgs w ++ [m]) s0 -> (forall s', generated (msgs w) s' -> In s' kn) ->
                                 In s0 (ins K kn)).
    { intros s0 kn H Hk. apply In_ins. apply generated_snoc in H. destruct H as [H|[-> _]]; auto. }
    split.
    + split; cbn [welcomed view knows].
      * intros _ y. apply Hvi.
      * intros _. split; [reflexivity|]. intros s0 H. apply Hgen; [exact H|exact Hall_i].
    + intros j s1 ob Hj Hji Hdel _. unfold deliver1 in Hdel. cbn [m_op is_welcome m] in Hdel.
      destruct (welcomed (st w j)) eqn:Hwj.
      * inversion Hdel; subst s1; clear Hdel. unfold process1, m. cbn [m_op m_rcpt].
        split; cbn [welcomed view knows].
        -- intros _ y. apply (Hv j Hj Hwj).
        -- intros HjM. destruct (Hm j HjM) as (_ & _ & Hall_j). split; [rewrite Hwj; reflexivity|].
           assert (R : mem j (rem i (view (st w i))) = true).
           { apply mem_In. rewrite In_rem, Hvi. auto. }
           rewrite R. intros s0 G. apply Hgen; [exact G|exact Hall_j].
      * inversion Hdel; subst s1; clear Hdel. split; cbn [welcomed]; [discriminate|].
        intros H. exfalso. exact (Hunw j Hwj H).
Qed.

(** The group creation in the empty world. *)
Lemma create_post n i init :
  exists s_i m,
    issue i (st (init_world n) i) 0 (Create init) = Some (s_i, m) /\
    PostOf [m] (ins i (of_list init)) i s_i /\
    forall j s1 ob, j <> i -> deliver1 j (st (init_world n) j) 0 m = (s1, ob) -> ob <> DErr ->
                    PostOf [m] (ins i (of_list init)) j s1.
Proof.
  cbn [init_world st]. unfold issue, mstate0. cbn [welcomed knows queued].
  set (M := ins i (of_list init)).
  do 2 eexists. split; [reflexivity|].
  assert (Hgen : forall s0, generated [{| m_sender := i; m_op := Create M; m_rcpt := rem i M; m_bundle := [];
                                          m_history := [] |}] s0 -> s0 = 0).
  { intros s0 (m0 & H & _). destruct s0; [reflexivity|]. destruct s0; discriminate. }
  split.
  - split; cbn [welcomed view knows]; [intros _ y; reflexivity|].
    intros _. split; [reflexivity|]. intros s0 H. rewrite (Hgen s0 H). cbn. auto.
  - intros j s1 ob Hji Hdel _. unfold deliver1 in Hdel. cbn [welcomed m_op is_welcome queued app] in Hdel.
    destruct (mem j M) eqn:Hj.
    + cbn [process_all] in Hdel. inversion Hdel; subst s1; clear Hdel. unfold process1. cbn [m_op m_rcpt welcomed view knows].
      split; cbn [welcomed view knows]; [intros _ y; reflexivity|].
      intros _. split; [rewrite Hj; reflexivity|].
      assert (R : mem j (rem i M) = true). { apply mem_In, In_rem. split; [exact Hji|apply mem_In, Hj]. }
      rewrite R. intros s0 H. rewrite (Hgen s0 H). cbn. auto.
    + inversion Hdel; subst s1; clear Hdel. split; cbn [welcomed]; [discriminate|].
      intros H. apply mem_In in H. congruence.
Qed.

(** Sequential histories: the group is created, then every operation is issued by a current
    member at a moment when everything issued before has been delivered to everyone; between two
    operations the pending message is delivered to the members in ANY order ([evs]: arbitrary
    [Deliver]/[Quiesce]/[Probe] events ending in a quiescent world). *)
Inductive seq_exec (n : nat) : world -> list member -> Prop :=
| se_create i init evs :
    i < n -> (forall x, In x init -> x < n) -> deliveries_only evs = true ->
    quiescent (run (fst (do_issue (init_world n) i (Create init))) evs) ->
    seq_exec n (run (fst (do_issue (init_world n) i (Create init))) evs) (ins i (of_list init))
| se_op w M i o evs :
    seq_exec n w M -> In i M -> valid_op n i o -> deliveries_only evs = true ->
    quiescent (run (fst (do_issue w i o)) evs) ->
    seq_exec n (run (fst (do_issue w i o)) evs) (next_members M o).

(** From the round invariant at quiescence to the sequential invariant. *)
Lemma round_done w i m M' w' :
  RJ w i m (PostOf (msgs w ++ [m]) M') w' -> quiescent w' -> (forall j, In j M' -> j < nmem w) ->
  nmem w' = nmem w /\ SeqInv w' M'.
Proof.
  intros (Hm & Hn & Hle & Hlt & Hp & Hu) Hq HM. split; [exact Hn|].
  assert (HK : forall j, j < nmem w -> In (length (msgs w)) (dlv w' j)).
  { intros j Hj. apply Hq; [rewrite Hn; exact Hj|]. rewrite Hm, app_length. cbn. lia. }
  unfold SeqInv. split; [exact Hq|]. split; [|split].
  - intros j k H. apply Hle in H. rewrite Hm, app_length. cbn. lia.
  - intros j Hj Hw. rewrite Hn in Hj. exact (proj1 (Hp j Hj (HK j Hj)) Hw).
  - intros j Hj. pose proof (HM j Hj) as Hjn. rewrite Hn. split; [exact Hjn|].
    destruct (proj2 (Hp j Hjn (HK j Hjn)) Hj) as [A B]. split; [exact A|].
    intros s0 G. apply B. rewrite <- Hm. exact G.
Qed.

Theorem seq_members_know_all n w M : seq_exec n w M -> nmem w = n /\ SeqInv w M.
Proof.
  induction 1 as [i init evs Hi Hinit Hev Hq | w M i o evs Hex [Hn IH] Hi Hval Hev Hq].
  - destruct (create_post n i init) as (s_i & m & Hiss & Hpi & Hpj).
    unfold do_issue in *. cbn [init_world nmem msgs length] in *.
    apply Nat.ltb_lt in Hi. rewrite Hi in *. rewrite Hiss in *. cbn [fst] in *.
    apply Nat.ltb_lt in Hi.
    assert (HS : RJ (init_world n) i m (PostOf [m] (ins i (of_list init)))
                    {| nmem := n; st := upd (st (init_world n)) i s_i; msgs := [] ++ [m];
                       dlv := upd (dlv (init_world n)) i (ins 0 (dlv (init_world n) i)) |}).
    { apply (RJ_start (init_world n) i m (PostOf [m] (ins i (of_list init)))).
      - intros j k H. destruct H.
      - intros j k _ H. cbn in H. lia.
      - exact Hi.
      - exact Hpi. }
    assert (HJ := RJ_run (init_world n) i m (PostOf [m] (ins i (of_list init)))
                    (fun j s1 ob _ Hji Hd Hob => Hpj j s1 ob Hji Hd Hob) evs _ Hev HS).
    destruct (round_done (init_world n) i m (ins i (of_list init)) _ HJ Hq) as [A B].
    + intros j Hj. apply In_ins in Hj. destruct Hj as [->|Hj]; [exact Hi|]. apply Hinit, In_of_list, Hj.
    + split; [exact A|exact B].
  - destruct IH as (Hq0 & Hd0 & Hv0 & Hm0).
    assert (IHs : SeqInv w M) by exact (conj Hq0 (conj Hd0 (conj Hv0 Hm0))).
    rewrite <- Hn in Hval.
    destruct (op_post w M i o IHs Hi Hval) as (s_i & m & Hiss & Hpi & Hpj).
    destruct (Hm0 i Hi) as (Hin & _).
    unfold do_issue in *. apply Nat.ltb_lt in Hin. rewrite Hin in *. rewrite Hiss in *. cbn [fst] in *.
    apply Nat.ltb_lt in Hin.
    pose proof (RJ_start w i m (PostOf (msgs w ++ [m]) (next_members M o)) Hd0 Hq0 s_i Hin Hpi) as HS.
    pose proof (RJ_run w i m (PostOf (msgs w ++ [m]) (next_members M o)) Hpj evs _ Hev HS) as HJ.
    destruct (round_done w i m (next_members M o) _ HJ Hq) as [A B].
    + intros j Hj. destruct o as [init|x|x|]; cbn [next_members] in Hj.
      * apply Hm0, Hj.
      * apply In_ins in Hj. destruct Hj as [->|Hj]; [apply Hval|apply Hm0, Hj].
      * apply In_rem in Hj. apply Hm0, Hj.
      * apply Hm0, Hj.
    + split; [congruence|exact B].
Qed.

(** In the property's words. *)
Corollary seq_members_hold_and_decrypt n w M :
  seq_exec n w M ->
  forall j, In j M ->
    welcomed (st w j) = true /\ (forall x, In x (view (st w j)) <-> In x M) /\
    forall s, generated (msgs w) s -> In s (knows (st w j)) /\ can_decrypt w j s = true.
Proof.
  intros H j Hj. destruct (seq_members_know_all n w M H) as (Hn & Hq & Hd & Hv & Hm).
  destruct (Hm j Hj) as (A & B & C). split; [exact B|]. split; [apply Hv; assumption|].
  intros s G. split; [apply C, G|apply decrypt_iff_knows, C, G].
Qed.

(** * The general statement is false: an add concurrent with an update *)

(** Members 0,1,2 form the group; 0 adds 3 while, concurrently, 1 updates the secret.  After
    everything is delivered to everyone, 3 is a member in everybody's view, holds itself to be
    one, but does not hold secret 2 — which was generated by a member holding every other
    secret, i.e. it is the newest one under [SecretBundle::generate]'s timestamp rule. *)
Definition concurrent_add_witness : list event :=
  [Issue 0 (Create [0; 1; 2]); Quiesce; Issue 0 (Add 3); Issue 1 Update; Quiesce].

Definition newest (ms : list message) (s : sid) : Prop :=
  exists m, nth_error ms s = Some m /\ generates (m_op m) = true /\
            forall s', generated ms s' -> s' <> s -> In s' (m_bundle m).

Lemma concurrent_add_misses_newest :
  let w := run (init_world 4) concurrent_add_witness in
  quiescent w /\
  (forall j, j < 4 -> welcomed (st w j) = true /\ view (st w j) = [0; 1; 2; 3]) /\
  newest (msgs w) 2 /\ ~ In 2 (knows (st w 3)) /\ can_decrypt w 3 2 = false.
Proof.
  cbv zeta. split; [|split; [|split; [|split]]].
  - intros j k Hj Hk. vm_compute in Hj, Hk.
    do 4 (destruct j as [|j]; [do 3 (destruct k as [|k]; [vm_compute; auto 10|]); exfalso; lia|]).
    exfalso; lia.
  - intros j Hj. do 4 (destruct j as [|j]; [vm_compute; auto|]). exfalso; lia.
  - eexists. split; [vm_compute; reflexivity|]. split; [reflexivity|].
    intros s' (m' & H1 & H2) Hne.
    destruct s' as [|[|[|s']]]; vm_compute in H1.
    + cbn. auto.
    + inversion H1; subst m'. discriminate.
    + contradiction.
    + destruct s'; discriminate.
  - vm_compute. intros [H|[]]. discriminate.
  - vm_compute. reflexivity.
Qed.

(** Non-vacuity of the sequential theorem: a history with add, remove, update and re-add. *)
Example seq_exec_example :
  exists w M, seq_exec 4 w M /\ M = [0; 2; 3] /\ List.length (msgs w) = 5.
Proof.
  pose (w1 := run (fst (do_issue (init_world 4) 0 (Create [1]))) [Deliver 1 0; Quiesce]).
  pose (w2 := run (fst (do_issue w1 1 (Add 2))) [Deliver 2 1; Deliver 0 1; Quiesce]).
  pose (w3 := run (fst (do_issue w2 2 (Remove 1))) [Quiesce]).
  pose (w4 := run (fst (do_issue w3 0 Update)) [Deliver 3 3; Quiesce; Probe]).
  pose (w5 := run (fst (do_issue w4 2 (Add 3))) [Quiesce]).
  assert (Q : forall w, (forall j k, j < 4 -> k < 5 -> j < nmem w -> k < List.length (msgs w) -> In k (dlv w j)) ->
                        nmem w = 4 -> List.length (msgs w) <= 5 -> quiescent w).
  { intros w H E1 E2 j k Hj Hk. apply H; lia. }
  assert (E1 : seq_exec 4 w1 [0; 1]).
  { apply (se_create 4 0 [1] [Deliver 1 0; Quiesce]); [lia| |reflexivity|].
    - intros x [<-|[]]. lia.
    - apply Q; [|reflexivity|vm_compute; lia]. intros j k Hj Hk.
      do 4 (destruct j as [|j]; [do 5 (destruct k as [|k]; [vm_compute; intros; auto 10; lia|]); lia|]). lia. }
  assert (E2 : seq_exec 4 w2 [0; 1; 2]).
  { apply (se_op 4 w1 [0; 1] 1 (Add 2) [Deliver 2 1; Deliver 0 1; Quiesce] E1); [cbn; auto|cbn; lia|reflexivity|].
    apply Q; [|reflexivity|vm_compute; lia]. intros j k Hj Hk.
    do 4 (destruct j as [|j]; [do 5 (destruct k as [|k]; [vm_compute; intros; auto 10; lia|]); lia|]). lia. }
  assert (E3 : seq_exec 4 w3 [0; 2]).
  { apply (se_op 4 w2 [0; 1; 2] 2 (Remove 1) [Quiesce] E2); [cbn; auto|exact I|reflexivity|].
    apply Q; [|reflexivity|vm_compute; lia]. intros j k Hj Hk.
    do 4 (destruct j as [|j]; [do 5 (destruct k as [|k]; [vm_compute; intros; auto 10; lia|]); lia|]). lia. }
  assert (E4 : seq_exec 4 w4 [0; 2]).
  { apply (se_op 4 w3 [0; 2] 0 Update [Deliver 3 3; Quiesce; Probe] E3); [cbn; auto|exact I|reflexivity|].
    apply Q; [|reflexivity|vm_compute; lia]. intros j k Hj Hk.
    do 4 (destruct j as [|j]; [do 5 (destruct k as [|k]; [vm_compute; intros; auto 10; lia|]); lia|]). lia. }
  assert (E5 : seq_exec 4 w5 [0; 2; 3]).
  { apply (se_op 4 w4 [0; 2] 2 (Add 3) [Quiesce] E4); [cbn; auto|cbn; lia|reflexivity|].
    apply Q; [|reflexivity|vm_compute; lia]. intros j k Hj Hk.
    do 4 (destruct j as [|j]; [do 5 (destruct k as [|k]; [vm_compute; intros; auto 10; lia|]); lia|]). lia. }
  exists w5, [0; 2; 3]. split; [exact E5|]. split; [reflexivity|vm_compute; reflexivity].
Qed.

Lemma recipients_within_view i s k o s1 m c :
  issue i s k o = Some (s1, m) -> (o = Update \/ exists x, o = Remove x) ->
  In c (m_rcpt m) -> In c (view s) /\ c <> i /\ (forall x, o = Remove x -> c <> x).
Proof.
  intros Hi Ho Hc. unfold issue in Hi. destruct Ho as [->|[x ->]]; destruct (welcomed s); try discriminate;
    inversion Hi; subst; clear Hi; cbn [m_rcpt] in Hc.
  - apply In_rem in Hc. destruct Hc as [A B]. repeat split; auto. intros x E. discriminate.
  - apply In_rem in Hc. destruct Hc as [A B]. apply In_rem in B. destruct B as [B C].
    repeat split; auto. intros y E. inversion E; subst. exact A.
Qed.

Theorem members_know_latest_refuted :
  exists n evs,
    let w := run (init_world n) evs in
    quiescent w /\
    (forall j, j < n -> welcomed (st w j) = true /\ view (st w j) = seq 0 n) /\
    exists s j, j < n /\ newest (msgs w) s /\ ~ In s (knows (st w j)) /\ can_decrypt w j s = false.
Proof.
  exists 4, concurrent_add_witness.
  destruct concurrent_add_misses_newest as (A & B & C & D & E).
  cbv zeta. split; [exact A|]. split; [exact B|]. exists 2, 3. repeat split; auto.
Qed.

Theorem members_know_latest_outside_known n w M :
  seq_exec n w M -> forall s j, newest (msgs w) s -> In j M -> In s (knows (st w j)).
Proof.
  intros H s j (m & H1 & H2 & _) Hj.
  destruct (seq_members_hold_and_decrypt n w M H j Hj) as (_ & _ & K).
  apply K. exists m. auto.
Qed.
