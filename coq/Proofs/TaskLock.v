(** Proofs about the contended result lock of a [Task] (Model/TaskLock.v).

    - [lmeasure_decreases], [ltraces_bounded]: every step decreases [lmeasure]; a trace has at
      most [7 * k + 3] steps (both variants of the check).
    - [LInv], [linv_step], [linv_reachable]: invariant of the code's protocol (blocking
      [lock().await]): mutual exclusion, "a waiter that found no result registered before the
      signal fired" ([R4 e -> e = 0]), "a woken waiter finds the result".
    - [ldeadlock_free], [contended_readers_return]: blocking protocol — while a waiter has not
      returned some step is enabled; every maximal trace ends with every waiter having returned
      the written result (in particular nobody panics).
    - [trylock_strands_a_waiter]: the [try_lock] variant of the check (not the code) reaches a
      state in which a waiter waits forever. *)
From Coq Require Import List Arith Bool Lia.
From PV Require Import Model.Tasks Model.TaskLock Proofs.Tasks.
Import ListNotations.

(** * Termination measure *)

Lemma sumf_upd_gen : forall A (w : A -> nat) n (f : nat -> A) i v, i < n ->
  sumf n (fun k => w (upd f i v k)) + w (f i) = sumf n (fun k => w (f k)) + w v.
Proof.
  intros A w. induction n as [|n IH]; intros f i v H; [lia|]. cbn [sumf].
  destruct (Nat.eq_dec i n) as [->|Hne].
  - rewrite upd_eq. rewrite (sumf_ext n (fun k => w (upd f n v k)) (fun k => w (f k))).
    + lia.
    + intros k Hk. rewrite upd_neq by lia. reflexivity.
  - rewrite (upd_neq _ f i v n) by lia. specialize (IH f i v ltac:(lia)). lia.
Qed.

Lemma lmeasure_set_r : forall k s i p lk, i < k ->
  lmeasure k (set_r s i p lk) + wr (l_r s i) = lmeasure k s + wr p.
Proof.
  intros k s i p lk H. unfold lmeasure. cbn [set_r l_r l_w].
  pose proof (sumf_upd_gen rpc wr k (l_r s) i p H). lia.
Qed.

Lemma lmeasure_decreases : forall tl k v s l s1, lstep tl k v s l = Some s1 -> lmeasure k s1 < lmeasure k s.
Proof.
  intros tl k v s l s1 H. destruct l as [i|]; cbn [lstep] in H.
  - destruct (Nat.ltb i k) eqn:Hi; [|discriminate]. apply Nat.ltb_lt in Hi.
    unfold lstep_r in H.
    destruct (l_r s i) eqn:Es;
      repeat match type of H with
             | (if ?c then _ else _) = _ => destruct c
             | match ?c with _ => _ end = _ => destruct c
             end; try discriminate; inversion H; subst;
      match goal with |- lmeasure _ (set_r ?s ?i ?p ?lk) < _ =>
        pose proof (lmeasure_set_r k s i p lk Hi) as M; rewrite Es in M; cbn [wr] in M; lia end.
  - unfold lstep_w in H. destruct (l_w s) eqn:Ew.
    + destruct (is_free (l_lock s)); [|discriminate]. inversion H; subst.
      unfold lmeasure. cbn [l_r l_w]. rewrite Ew. cbn [ww]. lia.
    + inversion H; subst. unfold lmeasure. cbn [l_r l_w]. rewrite Ew. cbn [ww]. lia.
    + inversion H; subst. unfold lmeasure. cbn [l_r l_w]. rewrite Ew. cbn [ww]. lia.
    + discriminate.
Qed.

Lemma lexec_measure : forall tl k v s tr s', lexec tl k v s tr s' -> List.length tr + lmeasure k s' <= lmeasure k s.
Proof.
  intros tl k v s tr s' H. induction H as [s|s l s1 tr s2 Hs _ IH]; cbn [List.length]; [lia|].
  apply lmeasure_decreases in Hs. lia.
Qed.

Theorem ltraces_bounded : forall tl k v tr s, lexec tl k v linit tr s -> List.length tr <= 7 * k + 3.
Proof.
  intros tl k v tr s H. apply lexec_measure in H.
  assert (E : lmeasure k linit = 7 * k + 3).
  { unfold lmeasure, linit. cbn [l_r l_w wr ww]. rewrite sumf_const. lia. }
  lia.
Qed.

(** * Invariant of the blocking protocol *)

Definition holds (p : rpc) : bool := match p with R2 _ | R3 | R6 => true | _ => false end.

Definition good_r (v : nat) (res : option nat) (epoch : nat) (p : rpc) : Prop :=
  match p with
  | R0 => True
  | R1 e => e <= epoch
  | R2 e => e <= epoch
  | R3 => res = Some v
  | R4 e => e = 0
  | R5 => res = Some v
  | R6 => res = Some v
  | RDone x => x = v
  | RPanic => False
  end.

Definition res_of_w (v : nat) (w : wpc) : option nat := match w with W2 | W3 => Some v | _ => None end.
Definition epoch_of_w (w : wpc) : nat := match w with W3 => 1 | _ => 0 end.

Record LInv (k v : nat) (s : lstate) : Prop := {
  li_w : l_lock s = Some HWriter <-> l_w s = W1;
  li_res : l_res s = res_of_w v (l_w s);
  li_epoch : l_epoch s = epoch_of_w (l_w s);
  li_rk : forall i, l_lock s = Some (HReader i) -> i < k;
  li_hold : forall i, i < k -> (l_lock s = Some (HReader i) <-> holds (l_r s i) = true);
  li_good : forall i, i < k -> good_r v (l_res s) (l_epoch s) (l_r s i) }.

Lemma linv_init : forall k v, LInv k v linit.
Proof.
  intros k v. constructor; cbn [linit l_lock l_w l_res l_epoch l_r res_of_w epoch_of_w holds good_r]; auto.
  - split; discriminate.
  - discriminate.
  - intros i _. split; discriminate.
Qed.

(** A waiter's step: it changes its own program counter and either leaves the mutex alone,
    acquires the free mutex, or releases the mutex it holds. *)
Lemma linv_set_r : forall k v s i p lk, LInv k v s -> i < k ->
  good_r v (l_res s) (l_epoch s) p ->
  ( (lk = l_lock s /\ holds p = holds (l_r s i))
    \/ (l_lock s = None /\ lk = Some (HReader i) /\ holds p = true)
    \/ (holds (l_r s i) = true /\ lk = None /\ holds p = false) ) ->
  LInv k v (set_r s i p lk).
Proof.
  intros k v s i p lk I Hi Hg Hl. destruct I as [Iw Ires Iep Irk Ihold Igood].
  constructor; cbn [set_r l_lock l_w l_res l_epoch l_r].
  - destruct Hl as [[-> _]|[(A & -> & _)|(A & -> & _)]]; [exact Iw| |].
    + split; intro X; [discriminate|]. apply Iw in X. congruence.
    + split; intro X; [discriminate|]. apply Iw in X. apply (Ihold i Hi) in A. congruence.
  - exact Ires.
  - exact Iep.
  - intros j Hj. destruct Hl as [[-> _]|[(A & -> & _)|(A & -> & _)]]; [apply Irk; exact Hj| |discriminate].
    inversion Hj; subst. exact Hi.
  - intros j Hj. destruct (Nat.eq_dec j i) as [->|Hne].
    + rewrite upd_eq. destruct Hl as [[-> B]|[(A & -> & B)|(A & -> & B)]].
      * rewrite B. apply Ihold. exact Hi.
      * split; auto.
      * rewrite B. split; discriminate.
    + rewrite upd_neq by exact Hne. destruct Hl as [[-> B]|[(A & -> & B)|(A & -> & B)]].
      * apply Ihold. exact Hj.
      * split; intro X; [inversion X; subst; contradiction|]. apply (Ihold j Hj) in X. congruence.
      * apply (Ihold i Hi) in A. split; intro X; [discriminate|]. apply (Ihold j Hj) in X.
        rewrite A in X. inversion X; subst. contradiction.
  - intros j Hj. destruct (Nat.eq_dec j i) as [->|Hne].
    + rewrite upd_eq. exact Hg.
    + rewrite upd_neq by exact Hne. apply Igood. exact Hj.
Qed.

Lemma res_of_w_some : forall v w x, res_of_w v w = Some x -> x = v.
Proof. intros v w x H. destruct w; cbn [res_of_w] in H; congruence. Qed.

Lemma res_none_epoch0 : forall v w, res_of_w v w = None -> epoch_of_w w = 0.
Proof. intros v w H. destruct w; cbn [res_of_w epoch_of_w] in *; congruence. Qed.

Lemma epoch_pos_res : forall v w, 0 < epoch_of_w w -> res_of_w v w = Some v.
Proof. intros v w H. destruct w; cbn [res_of_w epoch_of_w] in *; try lia; reflexivity. Qed.

Theorem linv_step : forall k v s l s1, LInv k v s -> lstep false k v s l = Some s1 -> LInv k v s1.
Proof.
  intros k v s l s1 I H. destruct l as [i|]; cbn [lstep] in H.
  - destruct (Nat.ltb i k) eqn:Hi; [|discriminate]. apply Nat.ltb_lt in Hi.
    pose proof (li_good k v s I i Hi) as G. pose proof (li_res k v s I) as Rs. pose proof (li_epoch k v s I) as Ep.
    unfold lstep_r in H. destruct (l_r s i) eqn:Es; cbn [good_r] in G.
    + (* R0: create + enable the Notified *)
      inversion H; subst. apply linv_set_r; [exact I|exact Hi| |].
      * cbn [good_r]. lia.
      * left. rewrite Es. split; reflexivity.
    + (* R1: lock().await, only when free *)
      destruct (l_lock s) eqn:El; cbn [is_free] in H; [discriminate|]. inversion H; subst.
      apply linv_set_r; [exact I|exact Hi|exact G|]. right. left. repeat split; auto.
    + (* R2: look at the result *)
      destruct (l_res s) as [x|] eqn:Er; inversion H; subst.
      * apply linv_set_r; [exact I|exact Hi| |].
        -- cbn [good_r]. symmetry in Rs. apply res_of_w_some in Rs. congruence.
        -- left. rewrite Es. split; reflexivity.
      * apply linv_set_r; [exact I|exact Hi| |].
        -- cbn [good_r]. symmetry in Rs. apply res_none_epoch0 in Rs. lia.
        -- right. right. rewrite Es. repeat split; reflexivity.
    + (* R3: clone finished *)
      rewrite G in H. inversion H; subst. apply linv_set_r; [exact I|exact Hi| |].
      * cbn [good_r]. reflexivity.
      * right. right. rewrite Es. repeat split; reflexivity.
    + (* R4: woken iff the counter moved *)
      destruct (Nat.ltb e (l_epoch s)) eqn:Lt; [|discriminate]. apply Nat.ltb_lt in Lt. inversion H; subst.
      apply linv_set_r; [exact I|exact Hi| |].
      * cbn [good_r]. rewrite Rs. apply epoch_pos_res. lia.
      * left. rewrite Es. split; reflexivity.
    + (* R5: lock().await after the wake-up *)
      destruct (l_lock s) eqn:El; cbn [is_free] in H; [discriminate|]. inversion H; subst.
      apply linv_set_r; [exact I|exact Hi|exact G|]. right. left. repeat split; auto.
    + (* R6: clone *)
      rewrite G in H. inversion H; subst. apply linv_set_r; [exact I|exact Hi| |].
      * cbn [good_r]. reflexivity.
      * right. right. rewrite Es. repeat split; reflexivity.
    + discriminate.
    + discriminate.
  - destruct I as [Iw Ires Iep Irk Ihold Igood]. unfold lstep_w in H. destruct (l_w s) eqn:Ew.
    + (* W0: take the free mutex *)
      destruct (l_lock s) eqn:El; cbn [is_free] in H; [discriminate|]. inversion H; subst. clear H.
      try rewrite Ew in *. cbn [res_of_w epoch_of_w] in *.
      constructor; cbn [l_lock l_w l_res l_epoch l_r res_of_w epoch_of_w].
      * split; reflexivity.
      * exact Ires.
      * exact Iep.
      * intros i X. discriminate.
      * intros i Hi. split; intro X; [discriminate|]. apply (Ihold i Hi) in X. discriminate.
      * exact Igood.
    + (* W1: store the result, drop the guard *)
      assert (Lk : l_lock s = Some HWriter) by (apply Iw; reflexivity).
      inversion H; subst. clear H. try rewrite Ew in *. cbn [res_of_w epoch_of_w] in *.
      constructor; cbn [l_lock l_w l_res l_epoch l_r res_of_w epoch_of_w].
      * split; discriminate.
      * reflexivity.
      * exact Iep.
      * intros i X. discriminate.
      * intros i Hi. split; intro X; [discriminate|]. apply (Ihold i Hi) in X. congruence.
      * intros i Hi. specialize (Igood i Hi). destruct (l_r s i); cbn [good_r] in *; try exact Igood; try reflexivity; discriminate.
    + (* W2: notify_waiters *)
      inversion H; subst. clear H. try rewrite Ew in *. cbn [res_of_w epoch_of_w] in *.
      constructor; cbn [l_lock l_w l_res l_epoch l_r res_of_w epoch_of_w].
      * split; intro X; [|discriminate]. apply Iw in X. discriminate.
      * exact Ires.
      * rewrite Iep. reflexivity.
      * exact Irk.
      * exact Ihold.
      * intros i Hi. specialize (Igood i Hi). destruct (l_r s i); cbn [good_r] in *; try exact Igood; lia.
    + discriminate.
Qed.

Lemma linv_exec : forall k v s tr s', lexec false k v s tr s' -> LInv k v s -> LInv k v s'.
Proof. intros k v s tr s' H. induction H as [s|s l s1 tr s2 Hs _ IH]; intros I; [exact I|]. apply IH. eapply linv_step; eauto. Qed.

Lemma linv_reachable : forall k v tr s, lexec false k v linit tr s -> LInv k v s.
Proof. intros k v tr s H. eapply linv_exec; [exact H|apply linv_init]. Qed.

(** * Liveness of the blocking protocol *)

Lemma not_all_returned : forall k s, all_returnedb k s = false ->
  exists i, i < k /\ r_returned (l_r s i) = false.
Proof.
  intros k s H. unfold all_returnedb in H.
  assert (G : forall l, forallb (fun i => r_returned (l_r s i)) l = false -> exists i, In i l /\ r_returned (l_r s i) = false).
  { induction l as [|x l IH]; cbn [forallb]; [discriminate|]. intros E. apply andb_false_iff in E. destruct E as [E|E].
    - exists x. split; [left; reflexivity|exact E].
    - destruct (IH E) as (i & A & B). exists i. split; [right; exact A|exact B]. }
  destruct (G _ H) as (i & A & B). exists i. split; [|exact B]. apply in_seq in A. lia.
Qed.

(** Whoever holds the mutex can move; with the mutex free, a waiter that has not returned can
    move unless it waits for the signal, and then the writer can move. *)
Theorem ldeadlock_free_inv : forall k v s,
  LInv k v s -> all_returnedb k s = false -> exists l s', lstep false k v s l = Some s'.
Proof.
  intros k v s I Hnd. destruct I as [Iw Ires Iep Irk Ihold Igood].
  destruct (l_lock s) as [[j|]|] eqn:El.
  - (* a waiter holds the mutex: it is looking at the result or cloning it *)
    pose proof (Irk j eq_refl) as Hj. pose proof (proj1 (Ihold j Hj) eq_refl) as Hh.
    exists (LR j). cbn [lstep]. apply Nat.ltb_lt in Hj. rewrite Hj. unfold lstep_r.
    destruct (l_r s j); cbn [holds] in Hh; try discriminate; destruct (l_res s); eexists; reflexivity.
  - (* the writer holds it *)
    exists LW. cbn [lstep]. unfold lstep_w. rewrite (proj1 Iw eq_refl). eexists; reflexivity.
  - destruct (not_all_returned k s Hnd) as (i & Hi & Hr).
    assert (Hlt : Nat.ltb i k = true) by (apply Nat.ltb_lt; exact Hi).
    pose proof (Igood i Hi) as G.
    assert (Hh : holds (l_r s i) = false).
    { destruct (holds (l_r s i)) eqn:E; [|reflexivity]. apply (Ihold i Hi) in E. discriminate. }
    destruct (l_r s i) eqn:Es; cbn [r_returned holds good_r] in *; try discriminate.
    + exists (LR i). cbn [lstep]. rewrite Hlt. unfold lstep_r. rewrite Es. eexists; reflexivity.
    + exists (LR i). cbn [lstep]. rewrite Hlt. unfold lstep_r. rewrite Es, El. cbn [is_free]. eexists; reflexivity.
    + (* waiting: either the signal has fired, or the writer is still to come *)
      subst e. destruct (l_w s) eqn:Ew.
      * exists LW. cbn [lstep]. unfold lstep_w. rewrite Ew, El. cbn [is_free]. eexists; reflexivity.
      * exfalso. assert (X : @None holder = Some HWriter) by (apply Iw; reflexivity). discriminate.
      * exists LW. cbn [lstep]. unfold lstep_w. rewrite Ew. eexists; reflexivity.
      * exists (LR i). cbn [lstep]. rewrite Hlt. unfold lstep_r. rewrite Es, Iep. cbn [epoch_of_w Nat.ltb Nat.leb].
        eexists; reflexivity.
    + exists (LR i). cbn [lstep]. rewrite Hlt. unfold lstep_r. rewrite Es, El. cbn [is_free]. eexists; reflexivity.
    + contradiction.
Qed.

Theorem ldeadlock_free : forall k v tr s,
  lexec false k v linit tr s -> all_returnedb k s = false -> exists l s', lstep false k v s l = Some s'.
Proof. intros k v tr s H. apply ldeadlock_free_inv. eapply linv_reachable. exact H. Qed.

(** Every maximal trace of the blocking protocol ends with every waiter having returned the
    result the writer stored (finite by [ltraces_bounded]; no fairness assumption). *)
Theorem contended_readers_return : forall k v tr s,
  lexec false k v linit tr s -> (forall l, lstep false k v s l = None) ->
  forall i, i < k -> l_r s i = RDone v.
Proof.
  intros k v tr s H Hmax i Hi.
  destruct (all_returnedb k s) eqn:D.
  - unfold all_returnedb in D. rewrite forallb_forall in D. specialize (D i).
    rewrite in_seq in D. specialize (D ltac:(lia)).
    pose proof (li_good k v s (linv_reachable k v tr s H) i Hi) as G.
    destruct (l_r s i); cbn [r_returned good_r] in *; try discriminate. congruence.
  - destruct (ldeadlock_free k v tr s H D) as (l & s' & Hs). rewrite Hmax in Hs. discriminate.
Qed.

(** Safety part alone: in the blocking protocol nobody ever panics or returns another value. *)
Theorem contended_no_panic : forall k v tr s i,
  lexec false k v linit tr s -> i < k -> l_r s i <> RPanic /\ (forall x, l_r s i = RDone x -> x = v).
Proof.
  intros k v tr s i H Hi. pose proof (li_good k v s (linv_reachable k v tr s H) i Hi) as G.
  split; intros; destruct (l_r s i); cbn [good_r] in G; try discriminate; try contradiction; congruence.
Qed.

(** * The [try_lock] variant of the check loses a waiter *)

Lemma lrun_exec : forall tl k v tr s s', lrun tl k v s tr = Some s' -> lexec tl k v s tr s'.
Proof.
  intros tl k v. induction tr as [|l tr IH]; intros s s' H; unfold lrun in H; cbn [fold_left] in H.
  - inversion H. constructor.
  - destruct (lstep tl k v s l) as [s1|] eqn:E.
    + econstructor; [exact E|apply IH; exact H].
    + exfalso. clear -H. induction tr as [|x tr IHt]; cbn [fold_left] in H; [discriminate|auto].
Qed.

(** Two waiters of a finished task: waiter 0 holds the mutex (cloning) while waiter 1 runs its
    check with [try_lock]; waiter 1 then waits for a signal that fired before it registered. *)
Theorem trylock_strands_a_waiter : exists s,
  lexec true 2 7 linit trylock_schedule s /\ l_r s 0 = RDone 7 /\ l_r s 1 = R4 1 /\ l_epoch s = 1 /\
  all_returnedb 2 s = false /\ forall l, lstep true 2 7 s l = None.
Proof.
  destruct (lrun true 2 7 linit trylock_schedule) as [s|] eqn:E; [|vm_compute in E; discriminate].
  exists s. split; [apply lrun_exec; exact E|].
  vm_compute in E. inversion E; subst s. clear E. repeat split.
  intros [i|]; [|reflexivity]. destruct i as [|[|i]]; reflexivity.
Qed.

(** The same schedule is harmless in the code's protocol: the second [LR 1] is simply not
    enabled while waiter 0 holds the mutex (waiter 1 queues on it). *)
Example blocking_same_schedule_not_enabled :
  lrun false 2 7 linit trylock_schedule = None /\
  exists s, lexec false 2 7 linit [LW; LW; LW; LR 0; LR 0; LR 0; LR 1; LR 0; LR 1; LR 1; LR 1] s /\
            l_r s 0 = RDone 7 /\ l_r s 1 = RDone 7.
Proof.
  split; [vm_compute; reflexivity|].
  destruct (lrun false 2 7 linit [LW; LW; LW; LR 0; LR 0; LR 0; LR 1; LR 0; LR 1; LR 1; LR 1]) as [s|] eqn:E;
    [|vm_compute in E; discriminate].
  exists s. split; [apply lrun_exec; exact E|]. vm_compute in E. inversion E; subst s. split; reflexivity.
Qed.

(** Non-vacuity of [contended_readers_return]: a reachable state of the blocking protocol in
    which one waiter holds the mutex (cloning), one is queued on it and one waits for the signal
    ... *)
Example example_contended_reachable : exists s,
  lexec false 3 7 linit [LR 2; LR 2; LR 2; LW; LW; LR 0; LR 0; LR 0; LR 1] s /\
  l_r s 0 = R3 /\ l_r s 1 = R1 0 /\ l_r s 2 = R4 0 /\ l_lock s = Some (HReader 0) /\ all_returnedb 3 s = false.
Proof.
  destruct (lrun false 3 7 linit [LR 2; LR 2; LR 2; LW; LW; LR 0; LR 0; LR 0; LR 1]) as [s|] eqn:E;
    [|vm_compute in E; discriminate].
  exists s. split; [apply lrun_exec; exact E|]. vm_compute in E. inversion E; subst s. repeat split.
Qed.
