(** C20 -- the message grammar of one side of a log sync session, for every input sequence:
    every interleaving of store ticks, received messages (honest or not) and stream closure,
    and every store content at every store call (each [Tick] carries its own replica, so a
    concurrent prune / delete / insert between any two store calls is covered). *)
From Coq Require Import List Arith NArith Bool Lia.
From PV Require Import Model.Dedup Model.LogSync.
Import ListNotations.

(** ** Shapes recognised by [gram] *)
Definition is_op (m : msg) : Prop := exists a l w, m = Operation a l w.

Lemma gram_snoc ms m : gram (ms ++ [m]) = gstep (gram ms) m.
Proof. unfold gram. rewrite fold_left_app. reflexivity. Qed.

Lemma fold_gstep_bad ms : fold_left gstep ms GBad = GBad.
Proof. induction ms as [|m ms IH]; [reflexivity|]. simpl. exact IH. Qed.

Lemma fold_gstep_G3 ms : ms <> [] -> fold_left gstep ms G3 = GBad.
Proof. destruct ms as [|m ms]; [congruence|]. intros _. simpl. destruct m; apply fold_gstep_bad. Qed.

Lemma fold_gstep_ops g ms : g = G2 -> Forall is_op ms -> fold_left gstep ms g = G2.
Proof.
  intros ->. induction 1 as [|m ms [a [l [w ->]]] _ IH]; [reflexivity|]. simpl. exact IH.
Qed.

(** The complete words of the grammar. *)
Definition complete_word (ms : list msg) : Prop :=
  (exists h, ms = [Have h; Done]) \/
  (exists h o b ops, ms = Have h :: PreSync o b :: ops ++ [Done] /\ Forall is_op ops).

Lemma gram_shape ms :
  match gram ms with
  | G0 => ms = []
  | G1 => exists h, ms = [Have h]
  | G2 => exists h o b ops, ms = Have h :: PreSync o b :: ops /\ Forall is_op ops
  | G3 => complete_word ms
  | GBad => True
  end.
Proof.
  induction ms as [|m ms IH] using rev_ind; [reflexivity|].
  rewrite gram_snoc. destruct (gram ms) eqn:G; cbn [gstep].
  - subst ms. destruct m; cbn; eauto.
  - destruct IH as [h ->]. destruct m; cbn; try exact I.
    + exists h, ops, bytes, []. split; [reflexivity|constructor].
    + left. eauto.
  - destruct IH as [h [o [b [ops [-> F]]]]]. destruct m; cbn; try exact I.
    + exists h, o, b, (ops ++ [Operation a l w]). split; [reflexivity|].
      apply Forall_app. split; [exact F|]. constructor; [|constructor]. repeat eexists.
    + right. exists h, o, b, ops. split; [reflexivity|exact F].
  - destruct m; exact I.
  - destruct m; exact I.
Qed.

Lemma gram_complete ms : gram ms = G3 -> complete_word ms.
Proof. intros G. pose proof (gram_shape ms) as S. rewrite G in S. exact S. Qed.

Lemma gram_nothing_after_done ms1 ms2 : gram (ms1 ++ Done :: ms2) <> GBad -> ms2 = [].
Proof.
  unfold gram. rewrite fold_left_app. cbn [fold_left].
  destruct ms2 as [|m ms2]; [reflexivity|]. intros H. exfalso. apply H.
  destruct (fold_left gstep ms1 G0); cbn [gstep];
    try apply fold_gstep_bad; apply fold_gstep_G3; discriminate.
Qed.

(** ** The invariant tying the machine state to the recogniser state *)
Definition ginv (s : st) (g : gst) : Prop :=
  match ph s with
  | PStart _ | PSendHave _ _ => g = G0 /\ done_sent s = false
  | PReceiveHave _ | PSendPreSync _ _ _ _ => g = G1 /\ done_sent s = false
  | PReceivePreSyncOrDone _ _ _ => (done_sent s = true /\ g = G3) \/ (done_sent s = false /\ g = G2)
  | PSync _ cur => (done_sent s = true /\ g = G3 /\ cur = None) \/ (done_sent s = false /\ g = G2)
  | PEnd => g = G3
  | PFailed => g <> GBad
  end.

Lemma ginv_not_bad s g : ginv s g -> g <> GBad.
Proof.
  unfold ginv. destruct (ph s); intros H; try (subst; discriminate); try exact H;
    try (destruct H as [-> _]; discriminate).
  - destruct H as [[_ ->]|[_ ->]]; discriminate.
  - destruct H as [[_ [-> _]]|[_ ->]]; discriminate.
Qed.

Lemma sent_app o1 o2 : sent (o1 ++ o2) = sent o1 ++ sent o2.
Proof.
  induction o1 as [|o o1 IH]; [reflexivity|]. destruct o; cbn [app sent]; rewrite IH; reflexivity.
Qed.

Lemma sent_op_msgs a l ws : sent (op_msgs a l ws) = map (fun w => Operation a l w) ws.
Proof. induction ws as [|w ws IH]; [reflexivity|]. cbn. rewrite <- IH. reflexivity. Qed.

Lemma ops_are_ops a l ws : Forall is_op (map (fun w => Operation a l w) ws).
Proof. induction ws; constructor; [repeat eexists|assumption]. Qed.

Lemma tick_ginv r s g :
  ginv s g -> ginv (fst (tick true r s)) (fold_left gstep (sent (snd (tick true r s))) g).
Proof.
  unfold ginv, tick. destruct s as [p dr ds d]. cbn [ph done_sent done_recv dd].
  destruct p as [logs|todo acc|local|needs todo ops bytes|needs ops bytes|rest cur| |]; intros H.
  - cbn. exact H.
  - destruct H as [-> Hds]. destruct todo as [|al todo]; cbn; auto.
  - cbn. exact H.
  - destruct H as [-> Hds]. destruct todo as [|alr todo].
    + destruct (N.ltb 0 bytes); cbn; auto.
    + cbn. auto.
  - cbn. exact H.
  - destruct cur as [[a lrs]|].
    + destruct H as [[_ [_ C]]|[Hds ->]]; [discriminate|].
      destruct lrs as [|lr more].
      * destruct rest; cbn; auto.
      * cbn [fst snd ph done_sent]. rewrite sent_op_msgs.
        right. split; [exact Hds|]. apply fold_gstep_ops; [reflexivity|apply ops_are_ops].
    + unfold arm_on. cbn [done_sent done_recv].
      destruct H as [[Hds [-> _]]|[Hds ->]]; subst ds.
      * destruct rest as [|alr rest']; cbn.
        -- destruct dr; cbn; auto.
        -- destruct dr; cbn; auto.
      * destruct rest as [|alr rest']; cbn.
        -- rewrite andb_false_r. cbn. auto.
        -- auto.
  - cbn. exact H.
  - cbn. exact H.
Qed.

Lemma recv_ginv s m g :
  ginv s g -> ginv (fst (recv s m)) (fold_left gstep (sent (snd (recv s m))) g).
Proof.
  unfold ginv, recv. destruct s as [p dr ds d]. cbn [ph done_sent done_recv dd].
  destruct p as [logs|todo acc|local|needs todo ops bytes|needs ops bytes|rest cur| |]; intros H;
    try (cbn; exact H).
  - destruct H as [-> Hds]. destruct m; cbn; auto; discriminate.
  - destruct m; cbn.
    + apply ginv_not_bad with (s := mkst (PReceivePreSyncOrDone needs ops bytes) dr ds d). exact H.
    + destruct H as [[? ?]|[? ?]]; auto.
    + apply ginv_not_bad with (s := mkst (PReceivePreSyncOrDone needs ops bytes) dr ds d). exact H.
    + destruct H as [[? ?]|[? ?]]; auto.
  - destruct cur as [[a lrs]|]; [cbn; exact H|].
    destruct dr; [cbn; exact H|].
    destruct m; cbn [fst snd ph done_sent failed set_ph].
    + cbn. apply ginv_not_bad with (s := mkst (PSync rest None) false ds d). exact H.
    + cbn. apply ginv_not_bad with (s := mkst (PSync rest None) false ds d). exact H.
    + destruct (snd (insert d (r_id w))); cbn; exact H.
    + cbn. exact H.
Qed.

Lemma closed_ginv s g :
  ginv s g -> ginv (fst (closed s)) (fold_left gstep (sent (snd (closed s))) g).
Proof.
  unfold ginv, closed. destruct s as [p dr ds d]. cbn [ph done_sent done_recv dd].
  destruct p; intros H; cbn; try exact H.
  - destruct H as [-> _]. discriminate.
  - apply ginv_not_bad with (s := mkst (PReceivePreSyncOrDone needs ops bytes) dr ds d). exact H.
Qed.

Lemma step_ginv s i g :
  ginv s g -> ginv (fst (step true s i)) (fold_left gstep (sent (snd (step true s i))) g).
Proof. destruct i; cbn [step]; [apply tick_ginv|apply recv_ginv|apply closed_ginv]. Qed.

Lemma run_ginv ins : forall s g,
  ginv s g -> ginv (fst (run true s ins)) (fold_left gstep (sent (snd (run true s ins))) g).
Proof.
  induction ins as [|i ins IH]; intros s g H; [exact H|].
  cbn [run fst snd]. rewrite sent_app, fold_left_app. apply IH. apply step_ginv. exact H.
Qed.

(** ** Main theorems *)

(** For every input sequence the messages sent so far are a prefix of a word of
    [Have . (Done | PreSync . Operation* . Done)] ... *)
Theorem message_grammar (logs : list (N * list N)) (cap : nat) (ins : list input) :
  gram (sent (snd (run true (init logs cap) ins))) <> GBad.
Proof.
  apply ginv_not_bad with (s := fst (run true (init logs cap) ins)).
  apply (run_ginv ins (init logs cap) G0). split; reflexivity.
Qed.

(** ... and a complete word once the session reached its end. *)
Theorem message_grammar_complete (logs : list (N * list N)) (cap : nat) (ins : list input) :
  ph (fst (run true (init logs cap) ins)) = PEnd ->
  complete_word (sent (snd (run true (init logs cap) ins))).
Proof.
  intros E. apply gram_complete.
  pose proof (run_ginv ins (init logs cap) G0 (conj eq_refl eq_refl)) as H.
  unfold ginv in H. rewrite E in H. exact H.
Qed.

Theorem nothing_after_done (logs : list (N * list N)) (cap : nat) (ins : list input) ms1 ms2 :
  sent (snd (run true (init logs cap) ins)) = ms1 ++ Done :: ms2 -> ms2 = [].
Proof.
  intros E. apply (gram_nothing_after_done ms1). rewrite <- E. apply message_grammar.
Qed.

(** Non-vacuity: a run with a concurrent prune between the heights and the sizes query that
    reaches [PEnd] and sends [Have . Done]; and one without store changes sending operations. *)
Definition ex_r : replica := [((0, 0), [mkrow 0 100 500; mkrow 1 101 500])]%N.
Definition ex_logs : list (N * list N) := [(0, [0])]%N.
Definition ex_ins_pruned : list input :=
  [Tick ex_r; Tick ex_r; Tick ex_r; Recv (Have []); Tick []; Tick []; Recv Done; Tick []; Tick []; Tick []].
Definition ex_ins_static : list input :=
  [Tick ex_r; Tick ex_r; Tick ex_r; Recv (Have []); Tick ex_r; Tick ex_r; Recv Done; Tick ex_r; Tick ex_r;
   Tick ex_r; Tick ex_r].

Example message_grammar_example :
  ph (fst (run true (init ex_logs 8) ex_ins_pruned)) = PEnd /\
  sent (snd (run true (init ex_logs 8) ex_ins_pruned)) = [Have [(0, [(0, 1)])]; Done]%N /\
  ph (fst (run true (init ex_logs 8) ex_ins_static)) = PEnd /\
  length (sent (snd (run true (init ex_logs 8) ex_ins_static))) = 5.
Proof. vm_compute. repeat split. Qed.

(** The code as found (no precondition on the send arm) violates the grammar on exactly this
    input: the peer receives [Have . Done . Done]. *)
Lemma old_step_refuted :
  exists logs cap ins,
    sent (snd (run false (init logs cap) ins)) = [Have [(0, [(0, 1)])]; Done; Done]%N /\
    gram (sent (snd (run false (init logs cap) ins))) = GBad.
Proof. exists ex_logs, 8, ex_ins_pruned. vm_compute. split; reflexivity. Qed.
