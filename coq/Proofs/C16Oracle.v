(** Soundness of the C16 oracle on the parts that are not plain comparisons. *)
From Coq Require Import List NArith Bool Lia Sorted.
From PV Require Import Model.Timestamp Proofs.Timestamp Model.Ephemeral Proofs.Ephemeral Oracle.C18 Proofs.C18Oracle Oracle.C16.
Import ListNotations.
Local Open Scope N_scope.

(** An accepted publisher observation has one output per publish, strictly increasing
    timestamps above the creation time, distinct byte strings, everything yielded back. *)
Lemma check_pub_sound (t0 : N) (script : list (N * N)) (outs : list (hts * N * bool)) (uniq complete : bool) :
  check_pub t0 script outs uniq complete = true ->
  complete = true /\ uniq = true /\ length outs = length script /\
  StronglySorted hlt (hnow t0 :: map (fun o => fst (fst o)) outs) /\
  Forall (fun o => snd o = true) outs.
Proof.
  unfold check_pub. rewrite !andb_true_iff. intros [[[[C U] S] B] F].
  apply check_seq_sound in S. destruct S as [L S]. rewrite !map_length in L.
  rewrite forallb_forall in F. repeat split; auto. apply Forall_forall. exact F.
Qed.

(** An accepted forge observation that yielded something: the yielded content is what the
    claimed author signed. *)
Lemma check_forge_sound (signer : N) (f1 f2 : fields N) (sigmut : bool) (p t b : N) :
  check_forge signer f1 f2 sigmut (Some (p, t, b)) = true ->
  sigmut = false /\ f1 = f2 /\ signer = author f2 /\ ver f2 = MESSAGE_VERSION /\
  p = author f2 /\ t = time f2 /\ b = body f2.
Proof.
  unfold check_forge, obs_matches. rewrite !andb_true_iff, !N.eqb_eq, fields_eqb_eq, negb_true_iff.
  intros [[[[A B] C] D] [[E F] G]]. repeat split; assumption.
Qed.

(** [seq] cases.  An accepted bulk observation consists of observations of authentic messages
    of the sequence only; an accepted step observation yields per message at most one item,
    which is the authentic content of that very message. *)
Lemma obs_eqb_eq (a b : obs) : obs_eqb a b = true -> a = b.
Proof.
  destruct a as [[p t] x], b as [[p' t'] x']. unfold obs_eqb.
  rewrite !andb_true_iff, !N.eqb_eq. intros [[A B] C]. subst. reflexivity.
Qed.

Lemma subseq_obs_sound (auth ys : list obs) :
  subseq_obs auth ys = true -> Forall (fun y => In y auth) ys.
Proof.
  revert ys. induction auth as [|a auth IH]; intros ys; destruct ys as [|y ys]; cbn [subseq_obs];
    try (intros; constructor; fail); try discriminate.
  destruct (obs_eqb y a) eqn:E; intros H.
  - apply obs_eqb_eq in E. subst. constructor; [left; reflexivity|].
    eapply Forall_impl; [|exact (IH _ H)]. cbn beta. intros z Hz. right. exact Hz.
  - eapply Forall_impl; [|exact (IH _ H)]. cbn beta. intros z Hz. right. exact Hz.
Qed.

Lemma check_bulk_sound (specs : list seq_spec) (ys : list obs) :
  check_bulk specs ys = true ->
  Forall (fun y => exists s, In s specs /\ spec_authentic s = true /\ y = spec_obs s) ys.
Proof.
  unfold check_bulk. intros H. apply subseq_obs_sound in H.
  eapply Forall_impl; [|exact H]. cbn beta. intros y Hy.
  apply in_map_iff in Hy. destruct Hy as [s [A B]]. apply filter_In in B.
  exists s. destruct B. auto.
Qed.

Lemma check_step_sound (specs : list seq_spec) (ys : list (list obs)) :
  check_step specs ys = true ->
  Forall2 (fun s g => g = [] \/ (g = [spec_obs s] /\ spec_authentic s = true)) specs ys.
Proof.
  revert ys. induction specs as [|[[[signer f1] f2] sigmut] specs IH]; intros ys; destruct ys as [|g ys];
    cbn [check_step]; try discriminate; [constructor|].
  rewrite andb_true_iff. intros [A B]. constructor; [|exact (IH _ B)].
  destruct g as [|[[p t] b] [|o' g]]; [left; reflexivity| |discriminate].
  right. apply check_forge_sound in A. destruct A as [S [F [K [V [P [T Bd]]]]]]. subst.
  split; [reflexivity|]. unfold spec_authentic. rewrite V, !N.eqb_refl.
  cbn [negb andb]. rewrite andb_true_r. apply fields_eqb_eq. reflexivity.
Qed.
