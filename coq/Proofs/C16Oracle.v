(** Soundness of the C16 oracle on the parts that are not plain comparisons. *)
From Coq Require Import List NArith Bool Lia Sorted.
From PV Require Import Model.Timestamp Proofs.Timestamp Model.Ephemeral Proofs.Ephemeral Oracle.C18 Proofs.C18Oracle Oracle.C16.
Import ListNotations.
Local Open Scope N_scope.

(** An accepted publisher observation has one output per publish, strictly increasing
    timestamps above the creation time, distinct byte strings, everything yielded back. *)
Lemma check_pub_sound (t0 : N) (script : list (N * N)) (outs : list (hts * N * bool)) (uniq complete : bool) :
  check_pub t0 script outs uniq complete = true ->
  complete = true /\ uniq = true /\ length outs = length script /\
  StronglySorted hlt (hnow t0 :: map (fun o => fst (fst o)) outs) /\
  Forall (fun o => snd o = true) outs.
Proof.
  unfold check_pub. rewrite !andb_true_iff. intros [[[[C U] S] B] F].
  apply check_seq_sound in S. destruct S as [L S]. rewrite !map_length in L.
  rewrite forallb_forall in F. repeat split; auto. apply Forall_forall. exact F.
Qed.

(** An accepted forge observation that yielded something: the yielded content is what the
    claimed author signed. *)
Lemma check_forge_sound (signer : N) (f1 f2 : fields N) (sigmut : bool) (p t b : N) :
  check_forge signer f1 f2 sigmut (Some (p, t, b)) = true ->
  sigmut = false /\ f1 = f2 /\ signer = author f2 /\ ver f2 = MESSAGE_VERSION /\
  p = author f2 /\ t = time f2 /\ b = body f2.
Proof.
  unfold check_forge, obs_matches. rewrite !andb_true_iff, !N.eqb_eq, fields_eqb_eq, negb_true_iff.
  intros [[[[A B] C] D] [[E F] G]]. repeat split; assumption.
Qed.
