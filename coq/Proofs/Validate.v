(** Proofs about operation validation and ingest (Model/Validate.v) — property C01.

    Trusted assumptions (Section hypotheses of [Section C01]):
    - ideal signatures: [verify_sig pk m s = true <-> s = sign (sk_of pk) m] ([verify_spec]),
      a signature determines the key and the message it was made for ([sign_inj]), different
      public keys have different secret keys ([sk_of_inj]).  This is the symbolic idealisation of
      Ed25519 [verify_strict] (EUF-CMA + strong binding); the real primitive is not verified.
    - [hash_inj]: BLAKE3 is injective (collision freedom, idealised).
    - [order_perm]: the [HashSet] iteration order is a permutation.
    - [store], [has_op], [log_check], [insert]: arbitrary (the theorems hold for every store).
    [ideal_instance_*] at the end shows that the hypotheses are satisfiable (free-term instance). *)
From Coq Require Import List NArith Bool Arith Lia Permutation.
From PV Require Import Model.Header Model.Validate Proofs.Header.
Import ListNotations.

(** * The encoder is injective on canonical representatives (no range/length side conditions) *)

Definition canonical_ext (e : ext) : Prop :=
  match e with ECausal _ _ pv => strictly_sorted pv = true | _ => True end.

Definition canonical (h : header) : Prop := canonical_ext (h_ext h).

Definition not_bytes (t : token) : Prop := match t with TBytes _ => False | _ => True end.

Lemma opt_tok_split : forall o1 o2 t1 t2 r1 r2,
  not_bytes t1 -> not_bytes t2 ->
  opt_tok o1 ++ t1 :: r1 = opt_tok o2 ++ t2 :: r2 -> o1 = o2 /\ t1 :: r1 = t2 :: r2.
Proof.
  intros [b1|] [b2|] t1 t2 r1 r2 N1 N2 E; cbn [opt_tok app] in E.
  - inversion E; subst. split; reflexivity.
  - inversion E; subst. destruct N2.
  - inversion E; subst. destruct N1.
  - split; [reflexivity | exact E].
Qed.

Lemma map_TBytes_inj : forall l1 l2, map TBytes l1 = map TBytes l2 -> l1 = l2.
Proof.
  induction l1 as [|a l1 IH]; destruct l2 as [|b l2]; cbn [map]; intro E; try discriminate; [reflexivity|].
  inversion E; subst. f_equal. apply IH. assumption.
Qed.

Section EncInj.
  Variable order : list bytes -> list bytes.
  Hypothesis order_perm : is_perm_fun order.

  Lemma arrange_canonical : forall pv, strictly_sorted pv = true -> isort (order pv) = pv.
  Proof.
    intros pv S. rewrite (isort_perm_eq _ _ (order_perm pv)). apply isort_of_sorted. exact S.
  Qed.

  Lemma enc_ext_inj : forall e1 e2,
    canonical_ext e1 -> canonical_ext e2 ->
    enc_ext_with (fun l => isort (order l)) e1 = enc_ext_with (fun l => isort (order l)) e2 -> e1 = e2.
  Proof.
    intros [|n1|l1 t1 p1|l1 t1 pv1] [|n2|l2 t2 p2|l2 t2 pv2] C1 C2 E; cbn [enc_ext_with app] in E;
      try discriminate; try reflexivity;
      try (inversion E; subst; reflexivity); try (inversion E; fail).
    cbn [canonical_ext] in C1, C2. inversion E as [[El Et Elen Em]]. subst.
    apply map_TBytes_inj in Em. rewrite (arrange_canonical _ C1), (arrange_canonical _ C2) in Em.
    subst. reflexivity.
  Qed.

  Lemma enc_ext_head : forall e, match enc_ext_with (fun l => isort (order l)) e with
                                 | [] => True | t :: _ => not_bytes t end.
  Proof. intros [|n|l t p|l t pv]; cbn; exact I. Qed.

  Lemma opt_tok_ext_split : forall o1 o2 e1 e2,
    opt_tok o1 ++ enc_ext_with (fun l => isort (order l)) e1
    = opt_tok o2 ++ enc_ext_with (fun l => isort (order l)) e2 ->
    o1 = o2 /\ enc_ext_with (fun l => isort (order l)) e1 = enc_ext_with (fun l => isort (order l)) e2.
  Proof.
    intros [b1|] [b2|] e1 e2 E; cbn [opt_tok app] in E.
    - inversion E; subst. split; reflexivity.
    - pose proof (enc_ext_head e2) as H. rewrite <- E in H. destruct H.
    - pose proof (enc_ext_head e1) as H. rewrite E in H. destruct H.
    - split; [reflexivity | exact E].
  Qed.

  Theorem enc_header_inj_canonical : forall h1 h2,
    canonical h1 -> canonical h2 -> enc_header order h1 = enc_header order h2 -> h1 = h2.
  Proof.
    intros [v1 pk1 sg1 ps1 ph1 sq1 bl1 e1] [v2 pk2 sg2 ps2 ph2 sq2 bl2 e2] C1 C2 E.
    unfold canonical in C1, C2. cbn [h_ext] in C1, C2.
    unfold enc_header, enc_header_with in E.
    cbn [h_version h_pk h_sig h_psize h_phash h_seq h_backlink h_ext] in E.
    inversion E as [[Efc Ev Epk E1]]. clear E.
    apply opt_tok_split in E1; [|exact I|exact I]. destruct E1 as [Esg E1].
    inversion E1 as [[Eps E2]]. clear E1.
    apply opt_tok_split in E2; [|exact I|exact I]. destruct E2 as [Eph E2].
    inversion E2 as [[Esq E3]]. clear E2.
    apply opt_tok_ext_split in E3. destruct E3 as [Ebl Ee].
    apply enc_ext_inj in Ee; [|assumption|assumption]. subst. reflexivity.
  Qed.
End EncInj.

(** * Validation *)

Section C01.
  Variable verify_sig : bytes -> list token -> bytes -> bool.
  Variable hash_body : bytes -> bytes.
  Variable order : list bytes -> list bytes.
  Variable sign : bytes -> list token -> bytes.
  Variable sk_of : bytes -> bytes.
  Hypothesis verify_spec : forall pk m s, verify_sig pk m s = true <-> s = sign (sk_of pk) m.
  Hypothesis sign_inj : forall k m k' m', sign k m = sign k' m' -> k = k' /\ m = m'.
  Hypothesis sk_of_inj : forall a b, sk_of a = sk_of b -> a = b.
  Hypothesis hash_inj : forall a b, hash_body a = hash_body b -> a = b.
  Hypothesis order_perm : is_perm_fun order.

  Notation header_verify := (Model.Validate.header_verify verify_sig order).
  Notation validate_header := (Model.Validate.validate_header verify_sig order).
  Notation validate_operation := (Model.Validate.validate_operation verify_sig hash_body order).

  (** The signature is the author's signature over the canonical encoding of the header without
      signature. *)
  Definition authentic (h : header) : Prop :=
    h_sig h = Some (sign (sk_of (h_pk h)) (enc_header order (unsigned h))).

  Definition payload_consistent (h : header) : Prop := h_phash h = None <-> h_psize h = 0%N.
  Definition link_consistent (h : header) : Prop := h_backlink h = None <-> h_seq h = 0%N.

  Definition body_matches (op : operation) : Prop :=
    forall b, op_body op = Some b ->
      h_phash (op_header op) = Some (hash_body b) /\ h_psize (op_header op) = body_size b.

  Definition good_header (h : header) : Prop :=
    authentic h /\ h_version h = 1%N /\ payload_consistent h /\ link_consistent h.

  Definition good (op : operation) : Prop := good_header (op_header op) /\ body_matches op.

  Lemma header_verify_iff : forall h, header_verify h = true <-> authentic h.
  Proof.
    intro h. unfold Model.Validate.header_verify, authentic. destruct (h_sig h) as [s|].
    - rewrite verify_spec. split; intro H; [rewrite H; reflexivity | inversion H; reflexivity].
    - split; intro H; discriminate.
  Qed.

  Lemma is_some_false : forall A (o : option A), is_some o = false <-> o = None.
  Proof. intros A [a|]; cbn; split; intro H; congruence. Qed.

  Lemma is_some_true : forall A (o : option A), is_some o = true <-> o <> None.
  Proof. intros A [a|]; cbn; split; intro H; congruence. Qed.

  Theorem validate_header_iff : forall h, validate_header h = None <-> good_header h.
  Proof.
    intro h. unfold Model.Validate.validate_header, good_header, payload_consistent, link_consistent.
    destruct (header_verify h) eqn:V; cbn [negb].
    2:{ split; [discriminate|]. intros [A _]. apply header_verify_iff in A. congruence. }
    apply header_verify_iff in V.
    destruct (N.eqb (h_version h) 1) eqn:Ev; cbn [negb].
    2:{ split; [discriminate|]. intros [_ [Hv _]]. apply N.eqb_neq in Ev. contradiction. }
    apply N.eqb_eq in Ev.
    destruct (h_phash h) as [ph|] eqn:Eph; destruct (h_backlink h) as [bl|] eqn:Ebl; cbn [is_some negb];
      destruct (N.eqb_spec (h_psize h) 0) as [Eps|Eps]; destruct (N.eqb_spec (h_seq h) 0) as [Esq|Esq];
      destruct (N.ltb_spec 0 (h_psize h)) as [Lp|Lp]; destruct (N.ltb_spec 0 (h_seq h)) as [Lq|Lq];
      cbn [andb orb]; try (exfalso; lia);
      (split;
       [ intro H; try discriminate H; repeat split; try assumption; intros; try congruence; try lia
       | intros [_ [_ [[P1 P2] [L1 L2]]]]; try reflexivity; exfalso;
         first [ specialize (P2 Eps); congruence | specialize (L2 Esq); congruence
               | apply Eps, P1; reflexivity | apply Esq, L1; reflexivity ] ]).
  Qed.

  (** [validate_operation] accepts exactly the good operations: sound and complete. *)
  Theorem validate_sound : forall op, validate_operation op = None -> good op.
  Proof.
    intros op H. unfold Model.Validate.validate_operation in H.
    destruct (validate_header (op_header op)) as [e|] eqn:VH; [discriminate|].
    apply validate_header_iff in VH. split; [exact VH|].
    destruct VH as [_ [_ [[P1 P2] _]]].
    intros b Eb. rewrite Eb in H.
    destruct (N.eqb (h_psize (op_header op)) 0) eqn:Eps.
    - (* size 0: an attached body never matches *)
      cbn [opt_bytes_eq negb orb] in H. discriminate.
    - destruct (h_phash (op_header op)) as [ph|] eqn:Eph; [|discriminate].
      destruct (opt_bytes_eq (Some ph) (Some (hash_body b))) eqn:Eh; cbn [negb orb] in H; [|discriminate].
      destruct (N.eqb (h_psize (op_header op)) (body_size b)) eqn:Es; cbn [negb] in H; [|discriminate].
      cbn [opt_bytes_eq] in Eh. apply bytes_eqb_eq in Eh. apply N.eqb_eq in Es. subst ph. split; [reflexivity | exact Es].
  Qed.

  Theorem validate_complete : forall op, good op -> validate_operation op = None.
  Proof.
    intros op [GH BM]. unfold Model.Validate.validate_operation.
    pose proof GH as GH'. apply validate_header_iff in GH'. rewrite GH'.
    destruct GH as [_ [_ [[P1 P2] _]]].
    destruct (op_body op) as [b|] eqn:Eb.
    - destruct (BM b Eb) as [Hh Hs].
      destruct (N.eqb (h_psize (op_header op)) 0) eqn:Eps.
      + apply N.eqb_eq in Eps. apply P2 in Eps. congruence.
      + rewrite Hh. cbn [opt_bytes_eq]. rewrite bytes_eqb_refl. rewrite Hs, N.eqb_refl. reflexivity.
    - destruct (N.eqb (h_psize (op_header op)) 0) eqn:Eps; [reflexivity|].
      destruct (h_phash (op_header op)) as [ph|] eqn:Eph; [reflexivity|].
      apply N.eqb_neq in Eps. exfalso. apply Eps, P1. reflexivity.
  Qed.

  (** The [MissingPayloadHash] branch of [validate_operation] is dead code. *)
  Theorem missing_payload_hash_unreachable : forall op, validate_operation op <> Some MissingPayloadHash.
  Proof.
    intros op H. unfold Model.Validate.validate_operation in H.
    destruct (validate_header (op_header op)) as [e|] eqn:VH.
    - inversion H; subst e. unfold Model.Validate.validate_header in VH.
      repeat match type of VH with (if ?c then _ else _) = _ => destruct c end; discriminate.
    - apply validate_header_iff in VH. destruct VH as [_ [_ [[P1 P2] _]]].
      destruct (N.eqb (h_psize (op_header op)) 0) eqn:Eps.
      + destruct (op_body op); [|discriminate].
        match type of H with (if ?c then _ else _) = _ => destruct c end; discriminate.
      + destruct (h_phash (op_header op)) as [ph|] eqn:Eph.
        * destruct (op_body op); [|discriminate].
          match type of H with (if ?c then _ else _) = _ => destruct c end; discriminate.
        * apply N.eqb_neq in Eps. apply Eps, P1. reflexivity.
  Qed.

  (** * Tampering *)

  (** Two accepted headers carrying the same signature are the same header: a signature cannot
      be moved to any other content (or any other author). *)
  Theorem same_signature_same_header : forall h h',
    canonical h -> canonical h' ->
    validate_header h = None -> validate_header h' = None ->
    h_sig h' = h_sig h -> h' = h.
  Proof.
    intros h h' C C' V V' Es.
    apply validate_header_iff in V. apply validate_header_iff in V'.
    destruct V as [A _]. destruct V' as [A' _]. unfold authentic in A, A'.
    rewrite Es, A in A'. inversion A' as [E]. apply sign_inj in E. destruct E as [Ek Em].
    apply sk_of_inj in Ek.
    apply (enc_header_inj_canonical order order_perm) in Em;
      [| destruct h; exact C | destruct h'; exact C'].
    destruct h as [v pk sg ps ph sq bl e]. destruct h' as [v' pk' sg' ps' ph' sq' bl' e'].
    cbn [h_sig] in Es. unfold unsigned in Em. cbn in Em. inversion Em; subst. reflexivity.
  Qed.

  (** What counts as tampering with an operation [op], giving [op']:
      - [Tamper_header]: the header differs (one field or many: version, author key, payload size or
        hash, sequence number, backlink, any extension field) while the signature is kept;
      - [Tamper_sig]: the signature is replaced by a different one (or removed), the rest kept;
      - [Tamper_body]: the attached body is replaced by a different attached body.
      Removing the body is *not* tampering, see [body_removal_accepted]. *)
  Inductive single_tamper (op op' : operation) : Prop :=
  | Tamper_header :
      h_sig (op_header op') = h_sig (op_header op) -> op_header op' <> op_header op ->
      single_tamper op op'
  | Tamper_sig :
      unsigned (op_header op') = unsigned (op_header op) ->
      h_sig (op_header op') <> h_sig (op_header op) ->
      single_tamper op op'
  | Tamper_body : forall b b',
      op_header op' = op_header op -> op_body op = Some b -> op_body op' = Some b' -> b <> b' ->
      single_tamper op op'.

  Lemma validate_operation_header : forall op, validate_operation op = None -> validate_header (op_header op) = None.
  Proof.
    intros op H. unfold Model.Validate.validate_operation in H.
    destruct (validate_header (op_header op)); [discriminate | reflexivity].
  Qed.

  Theorem tamper_rejected : forall op op',
    canonical (op_header op) -> canonical (op_header op') ->
    validate_operation op = None -> single_tamper op op' -> validate_operation op' <> None.
  Proof.
    intros op op' C C' V T V'.
    destruct T as [Es Hne | Eu Hne | b b' Eh Eb Eb' Hne].
    - apply Hne. apply same_signature_same_header; try assumption; apply validate_operation_header; assumption.
    - apply validate_operation_header in V. apply validate_operation_header in V'.
      apply validate_header_iff in V. apply validate_header_iff in V'.
      destruct V as [A _]. destruct V' as [A' _]. unfold authentic in A, A'.
      apply Hne. rewrite A, A'. rewrite Eu.
      assert (Epk : h_pk (op_header op') = h_pk (op_header op)).
      { destruct (op_header op), (op_header op'). unfold unsigned in Eu. cbn in Eu. inversion Eu. reflexivity. }
      rewrite Epk. reflexivity.
    - apply validate_sound in V. apply validate_sound in V'.
      destruct V as [_ BM]. destruct V' as [_ BM'].
      destruct (BM b Eb) as [Hh _]. destruct (BM' b' Eb') as [Hh' _].
      rewrite Eh, Hh in Hh'. inversion Hh' as [E]. apply hash_inj in E. apply Hne. exact E.
  Qed.

  (** Boundary, stated so that it is visible: deleting the payload of a valid operation is
      accepted by design ([validate_operation] only checks an *attached* body). *)
  Theorem body_removal_accepted : forall op,
    validate_operation op = None ->
    validate_operation (mkOp (op_hash op) (op_header op) None) = None.
  Proof.
    intros op V. apply validate_sound in V. destruct V as [GH _].
    apply validate_complete. split; [exact GH|]. intros b Eb. discriminate.
  Qed.

  (** An attached *empty* body is never accepted (size 0 goes with "no payload hash", and the
      comparison [None <> Some (hash body)] then fails). *)
  Theorem empty_attached_body_rejected : forall op,
    op_body op = Some [] -> validate_operation op <> None.
  Proof.
    intros op Eb V. apply validate_sound in V. destruct V as [[_ [_ [[P1 P2] _]]] BM].
    destruct (BM [] Eb) as [Hh Hs]. unfold body_size in Hs. cbn in Hs. apply P2 in Hs. congruence.
  Qed.

  (** * Ingest *)

  Variable store : Type.
  Variable has_op : store -> bytes -> bool.
  Variable log_check : store -> operation -> option op_error.
  Variable insert : store -> operation -> store.

  Notation ingest := (Model.Validate.ingest verify_sig hash_body order store has_op log_check insert).

  Theorem ingest_reject_unchanged : forall s op s' e, ingest s op = (s', Rejected e) -> s' = s.
  Proof.
    intros s op s' e H. unfold Model.Validate.ingest in H.
    destruct (validate_operation op); [inversion H; reflexivity|].
    destruct (has_op s (op_hash op)); [discriminate|].
    destruct (log_check s op); [inversion H; reflexivity | discriminate].
  Qed.

  Theorem ingest_existed_unchanged : forall s op s', ingest s op = (s', Existed) -> s' = s.
  Proof.
    intros s op s' H. unfold Model.Validate.ingest in H.
    destruct (validate_operation op); [discriminate|].
    destruct (has_op s (op_hash op)); [inversion H; reflexivity|].
    destruct (log_check s op); discriminate.
  Qed.

  (** Whatever ingest reports as accepted (newly inserted or already there) validated. *)
  Theorem ingest_ok_valid : forall s op s' r,
    ingest s op = (s', r) -> (r = Inserted \/ r = Existed) -> validate_operation op = None.
  Proof.
    intros s op s' r H Hr. unfold Model.Validate.ingest in H.
    destruct (validate_operation op) as [e|]; [|reflexivity].
    inversion H; subst. destruct Hr; discriminate.
  Qed.

  Theorem ingest_inserted_only_if_valid : forall s op s',
    ingest s op = (s', Inserted) -> good op /\ has_op s (op_hash op) = false /\ log_check s op = None /\ s' = insert s op.
  Proof.
    intros s op s' H. unfold Model.Validate.ingest in H.
    destruct (validate_operation op) as [e|] eqn:V; [discriminate|].
    destruct (has_op s (op_hash op)); [discriminate|].
    destruct (log_check s op); [discriminate|]. inversion H; subst.
    split; [apply validate_sound; exact V|]. repeat split; reflexivity.
  Qed.

  (** Tampering with a valid operation is rejected by ingest and leaves the store as it was. *)
  Theorem ingest_tamper_unchanged : forall s op op',
    canonical (op_header op) -> canonical (op_header op') ->
    validate_operation op = None -> single_tamper op op' ->
    exists e, ingest s op' = (s, Rejected e).
  Proof.
    intros s op op' C C' V T. pose proof (tamper_rejected op op' C C' V T) as R.
    unfold Model.Validate.ingest. destruct (validate_operation op') as [e|]; [|contradiction].
    exists e. reflexivity.
  Qed.
End C01.

(** * Compact statements (the hypotheses bundled), used by Properties/C01.v *)

(** Ideal signature scheme: [verify] accepts exactly the signature [sign (sk_of pk) m]; a
    signature determines signer and message; distinct public keys have distinct secret keys. *)
Definition ideal_signatures (verify_sig : bytes -> list token -> bytes -> bool)
           (sign : bytes -> list token -> bytes) (sk_of : bytes -> bytes) : Prop :=
  (forall pk m s, verify_sig pk m s = true <-> s = sign (sk_of pk) m)
  /\ (forall k m k' m', sign k m = sign k' m' -> k = k' /\ m = m')
  /\ (forall a b, sk_of a = sk_of b -> a = b).

Definition injective_hash (hash_body : bytes -> bytes) : Prop :=
  forall a b, hash_body a = hash_body b -> a = b.

Section Compact.
  Variable verify_sig : bytes -> list token -> bytes -> bool.
  Variable hash_body : bytes -> bytes.
  Variable order : list bytes -> list bytes.
  Variable sign : bytes -> list token -> bytes.
  Variable sk_of : bytes -> bytes.
  Hypothesis sigs : ideal_signatures verify_sig sign sk_of.
  Hypothesis hinj : injective_hash hash_body.
  Hypothesis operm : is_perm_fun order.

  Let vspec := proj1 sigs.
  Let sinj := proj1 (proj2 sigs).
  Let kinj := proj2 (proj2 sigs).

  Theorem c_validate_iff : forall op,
    validate_operation verify_sig hash_body order op = None <-> good hash_body order sign sk_of op.
  Proof.
    intro op. split; [apply (validate_sound _ _ _ _ _ vspec) | apply (validate_complete _ _ _ _ _ vspec)].
  Qed.

  Theorem c_tamper_rejected : forall op op',
    canonical (op_header op) -> canonical (op_header op') ->
    validate_operation verify_sig hash_body order op = None -> single_tamper op op' ->
    validate_operation verify_sig hash_body order op' <> None.
  Proof. exact (tamper_rejected _ _ _ _ _ vspec sinj kinj hinj operm). Qed.

  Theorem c_same_signature_same_header : forall h h',
    canonical h -> canonical h' ->
    validate_header verify_sig order h = None -> validate_header verify_sig order h' = None ->
    h_sig h' = h_sig h -> h' = h.
  Proof. exact (same_signature_same_header _ _ _ _ vspec sinj kinj operm). Qed.

  Theorem c_body_removal_accepted : forall op,
    validate_operation verify_sig hash_body order op = None ->
    validate_operation verify_sig hash_body order (mkOp (op_hash op) (op_header op) None) = None.
  Proof. exact (body_removal_accepted _ _ _ _ _ vspec). Qed.

  Theorem c_empty_attached_body_rejected : forall op,
    op_body op = Some [] -> validate_operation verify_sig hash_body order op <> None.
  Proof. exact (empty_attached_body_rejected _ _ _ _ _ vspec). Qed.

  Theorem c_missing_payload_hash_unreachable : forall op,
    validate_operation verify_sig hash_body order op <> Some MissingPayloadHash.
  Proof. exact (missing_payload_hash_unreachable _ _ _ _ _ vspec). Qed.

  Variable store : Type.
  Variable has_op : store -> bytes -> bool.
  Variable log_check : store -> operation -> option op_error.
  Variable insert : store -> operation -> store.

  Theorem c_ingest_tamper_unchanged : forall s op op',
    canonical (op_header op) -> canonical (op_header op') ->
    validate_operation verify_sig hash_body order op = None -> single_tamper op op' ->
    exists e, ingest verify_sig hash_body order store has_op log_check insert s op' = (s, Rejected e).
  Proof. exact (ingest_tamper_unchanged _ _ _ _ _ vspec sinj kinj hinj operm store has_op log_check insert). Qed.

  Theorem c_ingest_inserted_only_if_good : forall s op s',
    ingest verify_sig hash_body order store has_op log_check insert s op = (s', Inserted) ->
    good hash_body order sign sk_of op /\ has_op s (op_hash op) = false /\ log_check s op = None /\ s' = insert s op.
  Proof. exact (ingest_inserted_only_if_valid _ _ _ _ _ vspec store has_op log_check insert). Qed.
End Compact.

(** * The ideal (free term) instance satisfies the hypotheses *)

Lemma app_same_length_inj : forall (A : Type) (a a' b b' : list A),
  length a = length a' -> a ++ b = a' ++ b' -> a = a' /\ b = b'.
Proof.
  induction a as [|x a IH]; destruct a' as [|x' a']; cbn [length app]; intros b b' L E; try discriminate.
  - split; [reflexivity | exact E].
  - inversion E; subst. injection L as L. destruct (IH a' b b' L H1) as [Ea Eb]. subst. split; reflexivity.
Qed.

Lemma ser_token_inj_app : forall t t' r r',
  (ser_token t ++ r)%list = (ser_token t' ++ r')%list -> t = t' /\ r = r'.
Proof.
  intros [n|b|b|n] [n'|b'|b'|n'] r r' E; cbn [ser_token app] in E; try discriminate.
  - inversion E; subst. split; reflexivity.
  - inversion E as [[El Er]]. apply Nat2N.inj in El.
    destruct (app_same_length_inj _ b b' r r' El Er) as [Eb Err]. subst. split; reflexivity.
  - inversion E as [[Eb Er]]. split; [|reflexivity]. destruct b, b'; try reflexivity; discriminate.
  - inversion E as [[En Er]]. apply Nat2N.inj in En. subst. split; reflexivity.
Qed.

Lemma ser_tokens_inj : forall m m', ser_tokens m = ser_tokens m' -> m = m'.
Proof.
  induction m as [|t m IH]; destruct m' as [|t' m']; unfold ser_tokens; cbn [flat_map]; intro E.
  - reflexivity.
  - destruct t'; discriminate.
  - destruct t; discriminate.
  - apply ser_token_inj_app in E. destruct E as [Et Em]. subst. f_equal. apply IH. exact Em.
Qed.

Lemma ideal_sign_inj : forall k m k' m', ideal_sign k m = ideal_sign k' m' -> k = k' /\ m = m'.
Proof.
  intros k m k' m' E. unfold ideal_sign in E. inversion E as [[El Er]]. apply Nat2N.inj in El.
  destruct (app_same_length_inj _ k k' _ _ El Er) as [Ek Em]. apply ser_tokens_inj in Em. split; assumption.
Qed.

Lemma ideal_verify_spec : forall pk m s, ideal_verify pk m s = true <-> s = ideal_sign ((fun x => x) pk) m.
Proof. intros pk m s. unfold ideal_verify. apply bytes_eqb_eq. Qed.

Lemma ideal_hash_inj : forall a b, ideal_hash a = ideal_hash b -> a = b.
Proof. intros a b E. unfold ideal_hash in E. inversion E. reflexivity. Qed.

(** The bundled hypotheses are satisfiable. *)
Theorem ideal_instance_signatures : ideal_signatures ideal_verify ideal_sign (fun x => x).
Proof. split; [exact ideal_verify_spec | split; [exact ideal_sign_inj | intros a b E; exact E]]. Qed.

Theorem ideal_instance_hash : injective_hash ideal_hash.
Proof. exact ideal_hash_inj. Qed.

(** Non-vacuity: a concrete operation (payload, backlink, Node causal extension with two previous
    hashes) that validates under the ideal instance, its tampered variants that do not. *)
Definition ex_body : bytes := [1; 2; 3]%N.
Definition ex_unsigned : header :=
  mkHeader 1 (repeat 7%N 32) None 3 (Some (ideal_hash ex_body)) 2 (Some (repeat 8%N 32))
           (ECausal (repeat 3%N 32) 5 [repeat 1%N 32; repeat 2%N 32]).
Definition ex_header : header :=
  with_sig ex_unsigned (Some (ideal_sign (repeat 7%N 32) (enc_header0 ex_unsigned))).
Definition ex_op : operation := mkOp [0%N] ex_header (Some ex_body).

Example ex_op_valid :
  validate_operation ideal_verify ideal_hash (fun l => l) ex_op = None.
Proof. vm_compute. reflexivity. Qed.

Example ex_op_tampered_seq :
  validate_operation ideal_verify ideal_hash (fun l => l)
    (mkOp [0%N] (mkHeader 1 (repeat 7%N 32) (h_sig ex_header) 3 (Some (ideal_hash ex_body)) 3
                          (Some (repeat 8%N 32)) (h_ext ex_header)) (Some ex_body))
  = Some SignatureMismatch.
Proof. vm_compute. reflexivity. Qed.

Example ex_op_tampered_body :
  validate_operation ideal_verify ideal_hash (fun l => l) (mkOp [0%N] ex_header (Some [1; 2; 4]%N))
  = Some PayloadMismatch.
Proof. vm_compute. reflexivity. Qed.

Example ex_ingest_tamper :
  exists e, ingest ideal_verify ideal_hash (fun l => l) lstore lhas (fun _ _ => None) linsert []
              (mkOp [0%N] ex_header (Some [1; 2; 4]%N)) = ([], Rejected e).
Proof.
  apply (ingest_tamper_unchanged ideal_verify ideal_hash (fun l => l) ideal_sign (fun x => x)
           ideal_verify_spec ideal_sign_inj (fun a b E => E) ideal_hash_inj
           (fun l => Permutation_refl l) lstore lhas (fun _ _ => None) linsert [] ex_op).
  - vm_compute. reflexivity.
  - vm_compute. reflexivity.
  - exact ex_op_valid.
  - apply (Tamper_body _ _ ex_body [1; 2; 4]%N); [reflexivity | reflexivity | reflexivity | discriminate].
Qed.
