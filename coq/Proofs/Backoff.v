(** Proofs about the discovery backoff model (Model/Backoff.v).

    Trusted assumptions (Section variables/hypotheses, premises of the closed theorems): the
    generator [R]/[sample] is arbitrary; where stated, [sample_in_range]: a draw from a
    non-empty range lies in it (proved below for the model of rand's sampler, [canon_sample],
    and for scripted draws that are in range). *)
From Coq Require Import List Arith NArith ZArith Bool Lia.
From PV Require Import Model.Backoff.
Import ListNotations.
Local Open Scope N_scope.

Section BackoffProofs.
  Variable R : Type.
  Variable sample : N -> N -> R -> N * R.
  Variable cfg : config.

  Notation state := (state R).
  Notation reset := (reset R sample cfg).
  Notation new := (new R sample cfg).
  Notation bump := (bump R sample cfg).
  Notation maybe_reset := (maybe_reset R sample cfg).
  Notation increment := (increment R sample cfg).
  Notation increment_asis := (increment_asis R sample cfg).
  Notation step := (step R sample cfg).
  Notation trace := (trace R sample cfg).

  Definition in_bounds (s : state) : Prop :=
    initial_value cfg <= value s /\ value s <= max_value cfg.

  Lemma reset_value (s : state) : value (reset s) = initial_value cfg /\ elapsed (reset s) = 0.
  Proof. unfold Backoff.reset. destruct (sample _ _ _). split; reflexivity. Qed.

  Lemma bump_clock (b : bool) (s : state) :
    elapsed (bump b s) = elapsed s /\ reset_after (bump b s) = reset_after s.
  Proof.
    unfold Backoff.bump.
    destruct (max_value cfg <? value s); [split; reflexivity|].
    destruct (value s <? max_value cfg); [|split; reflexivity].
    destruct (sample _ _ _). split; reflexivity.
  Qed.

  (** With the repair the first half of [increment] never leaves a value above the maximum,
      whatever the value was and whatever is drawn. *)
  Lemma bump_le_max (s : state) : value (bump true s) <= max_value cfg.
  Proof.
    unfold Backoff.bump.
    destruct (N.ltb_spec (max_value cfg) (value s)); [cbn [value]; lia|].
    destruct (N.ltb_spec (value s) (max_value cfg)); [|lia].
    destruct (sample _ _ _). cbn [value]. lia.
  Qed.

  Lemma bump_ge (b : bool) (s : state) :
    initial_value cfg <= max_value cfg -> initial_value cfg <= value s ->
    initial_value cfg <= value (bump b s).
  Proof.
    intros Hc Hs. unfold Backoff.bump.
    destruct (N.ltb_spec (max_value cfg) (value s)); [cbn [value]; lia|].
    destruct (N.ltb_spec (value s) (max_value cfg)); [|lia].
    destruct (sample _ _ _). cbn [value]. destruct b; lia.
  Qed.

  Lemma maybe_reset_bounds (s : state) :
    initial_value cfg <= max_value cfg -> in_bounds s -> in_bounds (maybe_reset s).
  Proof.
    intros Hc Hs. unfold Backoff.maybe_reset.
    destruct (reset_after s <=? elapsed s); [|exact Hs].
    unfold in_bounds. destruct (reset_value s) as [-> _]. lia.
  Qed.

  Lemma increment_bounds (s : state) :
    initial_value cfg <= max_value cfg -> in_bounds s -> in_bounds (increment s).
  Proof.
    intros Hc [Hlo _]. apply maybe_reset_bounds; [exact Hc|].
    split; [apply bump_ge; assumption|apply bump_le_max].
  Qed.

  Lemma step_bounds (s : state) (o : op) :
    initial_value cfg <= max_value cfg -> in_bounds s -> in_bounds (step s o).
  Proof.
    intros Hc Hs. destruct o as [| |d|delta]; cbn [Backoff.step Backoff.step_with].
    - apply increment_bounds; assumption.
    - unfold in_bounds. destruct (reset_value s) as [-> _]. lia.
    - exact Hs.
    - exact Hs.
  Qed.

  Lemma new_bounds (r : R) : initial_value cfg <= max_value cfg -> in_bounds (new r).
  Proof. intros Hc. unfold Backoff.new, in_bounds. destruct (reset_value {| value := initial_value cfg; elapsed := 0; reset_after := 0; rng := r |}) as [-> _]. lia. Qed.

  Lemma trace_bounds (ops : list op) : forall s : state,
    initial_value cfg <= max_value cfg -> in_bounds s -> Forall in_bounds (trace s ops).
  Proof.
    induction ops as [|o r IH]; intros s Hc Hs; cbn [Backoff.trace Backoff.trace_with].
    - constructor; [exact Hs|constructor].
    - constructor; [exact Hs|]. apply IH; [exact Hc|]. apply step_bounds; assumption.
  Qed.

  (** C28, bounds.  Whatever the generator answers (no assumption on [sample]), for every seed
      state, every sequence of increments, resets and passages of time: after construction and
      after every operation the delay is between the initial value and the maximum. *)
  Theorem bounds (r : R) (ops : list op) :
    initial_value cfg <= max_value cfg ->
    Forall (fun s => initial_value cfg <= value s <= max_value cfg) (trace (new r) ops).
  Proof. intros Hc. apply trace_bounds; [exact Hc|apply new_bounds; exact Hc]. Qed.

  (** C28, reset.  Once the reset interval has elapsed, the next [increment] puts the delay back
      to the initial value and starts a new interval. *)
  Theorem resets_after_interval (s : state) :
    reset_after s <= elapsed s ->
    value (increment s) = initial_value cfg /\ elapsed (increment s) = 0.
  Proof.
    intros H. unfold Backoff.increment, Backoff.maybe_reset.
    destruct (bump_clock true s) as [-> ->].
    destruct (N.leb_spec (reset_after s) (elapsed s)); [|lia].
    apply reset_value.
  Qed.

  (** ... and not before: while the interval has not elapsed, [increment] keeps the interval and
      never lowers a delay that is within bounds. *)
  Theorem no_reset_before_interval (s : state) :
    elapsed s < reset_after s -> value s <= max_value cfg ->
    reset_after (increment s) = reset_after s /\ elapsed (increment s) = elapsed s /\
    value s <= value (increment s).
  Proof.
    intros H Hm. unfold Backoff.increment, Backoff.maybe_reset.
    destruct (bump_clock true s) as [E1 E2]. rewrite E1, E2.
    destruct (N.leb_spec (reset_after s) (elapsed s)); [lia|].
    repeat split; auto.
    unfold Backoff.bump.
    destruct (N.ltb_spec (max_value cfg) (value s)); [lia|].
    destruct (N.ltb_spec (value s) (max_value cfg)); [|lia].
    destruct (sample _ _ _). cbn [value]. lia.
  Qed.

  (** The explicit [reset] does the same at any time. *)
  Theorem reset_returns_to_initial (s : state) :
    value (reset s) = initial_value cfg /\ elapsed (reset s) = 0.
  Proof. apply reset_value. Qed.

  Hypothesis sample_in_range :
    forall lo hi r, lo < hi -> lo <= fst (sample lo hi r) /\ fst (sample lo hi r) < hi.

  (** The new interval is drawn from the configured range. *)
  Theorem reset_interval_in_range (s : state) :
    min_reset cfg < max_reset cfg ->
    min_reset cfg <= reset_after (reset s) /\ reset_after (reset s) < max_reset cfg.
  Proof.
    intros H. pose proof (sample_in_range _ _ (rng s) H) as P.
    unfold Backoff.reset. destruct (sample _ _ _). exact P.
  Qed.

  (** Below the maximum and before the reset, one [increment] adds a step from the configured
      range, cut off at the maximum. *)
  Theorem increment_size (s : state) :
    min_increment cfg < max_increment cfg ->
    elapsed s < reset_after s -> value s < max_value cfg ->
    exists k, min_increment cfg <= k /\ k < max_increment cfg /\
              value (increment s) = N.min (value s + k) (max_value cfg).
  Proof.
    intros Hc H Hv. unfold Backoff.increment, Backoff.maybe_reset.
    destruct (bump_clock true s) as [E1 E2]. rewrite E1, E2.
    destruct (N.leb_spec (reset_after s) (elapsed s)); [lia|].
    pose proof (sample_in_range _ _ (rng s) Hc) as P.
    unfold Backoff.bump.
    destruct (N.ltb_spec (max_value cfg) (value s)); [lia|].
    destruct (N.ltb_spec (value s) (max_value cfg)); [|lia].
    destruct (sample _ _ _) as [k r]. cbn [fst] in P. exists k. cbn [value]. tauto.
  Qed.
End BackoffProofs.

(** * The original code: the clamp happened on the *next* call *)

Definition asis_script : list N := [60000; 4999; 4999; 4999; 4999; 4999; 4999; 4000].
Definition asis_ops : list op := [Inc; Inc; Inc; Inc; Inc; Inc; Inc].

(** Default configuration, every draw inside its configured range, no time passes: after the
    seventh increment the delay is 33 994 ms > 30 000 ms. *)
Theorem late_clamp_refuted :
  exists (script : list N) (ops : list op),
    valid default_config = true /\
    ~ Forall (fun s => value s <= max_value default_config)
        (trace_asis (list N) script_sample default_config (new (list N) script_sample default_config script) ops).
Proof.
  exists asis_script, asis_ops. split; [reflexivity|].
  intros H.
  pose proof (proj2 (Forall_map value (fun v => v <= max_value default_config) _) H) as H'.
  rewrite Forall_forall in H'.
  specialize (H' 33994).
  assert (I : In 33994 (map value (trace_asis (list N) script_sample default_config
                 (new (list N) script_sample default_config asis_script) asis_ops))).
  { vm_compute. tauto. }
  specialize (H' I). vm_compute in H'. apply H'. reflexivity.
Qed.

(** The same script on the repaired model stays within bounds (it is an instance of [bounds]). *)
Example repaired_script_in_bounds :
  map value (trace (list N) script_sample default_config (new (list N) script_sample default_config asis_script) asis_ops)
  = [0; 4999; 9998; 14997; 19996; 24995; 29994; 30000].
Proof. vm_compute. reflexivity. Qed.

(** * rand's sampler answers within the range *)

Lemma next_u64_lt (ws : list N) : fst (next_u64 ws) < two64.
Proof. destruct ws; cbn [next_u64 fst]; [reflexivity|]. apply N.mod_lt. discriminate. Qed.

Lemma next_u128_lt (ws : list N) : fst (next_u128 ws) < two128.
Proof.
  unfold next_u128.
  pose proof (next_u64_lt ws) as H1. destruct (next_u64 ws) as [lo r1]. cbn [fst] in H1.
  pose proof (next_u64_lt r1) as H2. destruct (next_u64 r1) as [hi r2]. cbn [fst] in *.
  unfold two128. nia.
Qed.

Lemma canon_in_range (lo hi : N) (ws : list N) :
  lo < hi -> lo <= fst (canon_sample lo hi ws) /\ fst (canon_sample lo hi ws) < hi.
Proof.
  intros H. unfold canon_sample.
  pose proof (next_u128_lt ws) as Hx. destruct (next_u128 ws) as [x r1]. cbn [fst] in Hx.
  set (range := hi - lo). assert (Hr : 0 < range) by (unfold range; lia).
  assert (T : two128 <> 0) by discriminate.
  pose proof (N.div_mod' (x * range) two128) as Hdm.
  pose proof (N.mod_lt (x * range) two128 T) as Hml.
  set (q := x * range / two128) in *. set (m := (x * range) mod two128) in *.
  assert (Hq : q < range).
  { apply N.div_lt_upper_bound; [exact T|]. nia. }
  destruct (N.ltb_spec (two128 - range) m) as [Hb|Hb].
  - destruct (next_u128 r1) as [x2 r2]. cbn [fst].
    assert (Hq2 : q + 1 < range).
    { (* x * range <= (two128 - 1) * range, so q = range - 1 would force m <= two128 - range *)
      assert (x * range <= two128 * range - range) by nia.
      destruct (N.lt_ge_cases (q + 1) range) as [|Hge]; [assumption|].
      assert (q = range - 1) by lia. subst q.
      assert (two128 * (range - 1) = two128 * range - two128) by nia.
      lia. }
    destruct (two128 <=? m + x2 * range / two128); unfold range in *; lia.
  - cbn [fst]. unfold range in *. lia.
Qed.

Lemma script_in_range (lo hi : N) (r : list N) :
  Forall (fun x => lo <= x < hi) r -> lo < hi ->
  lo <= fst (script_sample lo hi r) /\ fst (script_sample lo hi r) < hi.
Proof. intros F H. destruct r as [|x t]; cbn [script_sample fst]; [lia|]. inversion F; subst. assumption. Qed.

(** * Non-vacuity *)
Definition ex_words : list N :=
  [3; 9223372036854775808; 5; 13835058055282163712; 7; 4611686018427387904; 11; 4611686018427387904; 13; 0].

Example ex_run :
  map (fun s => (value s, reset_after s))
      (trace (list N) canon_sample default_config (new (list N) canon_sample default_config ex_words)
             [Inc; Adv 200000; Inc; Inc])
  = [(0, 120000); (4000, 120000); (4000, 120000); (0, 90000); (1000, 90000)].
Proof. vm_compute. reflexivity. Qed.

Example ex_valid : valid default_config = true /\ initial_value default_config <= max_value default_config.
Proof. split; [reflexivity|discriminate]. Qed.
