(** Soundness of the boolean specification used by the C01 oracle: [good_b] is exactly the
    proposition [good] of Proofs/Validate.v under the ideal instance, hence exactly "the model's
    [validate_operation] accepts". *)
From Coq Require Import List NArith Bool Arith Lia Permutation.
From PV Require Import Model.Header Model.Validate Proofs.Header Proofs.Validate Oracle.C02 Oracle.C01.
Import ListNotations.

Definition ideal_good := good ideal_hash id_order ideal_sign (fun x => x).

Lemma opt_bytes_eq_iff : forall a b, opt_bytes_eq a b = true <-> a = b.
Proof.
  intros [x|] [y|]; cbn [opt_bytes_eq]; split; intro H; try discriminate; try reflexivity.
  - apply bytes_eqb_eq in H. congruence.
  - inversion H. apply bytes_eqb_refl.
Qed.

Lemma presence_iff : forall (o : option bytes) (n : N),
  Bool.eqb (is_some o) (negb (N.eqb n 0)) = true <-> (o = None <-> n = 0%N).
Proof.
  intros [x|] n; cbn [is_some]; destruct (N.eqb_spec n 0) as [E|E]; cbn [negb Bool.eqb]; split; intro H;
    try discriminate; try reflexivity.
  - destruct H as [_ H]. specialize (H E). discriminate.
  - split; intro; [discriminate | contradiction].
  - split; intro; [assumption | reflexivity].
  - destruct H as [H _]. exfalso. apply E, H. reflexivity.
Qed.

Theorem good_b_iff : forall h body, good_b h body = true <-> ideal_good (mk_op h body).
Proof.
  intros h body. unfold good_b, ideal_good, good, good_header, authentic, payload_consistent, link_consistent, body_matches.
  cbn [mk_op op_header op_body].
  repeat rewrite andb_true_iff. rewrite !presence_iff. rewrite N.eqb_eq.
  assert (A : authentic_b h = true <-> h_sig h = Some (ideal_sign (h_pk h) (enc_header id_order (unsigned h)))).
  { unfold authentic_b. destruct (h_sig h) as [s|]; [|split; discriminate].
    rewrite bytes_eqb_eq. split; intro H; [rewrite H; reflexivity | inversion H; reflexivity]. }
  assert (B : body_matches_b h body = true <->
              (forall b, body = Some b -> h_phash h = Some (ideal_hash b) /\ h_psize h = body_size b)).
  { unfold body_matches_b. destruct body as [b|].
    - rewrite andb_true_iff, opt_bytes_eq_iff, N.eqb_eq. split.
      + intros [H1 H2] b' E. inversion E; subst. split; assumption.
      + intro H. apply H. reflexivity.
    - split; [intros _ b E; discriminate | reflexivity]. }
  rewrite A, B. tauto.
Qed.

(** The boolean specification coincides with the model's validator (by [validate_sound] /
    [validate_complete] instantiated with the ideal scheme). *)
Theorem good_b_validate : forall h body, good_b h body = true <-> v_operation (mk_op h body) = None.
Proof.
  intros h body. rewrite good_b_iff. unfold ideal_good, v_operation. split.
  - apply (validate_complete ideal_verify ideal_hash id_order ideal_sign (fun x => x) ideal_verify_spec).
  - apply (validate_sound ideal_verify ideal_hash id_order ideal_sign (fun x => x) ideal_verify_spec).
Qed.
