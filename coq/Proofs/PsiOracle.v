(** The concrete instance of Oracle/C30.v satisfies the section hypotheses of Proofs/Psi.v (so
    the theorems are not vacuous), non-trivial examples for each main theorem, and soundness of
    the boolean oracles. *)
From Coq Require Import List Arith NArith Bool String Lia.
From PV Require Import Model.Psi Proofs.Psi Oracle.C30.
Import ListNotations.

Lemma cw_eqb_refl a : cw_eqb a a = true.
Proof.
  induction a as [n|t IH sa sb b|n|]; cbn [cw_eqb].
  - apply N.eqb_refl.
  - rewrite IH, !N.eqb_refl, Bool.eqb_reflx. reflexivity.
  - apply N.eqb_refl.
  - reflexivity.
Qed.

Lemma cw_eqb_spec a b : cw_eqb a b = true <-> a = b.
Proof.
  split; [|intros ->; apply cw_eqb_refl].
  revert b; induction a as [n|t IH sa sb d|n|]; intros [n'|t' sa' sb' d'|n'|]; cbn [cw_eqb]; try discriminate.
  - intros E. apply N.eqb_eq in E. subst. reflexivity.
  - rewrite !andb_true_iff. intros [[[E1 E2] E3] E4].
    apply IH in E1. apply N.eqb_eq in E2, E3. apply Bool.eqb_prop in E4. subst. reflexivity.
  - intros E. apply N.eqb_eq in E. subst. reflexivity.
  - reflexivity.
Qed.

Lemma cH_inj (s : salt N) t1 t2 : cH t1 s = cH t2 s -> t1 = t2.
Proof. destruct s as [[sa sb] b]. cbn [cH]. intros E. inversion E. reflexivity. Qed.

Lemma cH_not_raw t (s : salt N) : ~ cw_raw (cH t s).
Proof. destruct s as [[sa sb] b]. cbn [cH cw_raw]. tauto. Qed.

(** The instantiated theorems (what the model lines of the correspondence run are instances of). *)
Definition inst_both_get_intersection :=
  both_get_intersection cw N cw_eqb cw_eqb_spec cH cH_inj.
Definition inst_no_raw_topic_in_messages :=
  no_raw_topic_in_messages cw N cw_eqb cw_eqb_spec cH cw_raw cH_not_raw.
Definition inst_restricted_sharing_scope :=
  restricted_sharing_scope cw N cw_eqb cw_eqb_spec cH cH_inj.

(** * Non-vacuity: a session with a non-empty, proper intersection, a restricted Bob whose book
      holds a node of a common topic (shared), one of a private topic (withheld), a stale one and
      himself. *)
Definition ex_pa := alice_party true [1; 2; 7]%N [(0, false, Some 10, [1])%N].
Definition ex_pb := bob_party true [2; 3; 7]%N
  [(1, false, Some 11, [2; 3])%N; (2, false, Some 12, [7])%N; (3, false, Some 13, [3])%N; (4, true, Some 14, [2])%N].

Example ex_session :
  model_honest true true [1; 2; 7]%N [2; 3; 7]%N
     [(0, false, Some 10, [1])%N]
     [(1, false, Some 11, [2; 3])%N; (2, false, Some 12, [7])%N; (3, false, Some 13, [3])%N; (4, true, Some 14, [2])%N]
  = "ok 2,7 / 1=11,2=12 / 1 | ok 2,7 / 0=10 / 0 | a>S1 ; b>S2 h1.2,h1.3,h1.7 ; a>H3 h0.1,h0.2,h0.7 ; b>N 1=11,2=12 ; a>N 0=10 | leaks -"%string.
Proof. vm_compute. reflexivity. Qed.

Example ex_topics_raw : Forall cw_raw (p_topics cw ex_pa) /\ Forall cw_raw (p_topics cw ex_pb).
Proof. split; repeat constructor. Qed.

Example ex_restricted : p_restricted cw ex_pa = true /\ p_restricted cw ex_pb = true.
Proof. split; reflexivity. Qed.

(** The message-order theorems are not vacuous either: a script that fails in the middle. *)
Example ex_out_of_order :
  model_script false true [1; 2]%N [] [IS1; INodes []; IH3 []] None = "err UnexpectedMessage | b>S2 h1.1,h1.2 | leaks -"%string.
Proof. vm_compute. reflexivity. Qed.

(** * Soundness of the oracle pieces *)
Lemma memw_In w l : memw w l = true <-> In w l.
Proof. apply (mem_In cw cw_eqb cw_eqb_spec). Qed.

Lemma subset_spec a b : subset a b = true <-> forall w, In w a -> In w b.
Proof.
  unfold subset. rewrite forallb_forall. split; intros Hs w Hin; apply memw_In; apply Hs; exact Hin.
Qed.

Lemma set_eq_spec a b : set_eq a b = true <-> forall w, In w a <-> In w b.
Proof.
  unfold set_eq. rewrite andb_true_iff, !subset_spec. split.
  - intros [H1 H2] w. split; auto.
  - intros Hs. split; intros w; apply Hs.
Qed.

Lemma inter_spec_In ta tb w : In w (inter_spec ta tb) <-> In w (map Raw ta) /\ In w (map Raw tb).
Proof.
  unfold inter_spec. rewrite !in_map_iff. split.
  - intros [t [<- Hin]]. apply filter_In in Hin. destruct Hin as [Ha Hb].
    apply existsb_exists in Hb. destruct Hb as [t' [Hb E]]. apply N.eqb_eq in E. subst t'.
    split; exists t; auto.
  - intros [[t [<- Ha]] [t' [E Hb]]]. inversion E; subst t'. exists t. split; [reflexivity|].
    apply filter_In. split; [exact Ha|]. apply existsb_exists. exists t. split; [exact Hb|apply N.eqb_refl].
Qed.

Lemma no_raw_words_spec ms :
  no_raw_words ms = true -> forall m, In m ms -> forall t, cw_raw t -> ~ occurs cw N t m.
Proof.
  unfold no_raw_words, occurs. rewrite forallb_forall. intros Hall m Hm t Hraw Hocc.
  specialize (Hall m Hm). rewrite forallb_forall in Hall. specialize (Hall t Hocc).
  destruct t; cbn in *; try discriminate; tauto.
Qed.

Lemma optN_eqb_spec a b : optN_eqb a b = true <-> a = b.
Proof.
  destruct a, b; cbn [optN_eqb]; split; intros E; try discriminate; try reflexivity.
  - apply N.eqb_eq in E. subst. reflexivity.
  - inversion E. apply N.eqb_refl.
Qed.

Lemma in_scope_b_spec me book common id tr :
  in_scope_b me book common (id, tr) = true ->
  exists n, In n book /\ nid cw n = id /\ ntransport cw n = Some tr /\
            (id = me \/ (nstale cw n = false /\ exists t, In t (ntopics cw n) /\ In t common)).
Proof.
  unfold in_scope_b. cbn [fst snd]. rewrite existsb_exists. intros [n [Hin Hb]].
  rewrite !andb_true_iff, orb_true_iff in Hb. destruct Hb as [[Hid Htr] Hsc].
  apply N.eqb_eq in Hid. apply optN_eqb_spec in Htr. exists n. repeat (split; [assumption|]).
  destruct Hsc as [Hme|Hc].
  - left. apply N.eqb_eq. exact Hme.
  - right. rewrite andb_true_iff, negb_true_iff, existsb_exists in Hc. destruct Hc as [Hs [t [Ht Hm]]].
    split; [exact Hs|]. exists t. split; [exact Ht|]. apply memw_In. exact Hm.
Qed.

Lemma scope_ok_spec me book common ms :
  scope_ok true me book common ms = true ->
  forall m id tr, In m ms -> In (id, tr) (infos_of cw N m) ->
  exists n, In n book /\ nid cw n = id /\ ntransport cw n = Some tr /\
            (id = me \/ (nstale cw n = false /\ exists t, In t (ntopics cw n) /\ In t common)).
Proof.
  unfold scope_ok. rewrite forallb_forall. intros Hall m id tr Hm Hin.
  specialize (Hall m Hm). rewrite forallb_forall in Hall. apply in_scope_b_spec. apply Hall. exact Hin.
Qed.

(** What [check_honest = true] on an observation means: the three parts of C30, stated on the
    observed results / messages of the two real sides. *)
Theorem check_honest_sound ra rb ta tb bookA bookB oa ob sa sb leaks :
  check_honest ra rb ta tb bookA bookB oa ob sa sb leaks = true ->
  exists rA rB,
    oa = Done rA /\ ob = Done rB /\
    (forall t, In t (res_topics cw rA) <-> In t (map Raw ta) /\ In t (map Raw tb)) /\
    (forall t, In t (res_topics cw rB) <-> In t (map Raw ta) /\ In t (map Raw tb)) /\
    leaks = 0 /\
    (forall m, In m (sa ++ sb) -> forall t, cw_raw t -> ~ occurs cw N t m) /\
    (ra = true -> forall m id tr, In m sa -> In (id, tr) (infos_of cw N m) ->
       in_scope cw (alice_party ra ta bookA) (bob_party rb tb bookB) id tr) /\
    (rb = true -> forall m id tr, In m sb -> In (id, tr) (infos_of cw N m) ->
       in_scope cw (bob_party rb tb bookB) (alice_party ra ta bookA) id tr).
Proof.
  unfold check_honest. destruct oa as [rA|]; [|discriminate]. destruct ob as [rB|]; [|discriminate].
  rewrite !andb_true_iff.
  intros [[[[[[[[[[HtA HtB] Hl] HrA] HrB] HsA] HsB] _] _] _] _].
  exists rA, rB. split; [reflexivity|]. split; [reflexivity|].
  rewrite set_eq_spec in HtA, HtB.
  split; [intros t; rewrite HtA; apply inter_spec_In|].
  split; [intros t; rewrite HtB; apply inter_spec_In|].
  split; [apply Nat.eqb_eq; exact Hl|].
  split.
  { intros m Hm. apply in_app_iff in Hm.
    destruct Hm as [Hm|Hm]; [exact (no_raw_words_spec sa HrA m Hm)|exact (no_raw_words_spec sb HrB m Hm)]. }
  split.
  - intros -> m id tr Hm Hin. destruct (scope_ok_spec _ _ _ _ HsA m id tr Hm Hin) as [n [Hb [Hid [Htr Hsc]]]].
    exists n. cbn [alice_party bob_party p_book p_me p_topics]. repeat (split; [assumption|]).
    destruct Hsc as [->|[Hs [t [Ht Hc]]]]; [left; reflexivity|right]. split; [exact Hs|].
    exists t. apply inter_spec_In in Hc. tauto.
  - intros -> m id tr Hm Hin. destruct (scope_ok_spec _ _ _ _ HsB m id tr Hm Hin) as [n [Hb [Hid [Htr Hsc]]]].
    exists n. cbn [alice_party bob_party p_book p_me p_topics]. repeat (split; [assumption|]).
    destruct Hsc as [->|[Hs [t [Ht Hc]]]]; [left; reflexivity|right]. split; [exact Hs|].
    exists t. apply inter_spec_In in Hc. tauto.
Qed.

(** What [check_script = true] means: the observed outcome is the one the message-order
    specification demands (or [Sink] when the sink takes fewer messages than the side would
    send), and nothing raw was sent. *)
Theorem check_script_sound alice r ts book script sink o sent leaks :
  check_script alice r ts book script sink o sent leaks = true ->
  let spec := expect cw N (if alice then alice_expects else bob_expects)
                     (map (to_rx (if alice then 1 else 0)%N) script) 0 in
  let want := if alice then S (snd spec) else Nat.min 2 (snd spec) in
  let k := match sink with Some k => k | None => 3 end in
  (want <= k -> outcome_err cw o = fst spec /\ List.length sent = want) /\
  (k < want -> outcome_err cw o = Some SinkErr /\ List.length sent = k) /\
  leaks = 0 /\
  (forall m, In m sent -> forall t, cw_raw t -> ~ occurs cw N t m).
Proof.
  unfold check_script.
  destruct (expect cw N (if alice then alice_expects else bob_expects) (map (to_rx (if alice then 1%N else 0%N)) script) 0) as [e n] eqn:E.
  cbn [fst snd].
  set (want := if alice then S n else Nat.min 2 n).
  set (k := match sink with Some k => k | None => 3 end).
  rewrite !andb_true_iff. intros [[[[Ho _] Hl] Hr] _].
  assert (Herr : forall x, err_eqb (outcome_err_b o) x = true -> outcome_err cw o = x).
  { intros x. destruct o as [res|[| |]]; destruct x as [[| |]|]; cbn; try discriminate; reflexivity. }
  destruct (Nat.leb_spec want k) as [Hle|Hgt]; apply andb_true_iff in Ho; destruct Ho as [He Hlen];
    apply Nat.eqb_eq in Hlen; apply Herr in He.
  - split; [intros _; split; assumption|]. split; [intros Hc; lia|].
    split; [apply Nat.eqb_eq; exact Hl|]. apply no_raw_words_spec. exact Hr.
  - split; [intros Hc; lia|]. split; [intros _; split; assumption|].
    split; [apply Nat.eqb_eq; exact Hl|]. apply no_raw_words_spec. exact Hr.
Qed.
