(** Proofs about the de-duplication buffer model. *)
From Coq Require Import List Arith NArith Bool Lia Permutation.
From PV Require Import Model.Dedup.
Import ListNotations.

Lemma tl_skipn {A} (n : nat) (l : list A) : tl (skipn n l) = skipn (S n) l.
Proof.
  revert l; induction n as [|n IH]; intros [|a l]; try reflexivity.
  change (skipn (S n) (a :: l)) with (skipn n l).
  change (skipn (S (S n)) (a :: l)) with (skipn (S n) l).
  apply IH.
Qed.

Lemma lastn_length {A} (n : nat) (l : list A) : length (lastn n l) = Nat.min n (length l).
Proof. unfold lastn. rewrite skipn_length. lia. Qed.

Lemma lastn_all {A} (n : nat) (l : list A) : length l <= n -> lastn n l = l.
Proof. intros H. unfold lastn. replace (length l - n) with 0 by lia. reflexivity. Qed.

(** The one-step fact everything rests on: appending to the history and keeping the last [c]
    is what the ring buffer does (evict the front iff full). *)
Lemma lastn_snoc (c : nat) (acc : list N) (x : N) :
  1 <= c ->
  lastn c (acc ++ [x]) =
  (if Nat.ltb c (length (lastn c acc) + 1) then tl (lastn c acc) else lastn c acc) ++ [x].
Proof.
  intros Hc. rewrite lastn_length.
  destruct (Nat.ltb_spec c (Nat.min c (length acc) + 1)) as [Hfull|Hroom].
  - (* full: length acc >= c *)
    assert (Hlen : c <= length acc) by lia.
    unfold lastn. rewrite tl_skipn, app_length. cbn [length].
    rewrite skipn_app.
    replace (length acc + 1 - c) with (S (length acc - c)) by lia.
    replace (S (length acc - c) - length acc) with 0 by lia.
    reflexivity.
  - assert (Hlen : length acc + 1 <= c) by lia.
    rewrite (lastn_all c acc) by lia.
    apply lastn_all. rewrite app_length. cbn [length]. lia.
Qed.

(** Invariant: the buffer holds exactly the last [cap] entries of the accepted history. *)
Definition Inv (b : buf) (acc : list N) : Prop := items b = lastn (cap b) acc.

Lemma insert_cap b x : cap (fst (insert b x)) = cap b.
Proof. unfold insert. destruct (memN x (items b)); reflexivity. Qed.

Lemma run_spec :
  forall xs b acc,
    1 <= cap b -> Inv b acc ->
    Inv (fst (run b xs)) (fst (spec_run (cap b) acc xs)) /\
    snd (run b xs) = snd (spec_run (cap b) acc xs) /\
    cap (fst (run b xs)) = cap b.
Proof.
  induction xs as [|x xs IH]; intros b acc Hc HI.
  - cbn [run spec_run fst snd]. auto.
  - cbn [run spec_run].
    unfold insert. rewrite <- HI.
    destruct (memN x (items b)) eqn:Hmem.
    + specialize (IH b acc Hc HI).
      destruct (run b xs) as [b2 oks]. destruct (spec_run (cap b) acc xs) as [a soks].
      cbn [fst snd] in *. destruct IH as (I1 & I2 & I3). rewrite I2. auto.
    + set (b1 := {| items := (if Nat.ltb (cap b) (length (items b) + 1)
                               then tl (items b) else items b) ++ [x]; cap := cap b |}).
      assert (HI1 : Inv b1 (acc ++ [x])).
      { unfold Inv in *. unfold b1. cbn [items cap]. rewrite lastn_snoc by exact Hc.
        rewrite HI. reflexivity. }
      specialize (IH b1 (acc ++ [x]) Hc HI1).
      change (cap b1) with (cap b) in IH.
      destruct (run b1 xs) as [b2 oks]. destruct (spec_run (cap b) (acc ++ [x]) xs) as [a soks].
      cbn [fst snd] in *. destruct IH as (I1 & I2 & I3). rewrite I2. auto.
Qed.

Theorem content_is_lastn (c : nat) (xs : list N) :
  1 <= c ->
  items (fst (run (new c) xs)) = lastn c (fst (spec_run c [] xs)) /\
  snd (run (new c) xs) = snd (spec_run c [] xs).
Proof.
  intros Hc.
  destruct (run_spec xs (new c) [] Hc eq_refl) as (I1 & I2 & I3).
  unfold Inv in I1. rewrite I3 in I1. split; assumption.
Qed.

Theorem never_exceeds_capacity (c : nat) (xs : list N) :
  1 <= c -> length (items (fst (run (new c) xs))) <= c.
Proof.
  intros Hc. destruct (content_is_lastn c xs Hc) as [H _]. rewrite H, lastn_length. lia.
Qed.

(** The accepted history never repeats an item inside any window of [c]; in particular the
    buffer has no duplicates. *)
Lemma memN_false_notin x l : memN x l = false -> ~ In x l.
Proof.
  unfold memN. intros H Hin.
  assert (existsb (N.eqb x) l = true) as E.
  { apply existsb_exists. exists x. split; [exact Hin | apply N.eqb_refl]. }
  congruence.
Qed.

Lemma memN_true_in x l : memN x l = true -> In x l.
Proof.
  unfold memN. intros H. apply existsb_exists in H. destruct H as (y & Hy & E).
  apply N.eqb_eq in E. subst. exact Hy.
Qed.

Lemma insert_nodup b x : NoDup (items b) -> NoDup (items (fst (insert b x))).
Proof.
  intros Hnd. unfold insert. destruct (memN x (items b)) eqn:Hmem; cbn [fst items]; [exact Hnd|].
  apply memN_false_notin in Hmem.
  assert (Hk : forall l : list N, NoDup l -> ~ In x l -> NoDup (l ++ [x])).
  { intros l Hl Hx.
    apply Permutation_NoDup with (l := x :: l).
    - apply Permutation_cons_append.
    - constructor; assumption. }
  destruct (Nat.ltb (cap b) (length (items b) + 1)).
  - apply Hk.
    + destruct (items b) as [|a l]; [constructor|]. inversion Hnd; assumption.
    + intros Hin. apply Hmem. destruct (items b); [exact Hin | right; exact Hin].
  - apply Hk; assumption.
Qed.

Theorem buffer_nodup (c : nat) (xs : list N) : NoDup (items (fst (run (new c) xs))).
Proof.
  assert (H : forall xs b, NoDup (items b) -> NoDup (items (fst (run b xs)))).
  { clear. induction xs as [|x xs IH]; intros b Hb; cbn [run fst]; [exact Hb|].
    pose proof (insert_nodup b x Hb) as H1.
    destruct (insert b x) as [b1 ok]. cbn [fst] in H1.
    specialize (IH b1 H1). destruct (run b1 xs) as [b2 oks]. exact IH. }
  apply H. constructor.
Qed.

(** Non-vacuity: a concrete run with eviction and a late re-acceptance of an evicted item. *)
Example dedup_example :
  run (new 2) [1; 2; 1; 3; 1]%N = ({| items := [3; 1]%N; cap := 2 |}, [true; true; false; true; true]).
Proof. reflexivity. Qed.
