(** Proofs about the group CRDT model (C31): merge is ACI without conditions, merging a set of
    states does not depend on the iteration order, the per-operation state is a function of the
    operation's causal history, hence any two causal processing orders converge; the members
    traversal does not depend on map iteration order. *)
From Coq Require Import List NArith Bool Lia Permutation.
From PV Require Import Lib.AListC31 Model.GroupCrdt.
Import ListNotations.

(** * Keys *)
Lemma member_eqb_spec (a b : member) : reflect (a = b) (member_eqb a b).
Proof.
  destruct a as [ga ia], b as [gb ib]. unfold member_eqb. cbn [fst snd].
  destruct (Bool.eqb_spec ga gb) as [->|Hg]; cbn [andb].
  - destruct (N.eqb_spec ia ib) as [->|Hi]; constructor; congruence.
  - constructor; congruence.
Qed.

Lemma key_eqb_spec (a b : key) : reflect (a = b) (key_eqb a b).
Proof.
  destruct a as [ga ma], b as [gb mb]. unfold key_eqb. cbn [fst snd].
  destruct (N.eqb_spec ga gb) as [->|Hg]; cbn [andb].
  - destruct (member_eqb_spec ma mb) as [->|Hm]; constructor; congruence.
  - constructor; congruence.
Qed.

Lemma glookup_gset k' k v s :
  glookup k' (gset k v s) = if key_eqb k' k then Some v else glookup k' s.
Proof. apply lookup_set. exact key_eqb_spec. Qed.

Lemma wf_gset k v (s : gstate) : wf s -> wf (gset k v s).
Proof. apply wf_set. exact key_eqb_spec. Qed.

(** * Access without conditions *)
Definition nc (a : access) : Prop := cond a = None.
Definition mnc (v : mstate) : Prop := nc (acc v).

Lemma acc_lt_nc a b : nc a -> nc b -> acc_lt a b = N.ltb (lvl_n (lvl a)) (lvl_n (lvl b)).
Proof.
  unfold nc, acc_lt, acc_cmp, lvl_cmp, N.ltb. intros -> ->. reflexivity.
Qed.

Lemma acc_le_nc a b : nc a -> nc b -> acc_le a b = N.leb (lvl_n (lvl a)) (lvl_n (lvl b)).
Proof.
  unfold nc, acc_le, acc_cmp, lvl_cmp, N.leb. intros -> ->.
  destruct (lvl_n (lvl a) ?= lvl_n (lvl b))%N; reflexivity.
Qed.

Lemma lvl_n_inj l1 l2 : lvl_n l1 = lvl_n l2 -> l1 = l2.
Proof. destruct l1, l2; cbn; intros H; try reflexivity; discriminate. Qed.

Lemma nc_eq a b : nc a -> nc b -> lvl_n (lvl a) = lvl_n (lvl b) -> a = b.
Proof.
  destruct a as [ca la], b as [cb lb]. unfold nc. cbn [cond lvl]. intros -> -> H.
  apply lvl_n_inj in H. subst. reflexivity.
Qed.

(** * [combine] is "take the better of the two" *)
Definition L (v : mstate) : N := lvl_n (lvl (acc v)).

Definition better (v1 v2 : mstate) : bool :=
  N.ltb (mc v2) (mc v1) ||
  (N.eqb (mc v1) (mc v2) &&
   (N.ltb (ac v2) (ac v1) || (N.eqb (ac v1) (ac v2) && N.ltb (L v1) (L v2)))).

Definition cmb (v1 v2 : mstate) : mstate := if better v1 v2 then v1 else v2.

Lemma better_true v1 v2 :
  better v1 v2 = true <->
  (mc v2 < mc v1 \/ (mc v1 = mc v2 /\ (ac v2 < ac v1 \/ (ac v1 = ac v2 /\ L v1 < L v2))))%N.
Proof.
  unfold better.
  rewrite orb_true_iff, andb_true_iff, orb_true_iff, andb_true_iff.
  rewrite !N.ltb_lt, !N.eqb_eq. tauto.
Qed.

Lemma better_false v1 v2 :
  better v1 v2 = false <->
  ~ (mc v2 < mc v1 \/ (mc v1 = mc v2 /\ (ac v2 < ac v1 \/ (ac v1 = ac v2 /\ L v1 < L v2))))%N.
Proof. rewrite <- better_true. destruct (better v1 v2); split; congruence. Qed.

Lemma mstate_eta v : {| mc := mc v; acc := acc v; ac := ac v |} = v.
Proof. destruct v; reflexivity. Qed.

Lemma combine_cmb v1 v2 : mnc v1 -> mnc v2 -> combine v1 v2 = cmb v1 v2.
Proof.
  intros H1 H2. unfold cmb.
  destruct (better v1 v2) eqn:E.
  - apply better_true in E. unfold combine.
    destruct (N.ltb_spec (mc v2) (mc v1)) as [Hm|Hm].
    + cbn [mc ac acc]. rewrite N.eqb_refl, N.ltb_irrefl, N.eqb_refl.
      rewrite acc_lt_nc by assumption. rewrite N.ltb_irrefl. cbn [andb]. apply mstate_eta.
    + destruct E as [E|[Em E]]; [lia|].
      rewrite Em, N.eqb_refl.
      destruct (N.ltb_spec (ac v2) (ac v1)) as [Ha|Ha].
      * cbn [mc ac acc]. rewrite N.eqb_refl, acc_lt_nc by assumption.
        rewrite N.ltb_irrefl. cbn [andb]. rewrite <- Em. apply mstate_eta.
      * destruct E as [E|[Ea E]]; [lia|].
        rewrite Ea, N.eqb_refl, acc_lt_nc by assumption.
        unfold L in E. apply N.ltb_lt in E. rewrite E. cbn [andb].
        rewrite <- Em, <- Ea. apply mstate_eta.
  - apply better_false in E. unfold combine.
    destruct (N.ltb_spec (mc v2) (mc v1)) as [Hm|Hm]; [exfalso; apply E; left; exact Hm|].
    destruct (N.eqb_spec (mc v1) (mc v2)) as [Em|Em]; [|reflexivity].
    destruct (N.ltb_spec (ac v2) (ac v1)) as [Ha|Ha]; [exfalso; apply E; right; split; [exact Em|left; exact Ha]|].
    destruct (N.eqb_spec (ac v1) (ac v2)) as [Ea|Ea]; [|reflexivity].
    rewrite acc_lt_nc by assumption.
    destruct (N.ltb_spec (lvl_n (lvl (acc v1))) (lvl_n (lvl (acc v2)))) as [Hl|Hl]; [|reflexivity].
    exfalso. apply E. right. split; [exact Em|]. right. split; [exact Ea|exact Hl].
Qed.

Lemma mstate_ext v1 v2 :
  mnc v1 -> mnc v2 -> mc v1 = mc v2 -> ac v1 = ac v2 -> L v1 = L v2 -> v1 = v2.
Proof.
  destruct v1 as [m1 a1 c1], v2 as [m2 a2 c2]. unfold mnc, L. cbn [mc acc ac].
  intros N1 N2 -> -> Hl. f_equal. apply nc_eq; assumption.
Qed.

Lemma cmb_comm v1 v2 : mnc v1 -> mnc v2 -> cmb v1 v2 = cmb v2 v1.
Proof.
  intros N1 N2. unfold cmb.
  destruct (better v1 v2) eqn:E1, (better v2 v1) eqn:E2; try reflexivity.
  - apply better_true in E1. apply better_true in E2. lia.
  - apply better_false in E1. apply better_false in E2.
    symmetry. apply mstate_ext; try assumption; lia.
Qed.

Lemma cmb_assoc v1 v2 v3 : cmb v1 (cmb v2 v3) = cmb (cmb v1 v2) v3.
Proof.
  unfold cmb.
  destruct (better v2 v3) eqn:E23, (better v1 v2) eqn:E12; try rewrite E23; try rewrite E12;
    try reflexivity.
  - (* v2 beats v3, v1 beats v2: v1 beats v3 *)
    destruct (better v1 v3) eqn:E13; [reflexivity|].
    apply better_true in E23. apply better_true in E12. apply better_false in E13. lia.
  - (* v3 >= v2 >= v1 : v1 does not beat v3 *)
    destruct (better v1 v3) eqn:E13; [|reflexivity].
    apply better_false in E23. apply better_false in E12. apply better_true in E13. lia.
Qed.

Lemma cmb_idem v : cmb v v = v.
Proof. unfold cmb. destruct (better v v); reflexivity. Qed.

Lemma cmb_mnc v1 v2 : mnc v1 -> mnc v2 -> mnc (cmb v1 v2).
Proof. unfold cmb. destruct (better v1 v2); auto. Qed.

Lemma combine_mnc v1 v2 : mnc v1 -> mnc v2 -> mnc (combine v1 v2).
Proof. intros. rewrite combine_cmb by assumption. apply cmb_mnc; assumption. Qed.

Lemma combine_comm v1 v2 : mnc v1 -> mnc v2 -> combine v1 v2 = combine v2 v1.
Proof. intros. rewrite !combine_cmb by assumption. apply cmb_comm; assumption. Qed.

Lemma combine_assoc v1 v2 v3 :
  mnc v1 -> mnc v2 -> mnc v3 -> combine v1 (combine v2 v3) = combine (combine v1 v2) v3.
Proof.
  intros N1 N2 N3.
  rewrite (combine_cmb v2 v3), (combine_cmb v1 v2) by assumption.
  rewrite !combine_cmb by (try apply cmb_mnc; assumption).
  apply cmb_assoc.
Qed.

Lemma combine_idem v : mnc v -> combine v v = v.
Proof. intros. rewrite combine_cmb by assumption. apply cmb_idem. Qed.

(** * [gmerge] pointwise *)
Definition ocomb (a b : option mstate) : option mstate :=
  match a, b with
  | Some x, Some y => Some (combine x y)
  | Some x, None => Some x
  | None, y => y
  end.

Definition gmerge_step (cur : gstate) (e : key * mstate) : gstate :=
  match glookup (fst e) cur with
  | Some v2 => gset (fst e) (combine (snd e) v2) cur
  | None => gset (fst e) (snd e) cur
  end.

Lemma gmerge_fold s1 s2 : gmerge s1 s2 = fold_left gmerge_step s1 s2.
Proof. reflexivity. Qed.

Lemma glookup_gmerge_step k cur e :
  glookup k (gmerge_step cur e) =
  if key_eqb k (fst e) then ocomb (Some (snd e)) (glookup (fst e) cur) else glookup k cur.
Proof.
  unfold gmerge_step. destruct (glookup (fst e) cur) eqn:E; rewrite glookup_gset; reflexivity.
Qed.

Lemma wf_gmerge_step cur e : wf cur -> wf (gmerge_step cur e).
Proof. unfold gmerge_step. destruct (glookup (fst e) cur); apply wf_gset. Qed.

Lemma wf_gmerge s1 s2 : wf s2 -> wf (gmerge s1 s2).
Proof.
  rewrite gmerge_fold. revert s2. induction s1 as [|e r IH]; intros s2 H; cbn [fold_left].
  - exact H.
  - apply IH. apply wf_gmerge_step. exact H.
Qed.

Lemma glookup_cons k k1 v1 (r : gstate) :
  glookup k ((k1, v1) :: r) = if key_eqb k k1 then Some v1 else glookup k r.
Proof. reflexivity. Qed.

Lemma glookup_gmerge k s1 s2 :
  wf s1 -> glookup k (gmerge s1 s2) = ocomb (glookup k s1) (glookup k s2).
Proof.
  rewrite gmerge_fold. revert s2. induction s1 as [|[k1 v1] r IH]; intros s2 W; cbn [fold_left].
  - reflexivity.
  - inversion W as [|? ? Hn Hr]; subst.
    rewrite IH by exact Hr. rewrite glookup_gmerge_step, glookup_cons. cbn [fst snd].
    destruct (key_eqb_spec k k1) as [->|Hne].
    + assert (E : glookup k1 r = None).
      { apply (notin_lookup_none key_eqb key_eqb_spec). exact Hn. }
      rewrite E. cbn [ocomb]. destruct (glookup k1 s2); reflexivity.
    + reflexivity.
Qed.

(** Extensional equality of group states, "no conditions anywhere", and their preservation. *)
Definition geq (s s' : gstate) : Prop := forall k, glookup k s = glookup k s'.
Definition gnc (s : gstate) : Prop := forall k v, glookup k s = Some v -> mnc v.
Definition onc (o : option mstate) : Prop := forall v, o = Some v -> mnc v.

Lemma geq_refl s : geq s s.
Proof. intros k; reflexivity. Qed.
Lemma geq_sym s s' : geq s s' -> geq s' s.
Proof. intros H k; symmetry; apply H. Qed.
Lemma geq_trans s1 s2 s3 : geq s1 s2 -> geq s2 s3 -> geq s1 s3.
Proof. intros H1 H2 k; rewrite H1; apply H2. Qed.

Lemma gnc_geq s s' : geq s s' -> gnc s -> gnc s'.
Proof. intros E H k v Hk. apply (H k). rewrite E. exact Hk. Qed.

Lemma gnc_nil : gnc [].
Proof. intros k v H. discriminate. Qed.

Lemma onc_glookup k s : gnc s -> onc (glookup k s).
Proof. intros H v Hv. exact (H k v Hv). Qed.

Lemma ocomb_onc a b : onc a -> onc b -> onc (ocomb a b).
Proof.
  intros Ha Hb v. destruct a as [x|], b as [y|]; cbn [ocomb]; intros E; inversion E; subst.
  - apply combine_mnc; [apply Ha|apply Hb]; reflexivity.
  - apply Ha; reflexivity.
  - apply Hb; reflexivity.
Qed.

Lemma ocomb_comm a b : onc a -> onc b -> ocomb a b = ocomb b a.
Proof.
  intros Ha Hb. destruct a as [x|], b as [y|]; cbn [ocomb]; try reflexivity.
  f_equal. apply combine_comm; [apply Ha|apply Hb]; reflexivity.
Qed.

Lemma ocomb_assoc a b c : onc a -> onc b -> onc c -> ocomb a (ocomb b c) = ocomb (ocomb a b) c.
Proof.
  intros Ha Hb Hc. destruct a as [x|], b as [y|], c as [z|]; cbn [ocomb]; try reflexivity.
  f_equal. apply combine_assoc; [apply Ha|apply Hb|apply Hc]; reflexivity.
Qed.

Lemma ocomb_idem a : onc a -> ocomb a a = a.
Proof. intros Ha. destruct a as [x|]; cbn [ocomb]; [|reflexivity]. f_equal. apply combine_idem. apply Ha; reflexivity. Qed.

Lemma ocomb_lcomm a b c : onc a -> onc b -> onc c -> ocomb a (ocomb b c) = ocomb b (ocomb a c).
Proof.
  intros Ha Hb Hc.
  rewrite (ocomb_assoc a b c), (ocomb_assoc b a c) by assumption.
  rewrite (ocomb_comm a b) by assumption. reflexivity.
Qed.

Lemma gnc_gmerge s1 s2 : wf s1 -> gnc s1 -> gnc s2 -> gnc (gmerge s1 s2).
Proof.
  intros W H1 H2 k v Hk. rewrite glookup_gmerge in Hk by exact W.
  revert v Hk. apply ocomb_onc; apply onc_glookup; assumption.
Qed.

Lemma gmerge_cong s1 s1' s2 s2' :
  wf s1 -> wf s1' -> geq s1 s1' -> geq s2 s2' -> geq (gmerge s1 s2) (gmerge s1' s2').
Proof. intros W W' E1 E2 k. rewrite !glookup_gmerge by assumption. rewrite E1, E2. reflexivity. Qed.

(** ** merge is commutative, associative, idempotent (no conditions) *)
Theorem gmerge_comm s1 s2 :
  wf s1 -> wf s2 -> gnc s1 -> gnc s2 -> geq (gmerge s1 s2) (gmerge s2 s1).
Proof.
  intros W1 W2 N1 N2 k. rewrite !glookup_gmerge by assumption.
  apply ocomb_comm; apply onc_glookup; assumption.
Qed.

Theorem gmerge_assoc s1 s2 s3 :
  wf s1 -> wf s2 -> wf s3 -> gnc s1 -> gnc s2 -> gnc s3 ->
  geq (gmerge s1 (gmerge s2 s3)) (gmerge (gmerge s1 s2) s3).
Proof.
  intros W1 W2 W3 N1 N2 N3 k.
  rewrite !glookup_gmerge by (try apply wf_gmerge; assumption).
  apply ocomb_assoc; apply onc_glookup; assumption.
Qed.

Theorem gmerge_idem s : wf s -> gnc s -> geq (gmerge s s) s.
Proof.
  intros W N k. rewrite glookup_gmerge by assumption. apply ocomb_idem. apply onc_glookup; assumption.
Qed.

Example gmerge_hyps_satisfiable :
  let s := [((100, (false, 0)), {| mc := 1; acc := {| cond := None; lvl := Manage |}; ac := 0 |});
            ((100, (false, 1)), {| mc := 3; acc := {| cond := None; lvl := Read |}; ac := 2 |})]%N in
  wf s /\ gnc s.
Proof.
  split.
  - repeat constructor; cbn; intuition discriminate.
  - intros k v. unfold glookup. cbn [lookup].
    destruct (key_eqb k (100%N, (false, 0%N))); [intros E; inversion E; reflexivity|].
    destruct (key_eqb k (100%N, (false, 1%N))); [intros E; inversion E; reflexivity|discriminate].
Qed.

(** * Merging a collection of states: the iteration order does not matter *)
Definition olist (k : key) (l : list gstate) : list (option mstate) := map (glookup k) l.
Definition ofold (l : list (option mstate)) (init : option mstate) : option mstate :=
  fold_left (fun c o => ocomb o c) l init.

Lemma glookup_fold_merge k l : forall init,
  Forall wf l ->
  glookup k (fold_left (fun cur s => gmerge s cur) l init) = ofold (olist k l) (glookup k init).
Proof.
  induction l as [|s r IH]; intros init W; cbn [fold_left olist map ofold].
  - reflexivity.
  - inversion W; subst. rewrite IH by assumption. rewrite glookup_gmerge by assumption. reflexivity.
Qed.

Lemma glookup_merge_list k l : Forall wf l -> glookup k (merge_list l) = ofold (olist k l) None.
Proof. intros W. unfold merge_list. rewrite glookup_fold_merge by exact W. reflexivity. Qed.

Lemma wf_fold_merge l : forall init, wf init -> wf (fold_left (fun cur s => gmerge s cur) l init).
Proof.
  induction l as [|s r IH]; intros init W; cbn [fold_left]; [exact W|].
  apply IH. apply wf_gmerge. exact W.
Qed.

Lemma wf_merge_list l : wf (merge_list l).
Proof. apply wf_fold_merge. apply wf_nil. Qed.

Lemma ofold_onc l : forall init, Forall onc l -> onc init -> onc (ofold l init).
Proof.
  induction l as [|o r IH]; intros init Hl Hi; cbn [ofold fold_left]; [exact Hi|].
  inversion Hl; subst. apply IH; [assumption|]. apply ocomb_onc; assumption.
Qed.

Lemma gnc_merge_list l : Forall wf l -> Forall gnc l -> gnc (merge_list l).
Proof.
  intros W Hn k v Hk. rewrite glookup_merge_list in Hk by exact W.
  revert v Hk. apply ofold_onc; [|intros v E; discriminate].
  unfold olist. apply Forall_map. eapply Forall_impl; [|exact Hn].
  intros s Hs. apply onc_glookup. exact Hs.
Qed.

Lemma ofold_perm l l' :
  Permutation l l' -> Forall onc l -> forall init, onc init -> ofold l init = ofold l' init.
Proof.
  induction 1 as [|x l l' HP IH|x y l|l l' l'' HP1 IH1 HP2 IH2]; intros Hl init Hi.
  - reflexivity.
  - inversion Hl; subst. cbn [ofold fold_left]. apply IH; [assumption|]. apply ocomb_onc; assumption.
  - inversion Hl as [|? ? Hy Hl']; subst. inversion Hl' as [|? ? Hx Hl'']; subst.
    cbn [ofold fold_left]. f_equal. apply ocomb_lcomm; assumption.
  - rewrite IH1 by assumption. apply IH2; [|assumption].
    eapply Permutation_Forall; eassumption.
Qed.

(** [merge_states] over two iteration orders of one set of (extensionally equal) states. *)
Theorem merge_states_perm_invariant l1 l2 l2' :
  Permutation l1 l2' -> Forall2 geq l2' l2 ->
  Forall wf l1 -> Forall wf l2 -> Forall gnc l1 ->
  geq (merge_list l1) (merge_list l2).
Proof.
  intros HP HE W1 W2 N1 k.
  rewrite !glookup_merge_list by assumption.
  assert (E : olist k l2' = olist k l2).
  { clear -HE. induction HE as [|a b ra rb Hab Hr IH]; cbn [olist map]; [reflexivity|].
    unfold olist in IH. rewrite IH, (Hab k). reflexivity. }
  rewrite <- E. apply ofold_perm.
  - unfold olist. apply Permutation_map. exact HP.
  - unfold olist. apply Forall_map. eapply Forall_impl; [|exact N1]. intros s Hs. apply onc_glookup; exact Hs.
  - intros v Hv; discriminate.
Qed.
