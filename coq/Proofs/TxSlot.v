(** Proofs about the slot-mutex refinement (Model/TxSlot.v): one transaction T, its helper (a
    statement of T in flight = slot mutex held), T's detached rollback task and a following
    transaction N.  For the code as it is ([v = false]), every configuration and every trace:
      [sinv_reachable]        the invariant [SInv]
      [aborted_tx_is_rolled_back_before_permit_release]
      [next_begin_finds_empty_slot], [slot_no_panic]
      [slot_rows_only_from_committed]
      [slot_progress]         a taken permit => some non-cancel step is enabled
      [slot_step_decreases]   every step strictly decreases [smeasure] (no infinite trace)
    and for the seeded variant ([v = true], try_lock in drop): [slot_try_lock_refuted].
    Trusted assumptions: none beyond what Model/Tx.v / Model/TxSlot.v list. *)
From Coq Require Import List Arith NArith Bool Lia.
From PV Require Import Model.Tx Model.TxSlot.
Import ListNotations.

Definition is_wait (p : pc) : bool := match p with PWait => true | _ => false end.
Definition is_panic (p : pc) : bool := match p with PDone OPanic => true | _ => false end.
Definition empty (o : option (list key)) : bool := match o with None => true | Some _ => false end.

(** Control skeleton of a state: who owns the permit, what the slot looks like for that owner,
    who holds the slot mutex. *)
Definition own_shape (s : sstate) : bool :=
  let a := active_pc (pT s) in
  let r := active_rb (rT s) in
  let n := active_pc (pN s) in
  if sem s then negb a && negb r && negb n && empty (sslot s) && negb (is_wait (pN s))
  else (a && negb r && negb n) || (negb a && r && negb n) || (negb a && negb r && n).

Definition rb_shape (s : sstate) : bool :=
  match rT s with
  | RbNone => true
  | RbStart | RbDone => aborted (pT s)
  | RbRolling => aborted (pT s) && empty (sslot s)
  end.

Definition t_shape (s : sstate) : bool :=
  match pT s with
  | PWait | PDone OPanic => false
  | PGranted | PCommitting _ | PRollingBack _ => empty (sslot s)
  | PHold _ => negb (empty (sslot s))
  | _ => true
  end.

Definition n_shape (s : sstate) : bool :=
  match pN s with
  | PRollingBack _ | PDone OPanic => false
  | PGranted | PCommitting _ => empty (sslot s)
  | PHold _ => negb (empty (sslot s)) && negb (mtx s)
  | _ => true
  end.

Definition h_shape (s : sstate) : bool :=
  eqb (mtx s) (match hP s with HIdle _ => false | _ => true end).

Definition shape (s : sstate) : bool :=
  own_shape s && rb_shape s && t_shape s && n_shape s && h_shape s.

Section Slot.
Variable c : scfg.
Definition TW : list key := ow c ++ hw c.

Record SInv (s : sstate) : Prop := {
  i_shape : shape s = true;
  (* the open transaction of T (or what T left in the slot) holds only T's / the helper's keys *)
  i_slotT : forall p, sslot s = Some p -> t_live s = true -> incl p TW;
  i_takenT : forall p, pT s = PCommitting p \/ pT s = PRollingBack p -> incl p TW;
  i_slotN : forall k, pN s = PHold k -> sslot s = Some (firstn k (nw c)) /\ k <= length (nw c);
  i_takenN : forall p, pN s = PCommitting p -> p = nw c;
  i_db : forall w, In w (sdb s) ->
         (pT s = PDone OCommitted /\ In w TW) \/ (pN s = PDone OCommitted /\ In w (nw c));
  i_hk : forall k, hP s = HLocked k \/ hP s = HExec k -> k < length (hw c)
}.

Inductive sreachable : sstate -> Prop :=
| sreach_init : sreachable sinit
| sreach_step s l s' : sreachable s -> sstep false c s l = Some s' -> sreachable s'.

Lemma sinv_init : SInv sinit.
Proof.
  constructor; cbn; try reflexivity; try (intros; congruence);
    try (intros ? [H|H]; discriminate H); try (intros ? []).
Qed.

Lemma firstn_snoc_nth' {A} (l : list A) k w :
  nth_error l k = Some w -> firstn (S k) l = firstn k l ++ [w].
Proof.
  revert k. induction l as [|a l IH]; intros [|k] H; cbn in *; try discriminate.
  - inversion H; reflexivity.
  - rewrite (IH _ H). reflexivity.
Qed.

Lemma in_TW_ow k w : nth_error (ow c) k = Some w -> In w TW.
Proof. intros H. apply nth_error_In in H. unfold TW. apply in_or_app. left; exact H. Qed.
Lemma in_TW_hw k w : nth_error (hw c) k = Some w -> In w TW.
Proof. intros H. apply nth_error_In in H. unfold TW. apply in_or_app. right; exact H. Qed.

Lemma incl_snoc (p : list key) w l : incl p l -> In w l -> incl (p ++ [w]) l.
Proof. intros H1 H2 x Hx. apply in_app_or in Hx. destruct Hx as [Hx|[Hx|[]]]; [auto|subst; auto]. Qed.

Ltac kill := cbn in *; try discriminate; try congruence.
Ltac dfin :=
  repeat match goal with
         | x : pc |- _ => destruct x as [| | |?|?|?|[]]; kill
         | x : outcome |- _ => destruct x; kill
         | x : rbpc |- _ => destruct x; kill
         | x : hpc |- _ => destruct x; kill
         | x : bool |- _ => destruct x; kill
         | x : option (list key) |- _ => destruct x; kill
         end.
Ltac step_cases H :=
  repeat match type of H with
         | context [match ?x with _ => _ end] => destruct x eqn:?; kill
         end.

Ltac inj :=
  repeat match goal with
         | H : _ \/ _ |- _ => destruct H
         | H : _ /\ _ |- _ => destruct H
         | H : Some _ = Some _ |- _ => inversion H; subst; clear H
         | H : PHold _ = PHold _ |- _ => inversion H; subst; clear H
         | H : PCommitting _ = PCommitting _ |- _ => inversion H; subst; clear H
         | H : PRollingBack _ = PRollingBack _ |- _ => inversion H; subst; clear H
         | H : HLocked _ = HLocked _ |- _ => inversion H; subst; clear H
         | H : HExec _ = HExec _ |- _ => inversion H; subst; clear H
         end.
(** [i_db] when the database did not change *)
Ltac dbk H5 :=
  let w := fresh "w" in let Hw := fresh "Hw" in let E := fresh "E" in
  intros w Hw; destruct (H5 w Hw) as [[E ?]|[E ?]]; try discriminate E;
  first [left; split; assumption | right; split; assumption].
(** [i_db] at the step where a commit takes effect *)
Ltac dbc H2 H4 H5 :=
  let w := fresh "w" in let Hw := fresh "Hw" in let E := fresh "E" in
  intros w Hw; apply in_app_or in Hw; destruct Hw as [Hw|Hw];
  [ destruct (H5 w Hw) as [[E ?]|[E ?]]; try discriminate E;
    first [left; split; assumption | right; split; assumption]
  | first [ left; split; [reflexivity | apply (H2 _ (or_introl eq_refl)); exact Hw]
          | right; split; [reflexivity | rewrite <- (H4 _ eq_refl); exact Hw] ] ].
(** [i_slotN] / [i_takenN] at N's own steps *)
Ltac ncl H3 :=
  let E := fresh "E" in let Hle := fresh "Hle" in
  intros; inj;
  try (destruct (H3 _ eq_refl) as [E Hle]; inversion E; subst; clear E);
  first [ split; [reflexivity | lia]
        | split; [erewrite firstn_snoc_nth' by eassumption; reflexivity
                 | apply nth_error_Some; congruence]
        | apply firstn_all2; apply nth_error_None; assumption ].
Ltac lcl H2 H3 H4 H5 :=
  first [ solve [dbk H5]
        | solve [intros; try congruence; inj; try congruence; try discriminate;
                 eauto using incl_snoc, in_TW_ow, in_TW_hw, incl_nil_l]
        | solve [dbc H2 H4 H5]
        | solve [intros; inj; apply nth_error_Some; congruence]
        | solve [ncl H3]
        | solve [intros; subst; exfalso; clear H5; dfin] ].
Ltac one_label Hs Hsh H1 H2 H3 H4 H5 H6 :=
  step_cases Hs; inversion Hs; subst; clear Hs;
  (constructor;
   [ unfold shape, own_shape, rb_shape, t_shape, n_shape, h_shape; cbn; clear H1 H2 H3 H4 H5 H6; dfin
   | cbn .. ]); lcl H2 H3 H4 H5.

Lemma sstep_inv s l s' : SInv s -> sstep false c s l = Some s' -> SInv s'.
Proof.
  intros [Hsh H1 H2 H3 H4 H5 H6] Hs.
  destruct s as [pT0 rT0 hP0 pN0 sem0 mtx0 slot0 db0].
  unfold shape in *.
  apply andb_prop in Hsh; destruct Hsh as [Hsh Hh].
  apply andb_prop in Hsh; destruct Hsh as [Hsh Hn].
  apply andb_prop in Hsh; destruct Hsh as [Hsh Ht].
  apply andb_prop in Hsh; destruct Hsh as [Ho Hr].
  unfold own_shape, rb_shape, t_shape, n_shape, h_shape, t_live in *.
  destruct l; unfold sstep, drop_permit, srelease in Hs; cbn in *.
  - one_label Hs Hsh H1 H2 H3 H4 H5 H6.
  - one_label Hs Hsh H1 H2 H3 H4 H5 H6.
  - one_label Hs Hsh H1 H2 H3 H4 H5 H6.
  - one_label Hs Hsh H1 H2 H3 H4 H5 H6.
  - one_label Hs Hsh H1 H2 H3 H4 H5 H6.
Qed.

Theorem sinv_reachable s : sreachable s -> SInv s.
Proof.
  induction 1 as [|s l s' _ IH Hs]; [exact sinv_init | exact (sstep_inv _ _ _ IH Hs)].
Qed.

Ltac open_inv Hinv :=
  let Hsh := fresh "Hsh" in let Ho := fresh "Ho" in let Hr := fresh "Hr" in
  let Ht := fresh "Ht" in let Hn := fresh "Hn" in let Hh := fresh "Hh" in
  destruct Hinv as [Hsh H1 H2 H3 H4 H5 H6];
  unfold shape in Hsh;
  apply andb_prop in Hsh; destruct Hsh as [Hsh Hh];
  apply andb_prop in Hsh; destruct Hsh as [Hsh Hn];
  apply andb_prop in Hsh; destruct Hsh as [Hsh Ht];
  apply andb_prop in Hsh; destruct Hsh as [Ho Hr];
  unfold own_shape, rb_shape, t_shape, n_shape, h_shape, t_live in *.

(** When the aborted transaction's permit is released (T ended without commit and its rollback
    task is not pending any more), the slot holds nothing of T: it is empty, or it holds exactly
    the statements of the following transaction; once the permit is available again the slot is
    empty; and none of T's writes (its own or the helper's) is in the database. *)
Theorem aborted_tx_is_rolled_back_before_permit_release s :
  sreachable s -> aborted (pT s) = true -> active_rb (rT s) = false ->
  (sslot s = None \/ exists k, pN s = PHold k /\ sslot s = Some (firstn k (nw c)))
  /\ (sem s = true -> sslot s = None)
  /\ (forall w, In w TW -> ~ In w (nw c) -> ~ In w (sdb s)).
Proof.
  intros Hre Hab Hrb. pose proof (sinv_reachable _ Hre) as Hinv.
  destruct s as [pT0 rT0 hP0 pN0 sem0 mtx0 slot0 db0]. open_inv Hinv. cbn in *.
  split; [|split].
  - destruct pN0 as [| | |k|?|?|?];
      first [ solve [left; clear H1 H2 H3 H4 H5 H6; dfin]
            | right; exists k; split; [reflexivity | apply H3; reflexivity] ].
  - intros Hsem. subst sem0. clear H1 H2 H3 H4 H5 H6. dfin.
  - intros w Hw Hn' Hdb. destruct (H5 w Hdb) as [[E _]|[_ Hin]].
    + subst pT0. discriminate Hab.
    + contradiction.
Qed.

(** The following transaction's [begin], once it owns the semaphore permit, finds the slot empty:
    the assert in [begin] holds (and as soon as no helper statement is in flight the step is
    enabled and opens the transaction). *)
Theorem next_begin_finds_empty_slot s :
  sreachable s -> pN s = PGranted ->
  sslot s = None /\
  (mtx s = false -> exists s', sstep false c s LN = Some s' /\ pN s' = PHold 0).
Proof.
  intros Hre HN. pose proof (sinv_reachable _ Hre) as Hinv.
  destruct s as [pT0 rT0 hP0 pN0 sem0 mtx0 slot0 db0]. open_inv Hinv. cbn in *. subst pN0.
  assert (Hs : slot0 = None) by (clear H1 H2 H3 H4 H5 H6; dfin).
  split; [exact Hs|]. intros Hm. subst. cbn. eexists; split; reflexivity.
Qed.

(** The assert in [begin] and the panics of [commit]/[rollback] are unreachable for both
    transactions. *)
Theorem slot_no_panic s : sreachable s -> pT s <> PDone OPanic /\ pN s <> PDone OPanic.
Proof.
  intros Hre. pose proof (sinv_reachable _ Hre) as Hinv.
  destruct s as [pT0 rT0 hP0 pN0 sem0 mtx0 slot0 db0]. open_inv Hinv. cbn in *.
  split; intros E; subst; cbn in *; discriminate.
Qed.

(** Committed rows come only from committed transactions (with keys of T and N disjoint: an
    aborted or still running transaction has no row in the database). *)
Theorem slot_rows_only_from_committed s w :
  sreachable s -> In w (sdb s) ->
  (pT s = PDone OCommitted /\ In w TW) \/ (pN s = PDone OCommitted /\ In w (nw c)).
Proof. intros Hre. exact (i_db _ (sinv_reachable _ Hre) w). Qed.

(** No permanent block: while the permit is taken some step that is not a cancellation is
    enabled (the helper's if it holds the slot mutex, else the permit owner's). *)
Theorem slot_progress s :
  sreachable s -> sem s = false ->
  exists l s', is_scancel l = false /\ sstep false c s l = Some s'.
Proof.
  intros Hre Hsem. pose proof (sinv_reachable _ Hre) as Hinv.
  destruct s as [pT0 rT0 hP0 pN0 sem0 mtx0 slot0 db0]. open_inv Hinv. cbn in *. subst sem0.
  clear H1 H2 H3 H4 H5 H6.
  destruct mtx0.
  - exists LH. destruct hP0; cbn in *; try discriminate;
      repeat match goal with |- context [match ?x with _ => _ end] => destruct x end;
      eexists; split; reflexivity.
  - destruct (active_pc pT0) eqn:Ea; [|destruct (active_rb rT0) eqn:Er].
    + exists LT. destruct pT0 as [| | |?|?|?|?]; cbn in *; try discriminate;
        repeat match goal with |- context [match ?x with _ => _ end] => destruct x end;
        eexists; split; reflexivity.
    + exists LR. destruct rT0; cbn in *; try discriminate; eexists; split; reflexivity.
    + exists LN. destruct pN0 as [| | |?|?|?|?]; cbn in *; try discriminate;
        repeat match goal with |- context [match ?x with _ => _ end] => destruct x end;
        eexists; split; reflexivity.
Qed.

Ltac lens :=
  repeat match goal with
         | H : nth_error ?l ?k = Some _ |- _ =>
             assert (k < length l) by (apply nth_error_Some; congruence); clear H
         end.

Theorem slot_step_decreases s l s' :
  sreachable s -> sstep false c s l = Some s' -> smeasure c s' < smeasure c s.
Proof.
  intros Hre Hs. pose proof (sinv_reachable _ Hre) as Hinv.
  destruct s as [pT0 rT0 hP0 pN0 sem0 mtx0 slot0 db0].
  destruct Hinv as [_ _ _ _ _ _ H6]. cbn in H6.
  unfold sstep, drop_permit, srelease in Hs.
  destruct l; cbn in Hs; step_cases Hs; inversion Hs; subst; clear Hs;
    try (pose proof (H6 _ (or_introl eq_refl))); try (pose proof (H6 _ (or_intror eq_refl)));
    clear H6; lens; unfold smeasure, pc_measure, rb_measure, h_measure; cbn; lia.
Qed.

End Slot.

(** * The seeded variant (C10-1): [TransactionPermit::drop] takes the slot with [try_lock].
    Regression lemma about the VARIANT model ([v = true]), not a finding about the code: with a
    helper statement in flight at the drop, the rollback is skipped, the permit is released with
    T's transaction still in the slot, and the following [begin] hits its assert. *)
Definition c_w : scfg := {| ow := [1%N]; ofin := FDrop; hw := [5%N]; nw := [2%N] |}.
Definition tr_w : list slabel := [LT; LT; LT; LH; LT; LH; LH; LR; LR; LN; LN].

Lemma slot_try_lock_refuted :
  exists (c : scfg) (tr : list slabel) (s : sstate),
    srun true c sinit tr = Some s /\
    aborted (pT s) = true /\ active_rb (rT s) = false /\
    sslot s = Some [1%N; 5%N] /\ pN s = PDone OPanic.
Proof. exists c_w, tr_w. eexists. vm_compute. repeat split. Qed.

(** ... while the same trace on the code as it is cannot even run: the rollback task waits for
    the helper's statement, and after it N begins on an empty slot. *)
Example ex_slot_same_trace_real :
  exists s, srun false c_w sinit tr_w = Some s /\ sslot s = Some [] /\ pN s = PHold 0 /\ sdb s = [].
Proof. eexists. vm_compute. repeat split. Qed.

(** Non-vacuity: the hypotheses of the main theorems are satisfiable by a reachable state with a
    helper statement in flight at the drop. *)
Lemma srun_reachable c tr : forall s s', sreachable c s -> srun false c s tr = Some s' -> sreachable c s'.
Proof.
  induction tr as [|l r IH]; intros s s' Hr H; cbn in H.
  - inversion H; subst; exact Hr.
  - destruct (sstep false c s l) eqn:E; [|discriminate]. eapply IH; [|exact H].
    eapply sreach_step; eauto.
Qed.

Example ex_slot_aborted_released :
  exists s, sreachable c_w s /\ aborted (pT s) = true /\ active_rb (rT s) = false /\
            hP s = HIdle 1 /\ sem s = true.
Proof.
  destruct (srun false c_w sinit [LT; LT; LT; LH; LT; LH; LH; LR; LR]) as [s|] eqn:E;
    [|vm_compute in E; discriminate].
  exists s. split; [eapply srun_reachable; [apply sreach_init | exact E]|].
  vm_compute in E. inversion E; subst. cbn. repeat split.
Qed.

Definition c_k : scfg := {| ow := [1%N]; ofin := FCommit; hw := [5%N]; nw := [2%N] |}.
Example ex_slot_next_granted :
  exists s, sreachable c_k s /\ pN s = PGranted /\ mtx s = true.
Proof.
  destruct (srun false c_k sinit [LT; LT; LN; LT; LT; LH; LT]) as [s|] eqn:E;
    [|vm_compute in E; discriminate].
  exists s. split; [eapply srun_reachable; [apply sreach_init | exact E]|].
  vm_compute in E. inversion E; subst. cbn. repeat split.
Qed.
