(** Soundness of the C27 oracle: when it answers [true] for an observed node entry, the record
    the implementation stores is authentic for that node and is the newest authentic record
    that arrived for it since the last local overwrite. *)
From Coq Require Import List NArith Bool.
From PV Require Import Model.AddressBook Proofs.AddressBook Oracle.C27.
Import ListNotations.

Lemma opt_rec_eqb_eq a b : opt_rec_eqb a b = true -> a = b.
Proof.
  destruct a as [x|], b as [y|]; cbn [opt_rec_eqb]; try discriminate; [|reflexivity].
  intros H. apply tinfo_eqb_eq in H. congruence.
Qed.

Lemma entry_ok_sound recs ops n bs got :
  entry_ok recs ops n (Some (bs, got)) = true ->
  exists init l,
    segment n ops None = Some (init, l) /\
    (match got with None => None | Some i => nth_error recs i end)
      = newest_authentic sym_sig sym_verify n init l /\
    match got with
    | None => True
    | Some i => exists r, nth_error recs i = Some r /\ authentic sym_sig sym_verify n r = true
    end.
Proof.
  unfold entry_ok, expected. destruct (segment n ops None) as [[init l]|]; [|discriminate].
  intros H. apply andb_true_iff in H. destruct H as [H H3]. apply andb_true_iff in H. destruct H as [H1 H2].
  exists init, l. split; [reflexivity|]. split; [apply opt_rec_eqb_eq; exact H2|].
  destruct got as [i|]; [|exact I].
  destruct (nth_error recs i) as [r|]; [|discriminate]. exists r. split; [reflexivity|exact H3].
Qed.

Lemma entry_ok_absent recs ops n :
  entry_ok recs ops n None = true -> segment n ops None = None.
Proof. unfold entry_ok, expected. destruct (segment n ops None) as [[i l]|]; [discriminate|reflexivity]. Qed.
