(** Proofs for C33 over Model/GroupProcess.v: an operation is accepted only with authority,
    rejected operations leave the replica unchanged, and members only ever come from accepted
    create/add operations. *)
From Coq Require Import List Arith NArith Bool Lia.
From PV Require Import Model.GroupState Proofs.GroupState Model.GroupProcess.
Import ListNotations.

(** * State level: who is known in the result of a state function *)

Section Known.
  Context {C : Type}.
  Implicit Types (s : State C) (m : MemberState C).

  Definition known s (id : N) : Prop := lookup id s <> None.

  Lemma known_set s k v id : known (set k v s) id -> id = k \/ known s id.
  Proof.
    unfold known. rewrite lookup_set. destruct (N.eqb_spec id k) as [->|Hne]; [left; reflexivity|right; assumption].
  Qed.

  Lemma known_set_existing s k v v0 id : lookup k s = Some v0 -> known (set k v s) id -> known s id.
  Proof.
    intros Hk H. apply known_set in H. destruct H as [->|H]; [|exact H].
    unfold known. rewrite Hk. discriminate.
  Qed.

  Lemma is_active_known s id : is_active s id = true -> known s id.
  Proof. unfold is_active, known. destruct (lookup id s); [discriminate|discriminate]. Qed.

  Lemma known_create_fold (l : list (N * Access C)) : forall acc id,
    known (fold_left (fun a ia => set (fst ia) (mkMember 1 (snd ia) 0) a) l acc) id ->
    In id (map fst l) \/ known acc id.
  Proof.
    induction l as [|[k a] r IH]; intros acc id H; cbn [fold_left map fst In] in *; [right; exact H|].
    apply IH in H. destruct H as [H|H]; [left; right; exact H|].
    cbn [fst snd] in H. apply known_set in H. destruct H as [->|H]; [left; left; reflexivity|right; exact H].
  Qed.

  Lemma known_create (l : list (N * Access C)) id : known (create l) id -> In id (map fst l).
  Proof.
    unfold create. intros H. apply known_create_fold in H. destruct H as [H|H]; [exact H|].
    exfalso. apply H. reflexivity.
  Qed.

  Lemma known_merge_step lt (acc : State C) km id :
    known (merge_step lt acc km) id -> id = fst km \/ known acc id.
  Proof.
    unfold merge_step. destruct (lookup (fst km) acc); intros H; apply known_set in H; exact H.
  Qed.

  Lemma known_fold_merge lt (s1 : State C) : forall s2 id,
    known (fold_left (merge_step lt) s1 s2) id -> In id (keys s1) \/ known s2 id.
  Proof.
    induction s1 as [|km r IH]; intros s2 id H; cbn [fold_left keys map In] in *; [right; exact H|].
    apply IH in H. destruct H as [H|H]; [left; right; exact H|].
    apply known_merge_step in H. destruct H as [->|H]; [left; left; reflexivity|right; exact H].
  Qed.

  Lemma known_merge_with lt s1 s2 id : known (merge_with lt s1 s2) id -> known s1 id \/ known s2 id.
  Proof.
    rewrite merge_with_fold. intros H. apply known_fold_merge in H. destruct H as [H|H]; [left|right; exact H].
    apply in_keys_lookup in H. destruct H as [m Hm]. unfold known. rewrite Hm. discriminate.
  Qed.
End Known.

(** * State level: an accepted action had authority *)

Section Authority.
  Context {C : Type}.
  Variable ceqb : C -> C -> bool.
  Implicit Types (s : State C).

  Lemma check_manager_none s a : check_manager s a = None -> is_active_manager s a = true.
  Proof.
    unfold check_manager, is_active_manager. destruct (lookup a s) as [st|]; [|discriminate].
    destruct (is_member st); cbn [negb]; [|discriminate].
    destruct (is_manager st); cbn [negb andb]; [reflexivity|discriminate].
  Qed.

  Lemma add_ok s a b x s' :
    add s a b x = Ok s' ->
    is_active_manager s a = true /\ is_active s b = false /\ (forall id, known s' id -> id = b \/ known s id).
  Proof.
    unfold add, is_active_manager, is_active. destruct (lookup a s) as [st|]; [|discriminate].
    destruct (is_member st); cbn [negb]; [|discriminate].
    destruct (is_manager st); cbn [negb andb]; [|discriminate].
    destruct (lookup b s) as [ad|] eqn:Eb.
    - destruct (is_member ad); [discriminate|]. intros H. inversion H; subst.
      repeat split; try reflexivity. intros id Hk. apply known_set in Hk. exact Hk.
    - intros H. inversion H; subst. repeat split; try reflexivity.
      intros id Hk. apply known_set in Hk. exact Hk.
  Qed.

  Lemma remove_ok s a b s' :
    remove s a b = Ok s' ->
    (is_active_manager s a = true \/ (a = b /\ is_active s a = true)) /\ is_active s b = true
    /\ (forall id, known s' id -> known s id).
  Proof.
    unfold remove, is_active_manager, is_active. destruct (lookup a s) as [st|] eqn:Ea; [|discriminate].
    destruct (is_member st) eqn:Em; cbn [negb]; [|discriminate].
    destruct (is_manager st) eqn:Eg; cbn [negb andb].
    - destruct (lookup b s) as [rm|] eqn:Eb; [|discriminate].
      destruct (is_member rm) eqn:Er; cbn [negb]; [|discriminate].
      intros H. inversion H; subst. repeat split; [left; reflexivity|].
      intros id Hk. eapply known_set_existing; eassumption.
    - destruct (N.eqb_spec a b) as [->|Hne]; cbn [negb]; [|discriminate].
      rewrite Ea. rewrite Em. cbn [negb].
      intros H. inversion H; subst. repeat split; [right; split; reflexivity|].
      intros id Hk. eapply known_set_existing; eassumption.
  Qed.

  Lemma modify_ok s a b x s' :
    modify ceqb s a b x = Ok s' ->
    is_active_manager s a = true /\ is_active s b = true /\ (forall id, known s' id -> known s id).
  Proof.
    unfold modify, is_active_manager, is_active. destruct (lookup a s) as [st|]; [|discriminate].
    destruct (is_member st); cbn [negb]; [|discriminate].
    destruct (is_manager st); cbn [negb andb]; [|discriminate].
    destruct (lookup b s) as [md|] eqn:Eb; [|discriminate].
    destruct (is_member md); cbn [negb]; [|discriminate].
    destruct (access_eqb ceqb (access md) x); intros H; inversion H; subst; repeat split; try reflexivity.
    - intros id Hk. exact Hk.
    - intros id Hk. eapply known_set_existing; eassumption.
  Qed.

  Lemma promote_ok s a b x s' :
    promote ceqb s a b x = Ok s' ->
    is_active_manager s a = true /\ known s b /\ (forall id, known s' id -> known s id).
  Proof.
    unfold promote. destruct (lookup b s) as [m|] eqn:Eb; [|discriminate].
    assert (Kb : known s b) by (unfold known; rewrite Eb; discriminate).
    destruct (is_manager m).
    - destruct (check_manager s a) eqn:Ec; [discriminate|]. intros H. inversion H; subst.
      repeat split; [apply check_manager_none; exact Ec|exact Kb|auto].
    - intros H. apply modify_ok in H. destruct H as [H1 [_ H3]]. repeat split; assumption.
  Qed.

  Lemma demote_ok s a b x s' :
    demote ceqb s a b x = Ok s' ->
    is_active_manager s a = true /\ known s b /\ (forall id, known s' id -> known s id).
  Proof.
    unfold demote. destruct (lookup b s) as [m|] eqn:Eb; [|discriminate].
    assert (Kb : known s b) by (unfold known; rewrite Eb; discriminate).
    destruct (is_puller m).
    - destruct (check_manager s a) eqn:Ec; [discriminate|]. intros H. inversion H; subst.
      repeat split; [apply check_manager_none; exact Ec|exact Kb|auto].
    - intros H. apply modify_ok in H. destruct H as [H1 [_ H3]]. repeat split; assumption.
  Qed.
End Authority.

(** * Association list facts for the generic maps *)

Lemma alookup_in {V} k (l : list (N * V)) v : alookup k l = Some v -> In (k, v) l.
Proof.
  induction l as [|[k' v'] r IH]; cbn [alookup In]; [discriminate|].
  destruct (N.eqb_spec k k') as [->|_]; intros H; [inversion H; left; reflexivity|right; apply IH; exact H].
Qed.

Lemma in_aremove {V} k k0 (v : V) l : In (k, v) (aremove k0 l) -> In (k, v) l.
Proof.
  induction l as [|[k' v'] r IH]; cbn [aremove In]; [contradiction|].
  destruct (N.eqb k0 k'); cbn [In]; intros H; [right; apply IH; exact H|].
  destruct H as [H|H]; [left; exact H|right; apply IH; exact H].
Qed.

Lemma in_aset {V} k (v : V) k0 v0 l : In (k, v) (aset k0 v0 l) -> (k = k0 /\ v = v0) \/ In (k, v) l.
Proof.
  unfold aset. cbn [In]. intros [H|H]; [inversion H; left; split; reflexivity|right; eapply in_aremove; exact H].
Qed.

(** * Where the members of a computed groups state come from *)

(** member [m] is known in group [g] of the groups state [gs] *)
Definition gknown (gs : GroupStates) (g m : N) : Prop := exists my, In (g, my) gs /\ known my m.

Lemma gknown_merge_group_states gs : forall cur g m,
  gknown (merge_group_states cur gs) g m -> gknown cur g m \/ gknown gs g m.
Proof.
  unfold merge_group_states.
  induction gs as [|[g1 s1] r IH]; intros cur g m H; cbn [fold_left] in *; [left; exact H|].
  apply IH in H. destruct H as [H|H].
  - cbn [fst snd] in H. destruct H as [my [Hin Hk]].
    destruct (glookup g1 cur) as [c|] eqn:Ec; unfold gset in Hin; apply in_aset in Hin.
    + destruct Hin as [[-> ->]|Hin].
      * apply known_merge_with in Hk. destruct Hk as [Hk|Hk].
        -- right. exists s1. split; [left; reflexivity|exact Hk].
        -- left. exists c. split; [apply alookup_in; exact Ec|exact Hk].
      * left. exists my. split; assumption.
    + destruct Hin as [[-> ->]|Hin].
      * right. exists s1. split; [left; reflexivity|exact Hk].
      * left. exists my. split; assumption.
  - right. destruct H as [my [Hin Hk]]. exists my. split; [right; exact Hin|exact Hk].
Qed.

(** member [m] is known in group [g] in the stored state of some accepted operation *)
Definition sknown (y : Replica) (g m : N) : Prop :=
  exists id gs, In (id, gs) (states y) /\ gknown gs g m.

Lemma state_at_fold_known y deps : forall acc gs g m,
  fold_left
    (fun a d => match a, alookup d (states y) with
                | Some cur, Some gs0 => Some (merge_group_states cur gs0)
                | _, _ => None
                end) deps acc = Some gs ->
  gknown gs g m ->
  (exists cur, acc = Some cur /\ gknown cur g m) \/ sknown y g m.
Proof.
  induction deps as [|d r IH]; intros acc gs g m H Hk; cbn [fold_left] in H.
  - left. exists gs. split; assumption.
  - apply (IH _ gs g m) in H; [|exact Hk]. destruct H as [[cur [Hc Hg]]|H]; [|right; exact H].
    destruct acc as [cur0|]; [|discriminate].
    destruct (alookup d (states y)) as [gs0|] eqn:Ed; [|discriminate].
    inversion Hc; subst cur.
    apply gknown_merge_group_states in Hg. destruct Hg as [Hg|Hg].
    + left. exists cur0. split; [reflexivity|exact Hg].
    + right. exists d, gs0. split; [apply alookup_in; exact Ed|exact Hg].
Qed.

Lemma state_at_known y deps gs g m :
  state_at y deps = Some gs -> gknown gs g m -> sknown y g m.
Proof.
  unfold state_at. intros H Hk. destruct (state_at_fold_known y deps _ gs g m H Hk) as [[cur [Hc Hg]]|H']; [|exact H'].
  inversion Hc; subst cur. destruct Hg as [my [[] _]].
Qed.

(** the action introduces member [m] into group [g] *)
Definition introduces_P (o : Op) (g m : N) : Prop :=
  op_group o = g /\
  ((exists l, op_action o = Add m l) \/ (exists ini, op_action o = Create ini /\ In m (map fst ini))).

Definition introduced_P (l : list Op) (g m : N) : Prop := exists o, In o l /\ introduces_P o g m.

Lemma apply_members_known my actor a my' id :
  apply_members my actor a = Ok my' -> known my' id ->
  known my id \/ (exists l, a = Add id l) \/ (exists ini, a = Create ini /\ In id (map fst ini)).
Proof.
  destruct a as [ini|m l|m|m l|m l]; cbn [apply_members]; intros H Hk.
  - inversion H; subst. apply known_create in Hk. rewrite map_map in Hk. cbn [fst] in Hk.
    right. right. exists ini. split; [reflexivity|exact Hk].
  - apply add_ok in H. destruct H as [_ [_ H]]. apply H in Hk. destruct Hk as [->|Hk]; [|left; exact Hk].
    right. left. exists l. reflexivity.
  - apply remove_ok in H. destruct H as [_ [_ H]]. left. apply H. exact Hk.
  - apply promote_ok in H. destruct H as [_ [_ H]]. left. apply H. exact Hk.
  - apply demote_ok in H. destruct H as [_ [_ H]]. left. apply H. exact Hk.
Qed.

Lemma apply_action_known gs g actor a gs' g' m :
  apply_action gs g actor a = AOk gs' -> gknown gs' g' m ->
  gknown gs g' m \/
  (g' = g /\ ((exists l, a = Add m l) \/ (exists ini, a = Create ini /\ In m (map fst ini)))).
Proof.
  unfold apply_action. intros H [my [Hin Hk]].
  destruct (if is_create a then Some [] else glookup g gs) as [my0|] eqn:E0; [|discriminate].
  destruct (apply_members my0 actor a) as [my1|e] eqn:E1; [|discriminate].
  inversion H; subst gs'. unfold gset in Hin. apply in_aset in Hin. destruct Hin as [[-> ->]|Hin].
  - destruct (apply_members_known _ _ _ _ m E1 Hk) as [H0|H0].
    + destruct (is_create a) eqn:Ecr.
      * inversion E0; subst my0. exfalso. apply H0. reflexivity.
      * left. exists my0. split; [apply alookup_in; exact E0|exact H0].
    + right. split; [reflexivity|exact H0].
  - left. exists my. split; assumption.
Qed.

(** * The invariant: every member known in any stored state was introduced by an accepted
      create or add of that group *)

Definition Inv (y : Replica) : Prop := forall g m, sknown y g m -> introduced_P (ops y) g m.

Lemma Inv_init : Inv init.
Proof. intros g m [id [gs [[] _]]]. Qed.

Lemma introduced_cons o l g m : introduced_P l g m -> introduced_P (o :: l) g m.
Proof. intros [o' [Hin H]]. exists o'. split; [right; exact Hin|exact H]. Qed.

Lemma process_Inv y o y' out : Inv y -> process y o = (y', out) -> Inv y'.
Proof.
  intros HI. unfold process.
  destruct (memN (op_id o) (map op_id (ops y))); [intros H; inversion H; subst; exact HI|].
  destruct (state_at y (op_deps o)) as [gs|] eqn:Es; [|intros H; inversion H; subst; exact HI].
  destruct (apply_action gs (op_group o) (op_author o) (op_action o)) as [|e|gs'] eqn:Ea;
    intros H; inversion H; subst; try exact HI.
  intros g m [id [gs0 [Hin Hk]]]. cbn [states ops] in *.
  destruct Hin as [Hin|Hin].
  - inversion Hin; subst id gs0.
    destruct (apply_action_known _ _ _ _ _ g m Ea Hk) as [Hold|[-> Hnew]].
    + apply introduced_cons. apply HI. eapply state_at_known; eassumption.
    + exists o. split; [left; reflexivity|]. split; [reflexivity|exact Hnew].
  - apply introduced_cons. apply HI. exists id, gs0. split; assumption.
Qed.

Lemma run_Inv l : forall y y' outs, Inv y -> run y l = (y', outs) -> Inv y'.
Proof.
  induction l as [|o r IH]; intros y y' outs HI H; cbn [run] in H.
  - inversion H; subst. exact HI.
  - destruct (process y o) as [y1 out] eqn:Ep. destruct (run y1 r) as [y2 outs2] eqn:Er.
    inversion H; subst. eapply IH; [|exact Er]. eapply process_Inv; eassumption.
Qed.

(** [ops] of a replica only ever contains operations that [process] accepted *)
Lemma process_ops y o y' out :
  process y o = (y', out) ->
  (out = OOk /\ ops y' = o :: ops y) \/ (out <> OOk /\ y' = y).
Proof.
  unfold process.
  destruct (memN (op_id o) (map op_id (ops y))); [intros H; inversion H; subst; right; split; [discriminate|reflexivity]|].
  destruct (state_at y (op_deps o)) as [gs|]; [|intros H; inversion H; subst; right; split; [discriminate|reflexivity]].
  destruct (apply_action gs (op_group o) (op_author o) (op_action o));
    intros H; inversion H; subst; try (right; split; [discriminate|reflexivity]).
  left. split; reflexivity.
Qed.

(** the operations of [l] that the run accepted, in order *)
Fixpoint accepted (y : Replica) (l : list Op) : list Op :=
  match l with
  | [] => []
  | o :: r =>
      let '(y1, out) := process y o in
      match out with OOk => o :: accepted y1 r | _ => accepted y1 r end
  end.

Lemma run_ops l : forall y, ops (fst (run y l)) = rev (accepted y l) ++ ops y.
Proof.
  induction l as [|o r IH]; intros y; cbn [run accepted]; [reflexivity|].
  destruct (process y o) as [y1 out] eqn:Ep.
  specialize (IH y1). destruct (run y1 r) as [y2 outs]. cbn [fst] in *.
  destruct (process_ops _ _ _ _ Ep) as [[-> Ho]|[Hne ->]].
  - rewrite IH, Ho. cbn [rev]. rewrite <- app_assoc. reflexivity.
  - rewrite IH. destruct out; try reflexivity. contradiction.
Qed.

(** * C33 theorems on the model *)

(** the author of [o] has authority for it in the groups state [gs] *)
Definition authorised_in (gs : GroupStates) (o : Op) : Prop :=
  match op_action o with
  | Create _ => True
  | a =>
      exists my, glookup (op_group o) gs = Some my /\
        (is_active_manager my (op_author o) = true \/
         (a = Remove (op_author o) /\ is_active my (op_author o) = true))
  end.

(** the action is applicable: target not yet / still an active member, resp. known *)
Definition valid_in (gs : GroupStates) (o : Op) : Prop :=
  match op_action o with
  | Create _ => True
  | Add m _ => exists my, glookup (op_group o) gs = Some my /\ is_active my m = false
  | Remove m => exists my, glookup (op_group o) gs = Some my /\ is_active my m = true
  | Promote m _ | Demote m _ => exists my, glookup (op_group o) gs = Some my /\ known my m
  end.

Theorem accept_requires_authority y o y' :
  process y o = (y', OOk) ->
  exists gs, state_at y (op_deps o) = Some gs /\ authorised_in gs o /\ valid_in gs o.
Proof.
  unfold process.
  destruct (memN (op_id o) (map op_id (ops y))); [discriminate|].
  destruct (state_at y (op_deps o)) as [gs|]; [|discriminate].
  destruct (apply_action gs (op_group o) (op_author o) (op_action o)) as [|e|gs'] eqn:Ea; try discriminate.
  intros _. exists gs. split; [reflexivity|].
  unfold apply_action in Ea. unfold authorised_in, valid_in.
  destruct (op_action o) as [ini|m l|m|m l|m l] eqn:Eact; cbn [is_create] in Ea; [split; exact I| | | |];
    destruct (glookup (op_group o) gs) as [my|]; try discriminate;
    destruct (apply_members my (op_author o) _) as [my'|e] eqn:Em; try discriminate;
    cbn [apply_members] in Em.
  - apply add_ok in Em. destruct Em as [H1 [H2 _]].
    split; exists my; (split; [reflexivity|]); [left; exact H1|exact H2].
  - apply remove_ok in Em. destruct Em as [H1 [H2 _]].
    split; exists my; (split; [reflexivity|]); [|exact H2].
    destruct H1 as [H1|[<- H1]]; [left; exact H1|right; split; [reflexivity|exact H1]].
  - apply promote_ok in Em. destruct Em as [H1 [H2 _]].
    split; exists my; (split; [reflexivity|]); [left; exact H1|exact H2].
  - apply demote_ok in Em. destruct Em as [H1 [H2 _]].
    split; exists my; (split; [reflexivity|]); [left; exact H1|exact H2].
Qed.

Theorem reject_unchanged y o y' out : process y o = (y', out) -> out <> OOk -> y' = y.
Proof.
  intros H Hne. destruct (process_ops _ _ _ _ H) as [[-> _]|[_ ->]]; [contradiction|reflexivity].
Qed.

(** an accepted operation only adds its own state; nothing already stored is touched *)
Theorem accept_extends y o y' :
  process y o = (y', OOk) ->
  ops y' = o :: ops y /\ exists gs', states y' = (op_id o, gs') :: states y.
Proof.
  unfold process.
  destruct (memN (op_id o) (map op_id (ops y))); [discriminate|].
  destruct (state_at y (op_deps o)) as [gs|]; [|discriminate].
  destruct (apply_action gs (op_group o) (op_author o) (op_action o)) as [|e|gs']; try discriminate.
  intros H. inversion H; subst. split; [reflexivity|]. exists gs'. reflexivity.
Qed.

(** After any run from the empty replica: whoever is known (a fortiori: an active member) in any
    group of the state at any dependencies - in particular the current state at the heads - was
    introduced by an operation of that group which the run accepted: a create listing them or an
    add of them. *)
Theorem members_only_via_add_or_create l deps gs g my m :
  state_at (fst (run init l)) deps = Some gs ->
  glookup g gs = Some my -> known my m ->
  exists o, In o (accepted init l) /\ op_group o = g /\
    ((exists lv, op_action o = Add m lv) \/ (exists ini, op_action o = Create ini /\ In m (map fst ini))).
Proof.
  intros Hs Hg Hk.
  destruct (run init l) as [y outs] eqn:Er. cbn [fst] in Hs.
  assert (HI : Inv y) by (eapply run_Inv; [exact Inv_init|exact Er]).
  assert (Hsk : sknown y g m).
  { eapply state_at_known; [exact Hs|]. exists my. split; [apply alookup_in; exact Hg|exact Hk]. }
  destruct (HI g m Hsk) as [o [Hin [Hgrp Hact]]].
  exists o. split; [|split; assumption].
  pose proof (run_ops l init) as Hops. rewrite Er in Hops. cbn [fst ops init] in Hops.
  rewrite app_nil_r in Hops. rewrite Hops in Hin. apply in_rev. exact Hin.
Qed.

Corollary active_members_only_via_add_or_create l deps gs g my m :
  state_at (fst (run init l)) deps = Some gs ->
  glookup g gs = Some my -> is_active my m = true ->
  exists o, In o (accepted init l) /\ op_group o = g /\
    ((exists lv, op_action o = Add m lv) \/ (exists ini, op_action o = Create ini /\ In m (map fst ini))).
Proof. intros Hs Hg Ha. eapply members_only_via_add_or_create; eauto using is_active_known. Qed.

(** Example: the hypotheses are satisfiable and both kinds of answer occur - a manager's add is
    accepted, the same add by a reader is rejected, and so is a reader promoting the manager
    (the no-op shortcut of [promote], repaired). *)
Definition ex_create : Op := mkOp 0 0 [] 0 (Create [(0%N, Manage); (1%N, Read)]).
Definition ex_add_ok : Op := mkOp 1 0 [0%N] 0 (Add 2 Write).
Definition ex_add_bad : Op := mkOp 2 1 [1%N] 0 (Add 3 Write).
Definition ex_promote_bad : Op := mkOp 3 1 [1%N] 0 (Promote 0 Manage).
Definition ex_promote_outsider : Op := mkOp 4 7 [1%N] 0 (Promote 0 Manage).

Example ex_outcomes :
  snd (run init [ex_create; ex_add_ok; ex_add_bad; ex_promote_bad; ex_promote_outsider])
  = [OOk; OOk; OErr InsufficientAccess; OErr InsufficientAccess; OErr UnrecognisedActor].
Proof. vm_compute. reflexivity. Qed.

(** * Known finding [recreate_group_unchecked]: a create for a group that already exists at the
      dependencies is accepted from anybody and replaces the group's members *)

(** [o] creates a group that already exists in [gs] *)
Definition recreates (gs : GroupStates) (o : Op) : Prop :=
  is_create (op_action o) = true /\ glookup (op_group o) gs <> None.

(** authority as the property demands it: a create is legitimate only for a group that does not
    exist yet at the dependencies; everything else needs an active manager (or self-removal) *)
Definition authorised_strict (gs : GroupStates) (o : Op) : Prop :=
  match op_action o with
  | Create _ => glookup (op_group o) gs = None
  | _ => authorised_in gs o
  end.

Theorem accept_requires_authority_outside_known y o y' :
  process y o = (y', OOk) ->
  exists gs, state_at y (op_deps o) = Some gs /\
    (~ recreates gs o -> authorised_strict gs o /\ valid_in gs o).
Proof.
  intros H. destruct (accept_requires_authority _ _ _ H) as [gs [Hs [Ha Hv]]].
  exists gs. split; [exact Hs|]. intros Hn. split; [|exact Hv].
  unfold authorised_strict, authorised_in. unfold authorised_in in Ha.
  destruct (op_action o) as [ini|m l|m|m l|m l] eqn:Eact; try exact Ha.
  destruct (glookup (op_group o) gs) as [my|] eqn:Eg; [|reflexivity].
  exfalso. apply Hn. split; [rewrite Eact; reflexivity|rewrite Eg; discriminate].
Qed.

(** witness: member 7, who was never in group 0, "creates" group 0 again on top of the real
    create and becomes its only member and manager *)
Definition ex_recreate : Op := mkOp 1 7 [0%N] 0 (Create [(7%N, Manage)]).

Theorem recreate_refuted :
  exists y o y' gs,
    process y o = (y', OOk) /\ state_at y (op_deps o) = Some gs /\
    recreates gs o /\ ~ authorised_strict gs o /\
    (exists my, glookup (op_group o) gs = Some my /\ ~ known my (op_author o)) /\
    (exists gs' my', state_at y' (heads y') = Some gs' /\ glookup (op_group o) gs' = Some my' /\
       is_active_manager my' (op_author o) = true /\ ~ known my' 0%N).
Proof.
  pose (y := fst (run init [ex_create])).
  exists y, ex_recreate, (fst (process y ex_recreate)),
    (match state_at y [0%N] with Some g => g | None => [] end).
  split; [vm_compute; reflexivity|]. split; [vm_compute; reflexivity|].
  split; [split; [reflexivity|vm_compute; discriminate]|].
  split; [vm_compute; discriminate|].
  split.
  - eexists. split; [vm_compute; reflexivity|]. vm_compute. intros X. apply X. reflexivity.
  - eexists. eexists. split; [vm_compute; reflexivity|]. split; [vm_compute; reflexivity|].
    split; [vm_compute; reflexivity|]. vm_compute. intros X. apply X. reflexivity.
Qed.

(** * The decision depends on the declared dependencies only

    [process] validates an operation against [state_at] of its *declared* dependencies - the merge
    of the states stored for exactly those operations.  Whatever else the replica has accepted
    (concurrent branches, other heads) has no influence on the decision. *)

Lemma state_at_fold_ext y1 y2 deps : forall acc,
  (forall d, In d deps -> alookup d (states y1) = alookup d (states y2)) ->
  fold_left (fun a d => match a, alookup d (states y1) with
                        | Some cur, Some gs => Some (merge_group_states cur gs)
                        | _, _ => None
                        end) deps acc
  = fold_left (fun a d => match a, alookup d (states y2) with
                          | Some cur, Some gs => Some (merge_group_states cur gs)
                          | _, _ => None
                          end) deps acc.
Proof.
  induction deps as [|d r IH]; intros acc H; cbn [fold_left]; [reflexivity|].
  rewrite (H d (or_introl eq_refl)). apply IH. intros d' Hd. apply H. right. exact Hd.
Qed.

Lemma state_at_ext y1 y2 deps :
  (forall d, In d deps -> alookup d (states y1) = alookup d (states y2)) ->
  state_at y1 deps = state_at y2 deps.
Proof. intros H. unfold state_at. apply state_at_fold_ext. exact H. Qed.

Theorem decision_depends_only_on_dependencies y1 y2 o :
  (forall d, In d (op_deps o) -> alookup d (states y1) = alookup d (states y2)) ->
  memN (op_id o) (map op_id (ops y1)) = memN (op_id o) (map op_id (ops y2)) ->
  snd (process y1 o) = snd (process y2 o).
Proof.
  intros Hs Hd. unfold process. rewrite Hd, (state_at_ext _ _ _ Hs).
  destruct (memN (op_id o) (map op_id (ops y2))); [reflexivity|].
  destruct (state_at y2 (op_deps o)) as [gs|]; [|reflexivity].
  destruct (apply_action gs (op_group o) (op_author o) (op_action o)); reflexivity.
Qed.

Lemma memN_In x l : memN x l = true -> In x l.
Proof.
  unfold memN. intros H. apply existsb_exists in H. destruct H as [y [Hin He]].
  apply N.eqb_eq in He. subst y. exact Hin.
Qed.

(** an accepted operation that is not among the declared dependencies leaves the state at those
    dependencies as it was *)
Lemma accept_state_at_stable y o' y' deps :
  process y o' = (y', OOk) -> ~ In (op_id o') deps -> state_at y' deps = state_at y deps.
Proof.
  intros Hp Hn. apply accept_extends in Hp. destruct Hp as [_ [gs' Hst]].
  apply state_at_ext. intros d Hd. rewrite Hst. cbn [alookup].
  destruct (N.eqb_spec d (op_id o')) as [->|_]; [contradiction|reflexivity].
Qed.

Theorem concurrent_operation_irrelevant y o' y' out o :
  process y o' = (y', out) -> ~ In (op_id o') (op_deps o) -> op_id o <> op_id o' ->
  snd (process y' o) = snd (process y o).
Proof.
  intros Hp Hn Hid.
  destruct (process_ops _ _ _ _ Hp) as [[-> Hops]|[_ ->]]; [|reflexivity].
  apply decision_depends_only_on_dependencies.
  - intros d Hd. apply accept_extends in Hp. destruct Hp as [_ [gs' Hst]]. rewrite Hst. cbn [alookup].
    destruct (N.eqb_spec d (op_id o')) as [->|_]; [contradiction|reflexivity].
  - rewrite Hops. cbn [map]. unfold memN. cbn [existsb].
    destruct (N.eqb_spec (op_id o) (op_id o')) as [E|_]; [contradiction|reflexivity].
Qed.

(** any sequence of operations processed in between - none of them a declared dependency of [o],
    none of them [o] itself - does not change the decision on [o], nor the state it is judged in *)
Theorem concurrent_run_irrelevant l : forall y o,
  (forall o', In o' l -> ~ In (op_id o') (op_deps o) /\ op_id o <> op_id o') ->
  snd (process (fst (run y l)) o) = snd (process y o)
  /\ state_at (fst (run y l)) (op_deps o) = state_at y (op_deps o).
Proof.
  induction l as [|o1 r IH]; intros y o H; cbn [run]; [split; reflexivity|].
  destruct (process y o1) as [y1 out] eqn:Ep.
  assert (Hr : forall o', In o' r -> ~ In (op_id o') (op_deps o) /\ op_id o <> op_id o')
    by (intros o' Hin; apply H; right; exact Hin).
  specialize (IH y1 o Hr). destruct (run y1 r) as [y2 outs]. cbn [fst] in *.
  destruct (H o1 (or_introl eq_refl)) as [Hn Hid]. destruct IH as [IH1 IH2]. split.
  - rewrite IH1. eapply concurrent_operation_irrelevant; eassumption.
  - rewrite IH2. destruct (process_ops _ _ _ _ Ep) as [[-> _]|[_ ->]]; [|reflexivity].
    eapply accept_state_at_stable; eassumption.
Qed.

(** Example (the hypotheses are satisfiable, and the statement bites): manager 0 creates the
    group, then concurrently adds 1 as manager (operation 1) and 2 as reader (operation 2).  Both
    are heads.  Member 1 adding 3 is accepted when it declares operation 1 - or both heads - as
    dependencies, and rejected as an unrecognised actor when it declares operation 2 only: in the
    state at that dependency 1 is not a member, although it is a manager in the replica's
    current (merged) state.  The concurrent operation 1 is irrelevant for the decision. *)
Definition exb_create : Op := mkOp 0 0 [] 0 (Create [(0%N, Manage)]).
Definition exb_add1 : Op := mkOp 1 0 [0%N] 0 (Add 1 Manage).
Definition exb_add2 : Op := mkOp 2 0 [0%N] 0 (Add 2 Read).
Definition exb_probe (deps : list N) : Op := mkOp 3 1 deps 0 (Add 3 Read).
Definition exb_y : Replica := fst (run init [exb_create; exb_add1; exb_add2]).

Example exb_heads : heads exb_y = [2%N; 1%N].
Proof. vm_compute. reflexivity. Qed.

Example exb_current_manager :
  exists gs my, state_at exb_y (heads exb_y) = Some gs /\ glookup 0 gs = Some my
                /\ is_active_manager my 1 = true.
Proof. eexists. eexists. split; [vm_compute; reflexivity|]. split; vm_compute; reflexivity. Qed.

Example exb_outcomes :
  snd (process exb_y (exb_probe [2%N])) = OErr UnrecognisedActor
  /\ snd (process exb_y (exb_probe [1%N])) = OOk
  /\ snd (process exb_y (exb_probe [1%N; 2%N])) = OOk
  /\ snd (process exb_y (exb_probe [0%N])) = OErr UnrecognisedActor.
Proof. vm_compute. repeat split; reflexivity. Qed.

Example exb_irrelevant :
  snd (process exb_y (exb_probe [2%N]))
  = snd (process (fst (run init [exb_create; exb_add2])) (exb_probe [2%N])).
Proof. vm_compute. reflexivity. Qed.
