(** C38 — Expired or invalid key bundles are never accepted or used.

    Only statements here; proofs live in Proofs/KeyRegistry.v.  [valid_at t b] = the lifetime of
    [b] contains the clock reading [t] (both ends strict) and its signature verifies.  The model
    is the registry *after* the repair `fix: skip expired one-time key bundles`; the behaviour
    before the repair is [get_onetime_asis]. *)
From Coq Require Import List NArith.
From PV Require Import Model.KeyRegistry Proofs.KeyRegistry Oracle.C38 Proofs.OracleC38.
Import ListNotations.
Local Open Scope N_scope.

Theorem C38_never_accept_invalid_onetime :
  forall t y i b, snd (add_onetime t y i b) = Accepted -> valid_at t b = true.
Proof. exact never_accept_invalid_onetime. Qed.
Print Assumptions C38_never_accept_invalid_onetime.

Theorem C38_never_accept_invalid_longterm :
  forall t y i b, snd (add_longterm t y i b) = Accepted -> valid_at t b = true.
Proof. exact never_accept_invalid_longterm. Qed.
Print Assumptions C38_never_accept_invalid_longterm.

(** An invalid bundle is rejected with the reason and leaves the registry as it was. *)
Theorem C38_rejected_not_stored :
  forall t y i b,
    valid_at t b = false ->
    add_onetime t y i b = (y, Rejected (match verify t b with Some e => e | None => ELifetime end)) /\
    add_longterm t y i b = (y, Rejected (match verify t b with Some e => e | None => ELifetime end)).
Proof. exact rejected_not_stored. Qed.
Print Assumptions C38_rejected_not_stored.

(** For every sequence of add / get / remove_expired operations with arbitrary clock readings
    (time may pass between any two of them): whatever is accepted is valid when accepted, and
    whatever [key_bundle] returns — one-time or long-term — is valid when returned. *)
Theorem C38_never_accept_or_return_invalid :
  forall ops : list op, Forall2 answer_ok ops (snd (run get_onetime init ops)).
Proof. exact never_accept_or_return_invalid. Qed.
Print Assumptions C38_never_accept_or_return_invalid.

(** The long-term answer is the currently valid bundle with the furthest expiry. *)
Theorem C38_longterm_is_furthest :
  forall t y i b l x,
    lookup (longterm y) i = Some l -> snd (get_longterm t y i) = Got (Some b) ->
    In x l -> life_ok t x = true -> na x <= na b.
Proof. exact longterm_is_furthest. Qed.
Print Assumptions C38_longterm_is_furthest.

(** The code as found (one-time bundles popped without looking at the clock) violated the
    property: a bundle accepted at 1001 with lifetime (999, 1003) is returned at 1004. *)
Theorem C38_never_return_invalid_before_fix_refuted :
  ~ Forall2 answer_ok witness_ops (snd (run get_onetime_asis init witness_ops)).
Proof. exact asis_refuted. Qed.
Print Assumptions C38_never_return_invalid_before_fix_refuted.

(** Soundness of the boolean oracle: accepted observations satisfy the per-answer demand
    (accepted => valid then; returned => the implementation's own verify() succeeded and the
    bundle is valid by the clock arithmetic). *)
Theorem C38_oracle_sound :
  forall pool ops os acc ret,
    check_all pool acc ret ops os = true -> Forall2 (obs_ok pool) ops os.
Proof. exact check_sound. Qed.
Print Assumptions C38_oracle_sound.
