(** C38 — Expired or invalid key bundles are never accepted or used.

    Only statements here; proofs live in Proofs/KeyRegistry.v.  [valid_at t b] = the lifetime of
    [b] contains the clock reading [t] (both ends strict) and its signature verifies.  The model
    is the registry *after* the repairs `fix: skip expired one-time key bundles` and `fix:
    latest_key_bundle verifies the whole key bundle`; the behaviour before them is
    [get_onetime_asis] / [get_longterm_asis].  A registry state [y : reg] is ANY pair of
    association lists member -> list of bundles: nothing is assumed about how it came to be
    (built by [add_*], restored from persistence, left behind by a clock change). *)
From Coq Require Import List NArith.
From PV Require Import Model.KeyRegistry Proofs.KeyRegistry Oracle.C38 Proofs.OracleC38.
Import ListNotations.
Local Open Scope N_scope.

Theorem C38_never_accept_invalid_onetime :
  forall t y i b, snd (add_onetime t y i b) = Accepted -> valid_at t b = true.
Proof. exact never_accept_invalid_onetime. Qed.
Print Assumptions C38_never_accept_invalid_onetime.

Theorem C38_never_accept_invalid_longterm :
  forall t y i b, snd (add_longterm t y i b) = Accepted -> valid_at t b = true.
Proof. exact never_accept_invalid_longterm. Qed.
Print Assumptions C38_never_accept_invalid_longterm.

(** An invalid bundle is rejected with the reason and leaves the registry as it was. *)
Theorem C38_rejected_not_stored :
  forall t y i b,
    valid_at t b = false ->
    add_onetime t y i b = (y, Rejected (match verify t b with Some e => e | None => ELifetime end)) /\
    add_longterm t y i b = (y, Rejected (match verify t b with Some e => e | None => ELifetime end)).
Proof. exact rejected_not_stored. Qed.
Print Assumptions C38_rejected_not_stored.

(** For ANY registry state [y] and every sequence of add / get / remove_expired / restore
    (a member's list replaced by an arbitrary one) operations with arbitrary clock readings
    (time may pass, or jump, between any two of them): whatever is accepted is valid when
    accepted, and whatever [key_bundle] returns — one-time or long-term — is valid (lifetime and
    signature) when returned. *)
Theorem C38_never_accept_or_return_invalid :
  forall (y : reg) (ops : list op), Forall2 answer_ok ops (snd (run get_onetime y ops)).
Proof. exact never_accept_or_return_invalid. Qed.
Print Assumptions C38_never_accept_or_return_invalid.

(** The getters over arbitrary stored lists: for any stored state whatsoever and any time [t],
    whatever [key_bundle] returns for a member is valid at [t] — lifetime and signature. *)
Theorem C38_get_valid_from_any_state :
  forall (t : N) (y : reg) (i : N) (b : bundle),
    (snd (get_onetime t y i) = Got (Some b) -> valid_at t b = true) /\
    (snd (get_longterm t y i) = Got (Some b) -> valid_at t b = true).
Proof. exact get_valid_from_any_state. Qed.
Print Assumptions C38_get_valid_from_any_state.

(** ... and it is one of the bundles stored for that member. *)
Theorem C38_get_returns_stored :
  forall (t : N) (y : reg) (i : N) (b : bundle),
    (snd (get_onetime t y i) = Got (Some b) -> In b (stored (onetime y) i)) /\
    (snd (get_longterm t y i) = Got (Some b) -> In b (stored (longterm y) i)).
Proof. exact get_returns_stored. Qed.
Print Assumptions C38_get_returns_stored.

(** Registering a long-term bundle that is already stored for the member (a replayed key-bundle
    message): it is accepted only if it is valid at that time; if it is, the registry stays as
    it was (idempotent); if it is not — e.g. it expired meanwhile — it is rejected. *)
Theorem C38_readd_requires_valid :
  forall (t : N) (y : reg) (i : N) (b : bundle),
    In b (stored (longterm y) i) ->
    (snd (add_longterm t y i b) = Accepted -> valid_at t b = true) /\
    (valid_at t b = true -> add_longterm t y i b = (y, Accepted)) /\
    (valid_at t b = false -> exists e, add_longterm t y i b = (y, Rejected e)).
Proof. exact readd_requires_valid. Qed.
Print Assumptions C38_readd_requires_valid.

(** The long-term answer is the currently valid bundle with the furthest expiry. *)
Theorem C38_longterm_is_furthest :
  forall t y i b l x,
    lookup (longterm y) i = Some l -> snd (get_longterm t y i) = Got (Some b) ->
    In x l -> valid_at t x = true -> na x <= na b.
Proof. exact longterm_is_furthest. Qed.
Print Assumptions C38_longterm_is_furthest.

(** The code as found (one-time bundles popped without looking at the clock) violated the
    property: a bundle accepted at 1001 with lifetime (999, 1003) is returned at 1004. *)
Theorem C38_never_return_invalid_before_fix_refuted :
  ~ Forall2 answer_ok witness_ops (snd (run get_onetime_asis init witness_ops)).
Proof. exact asis_refuted. Qed.
Print Assumptions C38_never_return_invalid_before_fix_refuted.

(** The code as found re-checked only the lifetime on the long-term path: a restored state
    holding a bundle whose signature does not verify handed it out ... *)
Theorem C38_longterm_from_any_state_before_fix_refuted :
  ~ (forall t y i b, snd (get_longterm_asis t y i) = Got (Some b) -> valid_at t b = true).
Proof. exact asis_longterm_refuted. Qed.
Print Assumptions C38_longterm_from_any_state_before_fix_refuted.

(** ... and only then: with verifying signatures stored (every state built by [add_*]) the
    answer was valid before the repair too. *)
Theorem C38_longterm_before_fix_outside_known :
  forall t y i b,
    (forall x, In x (stored (longterm y) i) -> sig_ok x = true) ->
    snd (get_longterm_asis t y i) = Got (Some b) -> valid_at t b = true.
Proof. exact asis_longterm_outside_known. Qed.
Print Assumptions C38_longterm_before_fix_outside_known.

(** Soundness of the boolean oracle: accepted observations satisfy the per-answer demand
    (accepted => valid then; returned => the implementation's own verify() succeeded and the
    bundle is valid by the clock arithmetic). *)
Theorem C38_oracle_sound :
  forall pool ops os acc,
    check_all pool acc ops os = true -> Forall2 (obs_ok pool) ops os.
Proof. exact check_sound. Qed.
Print Assumptions C38_oracle_sound.
