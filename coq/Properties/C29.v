(** C29 — Gossip overlay is left exactly when the last handle is gone; a handle returned during
    a concurrent drop is backed by an active subscription.

    Only statements here; proofs live in Proofs/GossipGuard.v.  [reachable true flags s] = [s] is
    reached from the empty system by SOME interleaving of any number of threads (one per entry
    of [flags], each running "h = stream(topic); keep or drop h") and manager steps, for the
    repaired (compare-and-swap) [Gossip::stream].  PARTIAL with respect to Rust atomics (SeqCst,
    indivisible), the actor mailbox (FIFO) and the manager (session bookkeeping only). *)
From Coq Require Import List Arith Bool.
From PV Require Import Model.GossipGuard Proofs.GossipGuard.
Import ListNotations.

(** Every interleaving: the counter of a guard generation is exactly the number of live counted
    references to it (it never underflows and never misses one). *)
Theorem C29_counter_counts_references_partial :
  forall flags s g, reachable true flags s -> get (ctr s) g = cnt (holds true g) (thr s).
Proof. exact counter_counts_references. Qed.
Print Assumptions C29_counter_counts_references_partial.

(** Every interleaving: the Unsubscribe messages a generation has sent or still owes are exactly
    its 1 -> 0 counter transitions; there is at most one, and after it the counter stays 0 (no
    handle is ever created on a counter that reached 0). *)
Theorem C29_unsubscribe_count_is_zero_transitions_partial :
  forall flags s g, reachable true flags s ->
    count_msg (MUnsub g) (log s ++ mbox s) + cnt (at_send g) (thr s) = get (zeros s) g /\
    get (zeros s) g <= 1 /\
    (get (zeros s) g = 1 -> get (ctr s) g = 0).
Proof. exact unsubscribe_count_is_zero_transitions. Qed.
Print Assumptions C29_unsubscribe_count_is_zero_transitions_partial.

(** Every interleaving: a handle that stream() returned (or is returning: fast path after the
    increment) belongs to a generation whose counter is >= 1, that never reached 0, and that has
    neither sent nor owes an Unsubscribe — in particular during a concurrent last drop. *)
Theorem C29_returned_handle_generation_live_partial :
  forall flags s i t g, reachable true flags s ->
    nth_error (thr s) i = Some t -> holds_handle g t = true ->
    1 <= get (ctr s) g /\ get (zeros s) g = 0 /\
    count_msg (MUnsub g) (log s ++ mbox s) = 0 /\ cnt (at_send g) (thr s) = 0.
Proof. exact returned_handle_generation_live. Qed.
Print Assumptions C29_returned_handle_generation_live_partial.

(** The property at full strength (every held handle is backed by the session the manager ends
    up with and that session was never stopped; joins and leaves alternate; the overlay is left
    once no reference remains) for every interleaving OUTSIDE the class of the open findings:
    no subscription is started while an earlier generation still has a reference or owes its
    Unsubscribe ([no_overlap]). *)
Theorem C29_backed_and_left_exactly_outside_known :
  forall flags ls s,
    run_strict true (init flags) ls = Some s ->
    no_overlap true (init flags) ls = true ->
    handles_backed s /\ alternating true (log s ++ mbox s) = true /\ left_iff_unreferenced s.
Proof. exact outside_known. Qed.
Print Assumptions C29_backed_and_left_exactly_outside_known.

(** Inside that class the property fails on the faithful model — two open findings, both replayed
    on the real code by the harness. *)
Theorem C29_late_unsubscribe_refuted :
  exists s, run_strict true (init [true; false]) late_unsub_trace = Some s /\ ~ handles_backed s.
Proof. exact late_unsubscribe_refuted. Qed.
Print Assumptions C29_late_unsubscribe_refuted.

Theorem C29_concurrent_subscribe_refuted :
  exists s, run_strict true (init [true; false]) concurrent_sub_trace = Some s /\ ~ handles_backed s.
Proof. exact concurrent_subscribe_refuted. Qed.
Print Assumptions C29_concurrent_subscribe_refuted.

(** For the record: the as-is check-then-act [Gossip::stream] (before the fix) violates the
    property on a trace WITHOUT any overlapping subscription, and sends Unsubscribe twice. *)
Theorem C29_asis_toctou_refuted :
  exists s, run_strict false (init [true; false]) toctou_trace = Some s /\
            no_overlap false (init [true; false]) toctou_trace = true /\
            ~ handles_backed s.
Proof. exact asis_toctou_refuted. Qed.
Print Assumptions C29_asis_toctou_refuted.

Theorem C29_asis_double_unsubscribe_refuted :
  exists s, run_strict false (init [true; true]) (toctou_trace ++ [LT 1; LT 1; LT 1]) = Some s /\
            count_msg (MUnsub 0) (log s ++ mbox s) = 2.
Proof. exact asis_double_unsubscribe. Qed.
Print Assumptions C29_asis_double_unsubscribe_refuted.

(** Regression witness: a [drop] whose decision re-reads the shared counter after the decrement
    (instead of using the value returned by its own fetch_sub, as the code does) sends two
    Unsubscribes for ONE 1 -> 0 transition when the last two references are dropped concurrently;
    the code as modelled sends one on the same schedule. *)
Theorem C29_reread_after_decrement_refuted :
  (exists s, run_strict_reread (init [true; true]) two_last_drops_trace = Some s /\
             get (zeros s) 0 = 1 /\ count_msg (MUnsub 0) (log s ++ mbox s) = 2) /\
  count_msg (MUnsub 0) (log (run_case true [true; true] two_last_drops_trace)) = 1.
Proof. exact reread_after_decrement_refuted. Qed.
Print Assumptions C29_reread_after_decrement_refuted.

(** What the correspondence harness executes (skip disabled labels, then run to completion) is a
    reachable state, so the theorems above cover every state the runs visit. *)
Theorem C29_run_case_reachable :
  forall fixed flags ls, reachable fixed flags (run_case fixed flags ls).
Proof. exact run_case_reachable. Qed.
Print Assumptions C29_run_case_reachable.
