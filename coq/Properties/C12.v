(** C12 -- Released orderer items survive cancellation of [next].

    The faithful model of the code as it is (Model/OrdererCancel.v: [Orderer::next] as a step
    machine over its await points; dropping the future = discarding the program counter, the
    open transaction is rolled back) does NOT satisfy the property: [C12_refuted].  It holds for
    every cancellation point outside the class {commit applied, item not yet returned}:
    [C12_outside_known].  Proofs in Proofs/OrdererCancel.v. *)
From Coq Require Import List Arith NArith.
From PV Require Import Model.Orderer Model.OrdererCancel Proofs.OrdererCancel.
Import ListNotations.

(** A [next()] future dropped after any number of await points, as long as the commit has not
    been applied (and it has not completed), leaves the world -- orderer tables, operation store,
    items handed out -- exactly as it was. *)
Theorem C12_cancel_safe_before_commit :
  forall (n : nat) (w : world),
    after_commit (fst (exec n PLock w)) = false -> is_done (fst (exec n PLock w)) = false ->
    attempt n w = w.
Proof. exact cancel_safe_before_commit. Qed.
Print Assumptions C12_cancel_safe_before_commit.

(** Known finding: there is a world and a cancellation point (commit applied, [get_operation] not
    completed) after which a queued item is never handed out by any number of later [next] calls. *)
Theorem C12_refuted :
  exists (w : world) (n : nat) (x : id),
    NoLoss w /\ ops_present w /\
    after_commit (fst (exec n PLock w)) = true /\
    (exists r, In r (ready_tbl (st w)) /\ r_id r = x /\ r_inq r = true) /\
    forall m, ~ In x (ret (wdrain m (attempt n w))).
Proof. exact refuted. Qed.
Print Assumptions C12_refuted.

(** Outside the known class nothing is lost: for every sequence of [next()] futures, each polled
    for an arbitrary number of await points and then dropped (or completed), none of them dropped
    in the class [after_commit] -- every ready item of the initial world has been handed out
    once the queue is drained by later [next] calls, and no out-of-queue row is ever unreturned. *)
Theorem C12_outside_known :
  forall (ns : list nat) (w : world),
    NoLoss w -> ops_present w -> safe_sched ns w ->
    let wf := run_attempts ns w in
    NoLoss wf /\
    forall r, In r (ready_tbl (st w)) ->
              In (r_id r) (ret (wdrain (S (length (ready_tbl (st wf)))) wf)).
Proof. exact outside_known. Qed.
Print Assumptions C12_outside_known.
