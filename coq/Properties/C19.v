(** C19 -- Log sync delivers exactly the missing operations; both replicas converge.

    Only statements here; proofs live in Proofs/LogSync*.v.  Model: Model/LogSync.v
    ([run true] = one side of [LogSync::run] after the C20 repair; [exec true cbuf] = two sides
    joined by two FIFO queues, any schedule [ls] of ticks, pushes and deliveries). *)
From Coq Require Import List Arith NArith.
From PV Require Import Model.Dedup Model.LogSync Proofs.LogSyncScript Proofs.LogSyncOps Proofs.LogSyncJoint
  Proofs.LogSyncTerm Proofs.LogSyncRecv Proofs.LogSyncIds Proofs.LogSyncMain.
Import ListNotations.

(** What a side sends is a function of its own replica and the Have it accepted only: for every
    interleaving [ins] of ticks (store unchanged: [static]) and received messages that reaches
    the end, the sink carries exactly [script r logs h]. *)
Theorem C19_script :
  forall (r : replica) (logs : list (N * list N)) (cap : nat) (ins : list input),
    static r ins ->
    ph (fst (run true (init logs cap) ins)) = PEnd ->
    exists h, have_of_run (init logs cap) ins = Some h /\
              sent (snd (run true (init logs cap) ins)) = script r logs h.
Proof. exact script_thm. Qed.
Print Assumptions C19_script.

Theorem C19_script_interleaving_independent :
  forall r logs cap ins1 ins2,
    static r ins1 -> static r ins2 ->
    ph (fst (run true (init logs cap) ins1)) = PEnd ->
    ph (fst (run true (init logs cap) ins2)) = PEnd ->
    have_of_run (init logs cap) ins1 = have_of_run (init logs cap) ins2 ->
    sent (snd (run true (init logs cap) ins1)) = sent (snd (run true (init logs cap) ins2)).
Proof. exact script_interleaving_independent. Qed.
Print Assumptions C19_script_interleaving_independent.

(** The operations in the script are, for every configured log in configuration order, exactly
    the stored rows with a sequence number above the height the peer announced (all rows if it
    did not announce the log), in store order, each once ([expected_ops], Model/LogSync.v). *)
Theorem C19_sent_ops_exact :
  forall (r : replica) (logs : list (N * list N)) (h : heights),
    pos_sizes r -> ops_of (script r logs h) = expected_ops r logs h.
Proof. exact sent_ops_exact. Qed.
Print Assumptions C19_sent_ops_exact.

(** Two honest sides, any transport ([cbuf]), any schedule: when both are finished each sink
    carried the side's script and each application was handed exactly the operations of the
    other side's script, once each, in order (ids pairwise distinct over what is sent). *)
Theorem C19_received_exact :
  forall (rA rB : replica) (logsA logsB : list (N * list N)) (cbuf : option nat),
    NoDup (ids (scA rA rB logsA logsB) ++ ids (scB rA rB logsA logsB)) ->
    forall (cap : nat) (ls : list label) (y : sys),
      exec true cbuf rA rB (sys0 logsA logsB cap) ls = Some y -> finished y = true ->
      sent (n_hist (sa y)) = scA rA rB logsA logsB /\ sent (n_hist (sb y)) = scB rA rB logsA logsB /\
      ev_ops (n_hist (sa y)) = ops_of (scB rA rB logsA logsB) /\
      ev_ops (n_hist (sb y)) = ops_of (scA rA rB logsA logsB).
Proof. exact received_exact. Qed.
Print Assumptions C19_received_exact.

(** The same with the id hypothesis discharged from well-formedness of the replicas: ids are a
    function of (author, log, seq) shared by both replicas and injective on their rows (no forks), sequence numbers
    are unique within a log, every author / log is configured once, sizes are positive.  Then each
    application is handed exactly [expected_ops] of the other replica: the other side's stored
    operations of the configured logs with a sequence number above the own height, each once, in
    log order, and nothing else. *)
Theorem C19_received_exact_wf :
  forall (idf : N * N * N -> N) (rA rB : replica) (logsA logsB : list (N * list N)) (cbuf : option nat)
         (cap : nat) (ls : list label) (y : sys),
    inj_on_reps idf rA rB -> wf_ids idf rA -> wf_ids idf rB -> nodup_seqs rA -> nodup_seqs rB ->
    nodup_cfg logsA -> nodup_cfg logsB -> pos_sizes rA -> pos_sizes rB ->
    exec true cbuf rA rB (sys0 logsA logsB cap) ls = Some y -> finished y = true ->
    sent (n_hist (sa y)) = scA rA rB logsA logsB /\ sent (n_hist (sb y)) = scB rA rB logsA logsB /\
    ev_ops (n_hist (sa y)) = expected_ops rB logsB (local_heights rA logsA) /\
    ev_ops (n_hist (sb y)) = expected_ops rA logsA (local_heights rB logsB).
Proof. exact received_exact_wf. Qed.
Print Assumptions C19_received_exact_wf.

(** After ingesting what they were handed, both replicas hold the pointwise maximum of the two
    heights on every configured log. *)
Theorem C19_converge :
  forall (rA rB : replica) (logs : list (N * list N)) (a : N) (ls : list N) (l : N),
    NoDup (map fst logs) -> In (a, ls) logs -> In l ls ->
    height (ingest rA (expected_ops rB logs (local_heights rA logs))) a l = omax (height rA a l) (height rB a l) /\
    height (ingest rB (expected_ops rA logs (local_heights rB logs))) a l = omax (height rA a l) (height rB a l).
Proof. exact converge. Qed.
Print Assumptions C19_converge.

(** Termination over unbounded queues: from every reachable state either both sides are
    finished or some step is enabled, and no run is longer than a bound fixed by the replicas. *)
Theorem C19_termination :
  forall (rA rB : replica) (logsA logsB : list (N * list N)) (cap : nat) (ls : list label) (y : sys),
    exec true None rA rB (sys0 logsA logsB cap) ls = Some y ->
    (finished y = true \/ exists l, enabled true None rA rB y l = true) /\
    length ls <= measure rA rB logsA logsB (sys0 logsA logsB cap).
Proof. exact termination_unbounded. Qed.
Print Assumptions C19_termination.
