(** C31 — Replicas of a group converge to the same membership and access.

    Only statements here; proofs live in Proofs/GroupCrdt*.v.  Reading guide:
    [gstate] is the flattened map (group, member) -> member state, [geq] is equality of all
    lookups, [wf] is "no duplicate keys", [gnc] / [op_nc] say that no access carries a condition
    (C = ()), [run] processes a list of operations in order (GroupCrdt::process with an empty
    StrongRemove filter), [good l] = unique ids + every dependency precedes its operation +
    no conditions, [same_ops l1 l2] = the same operations, dependency lists possibly permuted. *)
From Coq Require Import List NArith Bool Permutation String.
From PV Require Import Lib.AListC31 Model.GroupCrdt Proofs.GroupCrdt Proofs.GroupCrdtRun
     Proofs.GroupCrdtMembers Proofs.GroupCrdtConverge Oracle.C31.
Import ListNotations.

(** state merge ([merge_states] inner loop + [state::merge]) is commutative, associative and
    idempotent when no access carries a condition *)
Theorem C31_merge_comm :
  forall s1 s2, wf s1 -> wf s2 -> gnc s1 -> gnc s2 -> geq (gmerge s1 s2) (gmerge s2 s1).
Proof. exact gmerge_comm. Qed.
Print Assumptions C31_merge_comm.

Theorem C31_merge_assoc :
  forall s1 s2 s3, wf s1 -> wf s2 -> wf s3 -> gnc s1 -> gnc s2 -> gnc s3 ->
    geq (gmerge s1 (gmerge s2 s3)) (gmerge (gmerge s1 s2) s3).
Proof. exact gmerge_assoc. Qed.
Print Assumptions C31_merge_assoc.

Theorem C31_merge_idem :
  forall s, wf s -> gnc s -> geq (gmerge s s) s.
Proof. exact gmerge_idem. Qed.
Print Assumptions C31_merge_idem.

(** merging a set of states does not depend on the HashSet iteration order *)
Theorem C31_merge_states_perm_invariant :
  forall l1 l2 l2', Permutation l1 l2' -> Forall2 geq l2' l2 ->
    Forall wf l1 -> Forall wf l2 -> Forall gnc l1 ->
    geq (merge_list l1) (merge_list l2).
Proof. exact merge_states_perm_invariant. Qed.
Print Assumptions C31_merge_states_perm_invariant.

(** the state recorded for an operation is a function of its causal history *)
Theorem C31_state_fn_of_history :
  forall l1 l2, good l1 -> good l2 -> same_ops l1 l2 ->
    forall i, oeq (sget i (r_sts (run l1))) (sget i (r_sts (run l2))).
Proof. exact state_fn_of_history. Qed.
Print Assumptions C31_state_fn_of_history.

(** any two causal orders: same states, same accepted operations, same members and root members *)
Theorem C31_converge_no_rebuild :
  forall l1 l2, good l1 -> good l2 -> same_ops l1 l2 ->
    (forall i, oeq (sget i (r_sts (run l1))) (sget i (r_sts (run l2)))) /\
    same_ops (r_ops (run l1)) (r_ops (run l2)) /\
    (forall g m, mlookup m (members (run l1) g) = mlookup m (members (run l2) g)) /\
    (forall g, Permutation (root_members (run l1) g) (root_members (run l2) g)).
Proof. exact converge_no_rebuild. Qed.
Print Assumptions C31_converge_no_rebuild.

(** repeated queries: the members traversal gives one answer for all iteration orders of a state *)
Theorem C31_members_query_deterministic :
  forall cs cs' g, wf cs -> wf cs' -> gnc cs -> geq cs cs' ->
    forall m, mlookup m (members_cs cs g) = mlookup m (members_cs cs' g).
Proof. exact members_query_deterministic. Qed.
Print Assumptions C31_members_query_deterministic.

(** with conditions the model of the code as it is violates the property (open finding
    members_order_dependent_with_conditions): two causal orders of one operation set disagree *)
Theorem C31_refuted_conditions :
  exists l1 l2 g m,
    good_cond l1 /\ good_cond l2 /\ same_ops l1 l2 /\
    mlookup m (members (run l1) g) <> mlookup m (members (run l2) g).
Proof. exact refuted_conditions. Qed.
Print Assumptions C31_refuted_conditions.

(** ... and so do two queries of one state under two iteration orders *)
Theorem C31_refuted_conditions_query :
  exists cs cs' g m,
    wf cs /\ wf cs' /\ geq cs cs' /\
    mlookup m (members_cs cs g) <> mlookup m (members_cs cs' g).
Proof. exact refuted_conditions_query. Qed.
Print Assumptions C31_refuted_conditions_query.

(** outside the finding's class (no access carries a condition) the property holds *)
Theorem C31_converge_outside_known :
  forall l1 l2, good_cond l1 -> good_cond l2 -> same_ops l1 l2 ->
    ~ has_conditions l1 -> ~ has_conditions l2 ->
    (forall g m, mlookup m (members (run l1) g) = mlookup m (members (run l2) g)) /\
    (forall g, Permutation (root_members (run l1) g) (root_members (run l2) g)).
Proof. exact converge_outside_known. Qed.
Print Assumptions C31_converge_outside_known.

(** the oracle evaluated on the implementation's answers is sound *)
Theorem C31_oracle_sound :
  forall answers, check answers = true -> forall a b, In a answers -> In b answers -> a = b.
Proof. exact check_sound. Qed.
Print Assumptions C31_oracle_sound.
