(** C40 — Topic sync metrics count every session's bytes exactly once; running = started - ended.

    Only statements here; proofs live in Proofs/SyncMetrics.v.  [run_state true] is the model of
    [Aggregator::process] (after the repair) folded over a history of (session id, event) pairs;
    [wf_history ns evs] says that the events of every single session, taken in order, follow the
    documented life cycle — the sessions are interleaved arbitrarily. *)
From Coq Require Import List NArith.
From PV Require Import Model.SyncMetrics Proofs.SyncMetrics.
Import ListNotations.
Local Open Scope N_scope.

(** Totals: sum over the sessions of the bytes each contributed (sync + live of a finished
    session, sync figure of a session past its sync phase), each byte once. *)
Theorem C40_totals_exact : forall ns evs a,
  wf_history ns evs = true -> run_state true agg_new evs = Some a ->
  total_sent a = spec_sent ns evs /\ total_recv a = spec_recv ns evs.
Proof. exact totals_exact. Qed.
Print Assumptions C40_totals_exact.

(** The run does not panic while the exact figures stay within u32. *)
Theorem C40_no_panic_within_u32 : forall ns evs,
  wf_history ns evs = true -> all_fit evs = true ->
  count is_start evs < u32_max_plus_1 ->
  spec_sent ns evs < u32_max_plus_1 -> spec_recv ns evs < u32_max_plus_1 ->
  exists a, run_state true agg_new evs = Some a.
Proof. exact no_panic_within_u32. Qed.
Print Assumptions C40_no_panic_within_u32.

(** running = started - ended (and never more ended than started) when every session opens with
    SessionStarted. *)
Theorem C40_running_is_started_minus_ended : forall fixed evs a,
  wf_history true evs = true -> run_state fixed agg_new evs = Some a ->
  count is_end evs <= count is_start evs /\
  running a = count is_start evs - count is_end evs.
Proof. exact running_is_started_minus_ended. Qed.
Print Assumptions C40_running_is_started_minus_ended.

(** ... and it is the number of sessions between their SessionStarted and their terminal event. *)
Theorem C40_running_is_open_sessions : forall fixed evs a,
  wf_history true evs = true -> run_state fixed agg_new evs = Some a ->
  running a = open_sessions evs.
Proof. exact running_is_open_sessions. Qed.
Print Assumptions C40_running_is_open_sessions.

(** Without SessionStarted in the input (what the sync layer emits today, finding of C22) the
    count stays 0. *)
Theorem C40_running_zero_without_session_started : forall fixed evs a a',
  count is_start evs = 0 -> running a = 0 -> run_state fixed a evs = Some a' -> running a' = 0.
Proof. exact running_zero_without_session_started. Qed.
Print Assumptions C40_running_zero_without_session_started.

(** Failed sessions, partial: counted with at most the last figure they reported (never twice),
    possibly less than was transferred — Failed carries no metrics. *)
Theorem C40_failed_session_not_overcounted_partial : forall ns l o,
  phase_run ns PInit l = Some (PFailed o) ->
  contrib_sent ns l <= last_reported sent_sync_bytes sent_live_bytes 0 l /\
  contrib_recv ns l <= last_reported received_sync_bytes received_live_bytes 0 l.
Proof. exact failed_session_not_overcounted_partial. Qed.
Print Assumptions C40_failed_session_not_overcounted_partial.

(** The code before the repair counted the sync bytes twice (regression witness). *)
Theorem C40_asis_double_counts :
  wf_history true double_count_witness = true /\
  exists a, run_state false agg_new double_count_witness = Some a /\
            total_sent a = 20 /\ spec_sent true double_count_witness = 10.
Proof. exact asis_double_counts. Qed.
Print Assumptions C40_asis_double_counts.

(** The boolean oracle evaluated on the implementation's counters means what it should. *)
From PV Require Oracle.C40 Proofs.OracleTasksMetrics.
Theorem C40_oracle_sound : forall ns evs observed,
  Oracle.C40.check ns evs observed false = true -> wf_history ns evs = true ->
  List.length observed = List.length evs /\
  forall k r s v, nth_error observed k = Some (r, s, v) ->
    let pre := firstn (S k) evs in
    s = spec_sent ns pre /\ v = spec_recv ns pre /\
    r = (if ns then count is_start pre - count is_end pre else 0).
Proof. exact Proofs.OracleTasksMetrics.c40_check_sound. Qed.
Print Assumptions C40_oracle_sound.
