(** C25 — Topic handshake transfers the initiator's topic or fails cleanly.

    Only statements here; proofs live in Proofs/Handshake.v.  [T] is an arbitrary topic type. *)
From Coq Require Import List Arith Bool.
From PV Require Import Model.Handshake Proofs.Handshake Oracle.C25 Proofs.HandshakeOracle.
Import ListNotations.

(** Honest run (canonical schedule): both sides complete, the acceptor outputs exactly the
    initiator's topic, the events are the documented ones, nothing is left to do. *)
Theorem C25_honest_run :
  forall (T : Type) (t : T),
    let p := pair t NoMitm in
    sI p = Fin (Ok None) /\ sA p = Fin (Ok (Some t)) /\
    evI p = [EvInitiate t; EvDone t] /\ evA p = [EvAccept; EvTopicReceived t; EvDone t] /\
    stuck t NoMitm p = true.
Proof. exact honest_run. Qed.
Print Assumptions C25_honest_run.

(** Honest run, every schedule (any interleaving of the two sides, any length): no side ever
    holds an error; a returned acceptor holds exactly the initiator's topic. *)
Theorem C25_honest_safe_every_schedule :
  forall (T : Type) (t : T) (sched : list side),
    let p := prun t NoMitm sched pinit in
    (forall e, sI p <> Fin (Err e)) /\ (forall e, sA p <> Fin (Err e)) /\
    (forall o, sA p = Fin (Ok o) -> o = Some t) /\
    (forall o, sI p = Fin (Ok o) -> o = None).
Proof. exact honest_safe. Qed.
Print Assumptions C25_honest_safe_every_schedule.

(** Honest run, every schedule: whenever neither side can move, both have completed with Ok
    (no deadlock, nobody hangs). *)
Theorem C25_honest_no_deadlock :
  forall (T : Type) (t : T) (sched : list side),
    let p := prun t NoMitm sched pinit in
    stuck t NoMitm p = true -> sI p = Fin (Ok None) /\ sA p = Fin (Ok (Some t)).
Proof. exact honest_no_deadlock. Qed.
Print Assumptions C25_honest_no_deadlock.

(** Honest run, every schedule: at most 20 effective steps can ever be taken, so a schedule that
    keeps choosing an enabled side reaches the stuck state of the previous theorem. *)
Theorem C25_honest_bounded :
  forall (T : Type) (t : T) (sched : list side), effective t NoMitm sched pinit <= 20.
Proof. exact honest_effective_bounded. Qed.
Print Assumptions C25_honest_bounded.

(** One side against ANY environment (arbitrary incoming items then closure, a sink failing at
    any operation, event receiver alive or gone): the side returns (no hang). *)
Theorem C25_run_terminates :
  forall (T : Type) (r : role T) (items : list (item T)) (sf : option nat) (evo : bool),
    exists res, result_of (run_side r (mkenv items sf evo)) = Some res.
Proof. exact run_terminates. Qed.
Print Assumptions C25_run_terminates.

(** Any fault gives an error: unless the incoming items start with the honest transcript shape,
    no sink operation fails and the event receiver is alive, the side returns Err. *)
Theorem C25_fault_gives_error :
  forall (T : Type) (r : role T) (items : list (item T)) (sf : option nat) (evo : bool),
    ~ clean r items sf evo ->
    exists e, result_of (run_side r (mkenv items sf evo)) = Some (Err e).
Proof. exact fault_gives_error. Qed.
Print Assumptions C25_fault_gives_error.

(** Exact characterisation of the acceptor's successes; in particular its output is the topic
    carried by the first message it received, never anything else. *)
Theorem C25_acceptor_ok_iff :
  forall (T : Type) (items : list (item T)) (sf : option nat) (evo : bool) (o : option T),
    result_of (run_side Acceptor (mkenv items sf evo)) = Some (Ok o) <->
    (exists t', o = Some t' /\ (exists rest, items = IMsg (Topic t') :: IMsg Done :: rest)
                /\ sink_faulty 3 sf = false /\ evo = true).
Proof. exact acceptor_ok_iff. Qed.
Print Assumptions C25_acceptor_ok_iff.

Theorem C25_initiator_ok_iff :
  forall (T : Type) (t : T) (items : list (item T)) (sf : option nat) (evo : bool) (o : option T),
    result_of (run_side (Initiator t) (mkenv items sf evo)) = Some (Ok o) <->
    (o = None /\ (exists rest, items = IMsg Done :: rest) /\ sink_faulty 5 sf = false /\ evo = true).
Proof. exact initiator_ok_iff. Qed.
Print Assumptions C25_initiator_ok_iff.

(** Every truncation of the honest transcript: UnexpectedStreamClosure. *)
Theorem C25_truncation_acceptor :
  forall (T : Type) (t : T) (k : nat), k < 2 ->
    result_of (run_side Acceptor (mkenv (firstn k (honest_to_acceptor t)) None true)) = Some (Err EClosure).
Proof. exact truncation_gives_closure_acceptor. Qed.
Print Assumptions C25_truncation_acceptor.

Theorem C25_truncation_initiator :
  forall (T : Type) (t : T) (k : nat), k < 1 ->
    result_of (run_side (Initiator t) (mkenv (firstn k honest_to_initiator) None true)) = Some (Err EClosure).
Proof. exact truncation_gives_closure_initiator. Qed.
Print Assumptions C25_truncation_initiator.

(** Every substitution of message k by a different item: an error — or, for the one substitution
    an acceptor cannot tell from an honest initiator (topic replaced by another topic), exactly
    that topic; never a third value. *)
Theorem C25_substitution_acceptor :
  forall (T : Type) (t : T) (k : nat) (h x : item T) (rest : list (item T)),
    nth_error (honest_to_acceptor t) k = Some h -> x <> h ->
    let items := firstn k (honest_to_acceptor t) ++ x :: rest in
    (exists e, result_of (run_side Acceptor (mkenv items None true)) = Some (Err e)) \/
    (k = 0 /\ exists t', x = IMsg (Topic t') /\
       result_of (run_side Acceptor (mkenv items None true)) = Some (Ok (Some t'))).
Proof. exact substitution_gives_error_acceptor. Qed.
Print Assumptions C25_substitution_acceptor.

Theorem C25_substitution_initiator :
  forall (T : Type) (t : T) (k : nat) (h x : item T) (rest : list (item T)),
    nth_error honest_to_initiator k = Some h -> x <> h ->
    exists e, result_of (run_side (Initiator t) (mkenv (firstn k honest_to_initiator ++ x :: rest) None true))
              = Some (Err e).
Proof. exact substitution_gives_error_initiator. Qed.
Print Assumptions C25_substitution_initiator.

(** Once the stream reported closure the machine does nothing more (no further poll, send or
    event) and its result is UnexpectedStreamClosure. *)
Theorem C25_no_wait_after_close :
  forall (T : Type) (r : role T) (items : list (item T)) (sf : option nat) (evo : bool)
         (pre post : list (action T * resp T)),
    trace (obs_of (run_side r (mkenv items sf evo))) = pre ++ (ARecv, RItem None) :: post ->
    post = [] /\ result_of (run_side r (mkenv items sf evo)) = Some (Err EClosure).
Proof. exact no_wait_after_close. Qed.
Print Assumptions C25_no_wait_after_close.

(** Likewise after a failed sink operation or event send. *)
Theorem C25_no_action_after_failure :
  forall (T : Type) (r : role T) (items : list (item T)) (sf : option nat) (evo : bool)
         (pre : list (action T * resp T)) (a : action T) (post : list (action T * resp T)),
    trace (obs_of (run_side r (mkenv items sf evo))) = pre ++ (a, RAck false) :: post -> post = [].
Proof. exact no_action_after_failure. Qed.
Print Assumptions C25_no_action_after_failure.

(** With a man in the middle cutting one direction of the real pair, the side reading that
    direction returns an error. *)
Theorem C25_pair_truncation :
  forall (T : Type) (t : T),
    (forall k, k < 2 -> exists e, sA (pair t (Truncate ItoA k)) = Fin (Err e)) /\
    (exists e, sI (pair t (Truncate AtoI 0)) = Fin (Err e)).
Proof. exact pair_truncation. Qed.
Print Assumptions C25_pair_truncation.

(** Soundness of the oracle that judges the implementation's result (Oracle/C25.v), and the model
    itself passes it in every environment (topics = strings). *)
Theorem C25_oracle_sound :
  forall r items sf evo res n,
    Oracle.C25.check_single r items sf evo res n = true ->
    n <= 1 /\
    ((clean r items sf evo /\ exists o, Oracle.C25.expected r items sf evo = Some o /\ res = Oracle.C25.IOk o) \/
     (~ clean r items sf evo /\ res = Oracle.C25.IFail)).
Proof. exact HandshakeOracle.check_single_sound. Qed.
Print Assumptions C25_oracle_sound.

Theorem C25_model_passes_oracle :
  forall (r : role String.string) items sf evo,
    Oracle.C25.check_single r items sf evo
      (Oracle.C25.ires_of (result_of (run_side r (mkenv items sf evo))))
      (Oracle.C25.none_polls (trace (obs_of (run_side r (mkenv items sf evo))))) = true.
Proof. exact HandshakeOracle.model_passes_oracle. Qed.
Print Assumptions C25_model_passes_oracle.
