(** C37 — Two-party messaging (2SM) decrypts in any interleaving and rejects replays.

    Only statements here; proofs live in Proofs/TwoParty.v, the model in Model/TwoParty.v
    (symbolic cryptography: ideal PKE, X3DH as an ideal one-shot channel, fresh keys as names —
    PARTIAL in that sense).  [run (init_world ot sym) evs] executes an arbitrary interleaving
    [evs] of [Send]s of both parties, in-order [Recv]s and [Replay]s, for one-time ([ot = true])
    or long-term pre-key bundles, with one ([sym = false]) or both parties able to open the
    session. *)
From Coq Require Import List NArith Bool.
From PV Require Import Model.TwoParty Proofs.TwoParty Oracle.C37 Proofs.C37Oracle.
Import ListNotations.
Local Open Scope N_scope.

(** After ANY interleaving, the next pending message of either direction (send order) is
    accepted and decrypts to exactly its plaintext; it then counts as processed. *)
Theorem C37_decrypts_in_send_order :
  forall (ot sym : bool) (evs : list event),
    forallb in_order_event evs = true ->
    let w := fst (run (init_world ot sym) evs) in
    forall p m q, pending w p = m :: q ->
      exists w', step w (Recv p) = (w', ORecv (plain_of m)) /\ pending w' p = q /\
                 rcvd w' p = rcvd w p + 1.
Proof. exact decrypts_in_send_order. Qed.
Print Assumptions C37_decrypts_in_send_order.

(** The plaintext inside a message is the one handed to [send]. *)
Theorem C37_message_carries_sent_plaintext :
  forall me s x s' m, send me s x = Ok (s', m) -> plain_of m = x.
Proof. exact send_carries_plain. Qed.
Print Assumptions C37_message_carries_sent_plaintext.

(** [done p ++ pending p] is, in order, what the other party sent to [p] (bookkeeping of
    [step]: receives move the head of [pending] to the end of [done], sends append). *)
Theorem C37_queues_keep_send_order :
  forall w e p, in_order_event e = true ->
    let w' := fst (step w e) in
    done w' p ++ pending w' p =
    done w p ++ pending w p ++
      match e with
      | Send x v => if party_eqb p (other x)
                    then match send x (wst w x) v with Ok (_, m) => [m] | Err _ => [] end else []
      | _ => []
      end.
Proof. exact step_sent. Qed.
Print Assumptions C37_queues_keep_send_order.

(** After ANY interleaving, processing an already processed message again is an error and
    changes nothing. *)
Theorem C37_replay_rejected :
  forall (ot sym : bool) (evs : list event),
    forallb in_order_event evs = true ->
    let w := fst (run (init_world ot sym) evs) in
    forall p i m, nth_error (done w p) i = Some m ->
      exists e, step w (Replay p i) = (w, ORecvErr e).
Proof. exact replay_rejected. Qed.
Print Assumptions C37_replay_rejected.

(** The property in oracle form: the boolean oracle that the check evaluates on the
    implementation's observations ([Oracle/C37.v: check]: every in-order receive yields the
    plaintext of the next message of its direction, every replay is rejected) is true on the
    model's own observations for ANY interleaving. *)
Theorem C37_model_passes_oracle :
  forall (ot sym : bool) (evs : list event),
    forallb in_order_event evs = true ->
    check evs (snd (run (init_world ot sym) evs)) = true.
Proof. exact model_passes_oracle. Qed.
Print Assumptions C37_model_passes_oracle.
