(** C27 — Address book keeps the newest authentic transport info per node.

    Only statements here; proofs live in Proofs/AddressBook.v.  All theorems are stated for an
    arbitrary signature type and verification function ([sigT], [verify]); "authentic for node
    n" is [authentic sigT verify n] = the record passes [TransportInfo::verify(n)] (signature
    by n over exactly its timestamp and addresses, or trusted and every address naming n). *)
From Coq Require Import List NArith Bool Permutation.
From PV Require Import Model.AddressBook Proofs.AddressBook.
Import ListNotations.

(** Records arriving at one node in any number and order ([arrive] folds
    [NodeInfo::update_transports]): the stored record is one of the arrived records, is
    authentic, and no authentic arrived record has a newer timestamp; nothing is stored iff no
    authentic record arrived. *)
Theorem C27_stored_is_max_authentic :
  forall sigT (verify : N -> payload -> sigT -> bool) (node : N) (rs : list (tinfo sigT)),
    match arrive sigT verify node None rs with
    | None => forall r, In r rs -> authentic sigT verify node r = false
    | Some s =>
        In s rs /\ authentic sigT verify node s = true /\
        forall r, In r rs -> authentic sigT verify node r = true ->
                  ts_ltb (info_ts sigT s) (info_ts sigT r) = false
    end.
Proof. exact stored_is_max_authentic. Qed.
Print Assumptions C27_stored_is_max_authentic.

(** Forged (bad signature, tampered content) or mismatched (trusted but naming another node)
    records never become the stored record. *)
Theorem C27_forged_never_stored :
  forall sigT (verify : N -> payload -> sigT -> bool) (node : N) (rs : list (tinfo sigT)) (r : tinfo sigT),
    arrive sigT verify node None rs = Some r -> In r rs /\ authentic sigT verify node r = true.
Proof. exact forged_never_stored. Qed.
Print Assumptions C27_forged_never_stored.

(** Whatever order the records arrive in (distinct timestamps among the authentic ones), the
    same record ends up stored. *)
Theorem C27_arrival_order_irrelevant :
  forall sigT (verify : N -> payload -> sigT -> bool) (node : N) (rs rs' : list (tinfo sigT)),
    Permutation rs rs' ->
    NoDup (map (info_ts sigT) (filter (authentic sigT verify node) rs)) ->
    arrive sigT verify node None rs = arrive sigT verify node None rs'.
Proof. exact arrival_order_irrelevant. Qed.
Print Assumptions C27_arrival_order_irrelevant.

(** The address-book actor, any number of nodes, records for different nodes interleaved
    arbitrarily through InsertTransportInfo, starting from any book: every node's stored record
    is the newest authentic one among the previously stored one and those addressed to it. *)
Theorem C27_book_stored_is_newest :
  forall sigT (verify : N -> payload -> sigT -> bool) (ops : list (op sigT)) (b : book sigT) (n : N),
    only_transport_ops sigT ops = true ->
    stored sigT (fst (actor_run sigT verify b ops)) n
    = newest_authentic sigT verify n (stored sigT b n) (transports_for sigT n ops).
Proof. exact book_stored_is_newest. Qed.
Print Assumptions C27_book_stored_is_newest.

Theorem C27_book_order_irrelevant :
  forall sigT (verify : N -> payload -> sigT -> bool) (ops ops' : list (op sigT)) (n : N),
    only_transport_ops sigT ops = true -> only_transport_ops sigT ops' = true ->
    Permutation (transports_for sigT n ops) (transports_for sigT n ops') ->
    NoDup (map (info_ts sigT) (filter (authentic sigT verify n) (transports_for sigT n ops))) ->
    stored sigT (fst (actor_run sigT verify [] ops)) n = stored sigT (fst (actor_run sigT verify [] ops')) n.
Proof. exact book_order_irrelevant. Qed.
Print Assumptions C27_book_order_irrelevant.

(** Any sequence of actor operations, local overwrites (InsertNodeInfo) included: a record that
    is not authentic for a node is never stored for it. *)
Theorem C27_book_never_stores_forged :
  forall sigT (verify : N -> payload -> sigT -> bool) (ops : list (op sigT)) (n : N) (r : tinfo sigT),
    stored sigT (fst (actor_run sigT verify [] ops)) n = Some r -> authentic sigT verify n r = true.
Proof. exact book_never_stores_forged_from_empty. Qed.
Print Assumptions C27_book_never_stores_forged.

(** Under the ideal-signature hypothesis (a signature verifies for node and payload iff it is
    the node's own signature over exactly that payload) a stored authenticated record was
    signed by the node itself over the stored timestamp and addresses. *)
Theorem C27_stored_signed_by_node :
  forall sigT (verify : N -> payload -> sigT -> bool) (sign : N -> payload -> sigT),
    (forall node p s, verify node p s = true <-> s = sign node p) ->
    forall (ops : list (op sigT)) (n : N) (r : tinfo sigT),
      stored sigT (fst (actor_run sigT verify [] ops)) n = Some r ->
      match r with
      | Authenticated t s a => s = sign n (t, a)
      | Trusted _ a => forall x, In x a -> fst x = n
      end.
Proof. exact stored_signed_by_node. Qed.
Print Assumptions C27_stored_signed_by_node.
