(** C01 — Only authentic, well-formed operations are ingested.

    Only statements here; proofs are in Proofs/Validate.v (and Proofs/Header.v for the encoding),
    the model in Model/Validate.v.

    Every theorem is "for every signature scheme / hash / HashSet iteration order / store
    satisfying the hypotheses":
      [ideal_signatures verify sign sk_of] : verify pk m s = true <-> s = sign (sk_of pk) m, a
                                             signature determines signer and message, distinct
                                             public keys have distinct secret keys;
      [injective_hash hash_body]           : no two bodies share a hash;
      [is_perm_fun order]                  : the iteration order is a permutation.
    [C01_hypotheses_satisfiable] shows they can be met (free-term instance).
    [canonical h] is the representation invariant of the model (a [HashSet] value is written as
    its strictly sorted list), not a restriction on operations. *)
From Coq Require Import List NArith.
From PV Require Import Model.Header Model.Validate Proofs.Header Proofs.Validate.
Import ListNotations.

(** validate_operation accepts exactly the operations that are authentic (the author's
    signature over the canonical unsigned header bytes), of version 1, with consistent payload
    size/hash and seq/backlink fields and, if a body is attached, with that body's hash and size:
    sound and complete. *)
Theorem C01_validate_sound_complete :
  forall verify_sig hash_body order sign sk_of,
    ideal_signatures verify_sig sign sk_of ->
    forall op : operation,
      validate_operation verify_sig hash_body order op = None <-> good hash_body order sign sk_of op.
Proof. exact c_validate_iff. Qed.
Print Assumptions C01_validate_sound_complete.

(** Any tampering with a valid operation — any change of header fields under the same
    signature, any other signature, any other attached body — is rejected by validation. *)
Theorem C01_tamper_rejected :
  forall verify_sig hash_body order sign sk_of,
    ideal_signatures verify_sig sign sk_of -> injective_hash hash_body -> is_perm_fun order ->
    forall op op' : operation,
      canonical (op_header op) -> canonical (op_header op') ->
      validate_operation verify_sig hash_body order op = None ->
      single_tamper op op' ->
      validate_operation verify_sig hash_body order op' <> None.
Proof. exact c_tamper_rejected. Qed.
Print Assumptions C01_tamper_rejected.

(** A signature accepted on one header is accepted on no other header (and for no other
    author). *)
Theorem C01_same_signature_same_header :
  forall verify_sig order sign sk_of,
    ideal_signatures verify_sig sign sk_of -> is_perm_fun order ->
    forall h h' : header,
      canonical h -> canonical h' ->
      validate_header verify_sig order h = None -> validate_header verify_sig order h' = None ->
      h_sig h' = h_sig h -> h' = h.
Proof.
  intros verify_sig order sign sk_of S P. exact (c_same_signature_same_header verify_sig order sign sk_of S P).
Qed.
Print Assumptions C01_same_signature_same_header.

(** ... and ingest then rejects it leaving the store exactly as it was, for every store. *)
Theorem C01_ingest_tamper_unchanged :
  forall verify_sig hash_body order sign sk_of,
    ideal_signatures verify_sig sign sk_of -> injective_hash hash_body -> is_perm_fun order ->
    forall (store : Type) (has_op : store -> bytes -> bool)
           (log_check : store -> operation -> option op_error) (insert : store -> operation -> store)
           (s : store) (op op' : operation),
      canonical (op_header op) -> canonical (op_header op') ->
      validate_operation verify_sig hash_body order op = None ->
      single_tamper op op' ->
      exists e, ingest verify_sig hash_body order store has_op log_check insert s op' = (s, Rejected e).
Proof. exact c_ingest_tamper_unchanged. Qed.
Print Assumptions C01_ingest_tamper_unchanged.

(** Every rejection by ingest (validation or log integrity) leaves the store unchanged. *)
Theorem C01_ingest_reject_unchanged :
  forall verify_sig hash_body order (store : Type) (has_op : store -> bytes -> bool)
         (log_check : store -> operation -> option op_error) (insert : store -> operation -> store)
         (s : store) (op : operation) (s' : store) (e : op_error),
    ingest verify_sig hash_body order store has_op log_check insert s op = (s', Rejected e) -> s' = s.
Proof. exact ingest_reject_unchanged. Qed.
Print Assumptions C01_ingest_reject_unchanged.

(** Whatever ingest accepts (newly inserted, or reported as already present) passed validation. *)
Theorem C01_ingest_ok_valid :
  forall verify_sig hash_body order (store : Type) (has_op : store -> bytes -> bool)
         (log_check : store -> operation -> option op_error) (insert : store -> operation -> store)
         (s : store) (op : operation) (s' : store) (r : ingest_result),
    ingest verify_sig hash_body order store has_op log_check insert s op = (s', r) ->
    r = Inserted \/ r = Existed ->
    validate_operation verify_sig hash_body order op = None.
Proof. exact ingest_ok_valid. Qed.
Print Assumptions C01_ingest_ok_valid.

(** An operation is inserted only if it is good, was not there, and passed the log check; the new
    store is the old one plus that operation. *)
Theorem C01_ingest_inserted_only_if_good :
  forall verify_sig hash_body order sign sk_of,
    ideal_signatures verify_sig sign sk_of ->
    forall (store : Type) (has_op : store -> bytes -> bool)
           (log_check : store -> operation -> option op_error) (insert : store -> operation -> store)
           (s : store) (op : operation) (s' : store),
      ingest verify_sig hash_body order store has_op log_check insert s op = (s', Inserted) ->
      good hash_body order sign sk_of op /\ has_op s (op_hash op) = false /\ log_check s op = None
      /\ s' = insert s op.
Proof.
  intros verify_sig hash_body order sign sk_of S.
  exact (c_ingest_inserted_only_if_good verify_sig hash_body order sign sk_of S).
Qed.
Print Assumptions C01_ingest_inserted_only_if_good.

(** Boundary made explicit: removing the body of a valid operation is accepted (by design, the
    payload is "off-chain" data) — it is not among the tamperings of [single_tamper]. *)
Theorem C01_body_removal_accepted :
  forall verify_sig hash_body order sign sk_of,
    ideal_signatures verify_sig sign sk_of ->
    forall op : operation,
      validate_operation verify_sig hash_body order op = None ->
      validate_operation verify_sig hash_body order (mkOp (op_hash op) (op_header op) None) = None.
Proof.
  intros verify_sig hash_body order sign sk_of S.
  exact (c_body_removal_accepted verify_sig hash_body order sign sk_of S).
Qed.
Print Assumptions C01_body_removal_accepted.

(** Two facts about the code found while proving: an attached empty body is never accepted, and
    the [MissingPayloadHash] branch of validate_operation can never be taken. *)
Theorem C01_empty_attached_body_rejected :
  forall verify_sig hash_body order sign sk_of,
    ideal_signatures verify_sig sign sk_of ->
    forall op : operation,
      op_body op = Some [] -> validate_operation verify_sig hash_body order op <> None.
Proof.
  intros verify_sig hash_body order sign sk_of S.
  exact (c_empty_attached_body_rejected verify_sig hash_body order sign sk_of S).
Qed.
Print Assumptions C01_empty_attached_body_rejected.

Theorem C01_missing_payload_hash_unreachable :
  forall verify_sig hash_body order sign sk_of,
    ideal_signatures verify_sig sign sk_of ->
    forall op : operation,
      validate_operation verify_sig hash_body order op <> Some MissingPayloadHash.
Proof.
  intros verify_sig hash_body order sign sk_of S.
  exact (c_missing_payload_hash_unreachable verify_sig hash_body order sign sk_of S).
Qed.
Print Assumptions C01_missing_payload_hash_unreachable.

(** The hypotheses are not contradictory. *)
Theorem C01_hypotheses_satisfiable :
  ideal_signatures ideal_verify ideal_sign (fun x => x) /\ injective_hash ideal_hash
  /\ is_perm_fun (fun l : list bytes => l).
Proof.
  split; [exact ideal_instance_signatures | split; [exact ideal_instance_hash | intro l; apply Permutation.Permutation_refl]].
Qed.
Print Assumptions C01_hypotheses_satisfiable.
