(** C05 — Pruned log prefixes never come back.

    Only statements here; proofs live in Proofs/Ingest.v, the model in Model/Ingest.v. *)
From Coq Require Import List Arith NArith Bool.
From PV Require Import Model.Ingest Proofs.Ingest.
Import ListNotations.
Local Open Scope N_scope.

(** Once a prune-flagged operation [o] at sequence number N was ingested for its log (inserted,
    or recognised as already stored) after the deliveries [pre], then whatever is delivered
    afterwards ([post]: any operations, older prune points included, any order, duplicates,
    forged copies) the store holds no entry of that log below N. *)
Theorem C05_no_resurrection :
  forall (pre : list op) (o : op) (post : list op),
    wf_history (pre ++ o :: post) = true ->
    o_prune o = true -> res_ok (snd (deliver (run pre) o)) = true ->
    forall r, In r (run (pre ++ o :: post)) ->
      in_log (o_author o) (o_log o) r = true -> o_seq o <= r_seq r.
Proof. exact no_resurrection. Qed.
Print Assumptions C05_no_resurrection.

(** The repaired check itself: a prune point at or below the latest stored entry is rejected. *)
Theorem C05_old_prune_point_rejected :
  forall (s : store) (o : op) (p : row),
    o_valid o = true -> has_op s (o_id o) = false ->
    latest s (o_author o) (o_log o) = Some p -> o_prune o = true -> 0 < o_seq o -> o_seq o <= r_seq p ->
    ingest s o = (s, Rejected ESeqNonIncremental).
Proof. exact rejected_old_prune_point. Qed.
Print Assumptions C05_old_prune_point_rejected.

(** Regression witness: with [validate_prunable_backlink] as it was before the repair (any
    prune-flagged header with seq > 0 passes) the well-formed history "prune point 7, then the
    older prune point 3" ends with the store [7; 3] -- the defect this check found. *)
Theorem C05_unrepaired_model_refuted :
  wf_history c05_witness = true /\
  map r_seq (fold_left (fun s o => fst (deliver_asis_prune s o)) c05_witness []) = [7; 3].
Proof. exact C05_asis_refuted. Qed.
Print Assumptions C05_unrepaired_model_refuted.
