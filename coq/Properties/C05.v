(** C05 — Pruned log prefixes never come back.

    Only statements here; proofs live in Proofs/Ingest.v, the model in Model/Ingest.v. *)
From Coq Require Import List Arith NArith Bool.
From Coq Require Import Permutation.
From PV Require Import Model.Ingest Proofs.Ingest Model.IngestConc Proofs.IngestConc.
Import ListNotations.
Local Open Scope N_scope.

(** Once a prune-flagged operation [o] at sequence number N was ingested for its log (inserted,
    or recognised as already stored) after the deliveries [pre], then whatever is delivered
    afterwards ([post]: any operations, older prune points included, any order, duplicates,
    forged copies) the store holds no entry of that log below N. *)
Theorem C05_no_resurrection :
  forall (pre : list op) (o : op) (post : list op),
    wf_history (pre ++ o :: post) = true ->
    o_prune o = true -> res_ok (snd (deliver (run pre) o)) = true ->
    forall r, In r (run (pre ++ o :: post)) ->
      in_log (o_author o) (o_log o) r = true -> o_seq o <= r_seq r.
Proof. exact no_resurrection. Qed.
Print Assumptions C05_no_resurrection.

(** The repaired check itself: a prune point at or below the latest stored entry is rejected. *)
Theorem C05_old_prune_point_rejected :
  forall (s : store) (o : op) (p : row),
    o_valid o = true -> has_op s (o_id o) = false ->
    latest s (o_author o) (o_log o) = Some p -> o_prune o = true -> 0 < o_seq o -> o_seq o <= r_seq p ->
    ingest s o = (s, Rejected ESeqNonIncremental).
Proof. exact rejected_old_prune_point. Qed.
Print Assumptions C05_old_prune_point_rejected.

(** Regression witness: with [validate_prunable_backlink] as it was before the repair (any
    prune-flagged header with seq > 0 passes) the well-formed history "prune point 7, then the
    older prune point 3" ends with the store [7; 3] -- the defect this check found. *)
Theorem C05_unrepaired_model_refuted :
  wf_history c05_witness = true /\
  map r_seq (fold_left (fun s o => fst (deliver_asis_prune s o)) c05_witness []) = [7; 3].
Proof. exact C05_asis_refuted. Qed.
Print Assumptions C05_unrepaired_model_refuted.

Local Close Scope N_scope.

(** ** Overlapping ingest calls (Model/IngestConc.v)

    [k = length ops] calls of [ingest_operation] run concurrently on one store, each cut at its
    await points (validate; begin = acquire the single transaction permit; has_operation_tx;
    get_latest_entry_tx; validate_prunable_backlink; insert; commit = release).  For EVERY
    interleaving [sch] after which all calls have returned, the committed store (rows in commit
    order) and every call's result are those of awaiting the calls one after the other in some
    order [pi]. *)
Theorem C05_concurrent_ingest_serialisable :
  forall (ops : list op) (s0 : store) (sch : list nat),
    let c := run_sched validate_prunable_backlink ops sch (init s0) in
    all_done (List.length ops) c = true ->
    exists pi, Permutation pi (seq 0 (List.length ops)) /\
      c_store c = fst (seq_run validate_prunable_backlink ops s0 pi) /\
      forall i r, In (i, r) (snd (seq_run validate_prunable_backlink ops s0 pi)) -> c_th c i = TDone r.
Proof. exact (concurrent_ingest_serialisable validate_prunable_backlink). Qed.
Print Assumptions C05_concurrent_ingest_serialisable.

(** The same at every moment of every interleaving (also incomplete ones): the committed store
    is the sequential result of the calls that have returned so far, in their commit order. *)
Theorem C05_concurrent_prefix_serialisable :
  forall (ops : list op) (s0 : store) (sch : list nat),
    let c := run_sched validate_prunable_backlink ops sch (init s0) in
    exists order, NoDup order /\ (forall i, In i order <-> is_done (c_th c i) = true) /\
      (forall i, In i order -> i < List.length ops) /\
      c_store c = fst (seq_run validate_prunable_backlink ops s0 order) /\
      forall i r, In (i, r) (snd (seq_run validate_prunable_backlink ops s0 order)) -> c_th c i = TDone r.
Proof. exact (sched_prefix_serialisable validate_prunable_backlink). Qed.
Print Assumptions C05_concurrent_prefix_serialisable.

(** C05 carries over to concurrent deliveries: after the prune point [o] at N went through the
    pipeline, any batch of overlapping ingest calls (older prune points, duplicates, forged
    copies, ...), under every interleaving and at every moment of it, leaves no entry of that
    log below N in the committed store. *)
Theorem C05_no_resurrection_concurrent :
  forall (pre : list op) (o : op) (ops : list op) (sch : list nat),
    wf_history (pre ++ [o]) = true ->
    o_prune o = true -> res_ok (snd (deliver (run pre) o)) = true ->
    forall r, In r (c_store (run_sched validate_prunable_backlink ops sch (init (run (pre ++ [o]))))) ->
      in_log (o_author o) (o_log o) r = true -> (o_seq o <= r_seq r)%N.
Proof. exact no_resurrection_concurrent. Qed.
Print Assumptions C05_no_resurrection_concurrent.

(** Inside a batch: rows are committed in strictly increasing sequence-number order per log
    ([incr]: store in insertion order), under every interleaving -- so a call that commits after a
    prune point at N was committed (by an overlapping call) never stores an entry at or below N. *)
Theorem C05_concurrent_commit_order_increasing :
  forall (s0 : store) (ops : list op) (sch : list nat),
    incr s0 -> incr (c_store (run_sched validate_prunable_backlink ops sch (init s0))).
Proof. exact concurrent_commit_order_increasing. Qed.
Print Assumptions C05_concurrent_commit_order_increasing.

(** Regression witness about a VARIANT of the code (tip read with the non-transactional
    [get_latest_entry] before [begin()]; not the code as it is): prune points 5 and 3 of one log
    ingested concurrently, both calls read the empty tip, 5 commits, 3 is validated against the
    stale tip and commits -- store [5; 3] in commit order, which no sequential order produces. *)
Theorem C05_concurrent_stale_tip_refuted :
  wf_history st_ops = true /\
  let c := vrun_sched validate_prunable_backlink st_ops st_sched (vinit []) in
  v_all_done 2 c = true /\ map r_seq (v_store c) = [5; 3]%N /\
  v_th c 0%nat = VDone Inserted /\ v_th c 1%nat = VDone Inserted /\
  incrb (v_store c) = false /\
  (forall pi, In pi [[0; 1]; [1; 0]]%nat ->
     map r_seq (fst (seq_run validate_prunable_backlink st_ops [] pi)) <> [5; 3]%N).
Proof. exact stale_tip_refuted. Qed.
Print Assumptions C05_concurrent_stale_tip_refuted.
