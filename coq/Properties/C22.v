(** C22 — Sync session events follow the documented lifecycle.

    Only statements here; proofs live in Proofs/TopicSync.v.  The model is the code after the two
    repairs (stream closure inside the Sync loop; terminal event before a failing close).  The
    event [SessionStarted], documented as "always sent", is never emitted by the code: that part
    of the property is refuted ([C22_lifecycle_refuted]) and is the open known finding
    [session_started_never_emitted]; everything else is proved ([C22_lifecycle_outside_known]). *)
From Coq Require Import List Arith NArith Bool.
From PV Require Import Model.Dedup Model.TopicSync Proofs.TopicSync.
Import ListNotations.

(** For every live flag, buffer capacity, local data, input sequence (any messages, stream
    errors, closure at any point), sink fault position (transient or sticky) and select schedule:
    the session returns, and its events are  p ++ [t]  with  t  the single terminal event
    (SessionFinished or Failed) in last position,  p  a terminal-free prefix of a success sequence
    SyncStarted Op^ SyncFinished (LiveModeStarted Op^)?, and  t = SessionFinished  only after the
    complete success sequence of the configured mode; the boolean oracle accepts them. *)
Theorem C22_lifecycle_every_run :
  forall (c : cfg) (ins : list input) (fa : option nat) (stk : bool) (sched : list bool),
    fst (run c ins fa stk sched) <> RDiverge /\
    lifecycle_form (live c) (evs (snd (run c ins fa stk sched))) /\
    lifecycle_tail (live c) (evs (snd (run c ins fa stk sched))) = true.
Proof. exact lifecycle_every_run. Qed.
Print Assumptions C22_lifecycle_every_run.

(** Exactly one terminal event, and nothing after it (spelled out). *)
Theorem C22_exactly_one_terminal_last :
  forall (c : cfg) (ins : list input) (fa : option nat) (stk : bool) (sched : list bool),
    exists p t, evs (snd (run c ins fa stk sched)) = p ++ [t] /\
      (t = ESessionFinished \/ t = EFailed) /\
      Forall (fun e => e <> ESessionFinished /\ e <> EFailed) p.
Proof. exact exactly_one_terminal_last. Qed.
Print Assumptions C22_exactly_one_terminal_last.

(** The session's return value agrees with its terminal event. *)
Theorem C22_result_matches_terminal :
  forall (c : cfg) (ins : list input) (fa : option nat) (stk : bool) (sched : list bool),
    fst (run c ins fa stk sched) = ROk <-> last_is (evs (snd (run c ins fa stk sched))) ESessionFinished.
Proof. exact result_matches_terminal. Qed.
Print Assumptions C22_result_matches_terminal.

(** The oracle's automaton accepts exactly the documented shapes. *)
Theorem C22_oracle_iff_shape :
  forall (lv : bool) (l : list event), lifecycle_tail lv l = true <-> shape lv l.
Proof. exact lifecycle_tail_iff_shape. Qed.
Print Assumptions C22_oracle_iff_shape.

(** Refuted: the property as stated (SessionStarted first) fails already for the plainest
    successful session ... *)
Theorem C22_lifecycle_refuted :
  exists c ins fa stk sched,
    fst (run c ins fa stk sched) = ROk /\ lifecycle (live c) (evs (snd (run c ins fa stk sched))) = false.
Proof. exact lifecycle_refuted. Qed.
Print Assumptions C22_lifecycle_refuted.

(** ... in fact for every session: SessionStarted is never emitted. *)
Theorem C22_session_started_never_emitted :
  forall (c : cfg) (ins : list input) (fa : option nat) (stk : bool) (sched : list bool),
    ~ In ESessionStarted (evs (snd (run c ins fa stk sched))).
Proof. exact session_started_never_emitted. Qed.
Print Assumptions C22_session_started_never_emitted.

(** Outside that known finding the full grammar holds: with the promised first event prepended,
    every run satisfies the whole property. *)
Theorem C22_lifecycle_outside_known :
  forall (c : cfg) (ins : list input) (fa : option nat) (stk : bool) (sched : list bool),
    lifecycle (live c) (ESessionStarted :: evs (snd (run c ins fa stk sched))) = true.
Proof. exact lifecycle_outside_known. Qed.
Print Assumptions C22_lifecycle_outside_known.
