(** C20 -- Each sync side sends exactly one Done, even under concurrent pruning.

    Only statements here; proofs live in Proofs/LogSyncC20.v.  [run true] is the model of
    [LogSync::run] after the repair (Model/LogSync.v); an input sequence is any interleaving of
    [Tick r] (the code advances to its next store call / send, the store holding [r] at that
    moment -- an arbitrary, possibly different replica at every tick), [Recv m] (any message,
    honest or not) and [Closed]. *)
From Coq Require Import List Arith NArith.
From PV Require Import Model.Dedup Model.LogSync Proofs.LogSyncC20.
Import ListNotations.

(** For every input sequence the messages sent so far never leave the grammar
    Have . (Done | PreSync . Operation* . Done) ([gram] is its recogniser, [GBad] its sink). *)
Theorem C20_message_grammar :
  forall (logs : list (N * list N)) (cap : nat) (ins : list input),
    gram (sent (snd (run true (init logs cap) ins))) <> GBad.
Proof. exact message_grammar. Qed.
Print Assumptions C20_message_grammar.

(** When the session reaches its end the sent messages are a complete word:
    [Have; Done] or [Have; PreSync; Operation...; Done]. *)
Theorem C20_message_grammar_complete :
  forall (logs : list (N * list N)) (cap : nat) (ins : list input),
    ph (fst (run true (init logs cap) ins)) = PEnd ->
    (exists h, sent (snd (run true (init logs cap) ins)) = [Have h; Done]) \/
    (exists h o b ops, sent (snd (run true (init logs cap) ins)) = Have h :: PreSync o b :: ops ++ [Done]
                       /\ Forall (fun m => exists a l w, m = Operation a l w) ops).
Proof. exact message_grammar_complete. Qed.
Print Assumptions C20_message_grammar_complete.

(** Nothing is ever sent after a Done (in particular no second Done). *)
Theorem C20_nothing_after_done :
  forall (logs : list (N * list N)) (cap : nat) (ins : list input) (ms1 ms2 : list msg),
    sent (snd (run true (init logs cap) ins)) = ms1 ++ Done :: ms2 -> ms2 = [].
Proof. exact nothing_after_done. Qed.
Print Assumptions C20_nothing_after_done.

(** The code as found ([run false], no precondition on the send arm) sends Have . Done . Done
    when the log is pruned between the heights and the sizes query. *)
Theorem C20_unrepaired_refuted :
  exists logs cap ins,
    sent (snd (run false (init logs cap) ins)) = [Have [(0, [(0, 1)])]; Done; Done]%N /\
    gram (sent (snd (run false (init logs cap) ins))) = GBad.
Proof. exact old_step_refuted. Qed.
Print Assumptions C20_unrepaired_refuted.
