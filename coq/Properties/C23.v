(** C23 — Live mode forwards every new operation once to every other session.

    Only statements here; proofs live in Proofs/Live.v.  Every theorem holds for EVERY label
    sequence [tr] (any interleaving of arrivals — with duplicates from several sessions —, manager
    steps, session pumps and local publications) "within the de-duplication window": the
    operations of the flow and of the sync-phase seeds come from a finite universe [U] that fits
    into the session buffers ([capS]) and the manager's buffer ([capM]). *)
From Coq Require Import List Arith NArith Bool.
From PV Require Import Model.Dedup Model.Live Proofs.Live Oracle.C23 Proofs.LiveOracle.
Import ListNotations.

(** A manager step appends the operation to the live channel of every other session of the
    topic and to no other channel ... *)
Theorem C23_forward_step :
  forall (c : config) (st : state) (s op : N) (r : list N),
    evq st s = op :: r ->
    forall x, inq (step c st (Mgr s)) x = if fwd c s x then inq st x ++ [op] else inq st x.
Proof. exact forward_step. Qed.
Print Assumptions C23_forward_step.

(** ... in particular never to the session it came from. *)
Theorem C23_forward_not_to_origin : forall (c : config) (s : N), fwd c s s = false.
Proof. exact forward_not_to_origin. Qed.
Print Assumptions C23_forward_not_to_origin.

(** Once nothing is in flight, an operation that arrived on one session is known on every
    session of the topic: sent to its remote, or arrived from it, or already synced to it. *)
Theorem C23_forwarded_to_all_others :
  forall (c : config) (seed : N -> list N) (capS capM : nat) (U : list N),
    length U <= capS -> length U <= capM ->
    (forall s op, In op (seed s) -> In op U) -> (forall s, NoDup (seed s)) ->
    (forall a b, same_topic c a b = true -> incl (seed a) (seed b)) ->
    forall (tr : list label) (s op s' : N),
      Forall (label_ok U) tr -> quiescent c (reach c seed capS capM tr) = true ->
      In (EArr s op) (log (reach c seed capS capM tr)) -> same_topic c s s' = true ->
      In (ESent s' op) (log (reach c seed capS capM tr)) \/
      In (EArr s' op) (log (reach c seed capS capM tr)) \/ In op (seed s').
Proof. exact forwarded_to_all_others. Qed.
Print Assumptions C23_forwarded_to_all_others.

(** Each session sends a given operation at most once, and never one it already synced. *)
Theorem C23_at_most_once_per_session_within_window :
  forall (c : config) (seed : N -> list N) (capS capM : nat) (U : list N),
    length U <= capS -> length U <= capM ->
    (forall s op, In op (seed s) -> In op U) -> (forall s, NoDup (seed s)) ->
    (forall a b, same_topic c a b = true -> incl (seed a) (seed b)) ->
    forall (tr : list label) (s op : N) (l1 l2 : list entry),
      Forall (label_ok U) tr -> log (reach c seed capS capM tr) = l1 ++ ESent s op :: l2 ->
      ~ In (ESent s op) l1 /\ ~ In (ESent s op) l2 /\ ~ In op (seed s).
Proof. exact at_most_once_per_session. Qed.
Print Assumptions C23_at_most_once_per_session_within_window.

(** After an operation arrived on a session, that session never sends it. *)
Theorem C23_never_back_to_origin :
  forall (c : config) (seed : N -> list N) (capS capM : nat) (U : list N),
    length U <= capS -> length U <= capM ->
    (forall s op, In op (seed s) -> In op U) -> (forall s, NoDup (seed s)) ->
    (forall a b, same_topic c a b = true -> incl (seed a) (seed b)) ->
    forall (tr : list label) (s op : N) (l1 l2 : list entry),
      Forall (label_ok U) tr -> log (reach c seed capS capM tr) = l1 ++ EArr s op :: l2 ->
      ~ In (ESent s op) l2.
Proof. exact never_back_to_origin. Qed.
Print Assumptions C23_never_back_to_origin.

(** Per peer, outside the known finding (sessions of a topic have pairwise different remotes):
    an operation that came from a peer is never afterwards sent to that peer. *)
Theorem C23_never_back_to_peer_outside_known :
  forall (c : config) (seed : N -> list N) (capS capM : nat) (U : list N),
    length U <= capS -> length U <= capM ->
    (forall s op, In op (seed s) -> In op U) -> (forall s, NoDup (seed s)) ->
    (forall a b, same_topic c a b = true -> incl (seed a) (seed b)) ->
    forall (tr : list label) (s op : N) (l1 l2 : list entry) (s' : N),
      distinct_peers c -> Forall (label_ok U) tr ->
      log (reach c seed capS capM tr) = l1 ++ EArr s op :: l2 ->
      same_topic c s s' = true -> peer_of c s = peer_of c s' -> ~ In (ESent s' op) l2.
Proof. exact never_back_to_origin_peer. Qed.
Print Assumptions C23_never_back_to_peer_outside_known.

(** Refuted for two sessions with the same remote peer on one topic: what arrives from the peer
    on one session is sent back to it on the other. *)
Theorem C23_never_back_to_peer_refuted :
  exists c tr s op l1 l2 s',
    log (run c (init (fun _ => []) 1024 1024) tr) = l1 ++ EArr s op :: l2 /\
    same_topic c s s' = true /\ peer_of c s = peer_of c s' /\ In (ESent s' op) l2.
Proof. exact same_peer_refuted. Qed.
Print Assumptions C23_never_back_to_peer_refuted.

(** The consumer of the manager's event stream sees an operation at most once. *)
Theorem C23_consumer_at_most_once :
  forall (c : config) (seed : N -> list N) (capS capM : nat) (U : list N),
    length U <= capS -> length U <= capM ->
    (forall s op, In op (seed s) -> In op U) -> (forall s, NoDup (seed s)) ->
    (forall a b, same_topic c a b = true -> incl (seed a) (seed b)) ->
    forall (tr : list label) (s op : N) (l1 l2 : list entry),
      Forall (label_ok U) tr -> log (reach c seed capS capM tr) = l1 ++ ECons s op :: l2 ->
      forall s', ~ In (ECons s' op) l1 /\ ~ In (ECons s' op) l2.
Proof. exact consumer_at_most_once. Qed.
Print Assumptions C23_consumer_at_most_once.

(** Soundness of the oracle that judges the implementation's log (Oracle/C23.v): what it accepts
    satisfies the ordering clauses, the per-peer clause and completeness. *)
Theorem C23_oracle_order_sound :
  forall l, Oracle.C23.check_seq l = true ->
    forall l1 e l2, l = l1 ++ e :: l2 ->
      match e with
      | ESent s op => ~ In (ESent s op) l2
      | EArr s op => ~ In (ESent s op) l2
      | ECons _ op => forall s', ~ In (ECons s' op) l2
      end.
Proof. exact LiveOracle.check_seq_sound. Qed.
Print Assumptions C23_oracle_order_sound.

Theorem C23_oracle_peer_sound :
  forall c l, Oracle.C23.check_peer c l = true ->
    forall l1 s op l2 s', l = l1 ++ EArr s op :: l2 ->
      same_topic c s s' = true -> peer_of c s = peer_of c s' -> ~ In (ESent s' op) l2.
Proof. exact LiveOracle.check_peer_sound. Qed.
Print Assumptions C23_oracle_peer_sound.

Theorem C23_oracle_complete_sound :
  forall c seed l, Oracle.C23.check_complete c seed l = true ->
    forall s op s', In (EArr s op) l -> In s' (map sid c) -> same_topic c s s' = true ->
      In (ESent s' op) l \/ In (EArr s' op) l \/ In op (seed s').
Proof. exact LiveOracle.check_complete_sound. Qed.
Print Assumptions C23_oracle_complete_sound.
