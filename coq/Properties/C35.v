(** C35 — Group data encryption: members agree / hold the latest secret, removed members are cut
    off.

    Only statements here; proofs in Proofs/Dcgka.v over the symbolic knowledge model
    Model/Dcgka.v (PARTIAL: DCGKA internals abstracted to "who is sent which secret", ideal 2SM
    channels and AEAD, plain set DGM, causal delivery, timestamps not modelled — statements about
    ALL secrets imply the one about the latest under any order). *)
From Coq Require Import List Arith Bool.
From PV Require Import Model.Dcgka Proofs.Dcgka Oracle.C35.
Import ListNotations.

(** In EVERY execution (any operations by anybody, any delivery order): a member holds a secret
    only if it generated it, was a recipient of its direct messages, or was added by a message
    whose welcome bundle contained it. *)
Theorem C35_knowledge_is_justified :
  forall n evs c s,
    let w := run (init_world n) evs in
    In s (knows (st w c)) -> justified (msgs w) c s.
Proof. exact knowledge_is_justified. Qed.
Print Assumptions C35_knowledge_is_justified.

(** Removed before generated => never learns: if [g] issues an operation generating secret [s]
    whose direct messages do not go to [c] — in particular when [g] had removed [c] from its
    view before ([C35_recipients_within_view]) — then, whatever happens afterwards, [c] never
    holds [s] unless some later add of [c] carries [s] in its welcome bundle. *)
Theorem C35_removed_never_learns_later :
  forall n evs1 g o evs2 c s1 m,
    let w1 := run (init_world n) evs1 in
    let s := length (msgs w1) in
    g < n -> issue g (st w1 g) s o = Some (s1, m) ->
    c <> g -> ~ In c (m_rcpt m) ->
    let w := run w1 (Issue g o :: evs2) in
    (forall a ma, nth_error (msgs w) a = Some ma -> m_op ma = Add c -> ~ In s (m_bundle ma)) ->
    ~ In s (knows (st w c)).
Proof. exact removed_never_learns_later. Qed.
Print Assumptions C35_removed_never_learns_later.

(** The recipients of an update / remove are inside the issuer's current view (and exclude the
    removed member): somebody already removed from the view is not sent the new secret. *)
Theorem C35_recipients_within_view :
  forall i s k o s1 m c,
    issue i s k o = Some (s1, m) -> (o = Update \/ exists x, o = Remove x) ->
    In c (m_rcpt m) -> In c (view s) /\ c <> i /\ (forall x, o = Remove x -> c <> x).
Proof. exact recipients_within_view. Qed.
Print Assumptions C35_recipients_within_view.

(** Decryption success follows from (and only from) knowledge of the secret. *)
Theorem C35_decrypt_iff_knows :
  forall w j s, can_decrypt w j s = true <-> In s (knows (st w j)).
Proof. exact decrypt_iff_knows. Qed.
Print Assumptions C35_decrypt_iff_knows.

(** Sequential histories (every operation issued by a current member once everything before was
    delivered to everyone, deliveries in any order): all current members agree on the
    membership, hold EVERY secret generated so far — hence the latest — and decrypt data
    encrypted with any of them. *)
Theorem C35_members_know_all_secrets_sequential :
  forall n w M, seq_exec n w M ->
    forall j, In j M ->
      welcomed (st w j) = true /\ (forall x, In x (view (st w j)) <-> In x M) /\
      forall s, generated (msgs w) s -> In s (knows (st w j)) /\ can_decrypt w j s = true.
Proof. exact seq_members_hold_and_decrypt. Qed.
Print Assumptions C35_members_know_all_secrets_sequential.

(** The unrestricted statement "after any history delivered in causal order all current members
    hold the latest secret" is FALSE for the code as it is: an add concurrent with an update. *)
Theorem C35_members_know_latest_refuted :
  exists n evs,
    let w := run (init_world n) evs in
    quiescent w /\
    (forall j, j < n -> welcomed (st w j) = true /\ view (st w j) = seq 0 n) /\
    exists s j, j < n /\ newest (msgs w) s /\ ~ In s (knows (st w j)) /\ can_decrypt w j s = false.
Proof. exact members_know_latest_refuted. Qed.
Print Assumptions C35_members_know_latest_refuted.

(** Outside the known class (Known = some operation is issued while an earlier one is not yet
    delivered to everyone, i.e. the history is not [seq_exec]): every current member holds the
    newest secret. *)
Theorem C35_members_know_latest_outside_known :
  forall n w M, seq_exec n w M ->
    forall s j, newest (msgs w) s -> In j M -> In s (knows (st w j)).
Proof. exact members_know_latest_outside_known. Qed.
Print Assumptions C35_members_know_latest_outside_known.
