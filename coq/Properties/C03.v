(** C03 — Ingest keeps every stored log a hash-linked, gap-free chain; heights never decrease;
    operations that do not extend their log are rejected.

    Only statements here; proofs live in Proofs/Ingest.v, the model in Model/Ingest.v.
    [run ds] is the store after the delivery sequence [ds] went through ingest + log-prune;
    [wf_history ds] says: validated operations carry their header hash as id, the header hash is
    collision free, and authors do not equivocate (one validated operation per author/log/seq).
    The delivery order is arbitrary; duplicates, gaps, forged copies ([o_valid = false]) and
    operations with wrong backlinks are all allowed in [ds]. *)
From Coq Require Import List Arith NArith Bool.
From PV Require Import Model.Ingest Proofs.Ingest.
Import ListNotations.
Local Open Scope N_scope.

(** After any delivery sequence: sequence numbers are unique per (author, log) and every stored
    entry with seq > 0 and no prune flag has its direct predecessor stored and links to it. *)
Theorem C03_chain_invariant :
  forall ds : list op, wf_history ds = true ->
    NoDup (map (fun r => (r_author r, r_log r, r_seq r)) (run ds)) /\
    (forall r, In r (run ds) -> r_prune r = false -> 0 < r_seq r ->
       exists p, In p (run ds) /\ r_author p = r_author r /\ r_log p = r_log r /\
                 r_seq p + 1 = r_seq r /\ r_backlink r = Some (r_hh p)).
Proof. exact deliveries_Inv. Qed.
Print Assumptions C03_chain_invariant.

(** No delivery lowers the height of any log ([None] = empty log is below every height). *)
Theorem C03_height_never_decreases :
  forall (ds : list op) (o : op) (a l : N), wf_history (ds ++ [o]) = true ->
    opt_le (height (run ds) a l) (height (run (ds ++ [o])) a l) = true.
Proof. exact height_monotone. Qed.
Print Assumptions C03_height_never_decreases.

(** Open finding (findings/C03-foreign-hash-field-accepted.json): without the hypothesis "a
    validated operation's hash field is its header hash" -- which [validate_operation] does not
    enforce -- the height statement fails: concrete witness, everything else in [wf_history] holds. *)
Theorem C03_foreign_hash_field_refuted :
  pairs_ok (foreign_hash_witness ++ [foreign_hash_last]) = true /\
  height (run foreign_hash_witness) 1 1 = Some 2 /\
  height (run (foreign_hash_witness ++ [foreign_hash_last])) 1 1 = None.
Proof. exact foreign_hash_field_refuted. Qed.
Print Assumptions C03_foreign_hash_field_refuted.

Theorem C03_height_outside_known :
  forall (ds : list op) (o : op) (a l : N),
    pairs_ok (ds ++ [o]) = true -> ids_ok (ds ++ [o]) = true ->
    opt_le (height (run ds) a l) (height (run (ds ++ [o])) a l) = true.
Proof. exact height_monotone_outside_known. Qed.
Print Assumptions C03_height_outside_known.

(** Specification of ingest: inserted exactly when validated, not yet stored, and extending the
    log (direct successor of the latest entry with the right backlink, or a prune point strictly
    above it, or the first entry at seq 0 / a prune point of an empty log). *)
Theorem C03_inserted_iff_extends :
  forall (s : store) (o : op),
    snd (ingest s o) = Inserted <->
    o_valid o = true /\ has_op s (o_id o) = false /\
    match latest s (o_author o) (o_log o) with
    | None => o_seq o = 0 \/ o_prune o = true
    | Some p =>
        (o_prune o = false /\ r_author p = o_author o /\ r_seq p <> U32MAX /\
         r_seq p + 1 = o_seq o /\ o_backlink o = Some (r_hh p))
        \/ (o_prune o = true /\ r_seq p < o_seq o)
    end.
Proof. exact ingest_inserted_iff. Qed.
Print Assumptions C03_inserted_iff_extends.

Theorem C03_not_inserted_store_unchanged :
  forall (s : store) (o : op), snd (ingest s o) <> Inserted -> fst (ingest s o) = s.
Proof. exact ingest_not_inserted_unchanged. Qed.
Print Assumptions C03_not_inserted_store_unchanged.

(** The named rejection reasons. *)
Theorem C03_rejected_forged :
  forall (s : store) (o : op), o_valid o = false -> ingest s o = (s, Rejected EInvalid).
Proof. exact rejected_invalid. Qed.
Print Assumptions C03_rejected_forged.

Theorem C03_rejected_wrong_author :
  forall (p : row) (o : op), r_author p <> o_author o -> validate_backlink p o = VErr ETooManyAuthors.
Proof. exact rejected_wrong_author. Qed.
Print Assumptions C03_rejected_wrong_author.

Theorem C03_rejected_non_incremental :
  forall (s : store) (o : op) (p : row),
    o_valid o = true -> has_op s (o_id o) = false ->
    latest s (o_author o) (o_log o) = Some p -> r_seq p <> U32MAX ->
    o_prune o = false -> r_seq p + 1 <> o_seq o ->
    ingest s o = (s, Rejected ESeqNonIncremental).
Proof. exact rejected_non_incremental. Qed.
Print Assumptions C03_rejected_non_incremental.

Theorem C03_rejected_wrong_backlink :
  forall (s : store) (o : op) (p : row),
    o_valid o = true -> has_op s (o_id o) = false ->
    latest s (o_author o) (o_log o) = Some p -> r_seq p <> U32MAX ->
    o_prune o = false -> r_seq p + 1 = o_seq o -> o_backlink o <> Some (r_hh p) ->
    ingest s o = (s, Rejected (match o_backlink o with Some _ => EBacklinkMismatch | None => EBacklinkMissing end)).
Proof. exact rejected_wrong_backlink. Qed.
Print Assumptions C03_rejected_wrong_backlink.

Theorem C03_rejected_missing_prefix :
  forall (s : store) (o : op),
    o_valid o = true -> has_op s (o_id o) = false ->
    latest s (o_author o) (o_log o) = None -> 0 < o_seq o -> o_prune o = false ->
    ingest s o = (s, Rejected EBacklinkMissing).
Proof. exact rejected_missing_prefix. Qed.
Print Assumptions C03_rejected_missing_prefix.

(** The overflow of [past.seq_num + 1] is not hidden: it is a panic of the (debug) build. *)
Theorem C03_seq_max_panics :
  forall (s : store) (o : op) (p : row),
    o_valid o = true -> has_op s (o_id o) = false ->
    latest s (o_author o) (o_log o) = Some p -> r_seq p = U32MAX -> o_prune o = false ->
    ingest s o = (s, Panicked).
Proof. exact seq_max_panics. Qed.
Print Assumptions C03_seq_max_panics.
