(** C16 — Ephemeral messages are authentic and unique per publish.

    Only statements here; proofs live in Proofs/Ephemeral.v (and Proofs/Timestamp.v for the
    clock part).  The theorems hold for *every* signature scheme and encoding satisfying the
    three premises spelled out in each statement (ideal signatures: [verify] accepts exactly
    the owner's signature, no signature collisions; injective encoding of the signed tuple).
    Those premises are the trusted assumptions about Ed25519 / CBOR; [C16_premises_satisfiable]
    shows they are consistent (the symbolic instance used by the correspondence run). *)
From Coq Require Import List NArith Bool Sorted FinFun.
From PV Require Import Model.Timestamp Model.Ephemeral Proofs.Ephemeral Proofs.EphemeralSeq Oracle.C16 Proofs.C16Oracle.
Import ListNotations.
Local Open Scope N_scope.

Theorem C16_yielded_authentic :
  forall (key skey sigT bytes : Type) (sk_of : key -> skey) (sign : skey -> bytes -> sigT)
         (verify : key -> bytes -> sigT -> bool) (enc : fields key -> bytes),
    (forall p m s, verify p m s = true <-> s = sign (sk_of p) m) ->
    forall (i : incoming key sigT) (m : wrapped key sigT),
      accept key sigT bytes verify enc i = Some m ->
      i = Decoded m /\ ver (wf m) = MESSAGE_VERSION /\
      wsig m = sign (sk_of (author (wf m))) (enc (wf m)).
Proof. exact yielded_authentic. Qed.
Print Assumptions C16_yielded_authentic.

(** A signature made by key [k] over [f1], arriving with fields [f2], is yielded iff nothing was
    changed and [k] is the claimed author's own key. *)
Theorem C16_accept_iff :
  forall (key skey sigT bytes : Type) (sk_of : key -> skey) (sign : skey -> bytes -> sigT)
         (verify : key -> bytes -> sigT -> bool) (enc : fields key -> bytes),
    (forall p m s, verify p m s = true <-> s = sign (sk_of p) m) ->
    (forall k k' m m', sign k m = sign k' m' -> k = k' /\ m = m') ->
    (forall f f', enc f = enc f' -> f = f') ->
    forall (k : skey) (f1 f2 : fields key),
      (exists m, accept key sigT bytes verify enc (Decoded {| wf := f2; wsig := sign k (enc f1) |}) = Some m) <->
      (ver f2 = MESSAGE_VERSION /\ f1 = f2 /\ k = sk_of (author f2)).
Proof. exact accept_iff. Qed.
Print Assumptions C16_accept_iff.

(** Tampered (any field: version, author, either timestamp part, body) or re-signed (another
    key, same claimed author) messages are never yielded. *)
Theorem C16_tamper_rejected :
  forall (key skey sigT bytes : Type) (sk_of : key -> skey) (sign : skey -> bytes -> sigT)
         (verify : key -> bytes -> sigT -> bool) (enc : fields key -> bytes),
    (forall p m s, verify p m s = true <-> s = sign (sk_of p) m) ->
    (forall k k' m m', sign k m = sign k' m' -> k = k' /\ m = m') ->
    (forall f f', enc f = enc f' -> f = f') ->
    forall (k : skey) (f1 f2 : fields key),
      f1 <> f2 \/ k <> sk_of (author f2) \/ ver f2 <> MESSAGE_VERSION ->
      accept key sigT bytes verify enc (Decoded {| wf := f2; wsig := sign k (enc f1) |}) = None.
Proof. exact tamper_rejected. Qed.
Print Assumptions C16_tamper_rejected.

Theorem C16_forged_rejected :
  forall (key skey sigT bytes : Type) (sk_of : key -> skey) (sign : skey -> bytes -> sigT)
         (verify : key -> bytes -> sigT -> bool) (enc : fields key -> bytes),
    (forall p m s, verify p m s = true <-> s = sign (sk_of p) m) ->
    forall (f : fields key) (s : sigT),
      s <> sign (sk_of (author f)) (enc f) ->
      accept key sigT bytes verify enc (Decoded {| wf := f; wsig := s |}) = None.
Proof. exact forged_rejected. Qed.
Print Assumptions C16_forged_rejected.

(** Successive publishes by one publisher (created at clock reading [t0]) under an arbitrary
    clock script: all succeed, timestamps strictly increase, every message is yielded by
    subscribers and reports the publisher as author, bodies are the published ones. *)
Theorem C16_timestamps_strictly_increase :
  forall (key skey sigT bytes : Type) (sk_of : key -> skey) (sign : skey -> bytes -> sigT)
         (verify : key -> bytes -> sigT -> bool) (enc : fields key -> bytes),
    (forall p m s, verify p m s = true <-> s = sign (sk_of p) m) ->
    forall (pk : key) (t0 : N) (script : list (N * N)),
      N.of_nat (length script) <= u64max ->
      let '(ms, ok) := pub_run key skey sigT bytes sk_of sign enc pk (hnow t0) script in
      ok = true /\ length ms = length script /\
      StronglySorted hlt (hnow t0 :: map (msg_ts key sigT) ms) /\
      Forall (fun w => accept key sigT bytes verify enc (Decoded w) = Some w /\ author (wf w) = pk) ms /\
      map (fun w => body (wf w)) ms = map snd script.
Proof. exact timestamps_strictly_increase. Qed.
Print Assumptions C16_timestamps_strictly_increase.

(** ... so no two published messages are byte-identical (for any injective wire encoding). *)
Theorem C16_no_two_equal_messages :
  forall (key skey sigT bytes : Type) (sk_of : key -> skey) (sign : skey -> bytes -> sigT)
         (verify : key -> bytes -> sigT -> bool) (enc : fields key -> bytes),
    (forall p m s, verify p m s = true <-> s = sign (sk_of p) m) ->
    forall (pk : key) (t0 : N) (script : list (N * N)) (wire : Type) (wenc : wrapped key sigT -> wire),
      Injective wenc ->
      N.of_nat (length script) <= u64max ->
      NoDup (map wenc (fst (pub_run key skey sigT bytes sk_of sign enc pk (hnow t0) script))).
Proof. exact no_two_equal_messages. Qed.
Print Assumptions C16_no_two_equal_messages.

(** The premises are consistent: the symbolic scheme satisfies all three. *)
Theorem C16_premises_satisfiable :
  (forall p m s, Sym.verify p m s = true <-> s = Sym.sign (Sym.sk_of p) m) /\
  (forall k k' m m', Sym.sign k m = Sym.sign k' m' -> k = k' /\ m = m') /\
  (forall f f', Sym.enc f = Sym.enc f' -> f = f').
Proof. exact (conj Sym_verify_spec (conj Sym_sign_inj Sym_enc_inj)). Qed.
Print Assumptions C16_premises_satisfiable.

(** Oracle soundness (publisher part): an accepted observation is a strictly increasing chain. *)
Theorem C16_oracle_pub_sound :
  forall (t0 : N) (script : list (N * N)) (outs : list (hts * N * bool)) (uniq complete : bool),
    check_pub t0 script outs uniq complete = true ->
    complete = true /\ uniq = true /\ length outs = length script /\
    StronglySorted hlt (hnow t0 :: map (fun o => fst (fst o)) outs) /\
    Forall (fun o => snd o = true) outs.
Proof. exact check_pub_sound. Qed.
Print Assumptions C16_oracle_pub_sound.

(** A subscription run over ANY sequence of incoming items ([sub_run]: the code, [accept] item
    after item) yields exactly the authentic messages of the sequence, in order ([auth_filter]:
    the specification, which does not mention [verify]): duplicates of an authentic message are
    yielded again, a tampered / re-signed / forged message is never yielded, wherever it stands —
    in particular directly after its authentic original.  [auth_filter] determines the result. *)
Theorem C16_sequence_yields_authentic_only :
  forall (key skey sigT bytes : Type) (sk_of : key -> skey) (sign : skey -> bytes -> sigT)
         (verify : key -> bytes -> sigT -> bool) (enc : fields key -> bytes),
    (forall p m s, verify p m s = true <-> s = sign (sk_of p) m) ->
    forall (l : list (incoming key sigT)),
      auth_filter key skey sigT bytes sk_of sign enc l (sub_run key sigT bytes verify enc l) /\
      (forall ys, auth_filter key skey sigT bytes sk_of sign enc l ys -> ys = sub_run key sigT bytes verify enc l) /\
      Forall (fun m => authentic key skey sigT bytes sk_of sign enc m /\ In (Decoded m) l)
             (sub_run key sigT bytes verify enc l).
Proof. exact sequence_yields_authentic_only. Qed.
Print Assumptions C16_sequence_yields_authentic_only.

Theorem C16_tampered_copy_after_original_rejected :
  forall (key skey sigT bytes : Type) (sk_of : key -> skey) (sign : skey -> bytes -> sigT)
         (verify : key -> bytes -> sigT -> bool) (enc : fields key -> bytes),
    (forall p m s, verify p m s = true <-> s = sign (sk_of p) m) ->
    forall (pre post : list (incoming key sigT)) (w w' : wrapped key sigT),
      authentic key skey sigT bytes sk_of sign enc w -> ~ authentic key skey sigT bytes sk_of sign enc w' ->
      let run := sub_run key sigT bytes verify enc in
      run (pre ++ Decoded w :: Decoded w' :: post) = run pre ++ w :: run post /\
      run (pre ++ Decoded w :: Decoded w :: Decoded w' :: post) = run pre ++ w :: w :: run post /\
      run (pre ++ Decoded w' :: Decoded w :: post) = run pre ++ w :: run post.
Proof. exact tampered_copy_after_original. Qed.
Print Assumptions C16_tampered_copy_after_original_rejected.

(** Oracle soundness (sequence part): an accepted observation contains authentic content only. *)
Theorem C16_oracle_seq_sound :
  forall (specs : list seq_spec),
    (forall ys, check_bulk specs ys = true ->
       Forall (fun y => exists s, In s specs /\ spec_authentic s = true /\ y = spec_obs s) ys) /\
    (forall ys, check_step specs ys = true ->
       Forall2 (fun s g => g = [] \/ (g = [spec_obs s] /\ spec_authentic s = true)) specs ys).
Proof. exact (fun specs => conj (check_bulk_sound specs) (check_step_sound specs)). Qed.
Print Assumptions C16_oracle_seq_sound.
