(** C30 — Confidential discovery yields exactly the common topics.

    Only statements here; proofs live in Proofs/Psi.v (model: Model/Psi.v).  Every theorem is
    for all topic lists, all address books, all salt halves, and every salted hash [H]; the
    hypotheses on [H] ([Hinj]: injective in the topic for a fixed salt; [Hraw]: never a raw
    topic) and on topic equality are the trusted assumptions about BLAKE3 / [Topic]. *)
From Coq Require Import List Arith NArith.
From PV Require Import Model.Psi Proofs.Psi Proofs.PsiOracle Oracle.C30.
Import ListNotations.

(** Two honest peers both finish and both obtain, as a set without repetitions, exactly the
    intersection of their topic sets. *)
Theorem C30_both_get_intersection :
  forall (topic half : Type) (teqb : topic -> topic -> bool),
    (forall a b, teqb a b = true <-> a = b) ->
  forall H : topic -> salt half -> topic,
    (forall s t1 t2, H t1 s = H t2 s -> t1 = t2) ->
  forall (pa pb : party topic) (sa sb : half),
  exists ra rb,
    alice_outcome topic half teqb H pa pb sa sb = Done ra /\
    bob_outcome topic half teqb H pa pb sa sb = Done rb /\
    (forall t, In t (res_topics topic ra) <-> In t (p_topics topic pa) /\ In t (p_topics topic pb)) /\
    (forall t, In t (res_topics topic rb) <-> In t (p_topics topic pa) /\ In t (p_topics topic pb)) /\
    NoDup (res_topics topic ra) /\ NoDup (res_topics topic rb).
Proof. exact both_get_intersection. Qed.
Print Assumptions C30_both_get_intersection.

(** No message of the session carries a topic of either side (nor any other raw value). *)
Theorem C30_no_raw_topic_in_messages :
  forall (topic half : Type) (teqb : topic -> topic -> bool),
    (forall a b, teqb a b = true <-> a = b) ->
  forall (H : topic -> salt half -> topic) (raw : topic -> Prop),
    (forall t s, ~ raw (H t s)) ->
  forall (pa pb : party topic) (sa sb : half),
    Forall raw (p_topics topic pa) -> Forall raw (p_topics topic pb) ->
  forall m, In m (transcript topic half teqb H pa pb sa sb) ->
  forall t, In t (p_topics topic pa) \/ In t (p_topics topic pb) -> ~ occurs topic half t m.
Proof. exact no_raw_topic_in_messages. Qed.
Print Assumptions C30_no_raw_topic_in_messages.

Theorem C30_no_raw_word_in_messages :
  forall (topic half : Type) (teqb : topic -> topic -> bool),
    (forall a b, teqb a b = true <-> a = b) ->
  forall (H : topic -> salt half -> topic) (raw : topic -> Prop),
    (forall t s, ~ raw (H t s)) ->
  forall (pa pb : party topic) (sa sb : half) m,
    In m (transcript topic half teqb H pa pb sa sb) -> forall t, raw t -> ~ occurs topic half t m.
Proof. exact no_raw_word_in_messages. Qed.
Print Assumptions C30_no_raw_word_in_messages.

(** Under restricted sharing the node infos a peer sends are rows of its own address book that
    are the peer itself or a non-stale node subscribed to a common topic ([in_scope]). *)
Theorem C30_restricted_sharing_scope :
  forall (topic half : Type) (teqb : topic -> topic -> bool),
    (forall a b, teqb a b = true <-> a = b) ->
  forall H : topic -> salt half -> topic,
    (forall s t1 t2, H t1 s = H t2 s -> t1 = t2) ->
  forall (pa pb : party topic) (sa sb : half),
    (p_restricted topic pa = true ->
     forall m id tr, In m (alice_sent topic half teqb H pa pb sa sb) -> In (id, tr) (infos_of topic half m) ->
                     in_scope topic pa pb id tr) /\
    (p_restricted topic pb = true ->
     forall m id tr, In m (bob_sent topic half teqb H pa pb sa sb) -> In (id, tr) (infos_of topic half m) ->
                     in_scope topic pb pa id tr).
Proof. exact restricted_sharing_scope. Qed.
Print Assumptions C30_restricted_sharing_scope.

(** ... and it withholds nothing it should share. *)
Theorem C30_restricted_sharing_complete :
  forall (topic half : Type) (teqb : topic -> topic -> bool),
    (forall a b, teqb a b = true <-> a = b) ->
  forall H : topic -> salt half -> topic,
    (forall s t1 t2, H t1 s = H t2 s -> t1 = t2) ->
  forall (pa pb : party topic) (sa sb : half) (n : node topic) (tr : N),
    p_restricted topic pa = true ->
    In n (p_book topic pa) -> nstale topic n = false -> ntransport topic n = Some tr ->
    (exists t, In t (ntopics topic n) /\ In t (p_topics topic pa) /\ In t (p_topics topic pb)) ->
    exists m v, In m (alice_sent topic half teqb H pa pb sa sb) /\ In (nid topic n, v) (infos_of topic half m).
Proof. exact restricted_sharing_complete. Qed.
Print Assumptions C30_restricted_sharing_complete.

Theorem C30_unrestricted_sharing_scope :
  forall (topic half : Type) (teqb : topic -> topic -> bool) (H : topic -> salt half -> topic)
         (pa pb : party topic) (sa sb : half),
    p_restricted topic pa = false ->
    forall m id tr, In m (alice_sent topic half teqb H pa pb sa sb) -> In (id, tr) (infos_of topic half m) ->
    exists n, In n (p_book topic pa) /\ nid topic n = id /\ ntransport topic n = Some tr /\ nstale topic n = false.
Proof. exact unrestricted_sharing_scope. Qed.
Print Assumptions C30_unrestricted_sharing_scope.

(** Each side's result carries exactly the node infos the other side sent. *)
Theorem C30_results_carry_peer_infos :
  forall (topic half : Type) (teqb : topic -> topic -> bool) (H : topic -> salt half -> topic)
         (pa pb : party topic) (sa sb : half),
  exists ra rb,
    alice_outcome topic half teqb H pa pb sa sb = Done ra /\
    bob_outcome topic half teqb H pa pb sa sb = Done rb /\
    In (Nodes (res_infos topic ra)) (bob_sent topic half teqb H pa pb sa sb) /\
    In (Nodes (res_infos topic rb)) (alice_sent topic half teqb H pa pb sa sb) /\
    res_remote topic ra = p_remote topic pa /\ res_remote topic rb = p_remote topic pb.
Proof. exact results_carry_peer_infos. Qed.
Print Assumptions C30_results_carry_peer_infos.

(** The protocol state machine, against any peer: a side succeeds iff the expected messages
    arrive in order; the first deviation decides the error ([UnexpectedMessage] for a message of
    another kind, [Stream] for a closed or failing stream); the number of messages it has sent is
    determined by how many it accepted. *)
Theorem C30_alice_message_order :
  forall (topic half : Type) (teqb : topic -> topic -> bool) (H : topic -> salt half -> topic)
         (p : party topic) (sa : half) (inc : list (rx topic half)),
    outcome_err topic (snd (alice_run topic half teqb H p sa inc)) = fst (expect topic half alice_expects inc 0) /\
    length (fst (alice_run topic half teqb H p sa inc)) = S (snd (expect topic half alice_expects inc 0)).
Proof. exact alice_message_order. Qed.
Print Assumptions C30_alice_message_order.

Theorem C30_bob_message_order :
  forall (topic half : Type) (teqb : topic -> topic -> bool) (H : topic -> salt half -> topic)
         (p : party topic) (sb : half) (inc : list (rx topic half)),
    outcome_err topic (snd (bob_run topic half teqb H p sb inc)) = fst (expect topic half bob_expects inc 0) /\
    length (fst (bob_run topic half teqb H p sb inc)) = Nat.min 2 (snd (expect topic half bob_expects inc 0)).
Proof. exact bob_message_order. Qed.
Print Assumptions C30_bob_message_order.

(** A sink that takes only [k] messages: same behaviour up to the first refused send, which is
    reported as [Sink] ([with_sink] cuts the unlimited run there). *)
Theorem C30_sink_failure :
  forall (topic half : Type) (teqb : topic -> topic -> bool) (H : topic -> salt half -> topic)
         (k : nat) (p : party topic) (s : half) (inc : list (rx topic half)),
    alice_run_k topic half teqb H k p s inc = with_sink topic half k (alice_run topic half teqb H p s inc) /\
    bob_run_k topic half teqb H k p s inc = with_sink topic half k (bob_run topic half teqb H p s inc).
Proof. intros; split; [apply alice_sink_failure|apply bob_sink_failure]. Qed.
Print Assumptions C30_sink_failure.

(** Causality of both sides and closure of the session: [session] is the unique run of the two
    deterministic sides over reliable ordered channels. *)
Theorem C30_sent_monotone :
  forall (topic half : Type) (teqb : topic -> topic -> bool) (H : topic -> salt half -> topic)
         (p : party topic) (s : half) (inc more : list (rx topic half)),
    (exists later, fst (alice_run topic half teqb H p s (inc ++ more)) = fst (alice_run topic half teqb H p s inc) ++ later) /\
    (exists later, fst (bob_run topic half teqb H p s (inc ++ more)) = fst (bob_run topic half teqb H p s inc) ++ later).
Proof. intros; split; [apply alice_sent_monotone|apply bob_sent_monotone]. Qed.
Print Assumptions C30_sent_monotone.

Theorem C30_session_closed :
  forall (topic half : Type) (teqb : topic -> topic -> bool) (H : topic -> salt half -> topic)
         (pa pb : party topic) (sa sb : half),
    alice_run topic half teqb H pa sa (rxs topic half (bob_sent topic half teqb H pa pb sa sb)) =
      (alice_sent topic half teqb H pa pb sa sb, alice_outcome topic half teqb H pa pb sa sb) /\
    bob_run topic half teqb H pb sb (rxs topic half (alice_sent topic half teqb H pa pb sa sb)) =
      (bob_sent topic half teqb H pa pb sa sb, bob_outcome topic half teqb H pa pb sa sb).
Proof. exact session_closed. Qed.
Print Assumptions C30_session_closed.

(** Against any peer: never a raw topic on the wire, never a topic in the result that is not the
    side's own, restricted sharing limited to the reported topics. *)
Theorem C30_never_sends_raw_any_peer :
  forall (topic half : Type) (teqb : topic -> topic -> bool),
    (forall a b, teqb a b = true <-> a = b) ->
  forall (H : topic -> salt half -> topic) (raw : topic -> Prop),
    (forall t s, ~ raw (H t s)) ->
  forall (p : party topic) (s : half) (inc : list (rx topic half)) m,
    In m (fst (alice_run topic half teqb H p s inc)) \/ In m (fst (bob_run topic half teqb H p s inc)) ->
    forall t, raw t -> ~ occurs topic half t m.
Proof.
  intros topic half teqb Hs H raw Hr p s inc m [Hm|Hm].
  - exact (alice_never_sends_raw topic half teqb Hs H raw Hr p s inc m Hm).
  - exact (bob_never_sends_raw topic half teqb Hs H raw Hr p s inc m Hm).
Qed.
Print Assumptions C30_never_sends_raw_any_peer.

Theorem C30_result_within_own_topics_any_peer :
  forall (topic half : Type) (teqb : topic -> topic -> bool),
    (forall a b, teqb a b = true <-> a = b) ->
  forall (H : topic -> salt half -> topic) (p : party topic) (s : half) (inc : list (rx topic half)) r,
    snd (alice_run topic half teqb H p s inc) = Done r \/ snd (bob_run topic half teqb H p s inc) = Done r ->
    forall t, In t (res_topics topic r) -> In t (p_topics topic p).
Proof.
  intros topic half teqb Hs H p s inc r [E|E].
  - exact (alice_result_within_own_topics topic half teqb Hs H p s inc r E).
  - exact (bob_result_within_own_topics topic half teqb Hs H p s inc r E).
Qed.
Print Assumptions C30_result_within_own_topics_any_peer.

Theorem C30_alice_restricted_scope_any_peer :
  forall (topic half : Type) (teqb : topic -> topic -> bool),
    (forall a b, teqb a b = true <-> a = b) ->
  forall (H : topic -> salt half -> topic) (p : party topic) (sa : half) (inc : list (rx topic half)) r,
    p_restricted topic p = true -> snd (alice_run topic half teqb H p sa inc) = Done r ->
    forall m id tr, In m (fst (alice_run topic half teqb H p sa inc)) -> In (id, tr) (infos_of topic half m) ->
    in_scope_of topic p (res_topics topic r) id tr.
Proof. exact alice_restricted_scope_any_peer. Qed.
Print Assumptions C30_alice_restricted_scope_any_peer.

Theorem C30_bob_restricted_scope_any_peer :
  forall (topic half : Type) (teqb : topic -> topic -> bool),
    (forall a b, teqb a b = true <-> a = b) ->
  forall (H : topic -> salt half -> topic) (p : party topic) (sb : half) (inc : list (rx topic half)),
    p_restricted topic p = true ->
    forall m id tr, In m (fst (bob_run topic half teqb H p sb inc)) -> In (id, tr) (infos_of topic half m) ->
    exists common, (forall t, In t common -> In t (p_topics topic p)) /\ in_scope_of topic p common id tr.
Proof. exact bob_restricted_scope_any_peer. Qed.
Print Assumptions C30_bob_restricted_scope_any_peer.

(** The hypotheses are satisfiable: the term-algebra instance used for evaluation. *)
Theorem C30_hypotheses_satisfiable :
  (forall a b, cw_eqb a b = true <-> a = b) /\
  (forall (s : salt N) t1 t2, cH t1 s = cH t2 s -> t1 = t2) /\
  (forall t (s : salt N), ~ cw_raw (cH t s)).
Proof. split; [exact cw_eqb_spec|split; [exact cH_inj|exact cH_not_raw]]. Qed.
Print Assumptions C30_hypotheses_satisfiable.

(** Soundness of the oracles evaluated on the implementation's observations. *)
Theorem C30_check_honest_sound :
  forall ra rb ta tb bookA bookB oa ob sa sb leaks,
  check_honest ra rb ta tb bookA bookB oa ob sa sb leaks = true ->
  exists rA rB,
    oa = Done rA /\ ob = Done rB /\
    (forall t, In t (res_topics cw rA) <-> In t (map Raw ta) /\ In t (map Raw tb)) /\
    (forall t, In t (res_topics cw rB) <-> In t (map Raw ta) /\ In t (map Raw tb)) /\
    leaks = 0 /\
    (forall m, In m (sa ++ sb) -> forall t, cw_raw t -> ~ occurs cw N t m) /\
    (ra = true -> forall m id tr, In m sa -> In (id, tr) (infos_of cw N m) ->
       in_scope cw (alice_party ra ta bookA) (bob_party rb tb bookB) id tr) /\
    (rb = true -> forall m id tr, In m sb -> In (id, tr) (infos_of cw N m) ->
       in_scope cw (bob_party rb tb bookB) (alice_party ra ta bookA) id tr).
Proof. exact check_honest_sound. Qed.
Print Assumptions C30_check_honest_sound.

Theorem C30_check_script_sound :
  forall alice r ts book script sink o sent leaks,
  check_script alice r ts book script sink o sent leaks = true ->
  let spec := expect cw N (if alice then alice_expects else bob_expects)
                     (map (to_rx (if alice then 1 else 0)%N) script) 0 in
  let want := if alice then S (snd spec) else Nat.min 2 (snd spec) in
  let k := match sink with Some k => k | None => 3 end in
  (want <= k -> outcome_err cw o = fst spec /\ List.length sent = want) /\
  (k < want -> outcome_err cw o = Some SinkErr /\ List.length sent = k) /\
  leaks = 0 /\
  (forall m, In m sent -> forall t, cw_raw t -> ~ occurs cw N t m).
Proof. exact check_script_sound. Qed.
Print Assumptions C30_check_script_sound.
