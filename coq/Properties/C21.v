(** C21 -- Sync sessions terminate for any data volume and transport buffer size.

    Only statements here; proofs live in Proofs/LogSync*.v.  [exec true (Some c)] = two honest
    sides joined by two [futures::mpsc::channel(c)] queues (Model/LogSync.v: a sender is parked
    when its queue holds more than [c] messages and its [send().await] returns only after the
    receiver dequeued), any schedule.  [msgs sc] = the number of messages of a script after
    Have and PreSync: the operations and the final Done a side sends inside the select! send
    arm without reading.  The property as stated is false (KNOWN FINDING
    both_sides_exceed_window); what holds is [C21_outside_known]. *)
From Coq Require Import List Arith NArith.
From PV Require Import Model.Dedup Model.LogSync Proofs.LogSyncJoint Proofs.LogSyncLive Proofs.LogSyncTerm
  Proofs.LogSyncMain Proofs.LogSyncC21.
Import ListNotations.

(** For every buffer size there are replicas with a reachable deadlock: both sides blocked in
    [sink.send], nobody reading. *)
Theorem C21_refuted :
  forall c : nat, exists (rA rB : replica) (logsA logsB : list (N * list N)) (cap : nat) (ls : list label) (y : sys),
    exec true (Some c) rA rB (sys0 logsA logsB cap) ls = Some y /\
    deadlocked true (Some c) rA rB y = true.
Proof. exact refuted_family. Qed.
Print Assumptions C21_refuted.

(** Outside the finding: with [c >= 1] and at least one side whose sync-phase messages fit into
    [c], no reachable state is a deadlock (from every reachable state either both sides are
    finished or a step is enabled) and no run is longer than a bound fixed by the replicas --
    every maximal run terminates with both sides finished. *)
Theorem C21_outside_known :
  forall (rA rB : replica) (logsA logsB : list (N * list N)) (c cap : nat) (ls : list label) (y : sys),
    1 <= c ->
    msgs (scA rA rB logsA logsB) <= c \/ msgs (scB rA rB logsA logsB) <= c ->
    exec true (Some c) rA rB (sys0 logsA logsB cap) ls = Some y ->
    (finished y = true \/ exists l, enabled true (Some c) rA rB y l = true) /\
    length ls <= measure rA rB logsA logsB (sys0 logsA logsB cap).
Proof. exact progress_bounded. Qed.
Print Assumptions C21_outside_known.

(** Finite runs hold for every transport (the only way not to finish is the deadlock). *)
Theorem C21_runs_finite :
  forall (rA rB : replica) (logsA logsB : list (N * list N)) (cbuf : option nat) (cap : nat) (ls : list label) (y : sys),
    exec true cbuf rA rB (sys0 logsA logsB cap) ls = Some y ->
    length ls <= measure rA rB logsA logsB (sys0 logsA logsB cap).
Proof. exact run_length_bounded. Qed.
Print Assumptions C21_runs_finite.
