(** C07 — Stream cursors only move forward and only for their own topic.

    Only statements here; proofs live in Proofs/Cursor.v.  [stored s n a l] is what the cursor
    store holds under cursor name [n] for log [l] of author [a]; [ole_p] is [<=] on optional
    heights where an existing entry may not disappear. *)
From Coq Require Import List NArith Permutation.
From PV Require Import Model.Heights Model.Cursor Model.AckConc Proofs.Cursor Proofs.AckConc Oracle.C07.
Import ListNotations.

(** A cursor's state is the pointwise maximum of its initial state and all heights it was
    advanced to (any cursor, any sequence of advances, every author/log). *)
Theorem C07_advance_is_max :
  forall (c : cursor) (xs : list adv) (a l : N),
    lookup2 (cstate (advance_all c xs)) a l = pointwise_max (cstate c) xs a l.
Proof. exact advance_is_max. Qed.
Print Assumptions C07_advance_is_max.

(** ... independent of the order of the advances. *)
Theorem C07_advance_perm :
  forall (c : cursor) (xs ys : list adv) (a l : N),
    Permutation xs ys ->
    lookup2 (cstate (advance_all c xs)) a l = lookup2 (cstate (advance_all c ys)) a l.
Proof. exact advance_perm. Qed.
Print Assumptions C07_advance_perm.

Theorem C07_advance_monotone :
  forall (c : cursor) (xs : list adv) (a l : N),
    ole_p (lookup2 (cstate c) a l) (lookup2 (cstate (advance_all c xs)) a l).
Proof. exact advance_monotone. Qed.
Print Assumptions C07_advance_monotone.

(** Acknowledging never moves any persisted cursor backwards: one call ... *)
Theorem C07_ack_monotone :
  forall (s : cstore) (k : acked) (h : header) (n a l : N),
    ole_p (stored s n a l) (stored (fst (ack s k h)) n a l).
Proof. exact ack_monotone. Qed.
Print Assumptions C07_ack_monotone.

(** ... and any history of calls through any instances (several topics, several names). *)
Theorem C07_ack_all_monotone :
  forall (ops : list (acked * header)) (s : cstore) (n a l : N),
    ole_p (stored s n a l) (stored (ack_all s ops) n a l).
Proof. exact ack_all_monotone. Qed.
Print Assumptions C07_ack_all_monotone.

(** An operation that belongs to a different topic is rejected and the store is unchanged. *)
Theorem C07_ack_foreign_rejected :
  forall (s : cstore) (k : acked) (h : header),
    hlog h <> log_id_of_topic (atopic k) -> ack s k h = (s, AckInvalidTopic).
Proof. exact ack_foreign_rejected. Qed.
Print Assumptions C07_ack_foreign_rejected.

(** An operation of the own topic is accepted and its log reaches at least its seq_num. *)
Theorem C07_ack_reaches :
  forall (s : cstore) (k : acked) (h : header),
    hlog h = log_id_of_topic (atopic k) ->
    snd (ack s k h) = AckOk /\
    ole_p (Some (hseq h)) (stored (fst (ack s k h)) (aname k) (hauthor h) (hlog h)).
Proof. exact ack_accepts_and_reaches. Qed.
Print Assumptions C07_ack_reaches.

(** The persisted cursor is the maximum over the accepted acks made under its name. *)
Theorem C07_ack_all_is_max :
  forall (ops : list (acked * header)) (s : cstore) (n a l : N),
    stored (ack_all s ops) n a l = fold_left (ack_step_spec n a l) ops (stored s n a l).
Proof. exact ack_all_is_max. Qed.
Print Assumptions C07_ack_all_is_max.

(** Topic scoping: entries for logs of other topics never change. *)
Theorem C07_ack_only_own_topic :
  forall (ops : list (acked * header)) (s : cstore) (n t a l : N),
    (forall op, In op ops -> aname (fst op) = n -> atopic (fst op) = t) ->
    l <> log_id_of_topic t ->
    stored (ack_all s ops) n a l = stored s n a l.
Proof. exact ack_only_own_topic. Qed.
Print Assumptions C07_ack_only_own_topic.

(** The [adv] oracle evaluated on the implementation's final state is sound everywhere. *)
Theorem C07_oracle_adv_sound :
  forall (init : heights) (xs : list adv) (seen : list (option N)) (final : heights),
    check_adv init xs seen final = true ->
    forall a l, lookup2 final a l = pointwise_max init xs a l.
Proof. exact check_adv_sound. Qed.
Print Assumptions C07_oracle_adv_sound.

(** Concurrent acks through ONE [Acked] (Model/AckConc.v: the permit is modelled, each call is
    acquire / topic check / read / advance / begin / write / release in the order of the code).
    For EVERY schedule (list of labels, any number of calls): once all calls have returned, every
    stored entry is the maximum of its initial value and the accepted acks of that log ... *)
Theorem C07_concurrent_acks_max :
  forall (k : acked) (hs : list header) (s0 : cstore) (sched : list nat) (n a l : N),
    conc_all_done hs (conc_run k hs s0 sched) ->
    stored (m_store (conc_run k hs s0 sched)) n a l =
    fold_left (ack_step_spec n a l) (map (pair k) hs) (stored s0 n a l).
Proof. exact concurrent_acks_max. Qed.
Print Assumptions C07_concurrent_acks_max.

(** ... which is what the same calls give one after the other ... *)
Theorem C07_concurrent_acks_as_sequential :
  forall (k : acked) (hs : list header) (s0 : cstore) (sched : list nat) (n a l : N),
    conc_all_done hs (conc_run k hs s0 sched) ->
    stored (m_store (conc_run k hs s0 sched)) n a l = stored (ack_all s0 (map (pair k) hs)) n a l.
Proof. exact concurrent_acks_as_sequential. Qed.
Print Assumptions C07_concurrent_acks_as_sequential.

(** ... and between any two points of any schedule no stored entry decreases or vanishes. *)
Theorem C07_concurrent_acks_monotone :
  forall (k : acked) (hs : list header) (s0 : cstore) (sched1 sched2 : list nat) (n a l : N),
    ole_p (stored (m_store (conc_run k hs s0 sched1)) n a l)
          (stored (m_store (conc_run k hs s0 (sched1 ++ sched2))) n a l).
Proof. exact concurrent_acks_monotone. Qed.
Print Assumptions C07_concurrent_acks_monotone.

(** Regression lemmas about two re-orderings of the steps that are NOT the code (read before
    the permit is acquired; permit released before the write): both lose an acknowledgement, the
    second one moves a stored height backwards. *)
Theorem C07_concurrent_acks_unserialised_read_refuted :
  exists (k : acked) (hs : list header) (s0 : cstore) (sched : list nat) (n a l : N),
    conc_all_done hs (conc_run_unserialised_read k hs s0 sched) /\
    stored (m_store (conc_run_unserialised_read k hs s0 sched)) n a l <>
    fold_left (ack_step_spec n a l) (map (pair k) hs) (stored s0 n a l).
Proof. exact concurrent_acks_unserialised_read_refuted. Qed.
Print Assumptions C07_concurrent_acks_unserialised_read_refuted.

Theorem C07_concurrent_acks_early_release_refuted :
  exists (k : acked) (hs : list header) (s0 : cstore) (sched1 sched2 : list nat) (n a l : N),
    conc_all_done hs (conc_run_early_release k hs s0 (sched1 ++ sched2)) /\
    ~ ole_p (stored (m_store (conc_run_early_release k hs s0 sched1)) n a l)
            (stored (m_store (conc_run_early_release k hs s0 (sched1 ++ sched2))) n a l) /\
    stored (m_store (conc_run_early_release k hs s0 (sched1 ++ sched2))) n a l <>
    fold_left (ack_step_spec n a l) (map (pair k) hs) (stored s0 n a l).
Proof. exact concurrent_acks_early_release_refuted. Qed.
Print Assumptions C07_concurrent_acks_early_release_refuted.
