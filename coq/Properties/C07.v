(** C07 — Stream cursors only move forward and only for their own topic.

    Only statements here; proofs live in Proofs/Cursor.v.  [stored s n a l] is what the cursor
    store holds under cursor name [n] for log [l] of author [a]; [ole_p] is [<=] on optional
    heights where an existing entry may not disappear. *)
From Coq Require Import List NArith Permutation.
From PV Require Import Model.Heights Model.Cursor Proofs.Cursor Oracle.C07.
Import ListNotations.

(** A cursor's state is the pointwise maximum of its initial state and all heights it was
    advanced to (any cursor, any sequence of advances, every author/log). *)
Theorem C07_advance_is_max :
  forall (c : cursor) (xs : list adv) (a l : N),
    lookup2 (cstate (advance_all c xs)) a l = pointwise_max (cstate c) xs a l.
Proof. exact advance_is_max. Qed.
Print Assumptions C07_advance_is_max.

(** ... independent of the order of the advances. *)
Theorem C07_advance_perm :
  forall (c : cursor) (xs ys : list adv) (a l : N),
    Permutation xs ys ->
    lookup2 (cstate (advance_all c xs)) a l = lookup2 (cstate (advance_all c ys)) a l.
Proof. exact advance_perm. Qed.
Print Assumptions C07_advance_perm.

Theorem C07_advance_monotone :
  forall (c : cursor) (xs : list adv) (a l : N),
    ole_p (lookup2 (cstate c) a l) (lookup2 (cstate (advance_all c xs)) a l).
Proof. exact advance_monotone. Qed.
Print Assumptions C07_advance_monotone.

(** Acknowledging never moves any persisted cursor backwards: one call ... *)
Theorem C07_ack_monotone :
  forall (s : cstore) (k : acked) (h : header) (n a l : N),
    ole_p (stored s n a l) (stored (fst (ack s k h)) n a l).
Proof. exact ack_monotone. Qed.
Print Assumptions C07_ack_monotone.

(** ... and any history of calls through any instances (several topics, several names). *)
Theorem C07_ack_all_monotone :
  forall (ops : list (acked * header)) (s : cstore) (n a l : N),
    ole_p (stored s n a l) (stored (ack_all s ops) n a l).
Proof. exact ack_all_monotone. Qed.
Print Assumptions C07_ack_all_monotone.

(** An operation that belongs to a different topic is rejected and the store is unchanged. *)
Theorem C07_ack_foreign_rejected :
  forall (s : cstore) (k : acked) (h : header),
    hlog h <> log_id_of_topic (atopic k) -> ack s k h = (s, AckInvalidTopic).
Proof. exact ack_foreign_rejected. Qed.
Print Assumptions C07_ack_foreign_rejected.

(** An operation of the own topic is accepted and its log reaches at least its seq_num. *)
Theorem C07_ack_reaches :
  forall (s : cstore) (k : acked) (h : header),
    hlog h = log_id_of_topic (atopic k) ->
    snd (ack s k h) = AckOk /\
    ole_p (Some (hseq h)) (stored (fst (ack s k h)) (aname k) (hauthor h) (hlog h)).
Proof. exact ack_accepts_and_reaches. Qed.
Print Assumptions C07_ack_reaches.

(** The persisted cursor is the maximum over the accepted acks made under its name. *)
Theorem C07_ack_all_is_max :
  forall (ops : list (acked * header)) (s : cstore) (n a l : N),
    stored (ack_all s ops) n a l = fold_left (ack_step_spec n a l) ops (stored s n a l).
Proof. exact ack_all_is_max. Qed.
Print Assumptions C07_ack_all_is_max.

(** Topic scoping: entries for logs of other topics never change. *)
Theorem C07_ack_only_own_topic :
  forall (ops : list (acked * header)) (s : cstore) (n t a l : N),
    (forall op, In op ops -> aname (fst op) = n -> atopic (fst op) = t) ->
    l <> log_id_of_topic t ->
    stored (ack_all s ops) n a l = stored s n a l.
Proof. exact ack_only_own_topic. Qed.
Print Assumptions C07_ack_only_own_topic.

(** The [adv] oracle evaluated on the implementation's final state is sound everywhere. *)
Theorem C07_oracle_adv_sound :
  forall (init : heights) (xs : list adv) (seen : list (option N)) (final : heights),
    check_adv init xs seen final = true ->
    forall a l, lookup2 final a l = pointwise_max init xs a l.
Proof. exact check_adv_sound. Qed.
Print Assumptions C07_oracle_adv_sound.
