(** C24 — De-duplication buffer remembers exactly the last [capacity] items.

    Only statements here; proofs live in Proofs/Dedup.v. *)
From Coq Require Import List Arith NArith.
From PV Require Import Model.Dedup Proofs.Dedup Oracle.C24.
Import ListNotations.

(** For any capacity >= 1 and any insertion sequence: the buffer content is the last [c]
    accepted items, and [insert] answers "duplicate" exactly for members of that suffix
    ([spec_run] is that specification, see Model/Dedup.v). *)
Theorem C24_content_is_lastn :
  forall (c : nat) (xs : list N), 1 <= c ->
    items (fst (run (new c) xs)) = lastn c (fst (spec_run c [] xs)) /\
    snd (run (new c) xs) = snd (spec_run c [] xs).
Proof. exact content_is_lastn. Qed.
Print Assumptions C24_content_is_lastn.

Theorem C24_never_exceeds_capacity :
  forall (c : nat) (xs : list N), 1 <= c -> length (items (fst (run (new c) xs))) <= c.
Proof. exact never_exceeds_capacity. Qed.
Print Assumptions C24_never_exceeds_capacity.

Theorem C24_buffer_nodup :
  forall (c : nat) (xs : list N), NoDup (items (fst (run (new c) xs))).
Proof. exact buffer_nodup. Qed.
Print Assumptions C24_buffer_nodup.
