(** C14 — Every pipeline submission completes with its own result, under every interleaving.

    Only statements here; proofs live in Proofs/Tasks.v.  [exec rep ids init tr s]: the labelled
    transition system of Model/Tasks.v ([rep = true]: the code after the repair "create and enable
    the Notified before checking the result"; [rep = false]: the code before it) reaches [s] from
    the initial state by the schedule [tr]; [ids] lists the operation id each submitter submits
    (equal entries = concurrent submissions of the same operation).  Liveness is relative to the
    modelled tokio semantics (header of Model/Tasks.v). *)
From Coq Require Import List Arith.
From PV Require Import Model.Tasks Proofs.Tasks.
Import ListNotations.

(** Safety, both orders, every schedule: a submitter only returns the result of an event with
    its own id. *)
Theorem C14_result_is_own : forall rep ids tr s i r,
  exec rep ids init tr s -> i < List.length ids -> subs s i = SDone r ->
  r < List.length ids /\ idof ids r = idof ids i.
Proof. exact result_is_own. Qed.
Print Assumptions C14_result_is_own.

(** Every schedule is finite: at most 10 steps per submitter (a strictly decreasing measure). *)
Theorem C14_traces_bounded : forall rep ids tr s,
  exec rep ids init tr s -> List.length tr <= 10 * List.length ids.
Proof. exact traces_bounded. Qed.
Print Assumptions C14_traces_bounded.

(** Repaired order: while some submitter has not returned, some step is enabled. *)
Theorem C14_deadlock_free : forall ids tr s,
  exec true ids init tr s -> all_doneb ids s = false -> exists l s', stepb true ids s l = Some s'.
Proof. exact deadlock_free. Qed.
Print Assumptions C14_deadlock_free.

(** Repaired order: every maximal schedule (finite by [C14_traces_bounded]; no fairness needed)
    ends with every submitter having returned, each with a result of its own id. *)
Theorem C14_every_maximal_trace_returns : forall ids tr s,
  exec true ids init tr s -> (forall l, stepb true ids s l = None) ->
  forall i, i < List.length ids ->
    exists r, subs s i = SDone r /\ r < List.length ids /\ idof ids r = idof ids i.
Proof. exact every_maximal_trace_returns. Qed.
Print Assumptions C14_every_maximal_trace_returns.

(** Repaired order: from every reachable state the run can be completed. *)
Theorem C14_can_always_complete : forall ids tr s,
  exec true ids init tr s -> exists tr' s', exec true ids s tr' s' /\ all_doneb ids s' = true.
Proof. exact can_always_complete. Qed.
Print Assumptions C14_can_always_complete.

(** The order before the repair: the submitter checks, the pipeline completes the task and
    notifies, the submitter registers its wait afterwards — and waits forever. *)
Theorem C14_asis_order_deadlocks : exists s,
  exec false [0] init asis_schedule s /\ all_doneb [0] s = false /\ forall l, stepb false [0] s l = None.
Proof. exact asis_order_deadlocks. Qed.
Print Assumptions C14_asis_order_deadlocks.

(** * The result lock held across steps (Model/TaskLock.v)

    [lexec tl k v linit tr s]: [k] waiters inside [Task::ready] of one task instance and the
    writer ([Task::mark_as_done] storing [v]) reach [s] by the schedule [tr]; a waiter that has
    acquired the result mutex keeps it over several steps (look, clone, release), so another
    waiter's check can find the mutex held.  [tl = false]: the code (`lock().await`: the check
    waits for the mutex); [tl = true]: a `try_lock()` check (not the code). *)
From PV Require Import Model.TaskLock Proofs.TaskLock.

(** Both variants: every schedule is finite. *)
Theorem C14_contended_traces_bounded : forall tl k v tr s,
  lexec tl k v linit tr s -> List.length tr <= 7 * k + 3.
Proof. exact ltraces_bounded. Qed.
Print Assumptions C14_contended_traces_bounded.

(** The code's protocol: while a waiter has not returned, some step is enabled (whoever holds
    the mutex can go on; with the mutex free a waiter or the writer can). *)
Theorem C14_contended_deadlock_free : forall k v tr s,
  lexec false k v linit tr s -> all_returnedb k s = false -> exists l s', lstep false k v s l = Some s'.
Proof. exact ldeadlock_free. Qed.
Print Assumptions C14_contended_deadlock_free.

(** The code's protocol: every maximal schedule of readers/readers/writer interleavings ends
    with every waiter having returned the stored result (nobody waits forever, nobody panics). *)
Theorem C14_contended_readers_return : forall k v tr s,
  lexec false k v linit tr s -> (forall l, lstep false k v s l = None) ->
  forall i, i < k -> l_r s i = RDone v.
Proof. exact contended_readers_return. Qed.
Print Assumptions C14_contended_readers_return.

(** A `try_lock()` check is refuted in the model: waiter 0 holds the mutex of a finished task
    (cloning) while waiter 1 checks, concludes "no result yet" and waits for a signal that has
    already fired.  Regression witness for the model's discriminating power, not a finding. *)
Theorem C14_try_lock_check_strands_a_waiter : exists s,
  lexec true 2 7 linit trylock_schedule s /\ l_r s 0 = RDone 7 /\ l_r s 1 = R4 1 /\ l_epoch s = 1 /\
  all_returnedb 2 s = false /\ forall l, lstep true 2 7 s l = None.
Proof. exact trylock_strands_a_waiter. Qed.
Print Assumptions C14_try_lock_check_strands_a_waiter.

(** The boolean oracle evaluated on the implementation's runs means what it should. *)
From PV Require Oracle.C14 Proofs.OracleTasksMetrics.
Theorem C14_oracle_sound : forall ids results,
  Oracle.C14.check ids results = true ->
  List.length results = List.length ids /\
  forall i o, nth_error results i = Some o ->
    exists r, o = Some r /\ r < List.length ids /\ idof ids r = idof ids i.
Proof. exact Proofs.OracleTasksMetrics.c14_check_sound. Qed.
Print Assumptions C14_oracle_sound.
