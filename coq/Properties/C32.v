(** C32 — Group state merge is commutative, associative and idempotent.

    Only statements here; proofs live in Proofs/GroupState.v.  [merge ccmp] is the model of
    [state::merge] with the real [Access] order ([access_lt], a transcription of
    [impl PartialOrd for Access]); [merge_with lt] is the same code with an arbitrary access
    order.  States are association lists with one entry per key ([wf]); equality of states is
    stated on every [lookup]. *)
From Coq Require Import List Arith NArith.
From PV Require Import Model.GroupState Proofs.GroupState Oracle.C32 Proofs.C32Oracle.
Import ListNotations.

(** Idempotent: for every condition type and every condition order, no assumption. *)
Theorem C32_merge_idem :
  forall (C : Type) (ccmp : C -> C -> option comparison) (s : State C) (id : N),
    wf s -> lookup id (merge ccmp s s) = lookup id s.
Proof. exact (fun C ccmp => merge_idem_real ccmp). Qed.
Print Assumptions C32_merge_idem.

(** Without access conditions (in particular [C = ()], where conditions are never set): the
    real merge is commutative at every member none of whose entries carries conditions. *)
Theorem C32_merge_comm :
  forall (C : Type) (ccmp : C -> C -> option comparison) (s1 s2 : State C) (id : N),
    wf s1 -> wf s2 -> nocond_at id s1 -> nocond_at id s2 ->
    lookup id (merge ccmp s1 s2) = lookup id (merge ccmp s2 s1).
Proof. exact (fun C ccmp => merge_comm_nocond ccmp). Qed.
Print Assumptions C32_merge_comm.

Theorem C32_merge_assoc :
  forall (C : Type) (ccmp : C -> C -> option comparison) (s1 s2 s3 : State C) (id : N),
    wf s1 -> wf s2 -> wf s3 -> nocond_at id s1 -> nocond_at id s2 -> nocond_at id s3 ->
    lookup id (merge ccmp (merge ccmp s1 s2) s3) = lookup id (merge ccmp s1 (merge ccmp s2 s3)).
Proof. exact (fun C ccmp => merge_assoc_nocond ccmp). Qed.
Print Assumptions C32_merge_assoc.

(** With conditions: for ANY access order that is a strict total order (hypothesis
    [TotalAccess], satisfiable: [lex_lt_total]) the same merge code is commutative and
    associative on all states. *)
Theorem C32_merge_comm_total_access :
  forall (C : Type) (lt : Access C -> Access C -> bool), TotalAccess lt ->
  forall (s1 s2 : State C) (id : N),
    wf s1 -> wf s2 -> lookup id (merge_with lt s1 s2) = lookup id (merge_with lt s2 s1).
Proof. exact (fun C lt H => merge_comm_total lt H). Qed.
Print Assumptions C32_merge_comm_total_access.

Theorem C32_merge_assoc_total_access :
  forall (C : Type) (lt : Access C -> Access C -> bool), TotalAccess lt ->
  forall (s1 s2 s3 : State C) (id : N),
    wf s1 -> wf s2 -> wf s3 ->
    lookup id (merge_with lt (merge_with lt s1 s2) s3)
    = lookup id (merge_with lt s1 (merge_with lt s2 s3)).
Proof. exact (fun C lt H => merge_assoc_total lt H). Qed.
Print Assumptions C32_merge_assoc_total_access.

(** More precisely, at one member: it is enough that the accesses recorded for that member in
    the merged states lie in a set [dom] on which the order is a strict total order. *)
Theorem C32_merge_comm_at :
  forall (C : Type) (lt : Access C -> Access C -> bool) (dom : Access C -> Prop),
    strict_total_on lt dom ->
  forall (s1 s2 : State C) (id : N),
    wf s1 -> wf s2 -> dom_at dom id s1 -> dom_at dom id s2 ->
    lookup id (merge_with lt s1 s2) = lookup id (merge_with lt s2 s1).
Proof. exact (fun C lt dom H => merge_comm_at lt dom H). Qed.
Print Assumptions C32_merge_comm_at.

(** Commutativity exactly outside the finding's class: it suffices that, for the member, the
    two entries do not tie on both counters, or carry the same access, or neither carries
    conditions ([unambiguous]); the negation of [unambiguous] is what [known] matches. *)
Theorem C32_merge_comm_outside_known :
  forall (C : Type) (ccmp : C -> C -> option comparison) (s1 s2 : State C) (id : N),
    wf s1 -> wf s2 ->
    (forall m1 m2, lookup id s1 = Some m1 -> lookup id s2 = Some m2 -> unambiguous m1 m2) ->
    lookup id (merge ccmp s1 s2) = lookup id (merge ccmp s2 s1).
Proof. exact (fun C ccmp => merge_comm_outside_known ccmp). Qed.
Print Assumptions C32_merge_comm_outside_known.

(** The real [Access] order with conditions (even totally ordered ones, [u64]) is NOT such an
    order, and the real merge is then neither commutative nor associative: known finding
    [merge_noncommutative_with_conditions].  Outside the finding's class (no conditions at the
    member) the laws hold: [C32_merge_comm], [C32_merge_assoc] above are the
    [..._outside_known] statements. *)
Theorem C32_real_order_not_total : ~ TotalAccess (access_lt ncmp).
Proof. exact real_lt_not_total. Qed.
Print Assumptions C32_real_order_not_total.

Theorem C32_refuted_conditions :
  exists (s1 s2 : State N) (id : N),
    wf s1 /\ wf s2 /\ lookup id (merge ncmp s1 s2) <> lookup id (merge ncmp s2 s1).
Proof. exact merge_refuted_conditions. Qed.
Print Assumptions C32_refuted_conditions.

Theorem C32_assoc_refuted_conditions :
  exists (s1 s2 s3 : State N) (id : N),
    wf s1 /\ wf s2 /\ wf s3 /\
    lookup id (merge ncmp (merge ncmp s1 s2) s3) <> lookup id (merge ncmp s1 (merge ncmp s2 s3)).
Proof. exact merge_assoc_refuted_conditions. Qed.
Print Assumptions C32_assoc_refuted_conditions.

(** The oracle evaluated on the implementation's five observed states is sound for the three
    laws (on those observations). *)
Theorem C32_oracle_sound :
  forall (s1 m12 m21 m12_3 m1_23 m11 : NState),
    check s1 m12 m21 m12_3 m1_23 m11 = true ->
    (forall id, lookup id m12 = lookup id m21) /\
    (forall id, lookup id m12_3 = lookup id m1_23) /\
    (forall id, lookup id m11 = lookup id s1).
Proof. exact check_sound. Qed.
Print Assumptions C32_oracle_sound.
