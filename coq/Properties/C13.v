(** C13 — Processor streams deliver every output exactly once and in order.

    Only statements here; model in Model/Processors.v, proofs in Proofs/Processors.v.
    A schedule is a list of labels accepted by [run_trace]; [init cs xs] is the stream with layer
    shapes [cs] (first = next to the source) over the inputs [xs]; [scheck s xs] says: the source
    delivered exactly [xs] and every layer emitted, per origin and in order, exactly what the
    sequential run of its processor(s) yields on what it received. *)
From Coq Require Import List Arith NArith Bool Permutation.
From PV Require Import Model.Processors Proofs.Processors Oracle.C13 Proofs.ProcessorsOracle.
Import ListNotations.

(** Cancel-safe class (single processors; composed ones whose second.process never suspends),
    any number of layers, any processor behaviour, EVERY schedule: at quiescence every layer has
    delivered every output exactly once and in order. *)
Theorem C13_exactly_once_in_order_safe :
  forall cs xs tr s', safe_shape cs ->
    run_trace (init cs xs) tr = Some s' -> quiescent s' = true -> scheck s' xs = true.
Proof. exact exactly_once_in_order_safe. Qed.
Print Assumptions C13_exactly_once_in_order_safe.

(** End to end (layered streams, by composition): the Ok items leaving the last layer are the
    chain specification — a function of the inputs only, not of the schedule. *)
Theorem C13_fifo_preserved_safe :
  forall cs xs tr s', safe_shape cs ->
    run_trace (init cs xs) tr = Some s' -> quiescent s' = true ->
    okitems (emitted_of s') = chain_spec cs xs.
Proof. exact fifo_preserved_safe. Qed.
Print Assumptions C13_fifo_preserved_safe.

(** FIFO processors: the inputs come out in input order (each with the layers' tags added). *)
Theorem C13_fifo_order_safe :
  forall cs xs tr s', safe_shape cs -> fifo_shape cs ->
    run_trace (init cs xs) tr = Some s' -> quiescent s' = true ->
    okitems (emitted_of s') = map (fun x => N.add x (sumtags cs)) xs.
Proof. exact fifo_order_safe. Qed.
Print Assumptions C13_fifo_order_safe.

(** The faithful model of the unchanged code violates the property for ComposedProcessors with
    a suspending second.process: witness schedule (an input arrives during the hand-over). *)
Theorem C13_composed_refuted :
  exists cs xs tr s',
    run_trace (init cs xs) tr = Some s' /\ quiescent s' = true /\ scheck s' xs = false
    /\ okitems (emitted_of s') <> chain_spec cs xs.
Proof. exact composed_refuted. Qed.
Print Assumptions C13_composed_refuted.

(** Outside the known class — ANY shape, any schedule in which no [Recv] drops a [next()]
    future that holds an item — the property holds. *)
Theorem C13_outside_known :
  forall cs xs tr s',
    run_trace (init cs xs) tr = Some s' -> no_drop (init cs xs) tr = true ->
    quiescent s' = true -> scheck s' xs = true.
Proof. exact exactly_once_in_order_no_drop. Qed.
Print Assumptions C13_outside_known.

(** Every schedule, every shape: an intermediate item is processed by the second processor, is
    being handed over, or went with a dropped future — it disappears nowhere else; single
    processors never lose anything. *)
Theorem C13_loss_accounting :
  forall c up l, SInv (Lay c up l) ->
    match c with
    | Single _ => lost l = []
    | Comp _ _ => Permutation (oks (pop1 l)) (done2 l ++ infl (tk l) ++ lost l)
    end.
Proof. exact loss_accounting. Qed.
Print Assumptions C13_loss_accounting.

(** The invariant used above holds in every reachable state. *)
Theorem C13_invariant_every_schedule :
  forall cs xs tr s', run_trace (init cs xs) tr = Some s' ->
    SInv s' /\ src_all s' = xs /\ shape s' = cs.
Proof. exact invariant_every_schedule. Qed.
Print Assumptions C13_invariant_every_schedule.

(** No deadlock in the model: a reachable state with work left has an enabled label. *)
Theorem C13_progress :
  forall cs xs tr s, run_trace (init cs xs) tr = Some s -> quiescent s = false ->
    exists a s', tstep s a = Some s'.
Proof. exact progress. Qed.
Print Assumptions C13_progress.

(** The oracle evaluated on the implementation's observations is the theorems' predicate. *)
Theorem C13_check_is_scheck :
  forall s xs, check (shape s) xs (gone_of s) (rev (remits s)) = scheck s xs.
Proof. exact check_is_scheck. Qed.
Print Assumptions C13_check_is_scheck.

(** At every reachable state of a loss-free run (not only at quiescence): what a layer has
    emitted from its [next()] origin is a prefix of the sequential result on everything it has
    received so far — never a duplicate, never out of order. *)
Theorem C13_prefix_any_time :
  forall c up l, SInv (Lay c up l) -> lost l = [] ->
    exists rest, specQ c (ins l) = projQ (emitted l) ++ rest.
Proof. exact prefix_any_time. Qed.
Print Assumptions C13_prefix_any_time.

(** Cancel-safe class, EVERY schedule, EVERY reachable state (not only quiescent ones): nothing
    was dropped with a cancelled future.  (So a drop observed on the implementation in a
    configuration of this class is outside the model, whatever made the future suspend — e.g.
    tokio's cooperative budget running out at an await point that holds an item.) *)
Theorem C13_nothing_dropped_safe :
  forall cs xs tr s', safe_shape cs -> run_trace (init cs xs) tr = Some s' -> lost_of s' = [].
Proof. exact nothing_dropped_safe. Qed.
Print Assumptions C13_nothing_dropped_safe.

(** In a cancel-safe layer Buffer's recv branch cannot win between the start and the end of a
    hand-over: such a step does not exist in the model. *)
Theorem C13_handover_not_cancellable_safe :
  forall c l y x, safe_cfg c -> tk l = TSel (NHand y) -> lstep c l (Recv x) = None.
Proof. exact handover_not_cancellable_safe. Qed.
Print Assumptions C13_handover_not_cancellable_safe.

(** Any layer, any step: the only step that loses an item is a [Recv] while the composed
    [next()] holds an item whose [second.process] can suspend. *)
Theorem C13_loss_only_by_cancelled_handover :
  forall c l a l', lstep c l a = Some l' -> lost l' <> lost l ->
    exists x y p1 p2, a = Recv x /\ tk l = TSel (NHand y) /\ c = Comp p1 p2 /\ slowb p2 y = true
                      /\ lost l' = lost l ++ [y].
Proof. exact loss_only_by_cancelled_handover. Qed.
Print Assumptions C13_loss_only_by_cancelled_handover.

(** A [second.process] that passes a tokio resource subject to the cooperative budget counts as
    suspending (outside the cancel-safe class). *)
Theorem C13_budgeted_process_is_suspending :
  forall p y, bproc p = true -> slowb p y = true.
Proof. exact budgeted_process_is_suspending. Qed.
Print Assumptions C13_budgeted_process_is_suspending.
