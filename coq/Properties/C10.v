(** C10 — Store transactions are atomic and serialized under any abort point.

    Statements only; proofs live in Proofs/Tx.v.  All theorems are about the labelled transition
    system of Model/Tx.v (the permit protocol of p2panda-store/src/sqlite.rs and the tx! macro):
    for every assignment of programs [P] to tasks, every trace of program steps, cancellations
    (future drops) at any point and steps of the detached rollback tasks, without any bound.
    PARTIAL with respect to the property text: SQLite's own atomicity/isolation, tokio's
    Semaphore/Mutex and sqlx's "dropped transaction = rollback" are assumptions of the model. *)
From Coq Require Import List Arith NArith.
From PV Require Import Model.Tx Proofs.Tx.
Import ListNotations.

(** At most one owner of the transaction permit at any time. *)
Theorem C10_mutual_exclusion :
  forall (P : nat -> prog) (s : state) (o1 o2 : owner),
    reachable P s -> owns s o1 = true -> owns s o2 = true -> o1 = o2.
Proof. exact mutual_exclusion. Qed.
Print Assumptions C10_mutual_exclusion.

(** The committed database equals applying exactly the committed transactions one after another,
    in the order in which their commits took effect. *)
Theorem C10_serializable :
  forall (P : nat -> prog) (tr : list label) (s : state),
    run P init tr = Some s -> db s = apply_all P (commits_of P init tr).
Proof. exact serializable. Qed.
Print Assumptions C10_serializable.

(** ... and that commit order lists, without repetition, exactly the tasks that ended committed. *)
Theorem C10_committed_exactly :
  forall (P : nat -> prog) (tr : list label) (s : state),
    run P init tr = Some s ->
    NoDup (commits_of P init tr) /\
    forall i, In i (commits_of P init tr) <-> tpc (tasks s i) = PDone OCommitted.
Proof. exact committed_exactly. Qed.
Print Assumptions C10_committed_exactly.

(** Aborted transactions (rolled back, permit dropped, failed, cancelled at any point, or still
    running) leave no trace in the committed database. *)
Theorem C10_aborted_leave_no_trace :
  forall (P : nat -> prog) (s : state) (i : nat) (w : key),
    reachable P s ->
    (forall a b k, In k (writes (P a)) -> In k (writes (P b)) -> a = b) ->
    tpc (tasks s i) <> PDone OCommitted -> In w (writes (P i)) -> ~ In w (db s).
Proof. exact aborted_leave_no_trace. Qed.
Print Assumptions C10_aborted_leave_no_trace.

(** ... and keep nothing: when nothing is in flight the permit is available and the slot empty. *)
Theorem C10_quiescent_free :
  forall (P : nat -> prog) (s : state),
    reachable P s ->
    (forall i, active_pc (tpc (tasks s i)) = false) ->
    (forall i, active_rb (trb (tasks s i)) = false) ->
    (forall i, tpc (tasks s i) <> PWait) ->
    avail s = true /\ slot s = None.
Proof. exact quiescent_free. Qed.
Print Assumptions C10_quiescent_free.

(** Outcomes match the programs; the assert in begin(), the panics in commit()/rollback() and the
    TransactionMissing error are unreachable. *)
Theorem C10_outcome_faithful :
  forall (P : nat -> prog) (s : state) (i : nat) (o : outcome),
    reachable P s -> tpc (tasks s i) = PDone o ->
    match o with
    | OCommitted => pfin (P i) = FCommit
    | ORolledBack => pfin (P i) = FRollback
    | ODropped => pfin (P i) = FDrop
    | OError => pfin (P i) = FError
    | OCancelled => True
    | OPanic => False
    end.
Proof. exact outcome_faithful. Qed.
Print Assumptions C10_outcome_faithful.

(** No permanent block: a waiting task implies a permit owner (never a waiter) with an enabled
    step that is not a cancellation. *)
Theorem C10_no_permanent_block :
  forall (P : nat -> prog) (s : state) (i : nat),
    reachable P s -> tpc (tasks s i) = PWait ->
    exists o s', owns s o = true /\ is_cancel (olabel o) = false /\ step P s (olabel o) = Some s'.
Proof. exact no_permanent_block. Qed.
Print Assumptions C10_no_permanent_block.

(** Every step strictly decreases the remaining-work measure, so the owner's enabled steps run
    out and the permit is passed on: no infinite trace, no starvation by an aborted transaction. *)
Theorem C10_step_decreases :
  forall (P : nat -> prog) (s : state) (l : label) (s' : state) (n : nat),
    reachable P s -> step P s l = Some s' -> actor l < n -> measure P n s' < measure P n s.
Proof. exact step_decreases. Qed.
Print Assumptions C10_step_decreases.
