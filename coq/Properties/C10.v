(** C10 — Store transactions are atomic and serialized under any abort point.

    Statements only; proofs live in Proofs/Tx.v.  All theorems are about the labelled transition
    system of Model/Tx.v (the permit protocol of p2panda-store/src/sqlite.rs and the tx! macro):
    for every assignment of programs [P] to tasks, every trace of program steps, cancellations
    (future drops) at any point and steps of the detached rollback tasks, without any bound.
    PARTIAL with respect to the property text: SQLite's own atomicity/isolation, tokio's
    Semaphore/Mutex and sqlx's "dropped transaction = rollback" are assumptions of the model. *)
From Coq Require Import List Arith NArith.
From PV Require Import Model.Tx Proofs.Tx Model.TxSlot Proofs.TxSlot.
Import ListNotations.

(** At most one owner of the transaction permit at any time. *)
Theorem C10_mutual_exclusion :
  forall (P : nat -> prog) (s : state) (o1 o2 : owner),
    reachable P s -> owns s o1 = true -> owns s o2 = true -> o1 = o2.
Proof. exact mutual_exclusion. Qed.
Print Assumptions C10_mutual_exclusion.

(** The committed database equals applying exactly the committed transactions one after another,
    in the order in which their commits took effect. *)
Theorem C10_serializable :
  forall (P : nat -> prog) (tr : list label) (s : state),
    run P init tr = Some s -> db s = apply_all P (commits_of P init tr).
Proof. exact serializable. Qed.
Print Assumptions C10_serializable.

(** ... and that commit order lists, without repetition, exactly the tasks that ended committed. *)
Theorem C10_committed_exactly :
  forall (P : nat -> prog) (tr : list label) (s : state),
    run P init tr = Some s ->
    NoDup (commits_of P init tr) /\
    forall i, In i (commits_of P init tr) <-> tpc (tasks s i) = PDone OCommitted.
Proof. exact committed_exactly. Qed.
Print Assumptions C10_committed_exactly.

(** Aborted transactions (rolled back, permit dropped, failed, cancelled at any point, or still
    running) leave no trace in the committed database. *)
Theorem C10_aborted_leave_no_trace :
  forall (P : nat -> prog) (s : state) (i : nat) (w : key),
    reachable P s ->
    (forall a b k, In k (writes (P a)) -> In k (writes (P b)) -> a = b) ->
    tpc (tasks s i) <> PDone OCommitted -> In w (writes (P i)) -> ~ In w (db s).
Proof. exact aborted_leave_no_trace. Qed.
Print Assumptions C10_aborted_leave_no_trace.

(** ... and keep nothing: when nothing is in flight the permit is available and the slot empty. *)
Theorem C10_quiescent_free :
  forall (P : nat -> prog) (s : state),
    reachable P s ->
    (forall i, active_pc (tpc (tasks s i)) = false) ->
    (forall i, active_rb (trb (tasks s i)) = false) ->
    (forall i, tpc (tasks s i) <> PWait) ->
    avail s = true /\ slot s = None.
Proof. exact quiescent_free. Qed.
Print Assumptions C10_quiescent_free.

(** Outcomes match the programs; the assert in begin(), the panics in commit()/rollback() and the
    TransactionMissing error are unreachable. *)
Theorem C10_outcome_faithful :
  forall (P : nat -> prog) (s : state) (i : nat) (o : outcome),
    reachable P s -> tpc (tasks s i) = PDone o ->
    match o with
    | OCommitted => pfin (P i) = FCommit
    | ORolledBack => pfin (P i) = FRollback
    | ODropped => pfin (P i) = FDrop
    | OError => pfin (P i) = FError
    | OCancelled => True
    | OPanic => False
    end.
Proof. exact outcome_faithful. Qed.
Print Assumptions C10_outcome_faithful.

(** No permanent block: a waiting task implies a permit owner (never a waiter) with an enabled
    step that is not a cancellation. *)
Theorem C10_no_permanent_block :
  forall (P : nat -> prog) (s : state) (i : nat),
    reachable P s -> tpc (tasks s i) = PWait ->
    exists o s', owns s o = true /\ is_cancel (olabel o) = false /\ step P s (olabel o) = Some s'.
Proof. exact no_permanent_block. Qed.
Print Assumptions C10_no_permanent_block.

(** Every step strictly decreases the remaining-work measure, so the owner's enabled steps run
    out and the permit is passed on: no infinite trace, no starvation by an aborted transaction. *)
Theorem C10_step_decreases :
  forall (P : nat -> prog) (s : state) (l : label) (s' : state) (n : nat),
    reachable P s -> step P s l = Some s' -> actor l < n -> measure P n s' < measure P n s.
Proof. exact step_decreases. Qed.
Print Assumptions C10_step_decreases.

(** * Slot-mutex refinement (Model/TxSlot.v): a statement of the running transaction T is in
    flight — issued by a helper sharing the store clone, the slot mutex held — while the permit is
    dropped.  For every configuration (T's program, the helper's and the follower's writes) and
    every trace of the code as it is ([sstep false]). *)

(** When the aborted transaction's permit is released (T ended without commit, its rollback task
    is not pending any more) the slot holds nothing of T — it is empty or holds exactly the
    follower's statements —, with the permit available again the slot is empty, and none of T's
    writes (its own or the helper's) is in the database. *)
Theorem C10_aborted_tx_is_rolled_back_before_permit_release :
  forall (c : scfg) (s : sstate),
    sreachable c s -> aborted (pT s) = true -> active_rb (rT s) = false ->
    (sslot s = None \/ exists k, pN s = PHold k /\ sslot s = Some (firstn k (nw c)))
    /\ (sem s = true -> sslot s = None)
    /\ (forall w, In w (TW c) -> ~ In w (nw c) -> ~ In w (sdb s)).
Proof. exact aborted_tx_is_rolled_back_before_permit_release. Qed.
Print Assumptions C10_aborted_tx_is_rolled_back_before_permit_release.

(** The following transaction's begin(), once it owns the semaphore permit, finds the slot empty
    (the assert holds) and, as soon as no helper statement is in flight, opens its transaction. *)
Theorem C10_next_begin_finds_empty_slot :
  forall (c : scfg) (s : sstate),
    sreachable c s -> pN s = PGranted ->
    sslot s = None /\
    (mtx s = false -> exists s', sstep false c s LN = Some s' /\ pN s' = PHold 0).
Proof. exact next_begin_finds_empty_slot. Qed.
Print Assumptions C10_next_begin_finds_empty_slot.

(** Neither transaction ever reaches the assert of begin() or the panics of commit()/rollback(). *)
Theorem C10_slot_no_panic :
  forall (c : scfg) (s : sstate),
    sreachable c s -> pT s <> PDone OPanic /\ pN s <> PDone OPanic.
Proof. exact slot_no_panic. Qed.
Print Assumptions C10_slot_no_panic.

(** Rows come only from committed transactions (helper writes count as T's). *)
Theorem C10_slot_rows_only_from_committed :
  forall (c : scfg) (s : sstate) (w : key),
    sreachable c s -> In w (sdb s) ->
    (pT s = PDone OCommitted /\ In w (TW c)) \/ (pN s = PDone OCommitted /\ In w (nw c)).
Proof. exact slot_rows_only_from_committed. Qed.
Print Assumptions C10_slot_rows_only_from_committed.

(** No permanent block: while the permit is taken, a step that is not a cancellation is enabled
    (the helper's while it holds the slot mutex, else the permit owner's). *)
Theorem C10_slot_progress :
  forall (c : scfg) (s : sstate),
    sreachable c s -> sem s = false ->
    exists l s', is_scancel l = false /\ sstep false c s l = Some s'.
Proof. exact slot_progress. Qed.
Print Assumptions C10_slot_progress.

(** Every step strictly decreases the remaining-work measure: the helper's statement, the
    rollback task and the owner run out of steps, so with [C10_slot_progress] the permit is passed on. *)
Theorem C10_slot_step_decreases :
  forall (c : scfg) (s : sstate) (l : slabel) (s' : sstate),
    sreachable c s -> sstep false c s l = Some s' -> smeasure c s' < smeasure c s.
Proof. exact slot_step_decreases. Qed.
Print Assumptions C10_slot_step_decreases.

(** Regression lemma about the seeded VARIANT C10-1 (try_lock in TransactionPermit::drop,
    [sstep true]), not a finding about the code: the rollback is skipped, T's transaction stays in
    the slot after the permit was released and the following begin() hits its assert. *)
Theorem C10_slot_variant_try_lock_refuted :
  exists (c : scfg) (tr : list slabel) (s : sstate),
    srun true c sinit tr = Some s /\
    aborted (pT s) = true /\ active_rb (rT s) = false /\
    sslot s = Some [1%N; 5%N] /\ pN s = PDone OPanic.
Proof. exact slot_try_lock_refuted. Qed.
Print Assumptions C10_slot_variant_try_lock_refuted.
