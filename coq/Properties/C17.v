(** C17 — An ephemeral subscription never stalls on invalid messages.

    Only statements here; proofs live in Proofs/EphemeralSub.v and Proofs/C17Oracle.v.  The
    model (Model/EphemeralSub.v) stands for [EphemeralStreamSubscription::poll_next] *after*
    "fix: ephemeral subscription keeps polling after an invalid or lagged item"; [poll_asis] is
    the code before it, kept for the regression theorems at the end. *)
From Coq Require Import List NArith Bool Arith.
From PV Require Import Model.EphemeralSub Proofs.EphemeralSub Oracle.C17 Proofs.C17Oracle.
Import ListNotations.

(** A valid message behind any finite prefix of invalid / lagged items is yielded by the very
    next poll. *)
Theorem C17_valid_eventually_yielded :
  forall (c : bool) (pre : list item) (v : N) (rest : list item),
    Forall (fun i => is_valid i = false) pre ->
    poll_fixed c (pre ++ Valid v :: rest) = (Yield v, rest, false).
Proof. exact valid_eventually_yielded. Qed.
Print Assumptions C17_valid_eventually_yielded.

(** Waker contract: [Pending] is only returned with nothing left unread and the waker
    registered with the channel (so the next send or the close wakes the consumer). *)
Theorem C17_pending_is_live :
  forall (c : bool) (q q' : list item) (reg : bool),
    poll_fixed c q = (Pending, q', reg) ->
    q' = [] /\ reg = true /\ c = false /\ valids q = [].
Proof. exact pending_is_live. Qed.
Print Assumptions C17_pending_is_live.

(** All interleavings: for every capacity, every grouping of sends into phases (the consumer
    runs between phases under an executor that polls it only when woken), every mix of valid
    and invalid messages and every overflow (lag): the consumer is handed, phase by phase,
    exactly the valid messages the channel retained; it ends when the channel is closed and is
    otherwise parked with its waker registered. *)
Theorem C17_never_stalls :
  forall (cap : nat) (phs : list (list item)) (do_close : bool),
    1 <= cap -> Forall (Forall (fun i => i <> Lagged)) phs ->
    let '(s, ys) := scenario poll_fixed cap phs do_close in
    ys = expected cap phs /\
    out s = concat (expected cap phs) /\
    finished s = do_close /\
    (do_close = false -> Parked s).
Proof. exact never_stalls. Qed.
Print Assumptions C17_never_stalls.

(** The oracle run on the implementation's observations is sound for that statement. *)
Theorem C17_oracle_sound :
  forall (cap : nat) (phs : list (list item)) (c : bool) (ys : list (list N)) (fin stall : bool),
    check cap phs c ys fin stall = true ->
    ys = expected cap phs /\ fin = c /\ stall = false.
Proof. exact check_sound. Qed.
Print Assumptions C17_oracle_sound.

(** Regression (code before the repair): one invalid message in front of a valid one and the
    valid one is never yielded ... *)
Theorem C17_asis_refuted :
  exists cap phs,
    1 <= cap /\ Forall (Forall (fun i => i <> Lagged)) phs /\
    snd (scenario poll_asis cap phs false) <> expected cap phs.
Proof. exact asis_refuted. Qed.
Print Assumptions C17_asis_refuted.

(** ... nor is anything sent afterwards: a consumer in [Pending] without a registered wake-up
    is never polled again by an executor honouring the waker contract. *)
Theorem C17_asis_stalled_forever :
  forall (poll : bool -> list item -> pollres) (cap : nat) (phs : list (list item)) (s : task),
    woken s = false /\ registered s = false ->
    snd (phases poll cap s phs) = map (fun _ => []) phs.
Proof. exact asis_stalled_forever. Qed.
Print Assumptions C17_asis_stalled_forever.
