(** C34 — Message ratchet yields the sender's key for any delivery order.

    Only statements here; proofs live in Proofs/Ratchet.v.  [chain]/[km] are arbitrary functions
    (HKDF is not assumed to have any property); [sec chain s0 n] is the free term [chain^n s0]. *)
From Coq Require Import List NArith.
From PV Require Import Lib.NList Model.Ratchet Proofs.Ratchet Oracle.C34 Proofs.OracleC34.
Import ListNotations.
Local Open Scope N_scope.

(** The sender's [i]-th key (starting at generation [b]) carries generation number [b + i] and
    is [km (chain^(b+i) s0)]. *)
Theorem C34_sender_keys :
  forall (S K : Type) (chain : S -> S) (km : S -> K) (s0 : S) (n : nat) (b : N) (i : nat) (g : N) (k : K),
    nth_error (sender S K chain km (rs_at b (sec S chain s0 b)) n) i = Some (g, k) ->
    g = b + N.of_nat i /\ k = km (sec S chain s0 g).
Proof. exact sender_keys. Qed.
Print Assumptions C34_sender_keys.

(** Any request sequence — any order, loss, duplication, any (even changing) window sizes:
    whenever the receiver returns key material for generation [g] it is the sender's. *)
Theorem C34_key_correct :
  forall (S K : Type) (chain : S -> S) (km : S -> K) (s0 : S) (b : N) (rqs : list (N * N * N)),
    Forall2 (fun rq o => forall k, o = ROk k -> k = km (sec S chain s0 (rq_g rq)))
            rqs (snd (run S K chain km (ds_at b (sec S chain s0 b)) rqs)).
Proof. exact key_correct. Qed.
Print Assumptions C34_key_correct.

(** ... and no generation is answered with key material twice. *)
Theorem C34_at_most_once :
  forall (S K : Type) (chain : S -> S) (km : S -> K) (s0 : S) (b : N) (rqs : list (N * N * N)),
    NoDup (ok_gens K rqs (snd (run S K chain km (ds_at b (sec S chain s0 b)) rqs))).
Proof. exact at_most_once. Qed.
Print Assumptions C34_at_most_once.

(** Fixed configuration [(fwd, ooo)], [ooo < 2^31], requested generations below [u32::MAX]:
    the ratchet answers every request exactly as the window specification [spec_run] (head
    counter + set of used generations). *)
Theorem C34_window_exact :
  forall (S K : Type) (chain : S -> S) (km : S -> K) (s0 : S) (b fwd ooo : N) (gs : list N),
    ooo < I32LIM -> Forall (fun g => g < U32MAX) gs ->
    map class_of (snd (run S K chain km (ds_at b (sec S chain s0 b)) (fixed fwd ooo gs))) =
    snd (spec_run b (b, []) (fixed fwd ooo gs)).
Proof. exact window_exact. Qed.
Print Assumptions C34_window_exact.

(** The specification answers "key" iff the generation is inside the forward window, inside the
    out-of-order window, not below the start of the ratchet, and unused (soundness and
    completeness of the windows) ... *)
Theorem C34_spec_ok_iff :
  forall b h used g fwd ooo,
    snd (spec_step b (h, used) (g, fwd, ooo)) = COk <->
    (g <= h + fwd /\ (h <= g \/ h - g <= ooo) /\ b <= g /\ ~ In g used).
Proof. exact spec_step_ok_iff. Qed.
Print Assumptions C34_spec_ok_iff.

(** ... and rejects with the reason the code names. *)
Theorem C34_spec_errors :
  forall b h used g fwd ooo,
    (snd (spec_step b (h, used) (g, fwd, ooo)) = CErr TooFuture <-> h + fwd < g) /\
    (snd (spec_step b (h, used) (g, fwd, ooo)) = CErr TooPast <-> (g <= h + fwd /\ g < h /\ ooo < h - g)) /\
    (b = 0 -> snd (spec_step b (h, used) (g, fwd, ooo)) <> CErr IndexOOB) /\
    snd (spec_step b (h, used) (g, fwd, ooo)) <> CPanic.
Proof. exact spec_step_err. Qed.
Print Assumptions C34_spec_errors.

(** From [DecryptionRatchet::init] with a fixed configuration the window index is never out of
    bounds and no arithmetic overflows. *)
Theorem C34_index_in_bounds :
  forall (S K : Type) (chain : S -> S) (km : S -> K) (s0 : S) (fwd ooo : N) (gs : list N),
    ooo < I32LIM -> Forall (fun g => g < U32MAX) gs ->
    Forall (fun o => o <> RErr IndexOOB /\ o <> RPanic)
           (snd (run S K chain km (ds_at 0 s0) (fixed fwd ooo gs))).
Proof. exact index_in_bounds. Qed.
Print Assumptions C34_index_in_bounds.

(** The boolean oracle run on the implementation's answers is sound for a fixed configuration
    inside the guards: accepted observations are class by class what the specification
    prescribes, and every key carries the requested generation. *)
Theorem C34_oracle_sound :
  forall b rqs os st,
    forallb guard rqs = true ->
    check_all true b st rqs os = true ->
    map obs_cls os = snd (spec_run b st rqs) /\
    Forall2 (fun rq o => forall i, o = OK i -> i = rq_g rq) rqs os.
Proof. exact check_strict_sound. Qed.
Print Assumptions C34_oracle_sound.
