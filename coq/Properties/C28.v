(** C28 — Discovery backoff stays within its configured bounds.

    Only statements here; proofs live in Proofs/Backoff.v.  [R], [sample] stand for the random
    number generator ([sample lo hi r] = [rng.random_range(lo..hi)]); durations are whole
    milliseconds; the clock ([elapsed] = [last_reset_at.elapsed()]) moves by arbitrary [Adv] /
    [Deadline] operations. *)
From Coq Require Import List Arith NArith ZArith.
From PV Require Import Model.Backoff Proofs.Backoff Oracle.C28.
Import ListNotations.
Local Open Scope N_scope.

(** For every generator (no assumption on what it answers — any seed, any algorithm), every
    configuration with [initial_value <= max_value], and every sequence of increments, resets and
    elapsed time: after construction and after every operation the delay is never below the
    initial value and never above the maximum. *)
Theorem C28_bounds :
  forall (R : Type) (sample : N -> N -> R -> N * R) (cfg : config) (r : R) (ops : list op),
    initial_value cfg <= max_value cfg ->
    Forall (fun s => initial_value cfg <= value s <= max_value cfg)
           (trace R sample cfg (new R sample cfg r) ops).
Proof. exact bounds. Qed.
Print Assumptions C28_bounds.

(** Once the reset interval has elapsed the next [increment] returns to the initial value and
    restarts the interval; the explicit [reset] does so at any time. *)
Theorem C28_resets_after_interval :
  forall (R : Type) (sample : N -> N -> R -> N * R) (cfg : config) (s : state R),
    (reset_after s <= elapsed s ->
       value (increment R sample cfg s) = initial_value cfg /\ elapsed (increment R sample cfg s) = 0) /\
    (value (reset R sample cfg s) = initial_value cfg /\ elapsed (reset R sample cfg s) = 0).
Proof. intros. split; [apply resets_after_interval|apply reset_returns_to_initial]. Qed.
Print Assumptions C28_resets_after_interval.

(** Not before: while the interval has not elapsed, [increment] keeps interval and clock and never
    lowers a delay that is within the maximum. *)
Theorem C28_no_reset_before_interval :
  forall (R : Type) (sample : N -> N -> R -> N * R) (cfg : config) (s : state R),
    elapsed s < reset_after s -> value s <= max_value cfg ->
    reset_after (increment R sample cfg s) = reset_after s /\
    elapsed (increment R sample cfg s) = elapsed s /\
    value s <= value (increment R sample cfg s).
Proof. exact no_reset_before_interval. Qed.
Print Assumptions C28_no_reset_before_interval.

(** With a generator that answers within the requested range: the new interval lies in
    [min_reset, max_reset) and an increment below the maximum adds a step from
    [min_increment, max_increment), cut off at the maximum. *)
Theorem C28_draws_in_configured_ranges :
  forall (R : Type) (sample : N -> N -> R -> N * R) (cfg : config),
    (forall lo hi r, lo < hi -> lo <= fst (sample lo hi r) /\ fst (sample lo hi r) < hi) ->
    forall s : state R,
      (min_reset cfg < max_reset cfg ->
         min_reset cfg <= reset_after (reset R sample cfg s) /\ reset_after (reset R sample cfg s) < max_reset cfg) /\
      (min_increment cfg < max_increment cfg -> elapsed s < reset_after s -> value s < max_value cfg ->
         exists k, min_increment cfg <= k /\ k < max_increment cfg /\
                   value (increment R sample cfg s) = N.min (value s + k) (max_value cfg)).
Proof.
  intros R sample cfg H s. split.
  - apply reset_interval_in_range; exact H.
  - apply increment_size; exact H.
Qed.
Print Assumptions C28_draws_in_configured_ranges.

(** The model of rand's sampler (Canon's method on any word stream, i.e. any seed) is such a
    generator. *)
Theorem C28_rand_sampler_in_range :
  forall (lo hi : N) (words : list N),
    lo < hi -> lo <= fst (canon_sample lo hi words) /\ fst (canon_sample lo hi words) < hi.
Proof. exact canon_in_range. Qed.
Print Assumptions C28_rand_sampler_in_range.

(** For the record — the code before the repair ([increment] clamped only on the next call):
    default configuration, draws within their ranges, seven increments, delay 33 994 > 30 000. *)
Theorem C28_asis_late_clamp_refuted :
  exists (script : list N) (ops : list op),
    valid default_config = true /\
    ~ Forall (fun s => value s <= max_value default_config)
        (trace_asis (list N) script_sample default_config
           (new (list N) script_sample default_config script) ops).
Proof. exact late_clamp_refuted. Qed.
Print Assumptions C28_asis_late_clamp_refuted.
