(** C18 — Hybrid timestamps strictly increase on every increment.

    Only statements here; proofs live in Proofs/Timestamp.v and Proofs/C18Oracle.v.  The model
    ([increment], [run], [increment_timestamp], [update_transports], [republish]) is in
    Model/Timestamp.v and stands for the code *after* "fix: HybridTimestamp::increment stays
    monotonic when the wall clock goes backwards". *)
From Coq Require Import List NArith Bool Sorted.
From PV Require Import Model.Timestamp Proofs.Timestamp Oracle.C18 Proofs.C18Oracle.
Import ListNotations.
Local Open Scope N_scope.

(** For every input timestamp and every clock reading (earlier, equal, later) the increment
    returns a strictly greater value.  Guard: the logical counter is below u64::MAX, and that
    only matters when the clock is not ahead of the input. *)
Theorem C18_increment_gt :
  forall (h : hts) (now : N),
    (now <= fst h -> snd h < u64max) ->
    exists h', increment h now = Some h' /\ hlt h h'.
Proof. exact increment_gt. Qed.
Print Assumptions C18_increment_gt.

(** The increment fails (overflow panic of the debug build) exactly at that boundary ... *)
Theorem C18_increment_none_iff :
  forall (h : hts) (now : N),
    increment h now = None <-> (now <= fst h /\ u64max <= snd h).
Proof. exact increment_none_iff. Qed.
Print Assumptions C18_increment_none_iff.

(** ... where the release build wraps the counter and returns a value that is not greater. *)
Theorem C18_increment_overflow_boundary :
  forall (t now : N),
    now <= t ->
    increment (t, u64max) now = None /\
    increment_wrap (t, u64max) now = (t, 0) /\
    ~ hlt (t, u64max) (increment_wrap (t, u64max) now).
Proof. exact increment_overflow_boundary. Qed.
Print Assumptions C18_increment_overflow_boundary.

(** Any sequence of increments under any clock script is strictly sorted (hence pairwise
    distinct), as long as the logical counter cannot reach the boundary within the sequence. *)
Theorem C18_increments_strictly_sorted :
  forall (h : hts) (nows : list N),
    snd h + N.of_nat (length nows) <= u64max ->
    snd (run h nows) = true /\
    length (fst (run h nows)) = length nows /\
    StronglySorted hlt (h :: fst (run h nows)).
Proof. exact increments_strictly_sorted. Qed.
Print Assumptions C18_increments_strictly_sorted.

Theorem C18_increments_pairwise_distinct :
  forall (h : hts) (nows : list N),
    snd h + N.of_nat (length nows) <= u64max ->
    NoDup (h :: fst (run h nows)).
Proof. exact increments_pairwise_distinct. Qed.
Print Assumptions C18_increments_pairwise_distinct.

(** Second sentence of the property: the record a node derives from its previous one with
    [increment_timestamp] and signs itself is accepted as newer by [update_transports],
    whatever the clock reads when it is created and when it is incremented. *)
Theorem C18_transport_info_newer :
  forall (cur : tinfo) (created now a : N),
    (now <= fst (ts cur) -> snd (ts cur) < u64max) ->
    exists t,
      increment_timestamp (hnow created) (Some cur) now = Some t /\
      hlt (ts cur) t /\
      update_transports (Some cur) {| ts := t; sig_ok := true; addrs := a |}
      = (UOk true, Some {| ts := t; sig_ok := true; addrs := a |}).
Proof. exact transport_info_newer. Qed.
Print Assumptions C18_transport_info_newer.

(** ... and so is every one of any number of successive republications. *)
Theorem C18_republish_always_accepted :
  forall (cur : tinfo) (rounds : list (N * N)),
    snd (ts cur) + N.of_nat (length rounds) <= u64max ->
    snd (republish cur rounds) = true /\
    length (fst (republish cur rounds)) = length rounds /\
    Forall (fun p => snd p = true) (fst (republish cur rounds)).
Proof. exact republish_always_accepted. Qed.
Print Assumptions C18_republish_always_accepted.

(** The oracle evaluated on the implementation's observations is sound for the statement. *)
Theorem C18_oracle_sound :
  forall (nows : list N) (h : hts) (outs : list hts),
    check_seq h nows outs false = true ->
    length outs = length nows /\ StronglySorted hlt (h :: outs).
Proof. exact check_seq_sound. Qed.
Print Assumptions C18_oracle_sound.
