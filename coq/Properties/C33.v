(** C33 — Only authorized actors change group membership.

    Only statements here; proofs live in Proofs/GroupProcess.v.  [process] is the model of
    [GroupCrdt::process] (validate against the state at the declared dependencies, then store the
    new state) for the resolver-free fragment, see Model/GroupProcess.v (PARTIAL: StrongRemove
    rebuilds are not modelled). *)
From Coq Require Import List Arith NArith.
From PV Require Import Model.GroupState Proofs.GroupState Model.GroupProcess Proofs.GroupProcess Oracle.C33.
Import ListNotations.

(** An operation is accepted only if the state at its declared dependencies exists and, there,
    its author is an active manager of the group - or an active member removing itself - and the
    action is applicable (add: target not an active member; remove: target an active member;
    promote/demote: target known).  Creates carry no authority requirement. *)
Theorem C33_accept_requires_authority_partial :
  forall (y y' : Replica) (o : Op),
    process y o = (y', OOk) ->
    exists gs, state_at y (op_deps o) = Some gs /\ authorised_in gs o /\ valid_in gs o.
Proof. exact (fun y y' o => accept_requires_authority y o y'). Qed.
Print Assumptions C33_accept_requires_authority_partial.

(** A rejected operation (duplicate, membership error, missing state, panic) leaves the replica
    exactly as it was. *)
Theorem C33_reject_unchanged :
  forall (y y' : Replica) (o : Op) (out : Outcome),
    process y o = (y', out) -> out <> OOk -> y' = y.
Proof. exact (fun y y' o out => reject_unchanged y o y' out). Qed.
Print Assumptions C33_reject_unchanged.

(** An accepted operation is appended and only its own state is added. *)
Theorem C33_accept_extends :
  forall (y y' : Replica) (o : Op),
    process y o = (y', OOk) ->
    ops y' = o :: ops y /\ exists gs', states y' = (op_id o, gs') :: states y.
Proof. exact (fun y y' o => accept_extends y o y'). Qed.
Print Assumptions C33_accept_extends.

(** After any sequence of operations processed from the empty replica, whoever is known (a
    fortiori an active member) in group [g] of the state at any dependencies - e.g. the current
    state at the heads - was introduced by an operation of group [g] that the run accepted: an
    add of them or a create listing them. *)
Theorem C33_members_only_via_add_or_create_partial :
  forall (l : list Op) (deps : list N) (gs : GroupStates) (g : N) (my : MState) (m : N),
    state_at (fst (run init l)) deps = Some gs ->
    glookup g gs = Some my -> known my m ->
    exists o, In o (accepted init l) /\ op_group o = g /\
      ((exists lv, op_action o = Add m lv) \/
       (exists ini, op_action o = Create ini /\ In m (map fst ini))).
Proof. exact members_only_via_add_or_create. Qed.
Print Assumptions C33_members_only_via_add_or_create_partial.

(** State-function level (all of state.rs, any condition type): [promote]/[demote] succeed only
    for an active manager - including on their "nothing to do" path, which before the repair
    returned [Ok] for any actor. *)
Theorem C33_promote_requires_manager :
  forall (C : Type) (ceqb : C -> C -> bool) (s s' : State C) (a b : N) (x : Access C),
    promote ceqb s a b x = Ok s' ->
    is_active_manager s a = true /\ known s b /\ (forall id, known s' id -> known s id).
Proof. exact (fun C ceqb s s' a b x => promote_ok ceqb s a b x s'). Qed.
Print Assumptions C33_promote_requires_manager.

Theorem C33_demote_requires_manager :
  forall (C : Type) (ceqb : C -> C -> bool) (s s' : State C) (a b : N) (x : Access C),
    demote ceqb s a b x = Ok s' ->
    is_active_manager s a = true /\ known s b /\ (forall id, known s' id -> known s id).
Proof. exact (fun C ceqb s s' a b x => demote_ok ceqb s a b x s'). Qed.
Print Assumptions C33_demote_requires_manager.

(** Known finding [recreate_group_unchecked] (open): a create operation for a group that already
    exists at its dependencies is accepted from anybody - there is no authority or existence check
    for creates - and replaces the group's members: a non-member takes the group over. *)
Theorem C33_recreate_refuted :
  exists y o y' gs,
    process y o = (y', OOk) /\ state_at y (op_deps o) = Some gs /\
    recreates gs o /\ ~ authorised_strict gs o /\
    (exists my, glookup (op_group o) gs = Some my /\ ~ known my (op_author o)) /\
    (exists gs' my', state_at y' (heads y') = Some gs' /\ glookup (op_group o) gs' = Some my' /\
       is_active_manager my' (op_author o) = true /\ ~ known my' 0%N).
Proof. exact recreate_refuted. Qed.
Print Assumptions C33_recreate_refuted.

(** Outside that class the property holds at full strength for accepted operations: a create is
    accepted only for a group absent at the dependencies, anything else only from an active
    manager (or as a self-removal), and the action is applicable there. *)
Theorem C33_accept_requires_authority_outside_known :
  forall (y y' : Replica) (o : Op),
    process y o = (y', OOk) ->
    exists gs, state_at y (op_deps o) = Some gs /\
      (~ recreates gs o -> authorised_strict gs o /\ valid_in gs o).
Proof. exact (fun y y' o => accept_requires_authority_outside_known y o y'). Qed.
Print Assumptions C33_accept_requires_authority_outside_known.

(** The decision on an operation depends on the states of its *declared* dependencies only (and
    on whether its id is already known): two replicas that store the same states for those
    operations decide alike, whatever else they have accepted. *)
Theorem C33_decision_depends_only_on_dependencies_partial :
  forall (y1 y2 : Replica) (o : Op),
    (forall d, In d (op_deps o) -> alookup d (states y1) = alookup d (states y2)) ->
    memN (op_id o) (map op_id (ops y1)) = memN (op_id o) (map op_id (ops y2)) ->
    snd (process y1 o) = snd (process y2 o).
Proof. exact decision_depends_only_on_dependencies. Qed.
Print Assumptions C33_decision_depends_only_on_dependencies_partial.

(** Operations processed in between (concurrent branches: none of them a declared dependency of
    [o], none of them [o] itself) neither change the decision on [o] nor the state at its declared
    dependencies.  In particular authority gained only in a branch the operation does not declare
    (author added/promoted there) does not make it acceptable: by
    [C33_accept_requires_authority_partial] the author must be an active manager in
    [state_at y (op_deps o)], the state before those branches were merged in. *)
Theorem C33_concurrent_branches_irrelevant_partial :
  forall (l : list Op) (y : Replica) (o : Op),
    (forall o', In o' l -> ~ In (op_id o') (op_deps o) /\ op_id o <> op_id o') ->
    snd (process (fst (run y l)) o) = snd (process y o)
    /\ state_at (fst (run y l)) (op_deps o) = state_at y (op_deps o).
Proof. exact concurrent_run_irrelevant. Qed.
Print Assumptions C33_concurrent_branches_irrelevant_partial.
