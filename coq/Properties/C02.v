(** C02 — Header encoding round-trips and is a deterministic function of the header.

    Only statements here; proofs are in Proofs/Header.v, the model in Model/Header.v.
    [order1]/[order2] stand for the iteration order of Rust's [HashSet<Hash>] in two different
    places (the signer, a decoder, a second decode of the same bytes ...); the only thing assumed
    about them is that they enumerate exactly the elements ([is_perm_fun]).  [key_ok] is an
    arbitrary predicate "these 32 bytes are an Ed25519 point". *)
From Coq Require Import List NArith Permutation.
From PV Require Import Model.Header Proofs.Header.
Import ListNotations.

(** Decoding the encoding of any valid header — any extension kind, any set of [previous]
    hashes, any iteration order at the encoder — yields the same header value. *)
Theorem C02_dec_enc :
  forall (key_ok : bytes -> bool) (order : list bytes -> list bytes), is_perm_fun order ->
  forall (h : header) (rest : list token),
    valid key_ok h = true ->
    dec_header key_ok (kind_of (h_ext h)) (enc_header order h ++ rest) = Some (h, rest).
Proof. exact dec_enc. Qed.
Print Assumptions C02_dec_enc.

(** Equal header values encode to identical tokens, whatever the two iteration orders are. *)
Theorem C02_enc_deterministic :
  forall (order1 order2 : list bytes -> list bytes), is_perm_fun order1 -> is_perm_fun order2 ->
  forall h : header, enc_header order1 h = enc_header order2 h.
Proof. exact enc_deterministic. Qed.
Print Assumptions C02_enc_deterministic.

(** Different valid header values never share an encoding. *)
Theorem C02_enc_inj :
  forall (key_ok : bytes -> bool) (order1 order2 : list bytes -> list bytes),
  is_perm_fun order1 -> is_perm_fun order2 ->
  forall h1 h2 : header,
    valid key_ok h1 = true -> valid key_ok h2 = true ->
    kind_of (h_ext h1) = kind_of (h_ext h2) ->
    enc_header order1 h1 = enc_header order2 h2 -> h1 = h2.
Proof. exact enc_inj. Qed.
Print Assumptions C02_enc_inj.

(** The operation id (any function of the encoding) is a function of the header value. *)
Theorem C02_hash_fn_of_value :
  forall (order1 order2 : list bytes -> list bytes), is_perm_fun order1 -> is_perm_fun order2 ->
  forall (H : Type) (hash : list token -> H) (h : header),
    header_hash H hash order1 h = header_hash H hash order2 h.
Proof. exact hash_fn_of_value. Qed.
Print Assumptions C02_hash_fn_of_value.

(** So is the outcome of [Header::verify] (any signature scheme). *)
Theorem C02_verify_fn_of_value :
  forall (order1 order2 : list bytes -> list bytes), is_perm_fun order1 -> is_perm_fun order2 ->
  forall (verify_sig : bytes -> list token -> bytes -> bool) (h : header),
    header_verify verify_sig order1 h = header_verify verify_sig order2 h.
Proof. exact verify_fn_of_value. Qed.
Print Assumptions C02_verify_fn_of_value.

(** A header encoded where the iteration order is [order1] and decoded where it is [order2] is
    the same value, verifies exactly as before and has the same id. *)
Theorem C02_verify_after_roundtrip :
  forall (key_ok : bytes -> bool) (order1 order2 : list bytes -> list bytes),
  is_perm_fun order1 -> is_perm_fun order2 ->
  forall (H : Type) (hash : list token -> H) (verify_sig : bytes -> list token -> bytes -> bool)
         (h h' : header) (rest : list token),
    valid key_ok h = true ->
    dec_header key_ok (kind_of (h_ext h)) (enc_header order1 h ++ rest) = Some (h', rest) ->
    h' = h /\ header_verify verify_sig order2 h' = header_verify verify_sig order1 h
    /\ header_hash H hash order2 h' = header_hash H hash order1 h.
Proof. exact verify_after_roundtrip. Qed.
Print Assumptions C02_verify_after_roundtrip.

(** For the record — the serializer as it was before the repair ([previous] written in
    iteration order) is NOT a function of the header value ... *)
Theorem C02_unsorted_refuted :
  exists (h : header) (o1 o2 : list bytes -> list bytes),
    valid (fun _ => true) h = true /\ is_perm_fun o1 /\ is_perm_fun o2 /\
    enc_header_asis o1 h <> enc_header_asis o2 h.
Proof. exact unsorted_refuted. Qed.
Print Assumptions C02_unsorted_refuted.

(** ... and causal extensions with two or more [previous] hashes were the only such headers. *)
Theorem C02_unsorted_outside_known :
  forall (o1 o2 : list bytes -> list bytes) (h : header),
    is_perm_fun o1 -> is_perm_fun o2 -> ~ causal_multi h ->
    enc_header_asis o1 h = enc_header_asis o2 h.
Proof. exact unsorted_outside_known. Qed.
Print Assumptions C02_unsorted_outside_known.

(** The old serializer did round-trip by value (the defect was non-determinism only). *)
Theorem C02_dec_enc_asis :
  forall (key_ok : bytes -> bool) (order : list bytes -> list bytes), is_perm_fun order ->
  forall (h : header) (rest : list token),
    valid key_ok h = true ->
    dec_header key_ok (kind_of (h_ext h)) (enc_header_asis order h ++ rest) = Some (h, rest).
Proof. exact dec_enc_asis. Qed.
Print Assumptions C02_dec_enc_asis.
