(** C04 — Pruning is authenticated and scoped to the prune operation's own log.

    Only statements here; proofs live in Proofs/Ingest.v, the model in Model/Ingest.v
    ([deliver] = one event through the node pipeline: ingest, then log-prune) and Model/Node.v
    (how the entry points sync / import / publish / replay reach [deliver]).  The theorems hold
    for every store and every operation: no hypothesis on the history. *)
From Coq Require Import List Arith NArith Bool.
From PV Require Import Model.Ingest Proofs.Ingest.
Import ListNotations.
Local Open Scope N_scope.

(** An entry disappears only as the effect of a validated, prune-flagged, successfully processed
    operation, and only if it belongs to that operation's own (author, log) below its seq. *)
Theorem C04_deleted_only_by_authentic_prune_in_scope :
  forall (s : store) (o : op) (r : row),
    In r s -> ~ In r (fst (deliver s o)) ->
    o_valid o = true /\ o_prune o = true /\ res_ok (snd (deliver s o)) = true /\
    r_author r = o_author o /\ r_log r = o_log o /\ r_seq r < o_seq o.
Proof. exact deleted_only_by_authentic_prune_in_scope. Qed.
Print Assumptions C04_deleted_only_by_authentic_prune_in_scope.

(** ... and such an operation deletes exactly those entries. *)
Theorem C04_prune_deletes_exactly_the_prefix :
  forall (s : store) (o : op) (r : row),
    o_prune o = true -> res_ok (snd (deliver s o)) = true -> In r s ->
    (In r (fst (deliver s o)) <->
     ~ (r_author r = o_author o /\ r_log r = o_log o /\ r_seq r < o_seq o)).
Proof. exact prune_deletes_exactly_the_prefix. Qed.
Print Assumptions C04_prune_deletes_exactly_the_prefix.

(** An operation that fails validation (forged signature, claims another author, ...) changes
    nothing, with or without prune flag. *)
Theorem C04_invalid_event_changes_nothing :
  forall (s : store) (o : op), o_valid o = false -> deliver s o = (s, Rejected EInvalid).
Proof. exact invalid_event_changes_nothing. Qed.
Print Assumptions C04_invalid_event_changes_nothing.

(** More generally: any event whose ingest failed leaves the store as it was. *)
Theorem C04_failed_event_changes_nothing :
  forall (s : store) (o : op), res_ok (snd (deliver s o)) = false -> fst (deliver s o) = s.
Proof. exact failed_event_changes_nothing. Qed.
Print Assumptions C04_failed_event_changes_nothing.

Theorem C04_no_prune_flag_no_deletion :
  forall (s : store) (o : op) (r : row), o_prune o = false -> In r s -> In r (fst (deliver s o)).
Proof. exact no_prune_flag_no_deletion. Qed.
Print Assumptions C04_no_prune_flag_no_deletion.

(** Regression witness: the pipeline as it was before the repair (failed events still reach
    LogPrune) lets a forged prune-flagged operation wipe the victim's three-entry log. *)
Theorem C04_unrepaired_pipeline_refuted :
  snd (deliver_asis_pipeline (run c04_victim_log) c04_forged) = Rejected EInvalid /\
  List.length (run c04_victim_log) = 3%nat /\
  fst (deliver_asis_pipeline (run c04_victim_log) c04_forged) = [].
Proof. exact C04_asis_refuted. Qed.
Print Assumptions C04_unrepaired_pipeline_refuted.
