(** C04 — Pruning is authenticated and scoped to the prune operation's own log.

    Only statements here; proofs live in Proofs/Ingest.v, the model in Model/Ingest.v
    ([deliver] = one event through the node pipeline: ingest, then log-prune) and Model/Node.v
    (how the entry points sync / import / publish / replay reach [deliver]).  The theorems hold
    for every store and every operation: no hypothesis on the history. *)
From Coq Require Import List Arith NArith Bool.
From PV Require Import Model.Ingest Model.Node Proofs.Ingest Proofs.Node.
Import ListNotations.
Local Open Scope N_scope.

(** An entry disappears only as the effect of a validated, prune-flagged, successfully processed
    operation, and only if it belongs to that operation's own (author, log) below its seq. *)
Theorem C04_deleted_only_by_authentic_prune_in_scope :
  forall (s : store) (o : op) (r : row),
    In r s -> ~ In r (fst (deliver s o)) ->
    o_valid o = true /\ o_prune o = true /\ res_ok (snd (deliver s o)) = true /\
    r_author r = o_author o /\ r_log r = o_log o /\ r_seq r < o_seq o.
Proof. exact deleted_only_by_authentic_prune_in_scope. Qed.
Print Assumptions C04_deleted_only_by_authentic_prune_in_scope.

(** ... and such an operation deletes exactly those entries. *)
Theorem C04_prune_deletes_exactly_the_prefix :
  forall (s : store) (o : op) (r : row),
    o_prune o = true -> res_ok (snd (deliver s o)) = true -> In r s ->
    (In r (fst (deliver s o)) <->
     ~ (r_author r = o_author o /\ r_log r = o_log o /\ r_seq r < o_seq o)).
Proof. exact prune_deletes_exactly_the_prefix. Qed.
Print Assumptions C04_prune_deletes_exactly_the_prefix.

(** An operation that fails validation (forged signature, claims another author, ...) changes
    nothing, with or without prune flag. *)
Theorem C04_invalid_event_changes_nothing :
  forall (s : store) (o : op), o_valid o = false -> deliver s o = (s, Rejected EInvalid).
Proof. exact invalid_event_changes_nothing. Qed.
Print Assumptions C04_invalid_event_changes_nothing.

(** More generally: any event whose ingest failed leaves the store as it was. *)
Theorem C04_failed_event_changes_nothing :
  forall (s : store) (o : op), res_ok (snd (deliver s o)) = false -> fst (deliver s o) = s.
Proof. exact failed_event_changes_nothing. Qed.
Print Assumptions C04_failed_event_changes_nothing.

(** In particular, without any forged signature: a validly signed prune-flagged operation that is
    not yet stored and lies at or below the latest stored entry of its log (a fork of the log, or
    an older prune point arriving after a newer one) is rejected and deletes nothing. *)
Theorem C04_outdated_prune_point_changes_nothing :
  forall (s : store) (o : op) (p : row),
    o_valid o = true -> o_prune o = true -> has_op s (o_id o) = false ->
    latest s (o_author o) (o_log o) = Some p -> o_seq o <= r_seq p ->
    fst (deliver s o) = s /\ res_ok (snd (deliver s o)) = false.
Proof. exact outdated_prune_point_changes_nothing. Qed.
Print Assumptions C04_outdated_prune_point_changes_nothing.

Theorem C04_no_prune_flag_no_deletion :
  forall (s : store) (o : op) (r : row), o_prune o = false -> In r s -> In r (fst (deliver s o)).
Proof. exact no_prune_flag_no_deletion. Qed.
Print Assumptions C04_no_prune_flag_no_deletion.

(** Whichever entry point.  Import and the sync stream (both [process_operation]): *)
Theorem C04_import_deletes_only_in_scope :
  forall (me : N) (s : store) (o : op) (r : row),
    In r s -> ~ In r (fst (node_step me s (NImport o))) ->
    o_valid o = true /\ o_prune o = true /\ snd (node_step me s (NImport o)) = true /\
    r_author r = o_author o /\ r_log r = o_log o /\ r_seq r < o_seq o.
Proof. exact import_deletes_only_in_scope. Qed.
Print Assumptions C04_import_deletes_only_in_scope.

Theorem C04_import_of_invalid_changes_nothing :
  forall (me : N) (s : store) (o : op), o_valid o = false -> node_step me s (NImport o) = (s, false).
Proof. exact import_of_invalid_changes_nothing. Qed.
Print Assumptions C04_import_of_invalid_changes_nothing.

(** Whatever the reason of the failure (signature, encoding, payload, log integrity): an import
    that is reported as failed left the store as it was. *)
Theorem C04_failed_import_changes_nothing :
  forall (me : N) (s : store) (o : op),
    snd (node_step me s (NImport o)) = false -> fst (node_step me s (NImport o)) = s.
Proof. exact failed_import_changes_nothing. Qed.
Print Assumptions C04_failed_import_changes_nothing.

Theorem C04_import_of_outdated_prune_point_changes_nothing :
  forall (me : N) (s : store) (o : op) (p : row),
    o_valid o = true -> o_prune o = true -> has_op s (o_id o) = false ->
    latest s (o_author o) (o_log o) = Some p -> o_seq o <= r_seq p ->
    node_step me s (NImport o) = (s, false).
Proof. exact import_of_outdated_prune_point_changes_nothing. Qed.
Print Assumptions C04_import_of_outdated_prune_point_changes_nothing.

(** Publish / prune by the node itself: only the node's own log of that topic, and only with
    the prune flag. *)
Theorem C04_publish_deletes_only_own_prefix :
  forall (me : N) (s : store) (l : N) (prune body : bool) (id : N) (r : row),
    In r s -> ~ In r (fst (node_step me s (NPublish l prune body id))) ->
    prune = true /\ r_author r = me /\ r_log r = l /\
    r_seq r < o_seq (forge_op me s l prune body id).
Proof. exact publish_deletes_only_own_prefix. Qed.
Print Assumptions C04_publish_deletes_only_own_prefix.

(** Replay of the stored operations of a topic: an entry can only go if a prune-flagged entry of
    the same (author, log) above it is itself stored. *)
Theorem C04_replay_deletes_only_below_stored_prune_points :
  forall (me : N) (s : store) (l : N) (r : row),
    In r s -> ~ In r (fst (node_step me s (NReplay l))) ->
    exists x, In x s /\ r_prune x = true /\ r_author x = r_author r /\ r_log x = r_log r /\
              r_log x = l /\ r_seq r < r_seq x.
Proof. exact replay_deletes_only_below_stored_prune_points. Qed.
Print Assumptions C04_replay_deletes_only_below_stored_prune_points.

(** Regression witness: the pipeline as it was before the repair (failed events still reach
    LogPrune) lets a forged prune-flagged operation wipe the victim's three-entry log. *)
Theorem C04_unrepaired_pipeline_refuted :
  snd (deliver_asis_pipeline (run c04_victim_log) c04_forged) = Rejected EInvalid /\
  List.length (run c04_victim_log) = 3%nat /\
  fst (deliver_asis_pipeline (run c04_victim_log) c04_forged) = [].
Proof. exact C04_asis_refuted. Qed.
Print Assumptions C04_unrepaired_pipeline_refuted.

(** Second regression witness (seeded change C04-1): a pipeline that drops the prune request only
    for operations that could not be authenticated lets a validly signed but rejected prune point
    (fork at seq 3 of a six-entry log) delete the entries 0, 1, 2. *)
Theorem C04_prune_unless_invalid_pipeline_refuted :
  snd (deliver_prune_unless_invalid (run c04_six_log) c04_outdated_prune) = Rejected ESeqNonIncremental /\
  map r_seq (run c04_six_log) = [0; 1; 2; 3; 4; 5] /\
  map r_seq (fst (deliver_prune_unless_invalid (run c04_six_log) c04_outdated_prune)) = [3; 4; 5].
Proof. exact C04_prune_unless_invalid_refuted. Qed.
Print Assumptions C04_prune_unless_invalid_pipeline_refuted.
