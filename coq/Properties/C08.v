(** C08 — SQLite log store queries agree with a reference model and never panic.

    The reference model is Model/LogStore.v (the table as a list of rows, the SQL read literally).
    The theorems below characterise it for every state and every argument; that the real store
    answers like the model is checked on every run by the correspondence harness, and
    [C08_oracle_sound] says what an accepted implementation observation means.
    Only statements here; proofs live in Proofs/LogStore.v and Proofs/LogStoreOracle.v. *)
From Coq Require Import List NArith Bool Permutation Sorted.
From PV Require Import Model.LogStore Oracle.C08 Proofs.LogStore Proofs.LogStoreOracle.
Import ListNotations.
Local Open Scope N_scope.

(** The latest entry is a row of that author's log carrying the largest seq_num; it is [None]
    exactly for a log without rows; the admissible answers are exactly the rows with maximal
    seq_num. *)
Theorem C08_latest_is_max : forall (s : store) (a l : N),
  (latest s a l = None <-> log_rows s a l = []) /\
  (forall r, latest s a l = Some r -> is_latest s a l r) /\
  (forall r, In r (latest_candidates s a l) <-> is_latest s a l r).
Proof. exact latest_is_max. Qed.
Print Assumptions C08_latest_is_max.

(** Heights: [None] for the empty list and whenever no requested log has a row; otherwise the
    map "requested log with rows -> its largest seq_num", keys strictly ascending. *)
Theorem C08_heights_spec : forall (s : store) (a : N) (logs : list N),
  heights s a [] = None /\
  (heights s a logs = None <-> forall l, In l logs -> log_rows s a l = []) /\
  (forall hs, heights s a logs = Some hs ->
     (forall l h, In (l, h) hs <-> In l logs /\ max_seq (log_rows s a l) = Some h) /\
     StronglySorted N.lt (map fst hs)).
Proof. exact heights_spec. Qed.
Print Assumptions C08_heights_spec.

(** Ranged entries: exactly the rows with [after < seq_num <= until], each once, ascending. *)
Theorem C08_entries_sorted_in_range : forall (s : store) (a l : N) (af un : option N),
  Permutation (entries_list s a l af un) (range_rows s a l af un) /\
  StronglySorted seq_le (entries_list s a l af un) /\
  (forall r, In r (entries_list s a l af un) <->
     In r s /\ r_author r = a /\ r_log r = l /\
     (match af with None => True | Some x => x < r_seq r end) /\
     r_seq r <= (match un with None => u32_max | Some u => u end)) /\
  (entries s a l af un = None <-> range_rows s a l af un = []) /\
  entries s a l af un <> Some [].
Proof. exact entries_sorted_in_range. Qed.
Print Assumptions C08_entries_sorted_in_range.

(** Ranged size = count and byte sum (saturating) of the ranged entries; never [None]; an error
    exactly when a sum does not fit u32. *)
Theorem C08_size_is_sum_of_entries : forall (s : store) (a l : N) (af un : option N),
  let es := entries_list s a l af un in
  let fits := (sumN r_hsize es <? two32) && (sumN r_psize es <? two32) && (N.of_nat (length es) <? two32) in
  size s a l af un =
    if fits then Val (Some (N.of_nat (length es), N.min (sumN (fun r => r_hsize r + r_psize r) es) u32_max))
    else Err.
Proof. exact size_is_sum_of_entries. Qed.
Print Assumptions C08_size_is_sum_of_entries.

(** Prune removes exactly the rows of that log below [until], reports their number, leaves every
    other log and the order alone. *)
Theorem C08_prune_deletes_exactly_below : forall (s : store) (a l u : N),
  (forall r, In r (fst (prune s a l u)) <-> In r s /\ ~ (r_author r = a /\ r_log r = l /\ r_seq r < u)) /\
  (N.to_nat (snd (prune s a l u)) + length (fst (prune s a l u)) = length s)%nat /\
  (forall a' l', (a', l') <> (a, l) -> log_rows (fst (prune s a l u)) a' l' = log_rows s a' l') /\
  (forall af un, range_rows (fst (prune s a l u)) a l af un =
                 filter (fun r => negb (r_seq r <? u)) (range_rows s a l af un)).
Proof. exact prune_deletes_exactly_below. Qed.
Print Assumptions C08_prune_deletes_exactly_below.

(** Insert-or-ignore / delete / payload deletion on the key. *)
Theorem C08_writes_spec : forall (s : store) (r : row) (id : N),
  (snd (insert_or_ignore s r) = negb (has_id s (r_id r))) /\
  (forall x, In x (fst (insert_or_ignore s r)) <-> In x s \/ (has_id s (r_id r) = false /\ x = r)) /\
  (snd (delete s id) = has_id s id /\ forall x, In x (fst (delete s id)) <-> In x s /\ r_id x <> id) /\
  (snd (delete_payload s id) = has_id s id /\
   fst (delete_payload s id) = map (fun x => if r_id x =? id then drop_body x else x) s).
Proof. exact writes_spec. Qed.
Print Assumptions C08_writes_spec.

(** No store call of the model panics, in any state, for any argument (the code before the two
    repairs did: Proofs/LogStore.v [heights_legacy_panics], [size_legacy_panics]). *)
Theorem C08_queries_total : forall (tab : list opdef) (s : store) (it : item),
  snd (step tab s it) <> OPanic.
Proof. exact queries_total. Qed.
Print Assumptions C08_queries_total.

(** What the oracle's verdict on an implementation observation means. *)
Theorem C08_oracle_sound : forall tab its hs io,
  check tab its hs io = true ->
  hs = map header_size tab /\
  Forall2 (fun m i => obs_ok m i = true) (snd (run tab [] its)) io /\
  ~ In IPanic io.
Proof. exact check_sound. Qed.
Print Assumptions C08_oracle_sound.
