(** C11 -- Causal orderer releases items only after, and always after, their dependencies;
    a dependency list is a set.

    Only statements here; proofs live in Proofs/Orderer*.v.  The model (Model/Orderer.v) is the
    SQL of [OrdererStore] for SqliteStore plus [CausalOrderer::process/process_pending/next], after
    the repair "fix: de-duplicate dependencies in OrdererStore::ready".

    Vocabulary: [ops] is any list of [Deliver x deps] / [Next] / [Drain] operations (any order,
    repeated deliveries, repeated or missing dependencies, the same id with different lists);
    [trace_of perm fuel ops] is the sequence of deliveries and releases of the run;
    [perm] is the iteration order of the HashSet returned by [get_next_pending] (one permutation
    per call); [fuel] bounds the recursion depth of [process_pending], [no_oof] = it was enough;
    [grounded del x] = x was delivered with a dependency list all of whose members are grounded. *)
From Coq Require Import List Arith NArith Permutation.
From PV Require Import Model.Orderer Proofs.OrdererBase Proofs.OrdererSafety Proofs.Orderer Oracle.C11 Proofs.OrdererOracle.
Import ListNotations.

(** Safety: every release of [x] is preceded by a delivery of [x] with a dependency list all of
    whose members were released before.  Any run, any iteration order, any fuel. *)
Theorem C11_release_after_deps :
  forall (perm : perm_t) (fuel : nat) (ops : list op), good_perm perm ->
    forall pre x post, trace_of perm fuel ops = pre ++ ERel x :: post ->
      exists ds, In (EDel x ds) pre /\ forall d, In d ds -> In (ERel d) pre.
Proof. intros perm fuel ops H. exact (release_after_deps' perm H fuel ops). Qed.
Print Assumptions C11_release_after_deps.

(** Liveness: an item whose dependencies have all been delivered (transitively) is released once
    the queue is drained. *)
Theorem C11_eventual_release :
  forall (perm : perm_t) (fuel : nat) (ops : list op) (x : id), good_perm perm ->
    no_oof perm fuel (ops ++ [Drain]) ->
    grounded (delivered_of ops) x -> In (ERel x) (trace_of perm fuel (ops ++ [Drain])).
Proof. intros perm fuel ops x H. exact (eventual_release perm H fuel ops x). Qed.
Print Assumptions C11_eventual_release.

(** Items with a missing (transitive) dependency are never released. *)
Theorem C11_blocked_stay_blocked :
  forall (perm : perm_t) (fuel : nat) (ops : list op) (x : id), good_perm perm ->
    ~ grounded (delivered_of ops) x -> ~ In (ERel x) (trace_of perm fuel ops).
Proof. intros perm fuel ops x H. exact (blocked_stay_blocked perm H fuel ops x). Qed.
Print Assumptions C11_blocked_stay_blocked.

(** The recursion of [process_pending] never exceeds the height of the delivered graph: for a
    DAG (any rank function decreasing along dependencies) [fuel] above the ranks is enough. *)
Theorem C11_fuel_sufficient :
  forall (perm : perm_t) (fuel : nat) (ops : list op) (rk : id -> nat), good_perm perm ->
    (forall x ds, In (x, ds) (delivered_of ops) -> rk x < fuel /\ forall d, In d ds -> rk d < rk x) ->
    no_oof perm fuel ops.
Proof. exact fuel_sufficient. Qed.
Print Assumptions C11_fuel_sufficient.

(** The released set depends only on the delivered set with dependency lists read as sets: not on
    the delivery order, repeated deliveries, interleaved [next] calls or the HashSet order. *)
Theorem C11_released_set_independent :
  forall perm1 perm2 fuel1 fuel2 ops1 ops2 x, good_perm perm1 -> good_perm perm2 ->
    no_oof perm1 fuel1 (ops1 ++ [Drain]) -> no_oof perm2 fuel2 (ops2 ++ [Drain]) ->
    same_deliveries (delivered_of ops1) (delivered_of ops2) ->
    (In (ERel x) (trace_of perm1 fuel1 (ops1 ++ [Drain])) <->
     In (ERel x) (trace_of perm2 fuel2 (ops2 ++ [Drain]))).
Proof. exact released_set_independent. Qed.
Print Assumptions C11_released_set_independent.

(** A dependency list is a set: removing repeated entries from every delivered list does not
    change what is released; and [ready] itself only looks at the set. *)
Theorem C11_deps_as_set :
  forall perm1 perm2 fuel1 fuel2 ops x, good_perm perm1 -> good_perm perm2 ->
    no_oof perm1 fuel1 (ops ++ [Drain]) -> no_oof perm2 fuel2 (map dedup_op ops ++ [Drain]) ->
    (In (ERel x) (trace_of perm1 fuel1 (ops ++ [Drain])) <->
     In (ERel x) (trace_of perm2 fuel2 (map dedup_op ops ++ [Drain]))).
Proof. exact deps_as_set. Qed.
Print Assumptions C11_deps_as_set.

Theorem C11_ready_is_set_test :
  forall s ds ds', PK s -> (forall d, In d ds <-> In d ds') -> ready s ds = ready s ds'.
Proof. exact ready_set. Qed.
Print Assumptions C11_ready_is_set_test.

(** For the record: the code before the repair compared COUNT(matching rows) with the *length* of
    the list, which is not a set test. *)
Theorem C11_count_refuted :
  exists s ds, PK s /\ (forall d, In d ds -> is_ready s d = true) /\ ready_asis s ds = false.
Proof. exact ready_asis_counterexample. Qed.
Print Assumptions C11_count_refuted.

(** The oracle evaluated on the implementation's observations is sound for the safety half: an
    accepted observation is a trace in which every release comes after its dependencies. *)
Theorem C11_oracle_sound :
  forall ops outs, check ops outs = true ->
    forall pre x post, events_of ops outs = pre ++ ERel x :: post ->
      exists ds, In (EDel x ds) pre /\ forall d, In d ds -> In (ERel d) pre.
Proof. exact check_sound. Qed.
Print Assumptions C11_oracle_sound.
