(** C26 — Wire framing decodes exactly the encoded message sequence.

    Only statements here; proofs live in Proofs/Codec.v.  [M], [ser], [de] stand for the message
    type and postcard ([ser m] = the bytes written for [m], [de] = [postcard::from_bytes] on the
    frame's payload); the only thing assumed about them is the round trip [de (ser m) = Some m]. *)
From Coq Require Import List Arith NArith.
From PV Require Import Model.Codec Proofs.Codec Oracle.C26.
Import ListNotations.
Local Open Scope N_scope.

(** For any sequence of messages that fit ([frame length <= max] and [<= u32::MAX]) and any way
    the encoded bytes are cut into chunks (empty chunks included): every message is accepted by
    [encode], the decoder yields exactly the messages in order, its buffer ends empty, and the
    [FramedRead] stream yields them and ends without an error. *)
Theorem C26_chunking_irrelevant :
  forall (M : Type) (ser : M -> bytes) (de : bytes -> option M) (max : N),
    (forall m, de (ser m) = Some m) ->
    forall (ms : list M) (chunks : list bytes),
      Forall (fits M ser max) ms ->
      concat chunks = snd (encode_all M ser max ms []) ->
      fst (encode_all M ser max ms []) = map (fun _ => None) ms /\
      feed_chunks M de max chunks = (map IOk ms, Some []) /\
      stream_out M de max chunks = map IOk ms.
Proof. exact chunking_irrelevant. Qed.
Print Assumptions C26_chunking_irrelevant.

(** For ANY bytes (malformed, truncated, oversized prefixes, undeserialisable payloads): what
    comes out — items, errors, left-over buffer — depends on the byte stream only, never on where
    it was cut.  No hypothesis on postcard. *)
Theorem C26_chunking_irrelevant_any_stream :
  forall (M : Type) (de : bytes -> option M) (max : N) (chunks1 chunks2 : list bytes),
    concat chunks1 = concat chunks2 ->
    feed_chunks M de max chunks1 = feed_chunks M de max chunks2 /\
    stream_out M de max chunks1 = stream_out M de max chunks2.
Proof. exact chunking_irrelevant_any_stream. Qed.
Print Assumptions C26_chunking_irrelevant_any_stream.

(** A stream that ends inside a frame: all complete frames are delivered, no error while waiting,
    end of input reports the left-over bytes as an io error. *)
Theorem C26_truncated_stream :
  forall (M : Type) (ser : M -> bytes) (de : bytes -> option M) (max : N),
    (forall m, de (ser m) = Some m) ->
    forall (ms : list M) (m : M) (k : nat) (chunks : list bytes),
      Forall (fits M ser max) ms -> fits M ser max m -> (0 < k < length (frame M ser m))%nat ->
      concat chunks = concat (map (frame M ser) ms) ++ firstn k (frame M ser m) ->
      feed_chunks M de max chunks = (map IOk ms, Some (firstn k (frame M ser m))) /\
      stream_out M de max chunks = map IOk ms ++ [IErr Io].
Proof. exact truncated_stream. Qed.
Print Assumptions C26_truncated_stream.

(** Larger than the maximum: refused on encode (buffer untouched: the result carries no buffer)
    and on decode, as soon as the 4 prefix bytes are there, whatever follows. *)
Theorem C26_too_large_rejected_both_ways :
  forall (M : Type) (ser : M -> bytes) (de : bytes -> option M) (max : N)
         (m : M) (dst : bytes) (n : N) (body : bytes),
    (max < blen (ser m) -> encode M ser max m dst = EncErr (TooLargeMessage (blen (ser m)) max)) /\
    (n <= u32_max -> max < n -> decode M de max (be32 n ++ body) = DecErr (TooLargeMessage n max)).
Proof. exact too_large_rejected_both_ways. Qed.
Print Assumptions C26_too_large_rejected_both_ways.

(** Not larger: accepted both ways. *)
Theorem C26_no_smaller_frame_rejected :
  forall (M : Type) (ser : M -> bytes) (de : bytes -> option M) (max : N),
    (forall m, de (ser m) = Some m) ->
    forall (m : M) (dst rest : bytes),
      fits M ser max m ->
      encode M ser max m dst = EncOk (dst ++ frame M ser m) /\
      decode M de max (frame M ser m ++ rest) = DecSome m rest.
Proof. exact no_smaller_frame_rejected. Qed.
Print Assumptions C26_no_smaller_frame_rejected.

(** The size error is never raised for a frame within the effective maximum (configured maximum,
    capped on the encode side by what a 4-byte prefix can carry). *)
Theorem C26_size_refusal_only_if_larger :
  forall (M : Type) (ser : M -> bytes) (de : bytes -> option M) (max : N)
         (m : M) (dst src : bytes) (l mx : N),
    (encode M ser max m dst = EncErr (TooLargeMessage l mx) -> l = blen (ser m) /\ N.min max u32_max < l) /\
    (decode M de max src = DecErr (TooLargeMessage l mx) -> mx = max /\ max < l).
Proof. exact size_refusal_only_if_larger. Qed.
Print Assumptions C26_size_refusal_only_if_larger.

(** Boundary: exactly [max] passes both ways, [max + 1] is refused both ways. *)
Theorem C26_boundary :
  forall (M : Type) (ser : M -> bytes) (de : bytes -> option M) (max : N),
    (forall m, de (ser m) = Some m) ->
    forall (m m' : M) (dst rest body : bytes),
      max <= u32_max ->
      (blen (ser m) = max ->
         encode M ser max m dst = EncOk (dst ++ frame M ser m) /\
         decode M de max (frame M ser m ++ rest) = DecSome m rest) /\
      (blen (ser m') = max + 1 ->
         encode M ser max m' dst = EncErr (TooLargeMessage (max + 1) max)) /\
      (max + 1 <= u32_max ->
         decode M de max (be32 (max + 1) ++ body) = DecErr (TooLargeMessage (max + 1) max)).
Proof. exact boundary. Qed.
Print Assumptions C26_boundary.

(** The length prefix is a bijection between u32 values and 4-byte strings. *)
Theorem C26_prefix_roundtrip :
  forall n : N, n <= u32_max ->
    of_be32 ((n / 256 / 256 / 256) mod 256) ((n / 256 / 256) mod 256) ((n / 256) mod 256) (n mod 256) = n.
Proof. exact of_be32_be32. Qed.
Print Assumptions C26_prefix_roundtrip.

Theorem C26_prefix_roundtrip_inv :
  forall b0 b1 b2 b3 : N, b0 < 256 -> b1 < 256 -> b2 < 256 -> b3 < 256 ->
    of_be32 b0 b1 b2 b3 <= u32_max /\ be32 (of_be32 b0 b1 b2 b3) = [b0; b1; b2; b3].
Proof. exact be32_of_be32. Qed.
Print Assumptions C26_prefix_roundtrip_inv.
