(** C39 — Spaces message processing is idempotent and total.

    Only statements here; proofs live in Proofs/Spaces.v and Proofs/C39Oracle.v.  The model
    (Model/Spaces.v) is the dispatch of [Manager::process] with its preconditions and the four
    replay guards, for ARBITRARY handlers behind the guards (the auth CRDT, the DCGKA and the
    encryption are parameters; their idempotency is not proved here but follows from the guards:
    a handler is never run twice for the same recorded message). *)
From Coq Require Import List NArith Bool.
From PV Require Import Model.Spaces Proofs.Spaces Oracle.C39 Proofs.C39Oracle.
Import ListNotations.

(** Totality of the routing: no message kind (or auth action) a remote peer can choose is routed
    to [unimplemented!()]. *)
Theorem C39_route_total : forall k, route k <> TPanic.
Proof. exact route_total. Qed.
Print Assumptions C39_route_total.

(** ... which the code as found violated at [SpaceUpdate] (kept for the record, repaired). *)
Theorem C39_route_asis_refuted : exists k, route_asis k = TPanic.
Proof. exact route_asis_refuted. Qed.
Print Assumptions C39_route_asis_refuted.

Theorem C39_route_asis_outside_known : forall k, (forall sp, k <> KSpaceUpdate sp) -> route_asis k <> TPanic.
Proof. exact route_asis_outside_known. Qed.
Print Assumptions C39_route_asis_outside_known.

(** Totality of the whole dispatch (routing, preconditions on prior state, guards): for every
    state, every message and every handler behaviour the result is a value or an error. *)
Theorem C39_deliver_total :
  forall (S E : Type) (H : handlers S E) (st : mstate S) (m : msg),
    snd (deliver S E fixed H st m) <> Panic.
Proof. exact deliver_total. Qed.
Print Assumptions C39_deliver_total.

(** The generic replay guard: a [seen] set in front of ANY handler makes processing idempotent. *)
Theorem C39_guarded_idempotent :
  forall (St M K Ev : Type) (key : M -> K) (keqb : K -> K -> bool),
    (forall k, keqb k k = true) ->
    forall (handler : list K -> St -> M -> option (St * list Ev)) (s : list K * St) (m : M),
      gstep St M K Ev key keqb handler (fst (gstep St M K Ev key keqb handler s m)) m
      = (fst (gstep St M K Ev key keqb handler s m), []).
Proof. exact guarded_idempotent. Qed.
Print Assumptions C39_guarded_idempotent.

(** ... lifted over histories: once recorded, re-delivery at any later position is a no-op. *)
Theorem C39_guarded_idempotent_later :
  forall (St M K Ev : Type) (key : M -> K) (keqb : K -> K -> bool)
         (handler : list K -> St -> M -> option (St * list Ev)) (s : list K * St) (m : M) (ms : list M),
    gseen St M K key keqb s m = true ->
    gstep St M K Ev key keqb handler (grun St M K Ev key keqb handler s ms) m
    = (grun St M K Ev key keqb handler s ms, []).
Proof. exact guarded_idempotent_later. Qed.
Print Assumptions C39_guarded_idempotent_later.

(** The manager (repaired code): processing a message a second time right away leaves the state
    as it is and emits nothing (success if the first was a success, the same error otherwise). *)
Theorem C39_deliver_twice :
  forall (S E : Type) (H : handlers S E) (st : mstate S) (m : msg),
    deliver S E fixed H (fst (deliver S E fixed H st m)) m
    = (fst (deliver S E fixed H st m), quiet (snd (deliver S E fixed H st m))).
Proof. exact deliver_twice. Qed.
Print Assumptions C39_deliver_twice.

(** ... and at any later position, after an arbitrary history of deliveries and local operations. *)
Theorem C39_redelivery_later :
  forall (S E : Type) (H : handlers S E) (st : mstate S) (m : msg) (ev : list E) (ops : list op),
    snd (deliver S E fixed H st m) = Done ev ->
    let st2 := run S E fixed H (fst (deliver S E fixed H st m)) ops in
    deliver S E fixed H st2 m = (st2, Done []).
Proof. exact redelivery_later. Qed.
Print Assumptions C39_redelivery_later.

(** Which prior state a message kind requires to be processed at all (otherwise the dispatch
    answers with an error before any handler runs). *)
Theorem C39_dispatch_preconditions :
  forall (S E : Type) (H : handlers S E) (st : mstate S) (m : msg) (ev : list E),
    snd (process S E fixed H st m) = Done ev ->
    match mkind m with
    | KKeyBundle _ => True
    | KAuth a => supported a = true
    | KSpaceMembership sp ref =>
        exists a, lookup ref (stored st) = Some (SAuth a) /\ supported a = true /\
                  (memN sp (spaces st) = true \/ is_create a = true)
    | KSpaceUpdate _ => False
    | KApplication sp => memN sp (spaces st) = true
    end.
Proof. exact dispatch_preconditions. Qed.
Print Assumptions C39_dispatch_preconditions.

(** Errors (and, as found, panics) persist nothing. *)
Theorem C39_errors_persist_nothing :
  forall (S E : Type) (H : handlers S E) (c : cfg) (st : mstate S) (m : msg),
    (forall ev, snd (process S E c H st m) <> Done ev) -> fst (process S E c H st m) = st.
Proof. exact process_not_done_unchanged. Qed.
Print Assumptions C39_errors_persist_nothing.

(** The code as found violated idempotency for key bundles and application messages and panicked
    on promote/demote actions (kept for the record; all repaired by [fix:] commits). *)
Theorem C39_asis_key_bundle_reemits_refuted :
  exists st m, snd (deliver unit N asis H0 (fst (deliver unit N asis H0 st m)) m) = Done [7%N].
Proof. exact asis_key_bundle_reemits. Qed.
Print Assumptions C39_asis_key_bundle_reemits_refuted.

Theorem C39_asis_application_reemits_refuted :
  exists st m, snd (deliver unit N asis H0 (fst (deliver unit N asis H0 st m)) m) = Done [7%N].
Proof. exact asis_application_reemits. Qed.
Print Assumptions C39_asis_application_reemits_refuted.

(** The oracle evaluated on the implementation's observations is sound for the property. *)
Theorem C39_oracle_sound : forall pre authored o post,
  check authored (pre ++ o :: post) = true ->
  o_res o <> 2%N /\
  (o_res o = 1%N -> o_nev o = 0 /\ o_chg o = false) /\
  ((memK (okey o) authored = true \/
    exists o', In o' pre /\ okey o' = okey o /\ o_res o' = 0%N) ->
   o_nev o = 0 /\ o_chg o = false).
Proof. exact check_sound. Qed.
Print Assumptions C39_oracle_sound.
