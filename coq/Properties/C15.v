(** C15 - Unacknowledged operations are replayed after any crash; acknowledged ones are not
    re-delivered.

    Only statements here; proofs live in Proofs/Replay.v and Proofs/ReplayOracle.v.
    [after tlog tr] is the durable state (operations, topic associations, ack cursor) after the
    trace [tr] of atomic transitions from the empty database; [LCrash] may occur anywhere in [tr]
    and any prefix of an API call's transitions may be followed by it.  PARTIAL: SQLite's
    atomicity/durability and the process model are the model's assumptions (Model/Replay.v). *)
From Coq Require Import List NArith Sorted.
From PV Require Import Model.Replay Proofs.Replay Oracle.C15 Proofs.ReplayOracle.
From PV Require Model.AckConc Proofs.AckConc.
Import ListNotations.

(** The restart function (nacked_log_ranges from the frontier, then replay_log_ranges) computes,
    on whatever tables a crash left behind, the comprehension "row of one of the topic's logs
    above the cursor". *)
Theorem C15_restart_is_spec :
  forall (d : durable) (r : row), In r (replay_entries d) <-> In r (spec_replay d).
Proof. exact replay_entries_spec. Qed.
Print Assumptions C15_restart_is_spec.

(** replay_exact: after ANY trace, crashes anywhere, the replayed operations are exactly the
    stored operations of the topic with a sequence number above the cursor of their log. *)
Theorem C15_replay_exact :
  forall (tlog : logid) (tr : list label) (r : row),
    In r (replay_entries (after tlog tr)) <->
    In r (rows (after tlog tr)) /\ r_log r = tlog /\ above_cursor (after tlog tr) r = true.
Proof. exact replay_exact. Qed.
Print Assumptions C15_replay_exact.

(** ... and the application receives exactly those of them that have a body. *)
Theorem C15_delivered_exact :
  forall (tlog : logid) (tr : list label) (k : ekind) (r : row),
    In (k, r) (delivered_on_restart (after tlog tr)) <->
    In r (rows (after tlog tr)) /\ r_log r = tlog /\ event_of r = Some k /\
    above_cursor (after tlog tr) r = true.
Proof. exact delivered_exact. Qed.
Print Assumptions C15_delivered_exact.

(** The cursor is the pointwise maximum of the committed acknowledgements. *)
Theorem C15_cursor_is_max_acked :
  forall (tlog : logid) (tr : list label) (k : key),
    lookup k (cursor (after tlog tr)) = max_seq (acked_of tlog tr) k.
Proof. exact cursor_is_max_acked. Qed.
Print Assumptions C15_cursor_is_max_acked.

(** Hence: replayed iff stored, of this topic, and not acknowledged - neither itself nor a later
    operation of the same log. *)
Theorem C15_replay_iff_not_acked :
  forall (tlog : logid) (tr : list label) (r : row),
    In r (replay_entries (after tlog tr)) <->
    In r (rows (after tlog tr)) /\ r_log r = tlog /\
    ~ exists a, In a (acked_of tlog tr) /\ rkey a = rkey r /\ (r_seq r <= r_seq a)%N.
Proof. exact replay_iff_not_acked. Qed.
Print Assumptions C15_replay_iff_not_acked.

Theorem C15_acked_not_redelivered :
  forall (tlog : logid) (tr1 tr2 : list label) (a r : row),
    In (LAck a) tr1 -> r_log a = tlog -> rkey r = rkey a -> (r_seq r <= r_seq a)%N ->
    ~ In r (replay_entries (after tlog (tr1 ++ tr2))).
Proof. exact acked_not_redelivered. Qed.
Print Assumptions C15_acked_not_redelivered.

Theorem C15_unacked_replayed :
  forall (tlog : logid) (tr : list label) (r : row),
    In r (rows (after tlog tr)) -> r_log r = tlog -> r_body r = Body ->
    (forall a, In (LAck a) tr -> rkey a = rkey r -> (r_seq a < r_seq r)%N) ->
    In (Processed, r) (delivered_on_restart (after tlog tr)).
Proof. exact unacked_replayed. Qed.
Print Assumptions C15_unacked_replayed.

(** A replay that ran to its end acknowledged what the stream itself acknowledges (everything
    decodable under the automatic policy, body-less operations always): no later restart
    replays those again. *)
Theorem C15_replay_then_restart :
  forall (tlog : logid) (p : policy) (tr : list label) (r : row),
    In r (replay_entries (after tlog tr)) -> self_acks p r = true -> r_log r = tlog ->
    forall tr2, ~ In r (replay_entries (after tlog (tr ++ replay_plan p (after tlog tr) ++ tr2))).
Proof. exact replay_then_restart. Qed.
Print Assumptions C15_replay_then_restart.

(** Every range of the replay is emitted in sequence order. *)
Theorem C15_replay_in_log_order :
  forall (d : durable) (k : key) (a : option N) (u : N),
    Sorted seq_le (get_log_entries (rows d) k a u).
Proof. exact replay_ranges_sorted. Qed.
Print Assumptions C15_replay_in_log_order.

(** Histories of API calls (publish, prune, import, ack, restart+replay), each run to its end or
    cut by a crash after any number of its transitions, are such traces: the characterisation
    holds for the state they leave. *)
Theorem C15_crash_anywhere_in_api_calls :
  forall (tlog : logid) (p : policy) (me : author) (h : list (op * option nat)) (r : row),
    In r (replay_entries (run_hist tlog p me h)) <->
    In r (rows (run_hist tlog p me h)) /\ r_log r = tlog /\
    ~ exists a, In a (acked_of tlog (trace_hist tlog p me empty h)) /\ rkey a = rkey r /\ (r_seq r <= r_seq a)%N.
Proof. exact crash_anywhere_in_api_calls. Qed.
Print Assumptions C15_crash_anywhere_in_api_calls.

(** The oracle evaluated on the implementation's observations accepts only what the property
    demands. *)
Theorem C15_oracle_sound :
  forall (o : obs), check_obs o = true -> o_complete o = true ->
    forall k i, In (k, i) (o_events o) <->
      exists r, In r (rows (o_d o)) /\ r_id r = i /\ event_of r = Some k /\
                In (rkey r) (assoc (o_d o)) /\ above_cursor (o_d o) r = true.
Proof. exact check_obs_sound. Qed.
Print Assumptions C15_oracle_sound.

(** ... and in an accepted observation every stored row of the topic's log (index 0 in the
    harness) is a row of a log the topic resolves to. *)
Theorem C15_oracle_assoc_complete :
  forall (o : obs), check_obs o = true ->
    forall r, In r (rows (o_d o)) -> r_log r = Oracle.C15.tlog -> In (rkey r) (assoc (o_d o)).
Proof. exact check_obs_assoc. Qed.
Print Assumptions C15_oracle_assoc_complete.

(** Concurrent acknowledgements through the stream's ONE [Acked] (Model/AckConc.v, the permit
    modelled): for every schedule of k calls in flight at once, once all have returned the tables
    are those after acknowledging the accepted operations one after the other in some order - so
    every theorem above applies to the state a concurrent burst of acks leaves behind. *)
Theorem C15_concurrent_acks_serialisable :
  forall (tlog : logid) (rs : list row) (d : durable) (sched : list nat),
    AckConc.dconc_all_done rs (AckConc.dconc_run tlog rs d sched) ->
    exists order : list row,
      Permutation.Permutation order (filter (fun r => N.eqb (r_log r) tlog) rs) /\
      AckConc.m_store (AckConc.dconc_run tlog rs d sched) = dexec tlog d (map LAck order).
Proof. exact Proofs.AckConc.dconc_serialisable. Qed.
Print Assumptions C15_concurrent_acks_serialisable.

(** After any history, k concurrent acks in ANY interleaving and whatever happens afterwards
    (crashes included), a restart from the frontier replays none of the operations those calls
    acknowledged, nor an earlier operation of their logs. *)
Theorem C15_concurrent_acks_not_redelivered :
  forall (tlog : logid) (tr0 : list label) (rs : list row) (sched : list nat) (tr2 : list label) (a r : row),
    AckConc.dconc_all_done rs (AckConc.dconc_run tlog rs (after tlog tr0) sched) ->
    In a rs -> r_log a = tlog -> rkey r = rkey a -> (r_seq r <= r_seq a)%N ->
    ~ In r (replay_entries (dexec tlog (AckConc.m_store (AckConc.dconc_run tlog rs (after tlog tr0) sched)) tr2)).
Proof. exact Proofs.AckConc.concurrent_acks_not_redelivered. Qed.
Print Assumptions C15_concurrent_acks_not_redelivered.
