(** C09 — Operation, topic and cursor stores behave like their abstract collections.

    Row-level model of the three tables and the abstract map / set / map: Model/Stores.v.
    Only statements here; proofs live in Proofs/Stores.v and Proofs/StoresOracle.v. *)
From Coq Require Import List NArith Bool.
From PV Require Import Model.Stores Oracle.C09 Proofs.Stores Proofs.StoresOracle.
Import ListNotations.
Local Open Scope N_scope.

(** Step-wise refinement with equal outputs, for every state and every command with a signed
    header: INSERT OR IGNORE / DELETE / UPDATE body = NULL on the key implement the partial map,
    INSERT OR IGNORE + UNIQUE / DELETE implement the set of triples, ON CONFLICT DO UPDATE /
    DELETE implement the last-writer-wins map. *)
Theorem C09_step_refines : forall (i : impl) (c : cmd),
  inv i -> cmd_signed c = true ->
  spec_eq (abs (fst (step_impl i c))) (fst (step_spec (abs i) c)) /\
  out_ok (snd (step_impl i c)) (snd (step_spec (abs i) c)) /\
  inv (fst (step_impl i c)).
Proof. exact step_refines. Qed.
Print Assumptions C09_step_refines.

(** Any command sequence from the empty database: the outputs are those of the abstract
    collections started empty. *)
Theorem C09_run_refines : forall cs : list cmd,
  forallb cmd_signed cs = true ->
  Forall2 out_ok (snd (run_impl empty cs)) (snd (run_spec spec_empty cs)).
Proof. exact run_refines. Qed.
Print Assumptions C09_run_refines.

(** The excluded case: a header without signature is swallowed and reported [false]. *)
Theorem C09_unsigned_insert_reports_false : forall i id hdr body log,
  step_impl i (OpInsert id hdr body log false) = (i, OB false).
Proof. exact unsigned_insert_reports_false. Qed.
Print Assumptions C09_unsigned_insert_reports_false.

(** "Inserting an operation reports true exactly once and reading it back returns the same
    header, body and id." *)
Theorem C09_insert_once_and_read_back : forall i id hdr body log i',
  step_impl i (OpInsert id hdr body log true) = (i', OB true) ->
  (forall hdr' body' log' s', snd (step_impl i' (OpInsert id hdr' body' log' s')) = OB false) /\
  snd (step_impl i' (OpGet id)) = OOp (Some (id, hdr, body)) /\
  snd (step_impl i' (OpHas id)) = OB true /\
  snd (step_impl i (OpHas id)) = OB false.
Proof. exact insert_once_and_read_back. Qed.
Print Assumptions C09_insert_once_and_read_back.

(** "A cursor read returns the last cursor written under that name." *)
Theorem C09_cursor_last_writer_wins : forall i n v,
  snd (step_impl (fst (step_impl i (CSet n v))) (CGet n)) = OCur (Some v) /\
  (forall n', n' <> n ->
     snd (step_impl (fst (step_impl i (CSet n v))) (CGet n')) = snd (step_impl i (CGet n'))) /\
  snd (step_impl (fst (step_impl i (CDelete n))) (CGet n)) = OCur None.
Proof. exact cursor_last_writer_wins. Qed.
Print Assumptions C09_cursor_last_writer_wins.

(** What the oracle's verdict on an implementation observation means. *)
Theorem C09_oracle_sound : forall cs io,
  check cs io = true ->
  Forall2 (fun m i => obs_ok m i = true) (snd (run_impl empty cs)) io /\
  ~ In IPanic io /\ ~ In IErr io.
Proof. exact check_sound. Qed.
Print Assumptions C09_oracle_sound.
