(** C06 — State-vector diff returns exactly what the remote is missing.

    Only statements here; proofs live in Proofs/Heights.v.  [wf_heights] = unique keys (what a
    BTreeMap guarantees); it is required of the *local* map only, the remote map is read through
    [lookup2] alone. *)
From Coq Require Import List NArith.
From PV Require Import Model.Heights Model.Cursor Proofs.Heights Oracle.C06.
Import ListNotations.

(** For all local and remote height maps and every (author, log): the diff holds the range
    (remote height exclusive — or from the start — up to the local height inclusive) exactly
    when the remote is missing the log or is behind, and nothing otherwise ([spec_range]). *)
Theorem C06_compare_spec :
  forall (L R : heights) (a l : N),
    wf_heights L ->
    lookup2 (compare L R) a l =
    match lookup2 L a l, lookup2 R a l with
    | Some h, None => Some (None, Some h)
    | Some h, Some r => if N.ltb r h then Some (Some r, Some h) else None
    | None, _ => None
    end.
Proof. exact compare_spec. Qed.
Print Assumptions C06_compare_spec.

Theorem C06_compare_range_iff :
  forall (L R : heights) (a l : N),
    wf_heights L ->
    ((exists rg, lookup2 (compare L R) a l = Some rg) <->
     (exists h, lookup2 L a l = Some h /\
                (lookup2 R a l = None \/ exists r, lookup2 R a l = Some r /\ (r < h)%N))).
Proof. exact compare_range_iff. Qed.
Print Assumptions C06_compare_range_iff.

(** Merging the diff into the remote heights yields the pointwise maximum of both maps. *)
Theorem C06_merge_is_max :
  forall (L R : heights) (a l : N),
    wf_heights L ->
    lookup2 (apply_diff R (compare L R)) a l = omax (lookup2 L a l) (lookup2 R a l).
Proof. exact merge_is_max. Qed.
Print Assumptions C06_merge_is_max.

Theorem C06_compare_self_empty : forall (L : heights), wf_heights L -> compare L L = [].
Proof. exact compare_self_empty. Qed.
Print Assumptions C06_compare_self_empty.

Theorem C06_compare_antimonotone :
  forall (L R R' : heights) (a l : N) (f' u' : option N),
    wf_heights L -> heights_le R R' ->
    lookup2 (compare L R') a l = Some (f', u') ->
    exists f, lookup2 (compare L R) a l = Some (f, u') /\ from_le f f'.
Proof. exact compare_antimonotone. Qed.
Print Assumptions C06_compare_antimonotone.

(** An author with an empty inner map appears in the diff only if the local map itself holds
    that author with no logs and the remote does not know the author. *)
Theorem C06_compare_empty_inner :
  forall (L R : heights) (a : N),
    wf_heights L -> alookup a (compare L R) = Some [] ->
    alookup a L = Some [] /\ alookup a R = None.
Proof. exact compare_empty_inner. Qed.
Print Assumptions C06_compare_empty_inner.

(** [Cursor::compare(&self, other)] = [compare(other, self.state)]. *)
Theorem C06_cursor_compare_spec :
  forall (c : cursor) (other : heights) (a l : N),
    wf_heights other -> lookup2 (cursor_compare c other) a l = spec_range other (cstate c) a l.
Proof. exact cursor_compare_spec. Qed.
Print Assumptions C06_cursor_compare_spec.

(** The oracle evaluated on the implementation's diff is sound for every (author, log). *)
Theorem C06_oracle_sound :
  forall (L R : heights) (D : ranges),
    check_one L R D = true ->
    forall a l,
      lookup2 D a l = spec_range L R a l /\
      lookup2 (apply_diff R D) a l = omax (lookup2 L a l) (lookup2 R a l).
Proof. exact check_one_sound. Qed.
Print Assumptions C06_oracle_sound.
