(** C36 — Latest group secret is chosen deterministically and new secrets are newer.

    Only statements here; proofs live in Proofs/SecretBundle.v.  A secret is the pair
    (id, timestamp); [order] is the iteration order of the hash map, about which only
    [forall l e, In e (order l) <-> In e l] is assumed. *)
From Coq Require Import List NArith.
From PV Require Import Model.SecretBundle Proofs.SecretBundle Oracle.C36 Proofs.OracleC36.
Import ListNotations.
Local Open Scope N_scope.

(** [find_latest], run over the entries in any order, returns an entry that is the maximum by
    (timestamp, id). *)
Theorem C36_latest_is_lex_max :
  forall (l : list secret) (i : N),
    find_latest l = Some i ->
    exists t, In (i, t) l /\ forall e, In e l -> lex_le e (i, t).
Proof. exact latest_is_lex_max. Qed.
Print Assumptions C36_latest_is_lex_max.

(** It answers [None] only if every entry is the all-zero id with timestamp 0 (so: for the empty
    bundle, or for a SHA-256 preimage of 0^32 created at the epoch). *)
Theorem C36_latest_none_only_if_all_zero :
  forall (l : list secret), find_latest l = None -> forall e, In e l -> sid e = 0 /\ sts e = 0.
Proof. exact latest_none. Qed.
Print Assumptions C36_latest_none_only_if_all_zero.

(** It depends on the set of entries only: no iteration order, no permutation changes it. *)
Theorem C36_find_latest_iteration_order_free :
  forall l l' : list secret, (forall e, In e l <-> In e l') -> find_latest l = find_latest l'.
Proof. exact find_latest_set_ext. Qed.
Print Assumptions C36_find_latest_iteration_order_free.

(** Every state produced by init / from_secrets / insert / extend / remove is well formed, and
    in a well-formed state the recorded latest id is the (timestamp, id)-maximum of the content. *)
Theorem C36_operations_keep_wf :
  forall order, (forall l e, In e (order l) <-> In e l) ->
    wf order init /\
    (forall l, wf order (from_secrets order l)) /\
    (forall y s, wf order y -> wf order (insert order y s)) /\
    (forall y o, wf order y -> wf order (extend order y o)) /\
    (forall y i, wf order y -> wf order (fst (remove order y i))).
Proof. exact operations_keep_wf. Qed.
Print Assumptions C36_operations_keep_wf.

Theorem C36_state_latest_is_lex_max :
  forall order, (forall l e, In e (order l) <-> In e l) ->
  forall y i, wf order y -> latest y = Some i ->
    exists t, In (i, t) (secrets y) /\ forall e, In e (secrets y) -> lex_le e (i, t).
Proof. exact state_latest_is_lex_max. Qed.
Print Assumptions C36_state_latest_is_lex_max.

(** Order independence.  Known class: the inserted secrets contain the same id with two
    different timestamps ([~ consistent]).  Outside it, bundles built from the same secrets by
    insertions and merges in any order and shape, under any hash-map iteration orders, have the
    same latest secret. *)
Theorem C36_order_independent_outside_known :
  forall order1 order2 : list secret -> list secret,
    (forall l e, In e (order1 l) <-> In e l) -> (forall l e, In e (order2 l) <-> In e l) ->
    forall e1 e2,
      consistent (leaves e1 ++ leaves e2) ->
      (forall x, In x (leaves e1) <-> In x (leaves e2)) ->
      latest (eval order1 e1) = latest (eval order2 e2).
Proof. exact order_independent. Qed.
Print Assumptions C36_order_independent_outside_known.

(** Inside it the claim fails (HashMap::insert replaces: the last timestamp inserted for an id
    survives). *)
Theorem C36_order_independent_refuted :
  exists e1 e2,
    (forall x, In x (leaves e1) <-> In x (leaves e2)) /\
    latest (eval (fun l => l) e1) <> latest (eval (fun l => l) e2).
Proof. exact order_dependent_on_conflicting_duplicates. Qed.
Print Assumptions C36_order_independent_refuted.

(** Freshly generated secrets.  Known class: the bundle's latest timestamp is [u64::MAX].
    Outside it, for every clock reading [now] (before, at, after the latest timestamp),
    [generate] returns a timestamp strictly greater than the latest one ... *)
Theorem C36_generated_strictly_later_outside_known :
  forall (y : state) (now : N),
    latest_ts y < U64MAX ->
    exists t, generate_ts y now = Some t /\ latest_ts y < t /\ now <= t.
Proof. exact generated_strictly_later. Qed.
Print Assumptions C36_generated_strictly_later_outside_known.

(** ... which makes the new secret strictly later than every secret of the bundle and the
    latest one once inserted, whatever id its random bytes hash to. *)
Theorem C36_generated_becomes_latest :
  forall order, (forall l e, In e (order l) <-> In e l) ->
  forall y now t i,
    wf order y -> generate_ts y now = Some t -> ~ In i (map sid (secrets y)) ->
    (forall e, In e (secrets y) -> lex_lt e (i, t)) /\
    latest (insert order y (i, t)) = Some i.
Proof. exact generated_becomes_latest. Qed.
Print Assumptions C36_generated_becomes_latest.

(** Inside it [latest_timestamp + 1] overflows: no later secret is produced (panic in a debug
    build, timestamp 0 in a release build). *)
Theorem C36_generated_strictly_later_refuted :
  exists (y : state) (now : N),
    wf (fun l => l) y /\ now <= U64MAX /\ generate_ts y now = None.
Proof.
  exists (from_secrets (fun l => l) [(7, U64MAX)]), 1700000000. split; [apply wf_from|].
  split; [vm_compute; discriminate|vm_compute; reflexivity].
Qed.
Print Assumptions C36_generated_strictly_later_refuted.

(** Soundness of the boolean oracle pieces evaluated on the implementation's observations. *)
Theorem C36_oracle_is_max_sound :
  forall lat content,
    is_max lat content = true ->
    match lat with
    | Some i => exists t, In (i, t) content /\ forall e, In e content -> lex_le e (i, t)
    | None => forall e, In e content -> sid e = 0 /\ sts e = 0
    end.
Proof. exact is_max_sound. Qed.
Print Assumptions C36_oracle_is_max_sound.

Theorem C36_oracle_gen_ok_sound :
  forall prev lat content,
    gen_ok prev lat content = true ->
    exists e, In e content /\ lat = Some (sid e) /\ forall p, In p prev -> lex_lt p e.
Proof. exact gen_ok_sound. Qed.
Print Assumptions C36_oracle_gen_ok_sound.
