(** Association lists with first-match [lookup] and replace-or-append [set], used by the C31
    group CRDT model (Model/GroupCrdt.v) as the model of Rust's [HashMap].  Definitions and their
    basic lemmas; nothing here is specific to p2panda. *)
From Coq Require Import List Bool Permutation.
Import ListNotations.

Section AL.
  Context {K V : Type}.
  Variable eqb : K -> K -> bool.

  Fixpoint lookup (k : K) (m : list (K * V)) : option V :=
    match m with
    | [] => None
    | (k', v) :: r => if eqb k k' then Some v else lookup k r
    end.

  Fixpoint set (k : K) (v : V) (m : list (K * V)) : list (K * V) :=
    match m with
    | [] => [(k, v)]
    | (k', v') :: r => if eqb k k' then (k, v) :: r else (k', v') :: set k v r
    end.

  Definition wf (m : list (K * V)) : Prop := NoDup (map fst m).

  Hypothesis eqb_spec : forall a b, reflect (a = b) (eqb a b).

  Lemma eqb_refl k : eqb k k = true.
  Proof. destruct (eqb_spec k k); congruence. Qed.

  Lemma eqb_sym a b : eqb a b = eqb b a.
  Proof. destruct (eqb_spec a b), (eqb_spec b a); congruence. Qed.

  Lemma lookup_set k' k v m :
    lookup k' (set k v m) = if eqb k' k then Some v else lookup k' m.
  Proof.
    induction m as [|[k0 v0] r IH]; cbn [set lookup].
    - reflexivity.
    - destruct (eqb_spec k k0) as [->|Hne]; cbn [lookup].
      + destruct (eqb_spec k' k0); reflexivity.
      + rewrite IH. destruct (eqb_spec k' k0) as [->|Hne'].
        * destruct (eqb_spec k0 k); congruence.
        * reflexivity.
  Qed.

  Lemma set_keys_in k v m x : In x (map fst (set k v m)) <-> x = k \/ In x (map fst m).
  Proof.
    induction m as [|[k0 v0] r IH]; cbn [set map fst In].
    - intuition.
    - destruct (eqb_spec k k0) as [->|Hne]; cbn [map fst In].
      + intuition.
      + rewrite IH. intuition.
  Qed.

  Lemma wf_nil : wf [].
  Proof. constructor. Qed.

  Lemma wf_set k v m : wf m -> wf (set k v m).
  Proof.
    unfold wf. induction m as [|[k0 v0] r IH]; cbn [set map fst]; intros H.
    - constructor; [intros []|constructor].
    - inversion H as [|? ? Hn Hr]; subst.
      destruct (eqb_spec k k0) as [->|Hne]; cbn [map fst].
      + constructor; assumption.
      + constructor; [|apply IH; assumption].
        intros Hin. apply set_keys_in in Hin. destruct Hin as [->|Hin]; [congruence|contradiction].
  Qed.

  Lemma lookup_in k v m : lookup k m = Some v -> In (k, v) m.
  Proof.
    induction m as [|[k0 v0] r IH]; cbn [lookup]; [discriminate|].
    destruct (eqb_spec k k0) as [->|Hne]; intros H.
    - inversion H; subst. left; reflexivity.
    - right; auto.
  Qed.

  Lemma lookup_none_notin k m : lookup k m = None -> ~ In k (map fst m).
  Proof.
    induction m as [|[k0 v0] r IH]; cbn [lookup map fst In]; [tauto|].
    destruct (eqb_spec k k0) as [->|Hne]; [discriminate|].
    intros H [E|Hin]; [congruence|]. apply IH; assumption.
  Qed.

  Lemma notin_lookup_none k m : ~ In k (map fst m) -> lookup k m = None.
  Proof.
    induction m as [|[k0 v0] r IH]; cbn [lookup map fst In]; [reflexivity|].
    intros H. destruct (eqb_spec k k0) as [->|Hne]; [exfalso; apply H; left; reflexivity|].
    apply IH. tauto.
  Qed.

  Lemma in_lookup k v m : wf m -> In (k, v) m -> lookup k m = Some v.
  Proof.
    unfold wf. induction m as [|[k0 v0] r IH]; cbn [lookup map fst In]; [tauto|].
    intros Hwf [E|Hin].
    - inversion E; subst. rewrite eqb_refl. reflexivity.
    - inversion Hwf as [|? ? Hn Hr]; subst.
      destruct (eqb_spec k k0) as [->|Hne].
      + exfalso. apply Hn. apply (in_map fst) in Hin. exact Hin.
      + apply IH; assumption.
  Qed.

  (** Two well-formed maps with the same lookups hold the same entries, in some order. *)
  Lemma ext_perm m1 m2 :
    wf m1 -> wf m2 -> (forall k, lookup k m1 = lookup k m2) -> Permutation m1 m2.
  Proof.
    intros W1 W2 E. apply NoDup_Permutation.
    - unfold wf in W1. eapply NoDup_map_inv; exact W1.
    - unfold wf in W2. eapply NoDup_map_inv; exact W2.
    - intros [k v]. split; intros Hin.
      + apply lookup_in. rewrite <- E. apply in_lookup; assumption.
      + apply lookup_in. rewrite E. apply in_lookup; assumption.
  Qed.

  (** Filtering on a predicate of the key. *)
  Lemma lookup_filter_key (p : K -> bool) k m :
    lookup k (filter (fun e => p (fst e)) m) = if p k then lookup k m else None.
  Proof.
    induction m as [|[k0 v0] r IH]; cbn [filter lookup fst].
    - destruct (p k); reflexivity.
    - destruct (p k0) eqn:P0; cbn [lookup].
      + destruct (eqb_spec k k0) as [->|Hne]; [rewrite P0; reflexivity|exact IH].
      + rewrite IH. destruct (eqb_spec k k0) as [->|Hne]; [rewrite P0; reflexivity|reflexivity].
  Qed.

  Lemma wf_filter (f : K * V -> bool) m : wf m -> wf (filter f m).
  Proof.
    unfold wf. induction m as [|[k0 v0] r IH]; cbn [filter map fst]; intros H; [constructor|].
    inversion H as [|? ? Hn Hr]; subst.
    destruct (f (k0, v0)); cbn [map fst]; [|apply IH; exact Hr].
    constructor; [|apply IH; exact Hr].
    intros Hin. apply Hn. apply in_map_iff in Hin. destruct Hin as [[k1 v1] [E Hin]].
    apply filter_In in Hin. destruct Hin as [Hin _]. apply in_map_iff. exists (k1, v1). split; assumption.
  Qed.
End AL.

Arguments lookup {K V} eqb k m.
Arguments set {K V} eqb k v m.
Arguments wf {K V} m.
