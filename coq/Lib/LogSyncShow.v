(** Canonical rendering of log sync messages, shared by the C19/C20/C21 oracles; the Rust
    harness (harness/logsync) prints the same format. *)
From Coq Require Import List String NArith Bool.
From PV Require Import Lib.Show Model.Dedup Model.LogSync.
Import ListNotations.
Local Open Scope string_scope.

Definition show_lh (lh : N * N) : string := show_N (fst lh) ++ "=" ++ show_N (snd lh).
Definition show_author_heights (al : N * list (N * N)) : string :=
  show_N (fst al) ++ ":" ++ show_list show_lh "," (snd al).
Definition show_heights (h : heights) : string := "H[" ++ show_list show_author_heights ";" h ++ "]".

Definition show_op (a l : N) (w : row) : string :=
  show_N a ++ "." ++ show_N l ++ "." ++ show_N (r_seq w) ++ "/" ++ show_N (r_size w).

Definition show_msg (m : msg) : string :=
  match m with
  | Have h => show_heights h
  | PreSync o b => "P" ++ show_N o ++ ":" ++ show_N b
  | Operation a l w => "O" ++ show_op a l w
  | Done => "D"
  end.

Definition show_msgs (ms : list msg) : string := show_list show_msg " " ms.
Definition show_ops (xs : list (N * N * row)) : string :=
  show_list (fun x => show_op (fst (fst x)) (snd (fst x)) (snd x)) " " xs.

Fixpoint first_fail (outs : list output) : option err :=
  match outs with
  | [] => None
  | Fail e :: _ => Some e
  | _ :: t => first_fail t
  end.

Definition show_err (e : err) : string :=
  match e with
  | UnexpectedStreamClosure => "UnexpectedStreamClosure"
  | UnexpectedMessage => "UnexpectedMessage"
  end.

(** Outcome of a single side: [ok] at [PEnd], the error variant after a failure, else [stuck]. *)
Definition show_status (s : st) (outs : list output) : string :=
  match ph s, first_fail outs with
  | PEnd, _ => "ok"
  | _, Some e => "err=" ++ show_err e
  | _, None => "stuck"
  end.
