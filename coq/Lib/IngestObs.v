(** Rendering of ingest/prune model states as canonical lines, and the observation type shared by
    the C03 / C05 / C04 oracles.  (Definitions only.) *)
From Coq Require Import List Arith NArith Bool String.
From PV Require Import Lib.Show Model.Ingest.
Import ListNotations.
Local Open Scope string_scope.

Definition show_err (e : err) : string :=
  match e with
  | EInvalid => "Invalid"
  | ETooManyAuthors => "TooManyAuthors"
  | ESeqNonIncremental => "SeqNumNonIncremental"
  | EBacklinkMismatch => "BacklinkMismatch"
  | EBacklinkMissing => "BacklinkMissing"
  end.

Definition show_res (r : res) : string :=
  match r with
  | Inserted => "I"
  | AlreadyExists => "A"
  | Rejected e => "R:" ++ show_err e
  | Panicked => "P"
  end.

Definition show_row (r : row) : string :=
  show_N (r_seq r) ++ ":" ++ show_N (r_id r) ++ ":" ++ show_N (r_hh r) ++ ":"
  ++ show_option show_N (r_backlink r) ++ ":" ++ show_bool (r_prune r) ++ ":" ++ show_bool (r_body r).

Definition nrange (n : N) : list N := map N.of_nat (seq 0 (N.to_nat n)).

Definition show_log (s : store) (a l : N) : list string :=
  match log_entries s a l with
  | [] => []
  | es => [show_N a ++ "." ++ show_N l ++ "=" ++ show_list show_row "," es ++ "^"
           ++ show_option show_N (height s a l)]
  end.

Definition show_store (na nl : N) (s : store) : string :=
  join "+" (flat_map (fun a => flat_map (fun l => show_log s a l) (nrange nl)) (nrange na)).

Definition show_step (na nl : N) (x : res * store) : string :=
  show_res (fst x) ++ "/" ++ (if is_panic (fst x) then "" else show_store na nl (snd x)).

Definition dummy_op : op := mkOp 0 0 0 0 0 None false false false.

Definition pick (ops : list op) (ds : list nat) : list op := map (fun i => nth i ops dummy_op) ds.

Definition show_trace (na nl : N) (ops : list op) (tr : list (res * store)) : string :=
  join " ; " (("V=" ++ show_list (fun o => show_bool (o_valid o)) "" ops) :: map (show_step na nl) tr).

(** What the harness observed after one delivery: result, rows of all logs (as returned by
    [get_log_entries]), and the heights reported by [get_log_heights] as [(author, log, height)]. *)
Record obs := mkObs { ob_res : res; ob_rows : store; ob_heights : list (N * N * N) }.

Definition row_eqb (x y : row) : bool :=
  (r_author x =? r_author y)%N && (r_log x =? r_log y)%N && (r_seq x =? r_seq y)%N
  && (r_id x =? r_id y)%N && (r_hh x =? r_hh y)%N
  && (match r_backlink x, r_backlink y with
      | Some a, Some b => (a =? b)%N
      | None, None => true
      | _, _ => false
      end)
  && Bool.eqb (r_prune x) (r_prune y) && Bool.eqb (r_body x) (r_body y).

Definition mem_row (x : row) (s : store) : bool := existsb (row_eqb x) s.

Definition subset_rows (a b : store) : bool := forallb (fun x => mem_row x b) a.

Definition same_rows (a b : store) : bool := subset_rows a b && subset_rows b a.

(** The reported heights are exactly the heights of the reported entries. *)
Definition heights_consistent (o : obs) : bool :=
  forallb (fun h => match h with (a, l, n) =>
             match height (ob_rows o) a l with Some m => (m =? n)%N | None => false end end)
          (ob_heights o)
  && forallb (fun r => existsb (fun h => match h with (a, l, _) => (a =? r_author r)%N && (l =? r_log r)%N end)
                               (ob_heights o))
             (ob_rows o).
