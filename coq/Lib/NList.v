(** Lists indexed by binary naturals ([N]), so that models can carry u32/u64/usize indices
    without ever converting a large machine number to unary [nat] (which [vm_compute] cannot
    evaluate).  All functions are structurally recursive on the list. *)
From Coq Require Import List NArith Lia.
Import ListNotations.
Local Open Scope N_scope.

Fixpoint nthN {A} (l : list A) (n : N) : option A :=
  match l with
  | [] => None
  | x :: r => if n =? 0 then Some x else nthN r (N.pred n)
  end.

(** [VecDeque::truncate(n)]: keep the first [n] elements. *)
Fixpoint truncN {A} (n : N) (l : list A) : list A :=
  match l with
  | [] => []
  | x :: r => if n =? 0 then [] else x :: truncN (N.pred n) r
  end.

(** Overwrite position [n] (no-op when out of range). *)
Fixpoint setN {A} (l : list A) (n : N) (v : A) : list A :=
  match l with
  | [] => []
  | x :: r => if n =? 0 then v :: r else x :: setN r (N.pred n) v
  end.

Definition lenN {A} (l : list A) : N := N.of_nat (length l).

Lemma lenN_cons {A} (x : A) l : lenN (x :: l) = N.succ (lenN l).
Proof. unfold lenN. cbn [length]. apply Nat2N.inj_succ. Qed.

Lemma nthN_cons_succ {A} (x : A) l n : nthN (x :: l) (N.succ n) = nthN l n.
Proof.
  cbn [nthN]. destruct (N.eqb_spec (N.succ n) 0) as [E|_]; [lia|].
  now rewrite N.pred_succ.
Qed.

Lemma nthN_cons_0 {A} (x : A) l : nthN (x :: l) 0 = Some x.
Proof. reflexivity. Qed.

Lemma nthN_cons_pos {A} (x : A) l n : 0 < n -> nthN (x :: l) n = nthN l (n - 1).
Proof.
  intros H. cbn [nthN]. destruct (N.eqb_spec n 0) as [E|_]; [lia|].
  now rewrite N.sub_1_r.
Qed.

Lemma nthN_some_lt {A} (l : list A) : forall n v, nthN l n = Some v -> n < lenN l.
Proof.
  induction l as [|x l IH]; intros n v H; [discriminate|].
  rewrite lenN_cons. cbn [nthN] in H.
  destruct (N.eqb_spec n 0) as [E|E]; [lia|].
  apply IH in H. lia.
Qed.

Lemma nthN_lt_some {A} (l : list A) : forall n, n < lenN l -> exists v, nthN l n = Some v.
Proof.
  induction l as [|x l IH]; intros n H.
  - unfold lenN in H. cbn in H. lia.
  - rewrite lenN_cons in H. cbn [nthN].
    destruct (N.eqb_spec n 0) as [E|E]; [eauto|].
    apply IH. lia.
Qed.

Lemma nthN_none_ge {A} (l : list A) n : nthN l n = None -> lenN l <= n.
Proof.
  intros H. destruct (N.lt_ge_cases n (lenN l)) as [L|L]; [|exact L].
  destruct (nthN_lt_some l n L) as [v E]. congruence.
Qed.

Lemma nthN_truncN {A} (l : list A) : forall m n v, nthN (truncN m l) n = Some v -> nthN l n = Some v.
Proof.
  induction l as [|x l IH]; intros m n v H; [discriminate|].
  cbn [truncN] in H. destruct (N.eqb_spec m 0) as [E|E]; [discriminate|].
  cbn [nthN] in *. destruct (n =? 0); [exact H|]. eapply IH; eauto.
Qed.

Lemma nthN_truncN_lt {A} (l : list A) : forall m n, n < m -> nthN (truncN m l) n = nthN l n.
Proof.
  induction l as [|x l IH]; intros m n H; [reflexivity|].
  cbn [truncN]. destruct (N.eqb_spec m 0) as [E|E]; [lia|].
  cbn [nthN]. destruct (N.eqb_spec n 0) as [E0|E0]; [reflexivity|].
  apply IH. lia.
Qed.

Lemma lenN_truncN {A} (l : list A) : forall m, lenN (truncN m l) = N.min m (lenN l).
Proof.
  induction l as [|x l IH]; intros m.
  - cbn [truncN]. unfold lenN. cbn. lia.
  - cbn [truncN]. destruct (N.eqb_spec m 0) as [E|E].
    + subst. unfold lenN at 1. cbn. lia.
    + rewrite !lenN_cons, IH. lia.
Qed.

Lemma lenN_setN {A} (l : list A) : forall n v, lenN (setN l n v) = lenN l.
Proof.
  induction l as [|x l IH]; intros n v; [reflexivity|].
  cbn [setN]. destruct (n =? 0); rewrite !lenN_cons; [reflexivity|]. now rewrite IH.
Qed.

Lemma nthN_setN_same {A} (l : list A) : forall n v, n < lenN l -> nthN (setN l n v) n = Some v.
Proof.
  induction l as [|x l IH]; intros n v H.
  - unfold lenN in H. cbn in H. lia.
  - rewrite lenN_cons in H. cbn [setN].
    destruct (N.eqb_spec n 0) as [E|E].
    + subst. reflexivity.
    + cbn [nthN]. destruct (N.eqb_spec n 0) as [E'|_]; [lia|]. apply IH. lia.
Qed.

Lemma nthN_setN_other {A} (l : list A) : forall n m v, n <> m -> nthN (setN l n v) m = nthN l m.
Proof.
  induction l as [|x l IH]; intros n m v H; [reflexivity|].
  cbn [setN]. destruct (N.eqb_spec n 0) as [E|E].
  - subst. cbn [nthN]. destruct (N.eqb_spec m 0) as [E'|_]; [lia|]. reflexivity.
  - cbn [nthN]. destruct (N.eqb_spec m 0) as [E'|E']; [reflexivity|].
    apply IH. lia.
Qed.
