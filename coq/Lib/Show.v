(** Canonical printing of model results as strings, so that one [Eval vm_compute] prints one
    line per case and the python driver never has to parse wrapped Coq terms. *)
From Coq Require Import List String NArith ZArith DecimalString Ascii Bool.
Import ListNotations.
Local Open Scope string_scope.

Definition show_N (n : N) : string := NilZero.string_of_uint (N.to_uint n).
Definition show_nat (n : nat) : string := show_N (N.of_nat n).
Definition show_Z (z : Z) : string :=
  match z with
  | Z0 => "0"
  | Zpos p => show_N (Npos p)
  | Zneg p => "-" ++ show_N (Npos p)
  end.
Definition show_bool (b : bool) : string := if b then "1" else "0".

Fixpoint join (sep : string) (l : list string) : string :=
  match l with
  | [] => ""
  | [x] => x
  | x :: r => x ++ sep ++ join sep r
  end.

Definition show_list {A} (f : A -> string) (sep : string) (l : list A) : string :=
  join sep (map f l).

Definition show_option {A} (f : A -> string) (o : option A) : string :=
  match o with None => "-" | Some a => f a end.

(** One output line of a case: [CASE <id> <model line> <OK|FAIL>].  [oracle] is the property
    oracle evaluated on the *implementation's* observation. *)
Definition case_line (id : N) (model_line : string) (oracle : bool) : string :=
  "CASE " ++ show_N id ++ " " ++ model_line ++ (if oracle then " #OK" else " #FAIL").
