(** Model of p2panda-stream/src/processors/{buffered.rs, composed.rs, stream.rs, pipeline.rs}.

    Definitions only.  What stands for what:

    - [pcfg], [peff], [run]          an abstract processor (trait [Processor], processor.rs): an
                                     internal state ([held]), an internal output queue, and the
                                     effect of one completed [process(x)] call: new state, items
                                     appended to the queue, or an [Err].  The harness processors
                                     (FIFO, group-reversing, erroring, with scripted delays) are
                                     the instances [peff] computes; the proofs treat [peff] as an
                                     arbitrary function.
    - [task], [nmach]                program counter of the task spawned by [Buffer::new]
                                     (buffered.rs:28-52): [TSel m] = suspended in
                                     [select!{ recv | processor.next() }] with the [next()] future
                                     in state [m]; [TProc x] = inside [processor.process(x).await]
                                     (not cancellable: the select has completed).
                                     [NHand y] = [ComposedProcessors::next] (composed.rs:30-54)
                                     took [y] out of [first] and is inside
                                     [second.process(y).await]; [NIdle] = every other suspension
                                     point of a [next()] future (it holds no item there: the
                                     harness/Ingest/LogPrune style [next] dequeues and returns in
                                     one poll, and the composed [next] is back in its inner select
                                     or in [yield_now]).
    - [lstep]                        one observable step of that task.  [Recv]: the recv branch
                                     wins; the [next()] future is DROPPED, and with it the item it
                                     holds in [NHand] (ghost field [lost]).  [ProcEnd]: process
                                     returned (an [Err] goes straight to the output channel).
                                     [Next]: the last processor's [next] dequeued, Buffer sent it.
                                     [Hand]/[HandEnd]: composed hand-over start / completion.
    - [stream], [emit], [step]       [ProcessorStream] (stream.rs:74-113) layered with
                                     [StreamLayerExt::layer]: [Lay c up l] is a ProcessorStream
                                     whose input stream is [up]; label [Pull] is the pump in
                                     [poll_next] (one upstream item into the Buffer's input
                                     channel); taking from the output channel is [emit].
                                     [Pipeline]/[PipelineBuilder] (pipeline.rs) only build
                                     [ComposedProcessors] and delegate; they add no behaviour.
    - [cancellable]                  when may the recv branch win while the composed [next] is in
                                     [NHand y]?  Only if [second.process(y)] has an await point
                                     that returns Pending ([slowb]: a yield, or a tokio resource
                                     subject to the cooperative budget, [bproc]); otherwise start
                                     and end of the hand-over happen inside one poll: composed.rs
                                     has NO await between [first.next()] returning the item and
                                     the call of [second.process(item)].  How a processor's
                                     [next()] waits (Notify, tokio mpsc [recv], semaphore
                                     [acquire] — the latter two also return Pending when the
                                     task's cooperative budget is exhausted) is not a parameter of
                                     the model: in every case the future holds no item while it
                                     is suspended ([NIdle]).

    Schedules are lists of labels; [run_trace] replays one.  Delays (process / next delays, arrival
    gaps, consumer pauses) are not counted: a delay is a label that is not taken yet, so "every
    delay, every interleaving" is "every label list accepted by [step]".

    Modelled, not verified (PARTIAL): tokio's [select!] (any ready branch may win, losers are
    dropped before the handler runs), unbounded mpsc channels (FIFO, no loss), [Notify] and task
    wake-ups (no lost wake-up: an enabled step stays enabled until taken or disabled by another
    step of the same task), the glue between layers (Ok items go on, the rest leaves the chain).
    Only two-processor compositions are modelled (deeper [PipelineBuilder] nestings are not).
    Ghost (history) fields carry no behaviour: [ins side done1 pop1 done2 lost hist emitted]. *)
From Coq Require Import List Arith NArith Bool.
Import ListNotations.

Inductive res := Ok (x : N) | Er (x : N).

(** What travels on a Buffer's output channel. *)
Inductive out :=
| OQ (r : res)     (* dequeued by the last processor's [next] (Ok, or that [next]'s Err) *)
| OQ1 (x : N)      (* composed: Err dequeued by [first.next], returned as [Err(First _)] *)
| OP1 (x : N)      (* [process] of the first/only processor failed on input x *)
| OP2 (x : N).     (* composed: [second.process] failed on the intermediate item x *)

(** [bproc]: [process] goes through a tokio resource that takes part in cooperative scheduling
    (a [tokio::sync] mutex / semaphore / channel operation).  Such an operation returns Pending
    when the task's cooperative budget is used up, even if the resource is free, so a [process]
    of this kind CAN suspend although it never waits for anybody. *)
Record pcfg := mkP { tag : N; perrs : list N; nerrs : list N; grp : nat; pdel : list nat; bproc : bool }.

Definition memN (x : N) (l : list N) : bool := existsb (N.eqb x) l.

(** [second.process(y)] may return Pending before it takes effect: it yields at least once, or
    it passes a budgeted tokio resource ([bproc]). *)
Definition slowb (p : pcfg) (y : N) : bool :=
  bproc p ||
  match pdel p with
  | [] => false
  | _ => negb (Nat.eqb (nth (N.to_nat (N.modulo y (N.of_nat (length (pdel p))))) (pdel p) 0) 0)
  end.

(** Effect of a completed [process(x)]: (new held items, items appended to the queue, failed?). *)
Definition peff (p : pcfg) (held : list res) (x : N) : list res * list res * bool :=
  if memN x (perrs p) then (held, [], true)
  else
    let y := N.add x (tag p) in
    let r := if memN x (nerrs p) then Er y else Ok y in
    if Nat.leb (grp p) 1 then (held, [r], false)
    else
      let h := held ++ [r] in
      if Nat.eqb (length h) (grp p) then ([], rev h, false) else (h, [], false).

(** Sequential specification of a processor: state, all queue pushes, all failed inputs. *)
Definition pst := (list res * list res * list N)%type.
Definition runf (p : pcfg) (st : pst) (x : N) : pst :=
  let '(h, q, e) := st in
  let '(h', ps, er) := peff p h x in
  (h', q ++ ps, if er then e ++ [x] else e).
Definition run (p : pcfg) (xs : list N) : pst := fold_left (runf p) xs ([], [], []).
Definition heldof (p : pcfg) xs : list res := fst (fst (run p xs)).
Definition pushes (p : pcfg) xs : list res := snd (fst (run p xs)).
Definition failed (p : pcfg) xs : list N := snd (run p xs).

Inductive lcfg := Single (p : pcfg) | Comp (p1 p2 : pcfg).
Definition firstp (c : lcfg) : pcfg := match c with Single p => p | Comp p _ => p end.

Inductive nmach := NIdle | NHand (y : N).
Inductive task := TSel (m : nmach) | TProc (x : N).

Record layer := mkL {
  inq : list N;        (* Buffer input channel *)
  held1 : list res; q1 : list res;     (* first / only processor *)
  held2 : list res; q2 : list res;     (* second processor (composed) *)
  tk : task;
  outq : list out;     (* Buffer output channel *)
  (* history *)
  ins : list N;        (* every item ever put into the input channel *)
  side : list out;     (* upstream outputs that were not Ok items (left the chain at the glue) *)
  done1 : list N;      (* inputs whose first.process completed, in order *)
  pop1 : list res;     (* composed: everything dequeued from first *)
  done2 : list N;      (* composed: items whose second.process completed, in order *)
  lost : list N;       (* composed: items held by a dropped next() future *)
  hist : list out;     (* everything ever sent on the output channel *)
  emitted : list out   (* everything taken from the output channel *)
}.

Definition empty_layer : layer :=
  mkL [] [] [] [] [] (TSel NIdle) [] [] [] [] [] [] [] [] [].

Inductive llabel :=
| Pull (o : out) | Recv (x : N) | ProcEnd (x : N) | Next (r : res) | Hand (r : res) | HandEnd (y : N).

Definition res_eqb (a b : res) : bool :=
  match a, b with Ok x, Ok y => N.eqb x y | Er x, Er y => N.eqb x y | _, _ => false end.
Definition out_eqb (a b : out) : bool :=
  match a, b with
  | OQ r, OQ s => res_eqb r s | OQ1 x, OQ1 y => N.eqb x y
  | OP1 x, OP1 y => N.eqb x y | OP2 x, OP2 y => N.eqb x y | _, _ => false
  end.

Definition cancellable (c : lcfg) (m : nmach) : bool :=
  match m with
  | NIdle => true
  | NHand y => match c with Comp _ p2 => slowb p2 y | Single _ => false end
  end.
Definition inflight (m : nmach) : list N := match m with NIdle => [] | NHand y => [y] end.

Definition lstep (c : lcfg) (l : layer) (a : llabel) : option layer :=
  match a, tk l with
  | Recv x, TSel m =>
      match inq l with
      | x' :: r =>
          if N.eqb x x' && cancellable c m
          then Some (mkL r (held1 l) (q1 l) (held2 l) (q2 l) (TProc x) (outq l)
                         (ins l) (side l) (done1 l) (pop1 l) (done2 l) (lost l ++ inflight m)
                         (hist l) (emitted l))
          else None
      | [] => None
      end
  | ProcEnd x, TProc x' =>
      if N.eqb x x' then
        let '(h', ps, er) := peff (firstp c) (held1 l) x in
        let o := if er then [OP1 x] else [] in
        Some (mkL (inq l) h' (q1 l ++ ps) (held2 l) (q2 l) (TSel NIdle) (outq l ++ o)
                  (ins l) (side l) (done1 l ++ [x]) (pop1 l) (done2 l) (lost l)
                  (hist l ++ o) (emitted l))
      else None
  | Next r, TSel NIdle =>
      match c with
      | Single _ =>
          match q1 l with
          | r' :: rest =>
              if res_eqb r r' then
                Some (mkL (inq l) (held1 l) rest (held2 l) (q2 l) (TSel NIdle) (outq l ++ [OQ r'])
                          (ins l) (side l) (done1 l) (pop1 l) (done2 l) (lost l)
                          (hist l ++ [OQ r']) (emitted l))
              else None
          | [] => None
          end
      | Comp _ _ =>
          match q2 l with
          | r' :: rest =>
              if res_eqb r r' then
                Some (mkL (inq l) (held1 l) (q1 l) (held2 l) rest (TSel NIdle) (outq l ++ [OQ r'])
                          (ins l) (side l) (done1 l) (pop1 l) (done2 l) (lost l)
                          (hist l ++ [OQ r']) (emitted l))
              else None
          | [] => None
          end
      end
  | Hand r, TSel NIdle =>
      match c with
      | Single _ => None
      | Comp _ _ =>
          match q1 l with
          | r' :: rest =>
              if res_eqb r r' then
                match r' with
                | Er y =>
                    Some (mkL (inq l) (held1 l) rest (held2 l) (q2 l) (TSel NIdle) (outq l ++ [OQ1 y])
                              (ins l) (side l) (done1 l) (pop1 l ++ [r']) (done2 l) (lost l)
                              (hist l ++ [OQ1 y]) (emitted l))
                | Ok y =>
                    Some (mkL (inq l) (held1 l) rest (held2 l) (q2 l) (TSel (NHand y)) (outq l)
                              (ins l) (side l) (done1 l) (pop1 l ++ [r']) (done2 l) (lost l)
                              (hist l) (emitted l))
                end
              else None
          | [] => None
          end
      end
  | HandEnd y, TSel (NHand y') =>
      match c with
      | Single _ => None
      | Comp _ p2 =>
          if N.eqb y y' then
            let '(h', ps, er) := peff p2 (held2 l) y in
            let o := if er then [OP2 y] else [] in
            Some (mkL (inq l) (held1 l) (q1 l) h' (q2 l ++ ps) (TSel NIdle) (outq l ++ o)
                      (ins l) (side l) (done1 l) (pop1 l) (done2 l ++ [y]) (lost l)
                      (hist l ++ o) (emitted l))
          else None
      end
  | _, _ => None
  end.

(** The pump: an upstream output enters this layer (Ok item) or leaves the chain (anything else). *)
Definition accept (l : layer) (o : out) : layer :=
  match o with
  | OQ (Ok y) =>
      mkL (inq l ++ [y]) (held1 l) (q1 l) (held2 l) (q2 l) (tk l) (outq l)
          (ins l ++ [y]) (side l) (done1 l) (pop1 l) (done2 l) (lost l) (hist l) (emitted l)
  | _ =>
      mkL (inq l) (held1 l) (q1 l) (held2 l) (q2 l) (tk l) (outq l)
          (ins l) (side l ++ [o]) (done1 l) (pop1 l) (done2 l) (lost l) (hist l) (emitted l)
  end.

Definition take (l : layer) : option (out * layer) :=
  match outq l with
  | [] => None
  | o :: r =>
      Some (o, mkL (inq l) (held1 l) (q1 l) (held2 l) (q2 l) (tk l) r
                   (ins l) (side l) (done1 l) (pop1 l) (done2 l) (lost l) (hist l) (emitted l ++ [o]))
  end.

(** [Src gone rest]: the input stream; [Lay c up l]: [up.layer(processor of shape c)]. *)
Inductive stream := Src (gone rest : list N) | Lay (c : lcfg) (up : stream) (l : layer).

Definition emit (s : stream) : option (out * stream) :=
  match s with
  | Src gone [] => None
  | Src gone (x :: r) => Some (OQ (Ok x), Src (gone ++ [x]) r)
  | Lay c up l => match take l with Some (o, l') => Some (o, Lay c up l') | None => None end
  end.

(** [step s d a]: label [a] at the layer [d] levels below the outermost one. *)
Fixpoint step (s : stream) (d : nat) (a : llabel) : option stream :=
  match s with
  | Src _ _ => None
  | Lay c up l =>
      match d with
      | S d' => match step up d' a with Some up' => Some (Lay c up' l) | None => None end
      | O =>
          match a with
          | Pull o =>
              match emit up with
              | Some (o', up') => if out_eqb o o' then Some (Lay c up' (accept l o')) else None
              | None => None
              end
          | _ => match lstep c l a with Some l' => Some (Lay c up l') | None => None end
          end
      end
  end.

(** Top level: the consumer of the outermost stream. *)
Inductive label := L (d : nat) (a : llabel) | Yield (o : out).

Definition tstep (s : stream) (a : label) : option stream :=
  match a with
  | L d b => step s d b
  | Yield o =>
      match emit s with
      | Some (o', s') => if out_eqb o o' then Some s' else None
      | None => None
      end
  end.

Fixpoint run_trace (s : stream) (tr : list label) : option stream :=
  match tr with
  | [] => Some s
  | a :: r => match tstep s a with Some s' => run_trace s' r | None => None end
  end.

(** Initial stream for a list of layer shapes (first = next to the source) and the inputs. *)
Fixpoint build (cs : list lcfg) (acc : stream) : stream :=
  match cs with
  | [] => acc
  | c :: r => build r (Lay c acc empty_layer)
  end.
Definition init (cs : list lcfg) (xs : list N) : stream := build cs (Src [] xs).

(** * Observations and specification *)

Definition emitted_of (s : stream) : list out :=
  match s with
  | Src gone _ => map (fun x => OQ (Ok x)) gone
  | Lay _ _ l => emitted l
  end.

Definition oks (l : list res) : list N :=
  flat_map (fun r => match r with Ok y => [y] | Er _ => [] end) l.
Definition ers (l : list res) : list N :=
  flat_map (fun r => match r with Er y => [y] | Ok _ => [] end) l.
Definition projQ (l : list out) : list res :=
  flat_map (fun o => match o with OQ r => [r] | _ => [] end) l.
Definition projQ1 (l : list out) : list N :=
  flat_map (fun o => match o with OQ1 x => [x] | _ => [] end) l.
Definition projP1 (l : list out) : list N :=
  flat_map (fun o => match o with OP1 x => [x] | _ => [] end) l.
Definition projP2 (l : list out) : list N :=
  flat_map (fun o => match o with OP2 x => [x] | _ => [] end) l.
Definition okitems (l : list out) : list N := oks (projQ l).
Definition nonok (l : list out) : list out :=
  filter (fun o => match o with OQ (Ok _) => false | _ => true end) l.

Fixpoint eqb_list {A} (e : A -> A -> bool) (a b : list A) : bool :=
  match a, b with
  | [], [] => true
  | x :: a', y :: b' => e x y && eqb_list e a' b'
  | _, _ => false
  end.

(** "Exactly once and in order" for one layer, given the items [I] that entered it and the
    sequence [E] that left it: per origin, [E] contains exactly what the sequential run of the
    processor(s) on [I] produces, in that order.  (The relative order of outputs of *different*
    origin — a [process] error against a queued item — is schedule dependent in the code and
    not constrained.) *)
Definition lcheck (c : lcfg) (I : list N) (E : list out) : bool :=
  match c with
  | Single p =>
      eqb_list res_eqb (projQ E) (pushes p I) && eqb_list N.eqb (projP1 E) (failed p I)
      && eqb_list N.eqb (projQ1 E) [] && eqb_list N.eqb (projP2 E) []
  | Comp p1 p2 =>
      let mid := pushes p1 I in
      eqb_list res_eqb (projQ E) (pushes p2 (oks mid)) && eqb_list N.eqb (projP1 E) (failed p1 I)
      && eqb_list N.eqb (projQ1 E) (ers mid) && eqb_list N.eqb (projP2 E) (failed p2 (oks mid))
  end.

(** Nothing left to do in a layer / in the whole stream. *)
Definition lquiet (l : layer) : bool :=
  match inq l, q1 l, q2 l, outq l, tk l with
  | [], [], [], [], TSel NIdle => true
  | _, _, _, _, _ => false
  end.
Fixpoint quiescent (s : stream) : bool :=
  match s with
  | Src _ rest => match rest with [] => true | _ => false end
  | Lay _ up l => quiescent up && lquiet l
  end.

(** Per-layer verdict over a whole stream: every layer's output is exactly-once-in-order with
    respect to what its upstream delivered; the source delivered [xs]. *)
Fixpoint scheck (s : stream) (xs : list N) : bool :=
  match s with
  | Src gone _ => eqb_list N.eqb gone xs
  | Lay c up l => lcheck c (okitems (emitted_of up)) (emitted l) && scheck up xs
  end.

(** End-to-end prediction: the Ok items coming out of the last layer. *)
Definition lspec (c : lcfg) (I : list N) : list N :=
  match c with
  | Single p => oks (pushes p I)
  | Comp p1 p2 => oks (pushes p2 (oks (pushes p1 I)))
  end.
Definition chain_spec (cs : list lcfg) (xs : list N) : list N := fold_left (fun I c => lspec c I) cs xs.

Fixpoint lost_of (s : stream) : list N :=
  match s with
  | Src _ _ => []
  | Lay _ up l => lost_of up ++ lost l
  end.

Fixpoint shape (s : stream) : list lcfg :=
  match s with Src _ _ => [] | Lay c up _ => shape up ++ [c] end.

(** The cancel-safe class: no composed layer whose second processor can suspend in [process]. *)
Definition safe_cfg (c : lcfg) : Prop :=
  match c with Single _ => True | Comp _ p2 => forall y, slowb p2 y = false end.
Fixpoint safe (s : stream) : Prop :=
  match s with Src _ _ => True | Lay c up _ => safe_cfg c /\ safe up end.

(** A [Recv] that drops a [next()] future holding an item — the one step outside which the
    property holds. *)
Definition drops_item (s : stream) (a : label) : bool :=
  match tstep s a with
  | Some s' => negb (Nat.eqb (length (lost_of s')) (length (lost_of s)))
  | None => false
  end.
