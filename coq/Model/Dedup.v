(** Model of p2panda-sync/src/dedup.rs [DeduplicationBuffer].

    Rust: [buffer : VecDeque<T>] (oldest first) plus [set : HashSet<T>] mirroring it.
    [insert]: if [set.contains(item)] return false; if [buffer.len() + 1 > buffer.capacity()]
    pop the front (and remove it from the set); push back; return true.

    Modelled, not verified: [VecDeque::with_capacity(n).capacity() = n] (the allocation never
    hands out more room than asked for); the [HashSet] mirrors the deque (so membership is list
    membership).  Items are [N] (the harness uses u64 / 32-byte ids mapped to indices). *)
From Coq Require Import List Arith NArith Bool.
Import ListNotations.

Record buf := { items : list N; cap : nat }.

Definition memN (x : N) (l : list N) : bool := existsb (N.eqb x) l.

Definition new (c : nat) : buf := {| items := []; cap := c |}.

Definition insert (b : buf) (x : N) : buf * bool :=
  if memN x (items b) then (b, false)
  else
    let kept := if Nat.ltb (cap b) (length (items b) + 1) then tl (items b) else items b in
    ({| items := kept ++ [x]; cap := cap b |}, true).

(** Run a whole insertion sequence, collecting the answers. *)
Fixpoint run (b : buf) (xs : list N) : buf * list bool :=
  match xs with
  | [] => (b, [])
  | x :: r =>
      let '(b1, ok) := insert b x in
      let '(b2, oks) := run b1 r in
      (b2, ok :: oks)
  end.

(** * Specification: "the last [c] distinct items inserted".

    [acc] is the history of accepted items (oldest first); an item is a duplicate exactly when
    it is among the last [c] entries of that history. *)
Definition lastn {A} (n : nat) (l : list A) : list A := skipn (length l - n) l.

Fixpoint spec_run (c : nat) (acc : list N) (xs : list N) : list N * list bool :=
  match xs with
  | [] => (acc, [])
  | x :: r =>
      if memN x (lastn c acc)
      then let '(a, oks) := spec_run c acc r in (a, false :: oks)
      else let '(a, oks) := spec_run c (acc ++ [x]) r in (a, true :: oks)
  end.
