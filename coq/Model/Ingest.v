(** Model of operation ingest and log-prefix pruning (shared by C03, C05, C04).

    Rust code each definition stands for (p2panda tree *after* the two [fix:] commits named in
    findings/C05-*.json and findings/C04-*.json; the as-is variants are kept under [_asis] names
    so that the old defects stay machine-checked regression witnesses):

    - [store]                  table [operations_v1] of [SqliteStore] (p2panda-store, migration
                               20250928132835): a bag of rows, primary key [hash]; no other
                               uniqueness constraint.  Modelled as the list of rows in insertion
                               order.
    - [latest]                 [LogStore::get_latest_entry(_tx)]
                               (p2panda-store/src/logs/sqlite/mod.rs, [ORDER BY seq_num DESC LIMIT 1]).
    - [has_op]                 [OperationStore::has_operation_tx] ([WHERE hash = ?]).
    - [validate_backlink]      p2panda-core/src/operation.rs [validate_backlink].
    - [validate_prunable_backlink]  p2panda-core/src/prune.rs [validate_prunable_backlink].
    - [ingest]                 p2panda-stream/src/ingest/operation.rs [ingest_operation]
                               (validate, dedup by hash, log-integrity check against the latest
                               entry, insert; all in one store transaction).
    - [prune_below]            [LogStore::prune_entries] ([DELETE ... WHERE verifying_key = ? AND
                               log_id = ? AND seq_num < ?]) as called by
                               p2panda-stream/src/log_prune/processor.rs [LogPrune::process].
    - [deliver]                one event through the node pipeline, p2panda/src/processor/
                               pipeline.rs + event.rs: [Ingest] layer, then [LogPrune] layer with
                               [PruneEntriesUntil {author, log_id, seq_num}] iff the prune flag
                               is set -- and (after the C04 fix) only if ingest did not fail.

    An operation [op] is the header as the pipeline sees it:  author (verifying key), the log id
    and prune flag the caller extracted for it (node: [LogId::from_topic(topic)],
    [header.extensions.prune_flag()]), sequence number, backlink, [o_hh] = [header.hash()]
    (recomputed from the header bytes, what backlinks are compared with), [o_id] = the
    [Operation.hash] field (storage key, what de-duplication looks at; [validate_operation] does
    not compare it with [o_hh]), and [o_valid] = "[validate_operation] returned Ok" as an
    abstract boolean input (signatures/encodings are C01's business).

    Modelled, not verified: SQLite executes the issued statements with standard semantics
    (INTEGER affinity of [seq_num]: numeric comparison), the transaction around check+insert is
    atomic and serialised (no concurrent writer between [get_latest_entry_tx] and the insert),
    the topic association written by ingest has no effect on logs, hashes/keys are abstract
    numbers.  [u32] overflow of [past.seq_num + 1] is modelled as [VPanic] (the harness is a
    debug build). *)
From Coq Require Import List Arith NArith Bool.
Import ListNotations.
Local Open Scope N_scope.

Record op := mkOp {
  o_author : N; o_log : N; o_seq : N;
  o_id : N; o_hh : N; o_backlink : option N;
  o_prune : bool; o_body : bool; o_valid : bool }.

Record row := mkRow {
  r_author : N; r_log : N; r_seq : N;
  r_id : N; r_hh : N; r_backlink : option N;
  r_prune : bool; r_body : bool }.

Definition store := list row.

Definition U32MAX : N := 4294967295.

Definition in_log (a l : N) (r : row) : bool := (r_author r =? a) && (r_log r =? l).

(** Row with the greatest sequence number of log [(a, l)]. *)
Fixpoint latest (s : store) (a l : N) : option row :=
  match s with
  | [] => None
  | r :: t =>
      if in_log a l r then
        match latest t a l with
        | Some r' => if r_seq r <? r_seq r' then Some r' else Some r
        | None => Some r
        end
      else latest t a l
  end.

Definition height (s : store) (a l : N) : option N := option_map r_seq (latest s a l).

Definition has_op (s : store) (id : N) : bool := existsb (fun r => r_id r =? id) s.

Inductive err := EInvalid | ETooManyAuthors | ESeqNonIncremental | EBacklinkMismatch | EBacklinkMissing.
Inductive vres := VOk | VErr (e : err) | VPanic.
Inductive res := Inserted | AlreadyExists | Rejected (e : err) | Panicked.

Definition validate_backlink (p : row) (o : op) : vres :=
  if negb (r_author p =? o_author o) then VErr ETooManyAuthors
  else if r_seq p =? U32MAX then VPanic
  else if negb (r_seq p + 1 =? o_seq o) then VErr ESeqNonIncremental
  else match o_backlink o with
       | Some b => if r_hh p =? b then VOk else VErr EBacklinkMismatch
       | None => VErr EBacklinkMissing
       end.

(** As repaired: a prune point must lie strictly above the latest stored entry. *)
Definition validate_prunable_backlink (p : option row) (o : op) (prune : bool) : vres :=
  if 0 <? o_seq o then
    if negb prune then
      match p with
      | Some p => validate_backlink p o
      | None => VErr EBacklinkMissing
      end
    else
      match p with
      | Some p => if o_seq o <=? r_seq p then VErr ESeqNonIncremental else VOk
      | None => VOk
      end
  else
    match p with
    | Some p => validate_backlink p o
    | None => VOk
    end.

(** As it was before the C05 fix: any prune-flagged header with seq > 0 passes. *)
Definition validate_prunable_backlink_asis (p : option row) (o : op) (prune : bool) : vres :=
  if 0 <? o_seq o then
    if negb prune then
      match p with
      | Some p => validate_backlink p o
      | None => VErr EBacklinkMissing
      end
    else VOk
  else
    match p with
    | Some p => validate_backlink p o
    | None => VOk
    end.

Definition row_of (o : op) : row :=
  mkRow (o_author o) (o_log o) (o_seq o) (o_id o) (o_hh o) (o_backlink o) (o_prune o) (o_body o).

Definition ingest_with (vpb : option row -> op -> bool -> vres) (s : store) (o : op) : store * res :=
  if negb (o_valid o) then (s, Rejected EInvalid)
  else if has_op s (o_id o) then (s, AlreadyExists)
  else match vpb (latest s (o_author o) (o_log o)) o (o_prune o) with
       | VOk => (s ++ [row_of o], Inserted)
       | VErr e => (s, Rejected e)
       | VPanic => (s, Panicked)
       end.

Definition ingest := ingest_with validate_prunable_backlink.
Definition ingest_asis := ingest_with validate_prunable_backlink_asis.

Definition prune_below (s : store) (a l n : N) : store :=
  filter (fun r => negb (in_log a l r && (r_seq r <? n))) s.

Definition res_ok (r : res) : bool :=
  match r with Inserted | AlreadyExists => true | _ => false end.

(** One event through the pipeline (as repaired: no log-prune after a failed ingest). *)
Definition deliver_with (vpb : option row -> op -> bool -> vres) (s : store) (o : op) : store * res :=
  let '(s1, r) := ingest_with vpb s o in
  (if res_ok r && o_prune o then prune_below s1 (o_author o) (o_log o) (o_seq o) else s1, r).

Definition deliver := deliver_with validate_prunable_backlink.

(** The pipeline as it was before the C04 fix: the failed event still reaches [LogPrune]. *)
Definition deliver_asis_pipeline (s : store) (o : op) : store * res :=
  let '(s1, r) := ingest s o in
  (if o_prune o then prune_below s1 (o_author o) (o_log o) (o_seq o) else s1, r).

(** Before the C05 fix (prune-point check), with the repaired pipeline. *)
Definition deliver_asis_prune := deliver_with validate_prunable_backlink_asis.

Definition is_panic (r : res) : bool := match r with Panicked => true | _ => false end.

(** State after a delivery sequence. *)
Definition run_from (s : store) (ds : list op) : store := fold_left (fun s o => fst (deliver s o)) ds s.
Definition run (ds : list op) : store := run_from [] ds.

(** Results and states after every delivery (what the harness observes); a panic ends the case. *)
Fixpoint trace_with (step : store -> op -> store * res) (s : store) (ds : list op) : list (res * store) :=
  match ds with
  | [] => []
  | o :: t =>
      let '(s1, r) := step s o in
      (r, s1) :: (if is_panic r then [] else trace_with step s1 t)
  end.

Definition trace := trace_with deliver.

(** Entries of one log ordered by sequence number ([get_log_entries ... ORDER BY seq_num]). *)
Fixpoint insert_sorted (r : row) (l : list row) : list row :=
  match l with
  | [] => [r]
  | x :: t => if r_seq r <? r_seq x then r :: x :: t else x :: insert_sorted r t
  end.

Definition log_entries (s : store) (a l : N) : list row :=
  fold_right insert_sorted [] (filter (in_log a l) s).

(** * History well-formedness (hypotheses of the history theorems, decidable).

    - the hash field of a validated operation is its header hash (true for every [Operation]
      built by p2panda's own decoding paths);
    - the header hash is collision free and determines author, log, seq, backlink, prune flag;
    - authors do not equivocate: at most one validated operation per (author, log, seq). *)
Definition same_header (x y : op) : bool :=
  (o_author x =? o_author y) && (o_log x =? o_log y) && (o_seq x =? o_seq y)
  && (match o_backlink x, o_backlink y with
      | Some a, Some b => a =? b
      | None, None => true
      | _, _ => false
      end)
  && Bool.eqb (o_prune x) (o_prune y).

Definition same_slot (x y : op) : bool :=
  (o_author x =? o_author y) && (o_log x =? o_log y) && (o_seq x =? o_seq y).

Definition wf_pair (x y : op) : bool :=
  if o_valid x && o_valid y then
    (if o_hh x =? o_hh y then same_header x y else true)
    && (if same_slot x y then o_hh x =? o_hh y else true)
  else true.

Definition wf_one (x : op) : bool := if o_valid x then o_id x =? o_hh x else true.

Definition wf_history (ds : list op) : bool :=
  forallb wf_one ds && forallb (fun x => forallb (wf_pair x) ds) ds.

(** * Boolean form of the chain invariant, used by the oracle on observed states. *)
Definition chain_row_ok (s : store) (r : row) : bool :=
  r_prune r || (r_seq r =? 0)
  || existsb (fun p => in_log (r_author r) (r_log r) p && (r_seq p + 1 =? r_seq r)
                       && (match r_backlink r with Some b => r_hh p =? b | None => false end)) s.

Definition chain_okb (s : store) : bool := forallb (chain_row_ok s) s.

Definition slot_eq (x y : row) : bool :=
  (r_author x =? r_author y) && (r_log x =? r_log y) && (r_seq x =? r_seq y).

Fixpoint unique_seqb (s : store) : bool :=
  match s with
  | [] => true
  | r :: t => negb (existsb (slot_eq r) t) && unique_seqb t
  end.

Definition opt_le (a b : option N) : bool :=
  match a, b with
  | None, _ => true
  | Some _, None => false
  | Some x, Some y => x <=? y
  end.
