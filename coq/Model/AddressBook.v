(** Model of the transport-info part of the p2panda-net address book (C27).

    Rust                                                   | here
    -------------------------------------------------------+------------------------------------
    p2panda-core HybridTimestamp(Timestamp, Lamport),      | [ts] = N * N, [ts_ltb] lexicographic
      derived [Ord]                                        |
    addrs.rs TransportAddress::Iroh(EndpointAddr)          | [addr] = (endpoint id as node number,
                                                           |   opaque rest of the address)
    addrs.rs TransportInfo::{Trusted, Authenticated}       | [tinfo]
    addrs.rs TransportAddress::verify (id of the address   | [addr_ok]
      must be the node id)                                 |
    addrs.rs TrustedTransportInfo::verify (all addresses   | [verify_info] Trusted branch
      match) / AuthenticatedTransportInfo::verify          | [verify_info] Authenticated branch
      (signature over CBOR(timestamp, addresses))          |
    addrs.rs NodeInfo::update_transports (verify, then     | [update_transports]
      last-write-wins on a strictly newer timestamp)       |
    addrs.rs NodeInfo::verify                              | [verify_node_info]
    address_book/actor.rs InsertTransportInfo              | [actor_step] InsertTransport
    address_book/actor.rs InsertNodeInfo (local overwrite) | [actor_step] InsertNode
    p2panda-store insert_node_info / node_info (one row    | [book] association list, [upsert],
      per node id, upsert; returns "newly inserted")       |   [lookup]

    Modelled, not verified:
    - the signature scheme.  [verify node payload sig] is a parameter ([Section] variable): the
      theorems hold for every verification function; the ideal-signature reading ("verifies
      iff it was produced with the node's secret key over exactly this payload") is the section
      hypothesis [verify_ideal] of Proofs/AddressBook.v and is instantiated for evaluation by
      the symbolic scheme [sym_verify] below (a signature is the term (signer, signed payload)).
      ed25519 and the CBOR encoding of the signed payload are not verified (CBOR encoding is
      assumed injective on (timestamp, addresses) and never failing).
    - SQLite / sqlx: one row per node id, upsert semantics, CBOR round trip of the stored
      NodeInfo.
    - the actor mailbox: messages are handled one at a time in arrival order ([fold_left]).
    - metrics, topics, watchers are not part of the model (InsertTransportInfo does not touch
      them apart from carrying the stored [metrics] over, which the harness does not observe). *)
From Coq Require Import List NArith Bool.
Import ListNotations.
Local Open Scope N_scope.

Definition ts := (N * N)%type.
Definition ts_ltb (a b : ts) : bool :=
  (fst a <? fst b) || ((fst a =? fst b) && (snd a <? snd b)).
Definition ts_eqb (a b : ts) : bool := (fst a =? fst b) && (snd a =? snd b).

(** (endpoint id of the address as a node number, opaque rest: relay / socket addresses) *)
Definition addr := (N * N)%type.
Definition addr_eqb (a b : addr) : bool := (fst a =? fst b) && (snd a =? snd b).

Fixpoint list_eqb {A} (e : A -> A -> bool) (a b : list A) : bool :=
  match a, b with
  | [], [] => true
  | x :: a', y :: b' => e x y && list_eqb e a' b'
  | _, _ => false
  end.

(** What is signed: [UnsignedTransportInfo { timestamp, addresses }]. *)
Definition payload := (ts * list addr)%type.
Definition payload_eqb (p q : payload) : bool :=
  ts_eqb (fst p) (fst q) && list_eqb addr_eqb (snd p) (snd q).

Inductive err := InvalidSignature | NodeIdMismatch.
Inductive res := Ok (newer : bool) | Err (e : err).

Section Book.
  Variable sigT : Type.
  (** [VerifyingKey::verify(bytes, signature)] with [bytes] = CBOR of the payload. *)
  Variable verify : N -> payload -> sigT -> bool.

  Inductive tinfo :=
  | Trusted (t : ts) (a : list addr)
  | Authenticated (t : ts) (s : sigT) (a : list addr).

  Definition info_ts (r : tinfo) : ts :=
    match r with Trusted t _ => t | Authenticated t _ _ => t end.

  Definition addr_ok (node : N) (a : addr) : bool := fst a =? node.

  Definition verify_info (node : N) (r : tinfo) : option err :=
    match r with
    | Trusted _ a => if forallb (addr_ok node) a then None else Some NodeIdMismatch
    | Authenticated t s a => if verify node (t, a) s then None else Some InvalidSignature
    end.

  (** "authentic for [node]": what the property calls authentically signed by that node, or
      trusted and matching its id. *)
  Definition authentic (node : N) (r : tinfo) : bool :=
    match verify_info node r with None => true | Some _ => false end.

  (** [NodeInfo::update_transports]: the new value of [self.transports] and the result. *)
  Definition update_transports (node : N) (cur : option tinfo) (r : tinfo) : option tinfo * res :=
    match verify_info node r with
    | Some e => (cur, Err e)
    | None =>
        match cur with
        | None => (Some r, Ok true)
        | Some c => if ts_ltb (info_ts c) (info_ts r) then (Some r, Ok true) else (cur, Ok false)
        end
    end.

  (** Records arriving one after the other at one node. *)
  Definition arrive (node : N) (cur : option tinfo) (rs : list tinfo) : option tinfo :=
    fold_left (fun c r => fst (update_transports node c r)) rs cur.

  (** * The address-book actor *)
  Record node_info := { ni_bootstrap : bool; ni_transports : option tinfo }.
  Definition book := list (N * node_info).

  Fixpoint lookup (b : book) (n : N) : option node_info :=
    match b with
    | [] => None
    | (k, v) :: r => if k =? n then Some v else lookup r n
    end.

  Fixpoint upsert (b : book) (n : N) (v : node_info) : book :=
    match b with
    | [] => [(n, v)]
    | (k, w) :: r => if k =? n then (k, v) :: r else (k, w) :: upsert r n v
    end.

  Inductive op :=
  | InsertTransport (n : N) (r : tinfo)
  | InsertNode (n : N) (bootstrap : bool) (r : option tinfo).

  Definition verify_node_info (n : N) (r : option tinfo) : option err :=
    match r with None => None | Some i => verify_info n i end.

  Definition actor_step (b : book) (o : op) : book * res :=
    match o with
    | InsertNode n bs r =>
        match verify_node_info n r with
        | Some e => (b, Err e)
        | None =>
            (upsert b n {| ni_bootstrap := bs; ni_transports := r |},
             Ok (match lookup b n with None => true | Some _ => false end))
        end
    | InsertTransport n r =>
        (* the actor verifies first, then loads or creates the node info and calls
           update_transports (which verifies again) *)
        match verify_info n r with
        | Some e => (b, Err e)
        | None =>
            let cur := match lookup b n with
                       | Some i => i
                       | None => {| ni_bootstrap := false; ni_transports := None |}
                       end in
            match update_transports n (ni_transports cur) r with
            | (_, Err e) => (b, Err e)
            | (t, Ok newer) =>
                (upsert b n {| ni_bootstrap := ni_bootstrap cur; ni_transports := t |}, Ok newer)
            end
        end
    end.

  Fixpoint actor_run (b : book) (ops : list op) : book * list res :=
    match ops with
    | [] => (b, [])
    | o :: r =>
        let '(b1, x) := actor_step b o in
        let '(b2, xs) := actor_run b1 r in
        (b2, x :: xs)
    end.

  Definition stored (b : book) (n : N) : option tinfo :=
    match lookup b n with None => None | Some i => ni_transports i end.

  (** * Specification: the newest authentic record, first arrival winning a timestamp tie. *)
  Definition newer_of (best : option tinfo) (r : tinfo) : option tinfo :=
    match best with
    | None => Some r
    | Some c => if ts_ltb (info_ts c) (info_ts r) then Some r else best
    end.

  Definition newest_authentic (node : N) (init : option tinfo) (rs : list tinfo) : option tinfo :=
    fold_left newer_of (filter (authentic node) rs) init.

  (** records of an operation list that are addressed to node [n] through InsertTransport *)
  Fixpoint transports_for (n : N) (ops : list op) : list tinfo :=
    match ops with
    | [] => []
    | InsertTransport k r :: t => if k =? n then r :: transports_for n t else transports_for n t
    | InsertNode _ _ _ :: t => transports_for n t
    end.

  Definition only_transport_ops (ops : list op) : bool :=
    forallb (fun o => match o with InsertTransport _ _ => true | _ => false end) ops.
End Book.

Arguments Trusted {sigT}.
Arguments Authenticated {sigT}.
Arguments InsertTransport {sigT}.
Arguments InsertNode {sigT}.
Arguments ni_bootstrap {sigT}.
Arguments ni_transports {sigT}.

(** * Symbolic (ideal) signature scheme used for evaluation

    A signature is the term "(who signed, what was signed)"; it verifies for [node] and
    [payload] iff it is exactly the term [node] would produce for [payload].  Tampering with the
    timestamp or the addresses after signing changes the payload but not the term; a forgery is
    a term with another signer. *)
Definition sym_sig := (N * payload)%type.
Definition sym_sign (signer : N) (p : payload) : sym_sig := (signer, p).
Definition sym_verify (node : N) (p : payload) (s : sym_sig) : bool :=
  (fst s =? node) && payload_eqb (snd s) p.

Definition sym_sig_eqb (a b : sym_sig) : bool := (fst a =? fst b) && payload_eqb (snd a) (snd b).

Definition tinfo_eqb (a b : tinfo sym_sig) : bool :=
  match a, b with
  | Trusted t x, Trusted u y => ts_eqb t u && list_eqb addr_eqb x y
  | Authenticated t s x, Authenticated u r y => ts_eqb t u && sym_sig_eqb s r && list_eqb addr_eqb x y
  | _, _ => false
  end.
