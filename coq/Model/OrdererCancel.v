(** Model of [Orderer::next] (p2panda-stream/src/orderer/processor.rs) as a step machine with its
    await points, for cancellation (property C12).

    Rust (code as it is):
    <<
      loop {
        let inner  = self.inner.lock().await;                 // PLock
        let permit = self.store.begin().await?;               // PBegin
        if let Some(id) = inner.next().await? {               // PTake   (take_next_ready inside the tx)
            self.store.commit(permit).await?;                 // PCommit (nothing committed yet)
                                                              // PCommitted (database applied COMMIT,
                                                              //             the commit future has not returned)
            return match self.store.get_operation(&id).await  // PGetOp
            { Ok(Some(op)) => Ok(op), Ok(None) => Err(StoreInconsistency(id)), .. };   // PDone
        }
        self.notify.notified().await;                         // PNotified (still holding lock and permit)
      }
    >>
    World = committed orderer tables (Model/Orderer.v) + ids present in the operation store + the
    items handed out so far ([ret], ghost).  The uncommitted effect of [take_next_ready] lives in
    the program counter ([PCommit x s']): dropping the future discards the program counter and
    keeps the world -- that is the rollback of the open transaction done by the dropped
    [TransactionPermit] (p2panda-store/src/sqlite.rs, [Drop for TransactionPermit]).

    Modelled, not verified: sqlx/SQLite commit and rollback semantics (a dropped uncommitted
    transaction is rolled back; a COMMIT that reached the database stays applied when the future
    awaiting it is dropped); tokio [Mutex]/[Semaphore]/[Notify]; no contention on the lock
    ([PLock] and [PBegin] complete when polled); store errors are not modelled.  Each step is one
    await point resolving; the real futures may return [Pending] several times inside one point. *)
From Coq Require Import List Arith NArith Bool.
From PV Require Import Model.Orderer.
Import ListNotations.

Record world := mkW { st : store; opstore : list id; ret : list id }.

Inductive result := ROk (x : id) | RInconsistent (x : id).

Inductive pc :=
| PLock | PBegin | PTake
| PCommit (x : id) (s' : store)
| PCommitted (x : id)
| PGetOp (x : id)
| PNotified
| PDone (r : result).

Definition step (p : pc) (w : world) : pc * world :=
  match p with
  | PLock => (PBegin, w)
  | PBegin => (PTake, w)
  | PTake =>
      match take_next_ready (st w) with
      | (s', Some x) => (PCommit x s', w)
      | (_, None) => (PNotified, w)
      end
  | PCommit x s' => (PCommitted x, mkW s' (opstore w) (ret w))
  | PCommitted x => (PGetOp x, w)
  | PGetOp x =>
      if memN x (opstore w) then (PDone (ROk x), mkW (st w) (opstore w) (ret w ++ [x]))
      else (PDone (RInconsistent x), w)
  | PNotified => (PNotified, w)
  | PDone r => (PDone r, w)
  end.

Fixpoint exec (n : nat) (p : pc) (w : world) : pc * world :=
  match n with
  | 0 => (p, w)
  | S n' => let '(p', w') := step p w in exec n' p' w'
  end.

(** dropping the future: the program counter is discarded, the world stays *)
Definition cancel (pw : pc * world) : world := snd pw.

(** the cancellation points of the known finding: the commit is applied, the item not yet returned *)
Definition after_commit (p : pc) : bool :=
  match p with PCommitted _ | PGetOp _ => true | _ => false end.

(** one [next()] future polled for [n] await points and then dropped (or completed before) *)
Definition attempt (n : nat) (w : world) : world := cancel (exec n PLock w).

Definition run_attempts (ns : list nat) (w : world) : world := fold_left (fun w n => attempt n w) ns w.

Fixpoint safe_sched (ns : list nat) (w : world) : Prop :=
  match ns with
  | [] => True
  | n :: r => after_commit (fst (exec n PLock w)) = false /\ safe_sched r (attempt n w)
  end.

(** a [next()] awaited to completion takes at most 6 await points *)
Definition full : nat := 6.

Fixpoint wdrain (n : nat) (w : world) : world :=
  match n with
  | 0 => w
  | S n' => wdrain n' (attempt full w)
  end.

(** every ready row that is no longer in the queue has been handed out *)
Definition NoLoss (w : world) : Prop :=
  forall r, In r (ready_tbl (st w)) -> r_inq r = false -> In (r_id r) (ret w).

Definition ops_present (w : world) : Prop :=
  forall r, In r (ready_tbl (st w)) -> In (r_id r) (opstore w).

(** ** scenarios for the correspondence run: deliveries and attempts cancelled at a named point *)
Inductive point := CBegin | CTake | CCommit0 | CCommit1 | CGetOp | CNotified | CNone.

Definition hits (t : point) (p : pc) : bool :=
  match t, p with
  | CBegin, PBegin | CTake, PTake | CCommit0, PCommit _ _ | CCommit1, PCommitted _
  | CGetOp, PGetOp _ | CNotified, PNotified => true
  | _, _ => false
  end.

Fixpoint go (n : nat) (t : point) (p : pc) (w : world) : pc * world :=
  match n with
  | 0 => (p, w)
  | S n' =>
      if hits t p then (p, w)
      else match p with
           | PDone _ | PNotified => (p, w)
           | _ => let '(p', w') := step p w in go n' t p' w'
           end
  end.

Inductive sstep := SDeliver (x : id) (ds : list id) | SAttempt (t : point).

Definition sstep_run (fuel : nat) (w : world) (s : sstep) : world * list pc :=
  match s with
  | SDeliver x ds => (mkW (process id_perm fuel (st w) x ds) (opstore w) (ret w), [])
  | SAttempt t => let '(p, w') := go 8 t PLock w in (w', [p])
  end.

Fixpoint srun (fuel : nat) (w : world) (ss : list sstep) : world * list pc :=
  match ss with
  | [] => (w, [])
  | s :: r =>
      let '(w1, o1) := sstep_run fuel w s in
      let '(w2, o2) := srun fuel w1 r in
      (w2, o1 ++ o2)
  end.
