(** Slot-mutex refinement of the transaction permit protocol (Model/Tx.v) for ONE transaction T,
    a HELPER that issues statements of T without holding the permit, T's detached rollback task,
    and one FOLLOWING transaction N (p2panda-store/src/sqlite.rs).

    In Model/Tx.v every statement is an atomic step of the permit holder, so the slot mutex
    ([tx : Arc<Mutex<Option<Transaction>>>]) is never held while the permit is dropped.  Here the
    mutex is explicit for the helper's statements:

    Rust                                               model
    -------------------------------------------------  -----------------------------------------
    [SqliteStore::tx(f)] called by a second future     helper statement = three labels [LH]:
      sharing the store clone ("Process II/III" of       [HIdle k] -lock->  [HLocked k]  (mtx := true)
      the SqliteStore docs):                             [HLocked k] -exec-> [HExec k]    (slot += w; or
        let mut tx_ref = self.tx.lock().await;              slot empty: TransactionMissing, unlock)
        let tx = tx_ref.as_mut().ok_or(Missing)?;        [HExec k] -unlock-> [HIdle (k+1)] (mtx := false)
        f(tx).await            // guard dropped at end
    every other [self.tx.lock().await] (begin, the     the step is enabled only while [mtx = false]
      holder's own statements, the take() in commit/     (the lock is taken and released inside the
      rollback, the take() of the rollback task)         one step)
    [impl Drop for TransactionPermit]:                 [drop_permit]: [rT := RbStart], nothing else
      spawn { tx.lock().await.take() -> rollback;      [LR] at [RbStart]: needs [mtx = false]; slot := None
              drop(permit) }                           [LR] at [RbRolling]: release the semaphore
    seeded variant C10-1 ([try_lock] in drop, the      [v = true]: [drop_permit] empties the slot only
      spawned task rolls back only what drop took)       if [mtx = false]; [LR] at [RbStart] never
                                                         touches the slot
    semaphore with N as the only possible waiter       [sem] + [pN = PWait]; [srelease] hands over

    T: any program (writes; commit | rollback | drop | failing statement), cancellable at every
    pc ([LTc]); N: writes; commit (cancellation of N is covered by Model/Tx.v).  The helper may
    START a statement only while T's permit is live (it belongs to T's transaction; a helper
    statement issued after the permit was released is the API misuse the SqliteStore docs warn
    about and is out of scope), but a started statement finishes whenever it is scheduled.
    T must acquire the semaphore before N does (T's [begin] is not enabled otherwise: the
    symmetric situation is Model/Tx.v's).  Same assumptions as Model/Tx.v (tokio Semaphore/Mutex,
    sqlx, SQLite, tokio::spawn).  No proofs in this file. *)
From Coq Require Import List Arith NArith Bool.
From PV Require Import Model.Tx.
Import ListNotations.

Record scfg := { ow : list key; ofin : fin; hw : list key; nw : list key }.

Inductive hpc := HIdle (k : nat) | HLocked (k : nat) | HExec (k : nat).

Record sstate := {
  pT : pc;                      (* transaction T (never [PWait]) *)
  rT : rbpc;                    (* detached rollback task of T's permit *)
  hP : hpc;                     (* T's helper *)
  pN : pc;                      (* the following transaction *)
  sem : bool;                   (* semaphore permit available *)
  mtx : bool;                   (* slot mutex held (by the helper) *)
  sslot : option (list key);    (* pending writes of the open sqlx transaction *)
  sdb : list key                (* committed rows *)
}.

Inductive slabel := LT | LTc | LR | LH | LN.

Definition sinit : sstate :=
  {| pT := PInit; rT := RbNone; hP := HIdle 0; pN := PInit; sem := true; mtx := false;
     sslot := None; sdb := [] |}.

Definition w_pT (s : sstate) (p : pc) : sstate :=
  {| pT := p; rT := rT s; hP := hP s; pN := pN s; sem := sem s; mtx := mtx s; sslot := sslot s; sdb := sdb s |}.
Definition w_rT (s : sstate) (r : rbpc) : sstate :=
  {| pT := pT s; rT := r; hP := hP s; pN := pN s; sem := sem s; mtx := mtx s; sslot := sslot s; sdb := sdb s |}.
Definition w_hP (s : sstate) (h : hpc) : sstate :=
  {| pT := pT s; rT := rT s; hP := h; pN := pN s; sem := sem s; mtx := mtx s; sslot := sslot s; sdb := sdb s |}.
Definition w_pN (s : sstate) (p : pc) : sstate :=
  {| pT := pT s; rT := rT s; hP := hP s; pN := p; sem := sem s; mtx := mtx s; sslot := sslot s; sdb := sdb s |}.
Definition w_sem (s : sstate) (b : bool) : sstate :=
  {| pT := pT s; rT := rT s; hP := hP s; pN := pN s; sem := b; mtx := mtx s; sslot := sslot s; sdb := sdb s |}.
Definition w_mtx (s : sstate) (b : bool) : sstate :=
  {| pT := pT s; rT := rT s; hP := hP s; pN := pN s; sem := sem s; mtx := b; sslot := sslot s; sdb := sdb s |}.
Definition w_slot (s : sstate) (o : option (list key)) : sstate :=
  {| pT := pT s; rT := rT s; hP := hP s; pN := pN s; sem := sem s; mtx := mtx s; sslot := o; sdb := sdb s |}.
Definition w_db (s : sstate) (d : list key) : sstate :=
  {| pT := pT s; rT := rT s; hP := hP s; pN := pN s; sem := sem s; mtx := mtx s; sslot := sslot s; sdb := d |}.

(** Semaphore release: N is the only task that can be queued. *)
Definition srelease (s : sstate) : sstate :=
  match pN s with PWait => w_pN s PGranted | _ => w_sem s true end.

(** T's permit (or its clone in the rollback task) is live. *)
Definition t_live (s : sstate) : bool := active_pc (pT s) || active_rb (rT s).

(** [impl Drop for TransactionPermit] with [committed = false].  [v = false]: the code as it is
    (everything happens in the spawned task).  [v = true]: the seeded variant (try_lock in drop). *)
Definition drop_permit (v : bool) (s : sstate) : sstate :=
  if v then (if mtx s then w_rT s RbStart else w_rT (w_slot s None) RbStart)
  else w_rT s RbStart.

(** The step relation.  [v]: variant of the drop handler (false = the code as it is). *)
Definition sstep (v : bool) (c : scfg) (s : sstate) (l : slabel) : option sstate :=
  match l with
  | LT =>
      match pT s with
      | PInit => if sem s then Some (w_pT (w_sem s false) PGranted) else None
      | PWait => None
      | PGranted =>
          if mtx s then None else
          match sslot s with
          | None => Some (w_pT (w_slot s (Some [])) (PHold 0))
          | Some _ => Some (srelease (w_pT s (PDone OPanic)))
          end
      | PHold k =>
          match nth_error (ow c) k with
          | Some w =>
              if mtx s then None else
              match sslot s with
              | Some p => Some (w_pT (w_slot s (Some (p ++ [w]))) (PHold (S k)))
              | None => Some (drop_permit v (w_pT s (PDone OError)))
              end
          | None =>
              match ofin c with
              | FCommit =>
                  if mtx s then None else
                  match sslot s with
                  | Some p => Some (w_pT (w_slot s None) (PCommitting p))
                  | None => Some (drop_permit v (w_pT s (PDone OPanic)))
                  end
              | FRollback =>
                  if mtx s then None else
                  match sslot s with
                  | Some p => Some (w_pT (w_slot s None) (PRollingBack p))
                  | None => Some (drop_permit v (w_pT s (PDone OPanic)))
                  end
              | FDrop => Some (drop_permit v (w_pT s (PDone ODropped)))
              | FError => if mtx s then None else Some (drop_permit v (w_pT s (PDone OError)))
              end
          end
      | PCommitting p => Some (srelease (w_db (w_pT s (PDone OCommitted)) (sdb s ++ p)))
      | PRollingBack _ => Some (srelease (w_pT s (PDone ORolledBack)))
      | PDone _ => None
      end
  | LTc =>
      match pT s with
      | PInit => Some (w_pT s (PDone OCancelled))
      | PWait => None
      | PGranted => Some (srelease (w_pT s (PDone OCancelled)))
      | PHold _ | PCommitting _ | PRollingBack _ => Some (drop_permit v (w_pT s (PDone OCancelled)))
      | PDone _ => None
      end
  | LR =>
      match rT s with
      | RbStart =>
          if v then Some (w_rT s RbRolling)
          else if mtx s then None else Some (w_rT (w_slot s None) RbRolling)
      | RbRolling => Some (srelease (w_rT s RbDone))
      | RbNone | RbDone => None
      end
  | LH =>
      match hP s with
      | HIdle k =>
          match nth_error (hw c) k with
          | Some _ => if negb (mtx s) && t_live s then Some (w_hP (w_mtx s true) (HLocked k)) else None
          | None => None
          end
      | HLocked k =>
          match sslot s, nth_error (hw c) k with
          | Some p, Some w => Some (w_hP (w_slot s (Some (p ++ [w]))) (HExec k))
          | _, _ => Some (w_hP (w_mtx s false) (HIdle (S k)))     (* TransactionMissing *)
          end
      | HExec k => Some (w_hP (w_mtx s false) (HIdle (S k)))
      end
  | LN =>
      match pN s with
      | PInit => if sem s then Some (w_pN (w_sem s false) PGranted) else Some (w_pN s PWait)
      | PWait => None
      | PGranted =>
          if mtx s then None else
          match sslot s with
          | None => Some (w_pN (w_slot s (Some [])) (PHold 0))
          | Some _ => Some (srelease (w_pN s (PDone OPanic)))     (* the assert! in begin() *)
          end
      | PHold k =>
          if mtx s then None else
          match sslot s with
          | Some p =>
              match nth_error (nw c) k with
              | Some w => Some (w_pN (w_slot s (Some (p ++ [w]))) (PHold (S k)))
              | None => Some (w_pN (w_slot s None) (PCommitting p))
              end
          | None => Some (srelease (w_pN s (PDone OPanic)))
          end
      | PCommitting p => Some (srelease (w_db (w_pN s (PDone OCommitted)) (sdb s ++ p)))
      | PRollingBack _ => None
      | PDone _ => None
      end
  end.

Fixpoint srun (v : bool) (c : scfg) (s : sstate) (tr : list slabel) : option sstate :=
  match tr with
  | [] => Some s
  | l :: r => match sstep v c s l with Some s' => srun v c s' r | None => None end
  end.

Definition is_scancel (l : slabel) : bool := match l with LTc => true | _ => false end.

(** T ended without committing. *)
Definition aborted (p : pc) : bool :=
  match p with
  | PDone OCommitted => false
  | PDone _ => true
  | _ => false
  end.

(** Remaining work (every step strictly decreases it). *)
Definition h_measure (len : nat) (h : hpc) : nat :=
  match h with
  | HIdle k => 3 * (len - k)
  | HLocked k => 3 * (len - k) - 1
  | HExec k => 3 * (len - k) - 2
  end.
Definition smeasure (c : scfg) (s : sstate) : nat :=
  pc_measure (length (ow c)) (pT s) + rb_measure (rT s) + h_measure (length (hw c)) (hP s)
  + pc_measure (length (nw c)) (pN s).
