(** Model of the transaction permit protocol of p2panda-store/src/sqlite.rs
    ([SqliteStore::{begin, tx, commit, rollback}], [TransactionPermit], [impl Drop for
    TransactionPermit] with its detached rollback task) and of the [tx!] macro
    (p2panda-store/src/macros.rs), as a labelled transition system.

    Rust                                              model
    ------------------------------------------------  ------------------------------------------
    [semaphore : Arc<Semaphore>] (1 permit, tokio     [avail : bool] (the counter) + [queue]
      fair batch semaphore: a released permit is        (FIFO of waiting tasks); [release] hands
      handed to the first queued waiter)                the permit to the queue head ([PGranted])
    [tx : Arc<Mutex<Option<Transaction>>>]            [slot : option (list key)] = the pending
                                                        (uncommitted) writes of the open sqlx tx
    committed database content                        [db : list key] (rows in insertion order)
    one task = `begin; w1..wk; fin`                   [prog] = writes + [fin];  [tpc] program counter
      begin: acquire_owned().await                      [PInit] -> [PGranted] | [PWait]
             lock tx; assert none; pool.begin; put      [PGranted] -> [PHold 0]  (panic if slot full)
      store.tx(|tx| insert k)                           [PHold k] -> [PHold (k+1)], slot += k
      commit(permit): take slot; tx.commit; release     [PHold] -> [PCommitting p] -> [PDone OCommitted]
      rollback(permit): take slot; tx.rollback; rel.    [PHold] -> [PRollingBack p] -> [PDone ORolledBack]
      drop(permit) / `?` in the tx! body                [PHold] -> [PDone ODropped|OError], spawn rb
    future dropped (cancellation) at any await        [LCancel i]: what each pc owns is dropped:
                                                        a queued Acquire leaves the queue, a raw
                                                        OwnedSemaphorePermit is released, a
                                                        TransactionPermit spawns the rollback task,
                                                        a taken sqlx tx is discarded
    detached task of [TransactionPermit::drop]        [trb]: [RbStart] -(take slot; rollback)->
      (holds an Arc clone of the semaphore permit)      [RbRolling] -(drop permit)-> [RbDone]

    Modelled, not verified (assumptions): tokio [Semaphore] (FIFO hand-off, a dropped [Acquire]
    gives an assigned permit back) and [Mutex]; sqlx: a [Transaction] dropped without commit is
    rolled back, [commit] makes exactly the statements issued on it durable, all at once; SQLite's
    own atomicity and isolation; [tokio::spawn] eventually runs the detached task.  Failing
    [pool.begin()], [tx.commit()] or [tx.rollback()] calls (sqlx errors) are not modelled.
    One transaction per task; write = insertion of a key.  No proofs in this file. *)
From Coq Require Import List Arith NArith Bool.
Import ListNotations.

Definition key := N.

Inductive fin := FCommit | FRollback | FDrop | FError.
Record prog := { writes : list key; pfin : fin }.

Inductive outcome := OCommitted | ORolledBack | ODropped | OError | OCancelled | OPanic.

Inductive pc :=
| PInit                          (* begin() not called yet *)
| PWait                          (* queued on the semaphore *)
| PGranted                       (* owns the raw semaphore permit, inside begin() *)
| PHold (k : nat)                (* owns the TransactionPermit, k writes issued *)
| PCommitting (p : list key)     (* inside commit(): took the sqlx tx [p] out of the slot *)
| PRollingBack (p : list key)    (* inside rollback(): same *)
| PDone (o : outcome).

Inductive rbpc := RbNone | RbStart | RbRolling | RbDone.

Record tstate := { tpc : pc; trb : rbpc }.

Record state := {
  tasks : nat -> tstate;
  avail : bool;
  queue : list nat;
  slot : option (list key);
  db : list key;
  log : list nat       (* ghost: tasks in the order their commit took effect *)
}.

Inductive label := LStep (i : nat) | LCancel (i : nat) | LRb (i : nat).

Definition upd {A} (f : nat -> A) (i : nat) (v : A) : nat -> A :=
  fun j => if Nat.eqb j i then v else f j.

Definition set_tasks (s : state) (t : nat -> tstate) : state :=
  {| tasks := t; avail := avail s; queue := queue s; slot := slot s; db := db s; log := log s |}.
Definition set_pc (s : state) (i : nat) (p : pc) : state :=
  set_tasks s (upd (tasks s) i {| tpc := p; trb := trb (tasks s i) |}).
Definition set_rb (s : state) (i : nat) (r : rbpc) : state :=
  set_tasks s (upd (tasks s) i {| tpc := tpc (tasks s i); trb := r |}).
Definition set_avail (s : state) (b : bool) : state :=
  {| tasks := tasks s; avail := b; queue := queue s; slot := slot s; db := db s; log := log s |}.
Definition set_queue (s : state) (q : list nat) : state :=
  {| tasks := tasks s; avail := avail s; queue := q; slot := slot s; db := db s; log := log s |}.
Definition set_slot (s : state) (o : option (list key)) : state :=
  {| tasks := tasks s; avail := avail s; queue := queue s; slot := o; db := db s; log := log s |}.
Definition commit_db (s : state) (i : nat) (p : list key) : state :=
  {| tasks := tasks s; avail := avail s; queue := queue s; slot := slot s;
     db := db s ++ p; log := log s ++ [i] |}.

(** Semaphore release: hand the permit to the first waiter, else make it available. *)
Definition release (s : state) : state :=
  match queue s with
  | [] => set_avail s true
  | j :: q => set_pc (set_queue s q) j PGranted
  end.

Definition dequeue (s : state) (i : nat) : state :=
  set_queue s (filter (fun j => negb (Nat.eqb j i)) (queue s)).

(** [TransactionPermit::drop] with [committed = false]: spawn the rollback task. *)
Definition spawn_rb (s : state) (i : nat) : state := set_rb s i RbStart.

Definition init : state :=
  {| tasks := fun _ => {| tpc := PInit; trb := RbNone |};
     avail := true; queue := []; slot := None; db := []; log := [] |}.

Definition step (P : nat -> prog) (s : state) (l : label) : option state :=
  match l with
  | LStep i =>
      match tpc (tasks s i) with
      | PInit =>
          if avail s then Some (set_pc (set_avail s false) i PGranted)
          else Some (set_pc (set_queue s (queue s ++ [i])) i PWait)
      | PWait => None
      | PGranted =>
          match slot s with
          | None => Some (set_pc (set_slot s (Some [])) i (PHold 0))
          | Some _ => Some (release (set_pc s i (PDone OPanic)))   (* the assert! in begin() *)
          end
      | PHold k =>
          match nth_error (writes (P i)) k with
          | Some w =>
              match slot s with
              | Some p => Some (set_pc (set_slot s (Some (p ++ [w]))) i (PHold (S k)))
              | None => Some (spawn_rb (set_pc s i (PDone OError)) i)   (* TransactionMissing, `?` *)
              end
          | None =>
              match pfin (P i) with
              | FCommit =>
                  match slot s with
                  | Some p => Some (set_pc (set_slot s None) i (PCommitting p))
                  | None => Some (spawn_rb (set_pc s i (PDone OPanic)) i)
                  end
              | FRollback =>
                  match slot s with
                  | Some p => Some (set_pc (set_slot s None) i (PRollingBack p))
                  | None => Some (spawn_rb (set_pc s i (PDone OPanic)) i)
                  end
              | FDrop => Some (spawn_rb (set_pc s i (PDone ODropped)) i)
              | FError => Some (spawn_rb (set_pc s i (PDone OError)) i)
              end
          end
      | PCommitting p => Some (release (commit_db (set_pc s i (PDone OCommitted)) i p))
      | PRollingBack _ => Some (release (set_pc s i (PDone ORolledBack)))
      | PDone _ => None
      end
  | LCancel i =>
      match tpc (tasks s i) with
      | PInit => Some (set_pc s i (PDone OCancelled))
      | PWait => Some (set_pc (dequeue s i) i (PDone OCancelled))
      | PGranted => Some (release (set_pc s i (PDone OCancelled)))
      | PHold _ | PCommitting _ | PRollingBack _ => Some (spawn_rb (set_pc s i (PDone OCancelled)) i)
      | PDone _ => None
      end
  | LRb i =>
      match trb (tasks s i) with
      | RbStart => Some (set_rb (set_slot s None) i RbRolling)
      | RbRolling => Some (release (set_rb s i RbDone))
      | RbNone | RbDone => None
      end
  end.

(** Executable trace runner: [None] as soon as a label is not enabled. *)
Fixpoint run (P : nat -> prog) (s : state) (tr : list label) : option state :=
  match tr with
  | [] => Some s
  | l :: r => match step P s l with Some s' => run P s' r | None => None end
  end.

(** Lenient runner (used for the correspondence scenarios): a label that is not enabled is
    skipped. *)
Fixpoint run_skip (P : nat -> prog) (s : state) (tr : list label) : state :=
  match tr with
  | [] => s
  | l :: r => run_skip P (match step P s l with Some s' => s' | None => s end) r
  end.

(** Who owns the semaphore permit. *)
Inductive owner := OwT (i : nat) | OwR (i : nat).

Definition active_pc (p : pc) : bool :=
  match p with PInit | PWait | PDone _ => false | _ => true end.
Definition active_rb (r : rbpc) : bool :=
  match r with RbStart | RbRolling => true | _ => false end.
Definition owns (s : state) (o : owner) : bool :=
  match o with
  | OwT i => active_pc (tpc (tasks s i))
  | OwR i => active_rb (trb (tasks s i))
  end.
Definition olabel (o : owner) : label :=
  match o with OwT i => LStep i | OwR i => LRb i end.

Definition actor (l : label) : nat := match l with LStep i | LCancel i | LRb i => i end.
Definition is_cancel (l : label) : bool := match l with LCancel _ => true | _ => false end.

(** The serial specification: apply the committed transactions one after another. *)
Definition apply_all (P : nat -> prog) (order : list nat) : list key :=
  flat_map (fun i => writes (P i)) order.

(** Progress measure (remaining work of the tasks below [n]). *)
Definition pc_measure (len : nat) (p : pc) : nat :=
  match p with
  | PInit => len + 8
  | PWait => len + 7
  | PGranted => len + 6
  | PHold k => (len - k) + 5
  | PCommitting _ | PRollingBack _ => 4
  | PDone _ => 0
  end.
Definition rb_measure (r : rbpc) : nat :=
  match r with RbStart => 2 | RbRolling => 1 | _ => 0 end.
Definition t_measure (P : nat -> prog) (s : state) (i : nat) : nat :=
  pc_measure (length (writes (P i))) (tpc (tasks s i)) + rb_measure (trb (tasks s i)).
Definition measure (P : nat -> prog) (n : nat) (s : state) : nat :=
  fold_right (fun i acc => t_measure P s i + acc) 0 (seq 0 n).

(** The commit order of a trace: the tasks whose commit took effect, in trace order
    ([LStep i] taken at [PCommitting] is the step at which sqlx [commit] returns). *)
Definition commit_mark (s : state) (l : label) : list nat :=
  match l with
  | LStep i => match tpc (tasks s i) with PCommitting _ => [i] | _ => [] end
  | _ => []
  end.
Fixpoint commits_of (P : nat -> prog) (s : state) (tr : list label) : list nat :=
  match tr with
  | [] => []
  | l :: r => match step P s l with
              | Some s' => commit_mark s l ++ commits_of P s' r
              | None => []
              end
  end.
