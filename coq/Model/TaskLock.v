(** Model of the *result lock* of one [Task] (p2panda/src/processor/tasks.rs) under contention:
    [k] waiters inside [Task::ready] of the SAME task instance and the one writer
    ([Task::mark_as_done], called once per instance because [TaskTracker::mark_as_done] removes
    the instance from the tracker first).  Unlike Model/Tasks.v, where a lock is taken and
    released inside one step, here [ready_result : Mutex<Option<T>>] can be HELD ACROSS STEPS:
    a reader acquires it, looks at the result, clones it (slow) and only then releases it.

    State.
      [l_res]    the [Option<T>] inside the mutex
      [l_epoch]  number of [notify_waiters()] calls on [ready_signal]
      [l_lock]   who holds the mutex
      [l_w]      program counter of the writer, [l_r i] of waiter [i]

    Waiter ([Task::ready]; [e] = snapshot of [l_epoch] taken when the [Notified] was created and
    enabled, it is woken iff the counter has moved):
      R0 --create + enable Notified--> R1 e
      R1 e --ready_result.lock().await--> R2 e            enabled only while the mutex is free
           (the real code queues on the mutex: a check that finds it held WAITS)
           variant [trylock = true] (NOT the code; `try_lock()` instead of `lock().await`):
           mutex held --> R4 e  ("no result yet", go and wait for the signal)
      R2 e --is_some()--> R3 (result there: clone it, still holding the mutex)
                        | R4 e (no result: drop the guard)
      R3 --clone finished, guard dropped--> RDone v
      R4 e --[l_epoch > e] woken--> R5 --lock().await [mutex free]--> R6 --clone, drop--> RDone v
           (a woken waiter that finds no result panics in the code: RPanic)
    Writer ([Task::mark_as_done]):
      W0 --lock().await [mutex free]--> W1 --store the result, drop the guard--> W2
         --notify_waiters()--> W3

    Modelled, not verified: tokio [Mutex] (mutual exclusion; a pending [lock()] is granted at
    some point after the holder released — queue order is not modelled, any waiting acquirer may
    be the next), tokio [Notify] as in Model/Tasks.v.  *)
From Coq Require Import List Arith Bool.
From PV Require Import Model.Tasks.
Import ListNotations.

Inductive rpc :=
| R0 | R1 (e : nat) | R2 (e : nat) | R3 | R4 (e : nat) | R5 | R6 | RDone (v : nat) | RPanic.

Inductive wpc := W0 | W1 | W2 | W3.

Inductive holder := HReader (i : nat) | HWriter.

Record lstate := {
  l_res : option nat; l_epoch : nat; l_lock : option holder; l_w : wpc; l_r : nat -> rpc }.

Inductive llabel := LR (i : nat) | LW.

Definition linit : lstate :=
  {| l_res := None; l_epoch := 0; l_lock := None; l_w := W0; l_r := fun _ => R0 |}.

(** waiter [i] moves to [p]; the mutex becomes [lk] *)
Definition set_r (s : lstate) (i : nat) (p : rpc) (lk : option holder) : lstate :=
  {| l_res := l_res s; l_epoch := l_epoch s; l_lock := lk; l_w := l_w s; l_r := upd (l_r s) i p |}.

Definition is_free (o : option holder) : bool := match o with None => true | Some _ => false end.

Definition lstep_r (trylock : bool) (s : lstate) (i : nat) : option lstate :=
  match l_r s i with
  | R0 => Some (set_r s i (R1 (l_epoch s)) (l_lock s))
  | R1 e =>
      if is_free (l_lock s) then Some (set_r s i (R2 e) (Some (HReader i)))
      else if trylock then Some (set_r s i (R4 e) (l_lock s)) else None
  | R2 e =>
      match l_res s with
      | Some _ => Some (set_r s i R3 (l_lock s))
      | None => Some (set_r s i (R4 e) None)
      end
  | R3 | R6 =>
      match l_res s with
      | Some v => Some (set_r s i (RDone v) None)
      | None => Some (set_r s i RPanic None)
      end
  | R4 e => if Nat.ltb e (l_epoch s) then Some (set_r s i R5 (l_lock s)) else None
  | R5 => if is_free (l_lock s) then Some (set_r s i R6 (Some (HReader i))) else None
  | RDone _ | RPanic => None
  end.

Definition lstep_w (v : nat) (s : lstate) : option lstate :=
  match l_w s with
  | W0 =>
      if is_free (l_lock s)
      then Some {| l_res := l_res s; l_epoch := l_epoch s; l_lock := Some HWriter; l_w := W1; l_r := l_r s |}
      else None
  | W1 => Some {| l_res := Some v; l_epoch := l_epoch s; l_lock := None; l_w := W2; l_r := l_r s |}
  | W2 => Some {| l_res := l_res s; l_epoch := S (l_epoch s); l_lock := l_lock s; l_w := W3; l_r := l_r s |}
  | W3 => None
  end.

(** [k] waiters, the writer stores [v]; [None] = the label is not enabled. *)
Definition lstep (trylock : bool) (k v : nat) (s : lstate) (l : llabel) : option lstate :=
  match l with
  | LR i => if Nat.ltb i k then lstep_r trylock s i else None
  | LW => lstep_w v s
  end.

Inductive lexec (trylock : bool) (k v : nat) : lstate -> list llabel -> lstate -> Prop :=
| lexec_nil : forall s, lexec trylock k v s [] s
| lexec_cons : forall s l s1 tr s2,
    lstep trylock k v s l = Some s1 -> lexec trylock k v s1 tr s2 -> lexec trylock k v s (l :: tr) s2.

Definition lrun (trylock : bool) (k v : nat) (s : lstate) (tr : list llabel) : option lstate :=
  fold_left (fun o l => match o with Some s => lstep trylock k v s l | None => None end) tr (Some s).

Definition r_returned (p : rpc) : bool := match p with RDone _ => true | _ => false end.
Definition all_returnedb (k : nat) (s : lstate) : bool :=
  forallb (fun i => r_returned (l_r s i)) (seq 0 k).

(** Remaining work; every step strictly decreases it. *)
Definition wr (p : rpc) : nat :=
  match p with
  | R0 => 7 | R1 _ => 6 | R2 _ => 5 | R4 _ => 4 | R5 => 3 | R6 => 2 | R3 => 1 | RDone _ => 0 | RPanic => 0
  end.
Definition ww (p : wpc) : nat := match p with W0 => 3 | W1 => 2 | W2 => 1 | W3 => 0 end.
Definition lmeasure (k : nat) (s : lstate) : nat := sumf k (fun i => wr (l_r s i)) + ww (l_w s).

(** The schedule on which the [try_lock] variant strands a waiter: the writer completes the task,
    waiter 0 takes the mutex and clones, waiter 1 registers, finds the mutex held, concludes "no
    result yet" and waits for a signal that has already fired. *)
Definition trylock_schedule : list llabel := [LW; LW; LW; LR 0; LR 0; LR 0; LR 1; LR 1; LR 0].
