(** Model of the acknowledgement cursor and the replay of a topic stream (C15).

    Rust code modelled (p2panda node crate):

    - [durable]                     the three SQLite tables the replay reads:
        [rows]    operations_v1   one [row] per stored operation (hash -> [r_id], verifying key ->
                                  [r_author], log id, seq_num, "body IS NOT NULL"/decodability,
                                  prune flag of the header extensions);
        [assoc]   topics_v1       the (author, log) pairs the observed topic resolves to
                                  ([TopicStore::resolve], iterated as nested BTreeMaps = in
                                  lexicographic order, so [assoc] is kept as a sorted set);
        [cursor]  cursors_v1      the state vector of the cursor named after the topic
                                  ([Acked::cursor]; a missing row is the empty vector).
    - [dstep]                       the atomic durable transitions, one per database commit:
        [LStore]  forge.rs [OperationForge::create_operation] and p2panda-stream
                  [ingest_operation]: insert_operation + associate inside ONE transaction;
        [LPrune]  [LogPrune] -> [prune_entries]: DELETE ... seq_num < n (one statement);
        [LAck]    acked.rs [Acked::ack] -> [Cursor::advance] + set_cursor (serialised by the
                  per-stream semaphore); refused for a header of another topic's log;
        [LEnqueue]/[LEmit]/[LDeliver]  volatile only: publish/import channel, app channel;
        [LCrash]  drops the volatile part, keeps the durable part.
    - [local_heights]               acked.rs [get_log_heights] over [resolve(topic)]
                                    (MAX(seq_num) GROUP BY log_id; logs without rows are absent).
    - [compare]                     p2panda-core logs.rs [compare] as used by [Cursor::compare]
                                    (nested author/log maps flattened to (author, log) keys; the
                                    "logs equal -> skip author" shortcut is subsumed by the per-log
                                    test and is not modelled separately).
    - [nacked_log_ranges]           acked.rs [Acked::nacked_log_ranges(StreamFrom::Frontier)].
    - [get_log_entries]             p2panda-store logs/sqlite [get_log_entries]
                                    (seq > after | all, seq <= until, ORDER BY seq_num).
    - [total_operations], [replay_entries], [delivered_on_restart], [replay_plan]
                                    replay.rs [total_operations] / [replay_log_ranges] with
                                    stream.rs [process_operation] (body-less operations are always
                                    acknowledged and not forwarded; decodable bodies are forwarded
                                    as [Processed] and acknowledged first under
                                    [AckPolicy::Automatic]; undecodable bodies are forwarded as
                                    [DecodeFailed] and never acknowledged; a prune-flagged
                                    operation runs [LogPrune] again).
    - [plan]                        the durable transitions of one complete API call, in code order:
                                    [StreamPublisher::publish]/[prune] (forge commit, then pipeline
                                    ingest = no-op, log prune, ack), [StreamPublisher::import] of one
                                    operation (ingest commit | duplicate | rejected, log prune, ack),
                                    [StreamSubscription::ack], and a restart whose replay runs to
                                    its end.  A crash inside a call is a proper prefix of its plan.

    Modelled, not verified: SQLite (each transaction / single statement is atomic and durable
    once committed; a process crash loses nothing committed and nothing uncommitted survives), the
    process model (a crash stops every task and thread at once), ed25519/BLAKE3 (operation ids are
    unique numbers), the validity rule of [ingest_operation] is reduced to the sequence-number part
    of [validate_prunable_backlink] (imported operations are honest logs: equal author/log/seq means
    equal hash), one [Acked] instance per cursor name at a time (acks are serialised), imported
    operations carry the log id of the topic they are imported into (otherwise [Acked::ack]
    answers [InvalidTopic], modelled as the no-op branch of [LAck]).  [StreamFrom::Start] and
    [StreamFrom::Cursor], which overwrite the cursor on request, are outside the property. *)
From Coq Require Import List Arith NArith Bool.
Import ListNotations.

Definition author := N.
Definition logid := N.
Definition key := (author * logid)%type.

Definition key_eqb (a b : key) : bool := N.eqb (fst a) (fst b) && N.eqb (snd a) (snd b).
Definition key_ltb (a b : key) : bool :=
  N.ltb (fst a) (fst b) || (N.eqb (fst a) (fst b) && N.ltb (snd a) (snd b)).

(** What the body column holds: NULL, bytes that decode as the application message type, bytes
    that do not. *)
Inductive body := NoBody | Body | BadBody.

Record row := { r_id : N; r_author : author; r_log : logid; r_seq : N; r_body : body; r_prune : bool }.
Definition rkey (r : row) : key := (r_author r, r_log r).

Record durable := { rows : list row; assoc : list key; cursor : list (key * N) }.

Definition empty : durable := {| rows := []; assoc := []; cursor := [] |}.

(** ** Store primitives *)

Fixpoint set_insert (k : key) (s : list key) : list key :=
  match s with
  | [] => [k]
  | x :: r => if key_eqb k x then s else if key_ltb k x then k :: s else x :: set_insert k r
  end.

Fixpoint lookup (k : key) (m : list (key * N)) : option N :=
  match m with
  | [] => None
  | (k', v) :: r => if key_eqb k k' then Some v else lookup k r
  end.

Fixpoint upsert (k : key) (v : N) (m : list (key * N)) : list (key * N) :=
  match m with
  | [] => [(k, v)]
  | (k', v') :: r => if key_eqb k k' then (k, v) :: r else (k', v') :: upsert k v r
  end.

(** [Cursor::advance]: ignore a height lower than or equal to the current one. *)
Definition advance (k : key) (n : N) (c : list (key * N)) : list (key * N) :=
  match lookup k c with
  | Some cur => if N.leb n cur then c else upsert k n c
  | None => upsert k n c
  end.

Definition has_id (i : N) (rs : list row) : bool := existsb (fun r => N.eqb (r_id r) i) rs.
Definition find_id (i : N) (rs : list row) : option row := find (fun r => N.eqb (r_id r) i) rs.

Definition max_seq (rs : list row) (k : key) : option N :=
  fold_left (fun acc r =>
               if key_eqb (rkey r) k
               then Some (match acc with None => r_seq r | Some m => N.max m (r_seq r) end)
               else acc) rs None.

Definition prune_rows (k : key) (n : N) (rs : list row) : list row :=
  filter (fun r => negb (key_eqb (rkey r) k && N.ltb (r_seq r) n)) rs.

(** ** Atomic transitions *)

Inductive ekind := Processed | DecodeFailed.
Definition event := (ekind * row)%type.

Inductive label :=
| LStore (r : row)
| LPrune (k : key) (n : N)
| LAck (r : row)
| LEnqueue (r : row)
| LEmit (e : event)
| LDeliver
| LCrash.

Record state := { dur : durable; inflight : list row; appq : list event }.

Definition init : state := {| dur := empty; inflight := []; appq := [] |}.

(** [tlog] is the log id derived from the observed topic ([LogId::from_topic]); rows of other
    logs belong to other topics and are never associated with this one. *)
Definition dstep (tlog : logid) (d : durable) (l : label) : durable :=
  match l with
  | LStore r =>
      {| rows := rows d ++ [r];
         assoc := if N.eqb (r_log r) tlog then set_insert (rkey r) (assoc d) else assoc d;
         cursor := cursor d |}
  | LPrune k n => {| rows := prune_rows k n (rows d); assoc := assoc d; cursor := cursor d |}
  | LAck r =>
      if N.eqb (r_log r) tlog
      then {| rows := rows d; assoc := assoc d; cursor := advance (rkey r) (r_seq r) (cursor d) |}
      else d
  | _ => d
  end.

Definition step (tlog : logid) (s : state) (l : label) : state :=
  match l with
  | LEnqueue r => {| dur := dur s; inflight := inflight s ++ [r]; appq := appq s |}
  | LEmit e => {| dur := dur s; inflight := tl (inflight s); appq := appq s ++ [e] |}
  | LDeliver => {| dur := dur s; inflight := inflight s; appq := tl (appq s) |}
  | LCrash => {| dur := dur s; inflight := []; appq := [] |}
  | _ => {| dur := dstep tlog (dur s) l; inflight := inflight s; appq := appq s |}
  end.

Definition exec (tlog : logid) (s : state) (tr : list label) : state := fold_left (step tlog) tr s.
Definition dexec (tlog : logid) (d : durable) (tr : list label) : durable := fold_left (dstep tlog) tr d.

(** Ghost history: the operations acknowledged (by the application or automatically) in a trace,
    as far as the acknowledgement was accepted for this topic. *)
Definition acked_of (tlog : logid) (tr : list label) : list row :=
  flat_map (fun l => match l with
                     | LAck r => if N.eqb (r_log r) tlog then [r] else []
                     | _ => [] end) tr.

(** ** Restart from the frontier *)

Definition local_heights (d : durable) : list (key * N) :=
  flat_map (fun k => match max_seq (rows d) k with Some h => [(k, h)] | None => [] end) (assoc d).

Definition range := (option N * N)%type.

Definition compare (local remote : list (key * N)) : list (key * range) :=
  flat_map (fun kh : key * N =>
              let (k, h) := kh in
              match lookup k remote with
              | None => [(k, (None, h))]
              | Some c => if N.ltb c h then [(k, (Some c, h))] else []
              end) local.

Definition nacked_log_ranges (d : durable) : list (key * range) :=
  compare (local_heights d) (cursor d).

Definition in_range (after : option N) (until : N) (s : N) : bool :=
  (match after with None => true | Some a => N.ltb a s end) && N.leb s until.

Fixpoint insert_seq (r : row) (l : list row) : list row :=
  match l with
  | [] => [r]
  | x :: t => if N.leb (r_seq r) (r_seq x) then r :: l else x :: insert_seq r t
  end.
Definition sort_seq (l : list row) : list row := fold_right insert_seq [] l.

Definition get_log_entries (rs : list row) (k : key) (after : option N) (until : N) : list row :=
  sort_seq (filter (fun r => key_eqb (rkey r) k && in_range after until (r_seq r)) rs).

Definition total_operations (rg : list (key * range)) : N :=
  fold_left (fun acc kr =>
               match snd kr with
               | (None, u) => acc + 1 + u
               | (Some a, u) => acc + (u - a)
               end)%N rg 0%N.

Definition replay_entries (d : durable) : list row :=
  flat_map (fun kr : key * range =>
              get_log_entries (rows d) (fst kr) (fst (snd kr)) (snd (snd kr)))
           (nacked_log_ranges d).

Inductive policy := Explicit | Automatic.
Definition is_auto (p : policy) : bool := match p with Automatic => true | Explicit => false end.

(** stream.rs [process_operation]: what reaches the application, and whether the stream itself
    acknowledges. *)
Definition event_of (r : row) : option ekind :=
  match r_body r with NoBody => None | Body => Some Processed | BadBody => Some DecodeFailed end.
Definition self_acks (p : policy) (r : row) : bool :=
  match r_body r with NoBody => true | Body => is_auto p | BadBody => false end.

Definition events_of (rs : list row) : list event :=
  flat_map (fun r => match event_of r with Some k => [(k, r)] | None => [] end) rs.

Definition delivered_on_restart (d : durable) : list event := events_of (replay_entries d).

(** Durable transitions of processing one operation that is (now) in the store. *)
Definition process_labels (p : policy) (r : row) : list label :=
  (if r_prune r then [LPrune (rkey r) (r_seq r)] else []) ++
  (if self_acks p r then [LAck r] else []).

Definition replay_plan (p : policy) (d : durable) : list label :=
  flat_map (process_labels p) (replay_entries d).

(** ** Complete API calls *)

Inductive op :=
| OPublish (id : N) (with_body : bool) (prune : bool)
| OImport (r : row)
| OAck (id : N)
| OAckHeld (r : row)
| OOther (r : row)
| OReplay.

(** Sequence-number part of [validate_prunable_backlink] against the latest stored entry. *)
Definition ingest_accepts (d : durable) (r : row) : bool :=
  match max_seq (rows d) (rkey r) with
  | None => N.eqb (r_seq r) 0 || r_prune r
  | Some h => (negb (N.eqb (r_seq r) 0) && r_prune r) || N.eqb (r_seq r) (h + 1)
  end.

(** forge.rs: the next operation of the node's own log for this topic. *)
Definition pub_row (tlog : logid) (me : author) (d : durable) (id : N) (wb pr : bool) : row :=
  {| r_id := id; r_author := me; r_log := tlog;
     r_seq := match max_seq (rows d) (me, tlog) with None => 0%N | Some h => (h + 1)%N end;
     r_body := if wb then Body else NoBody; r_prune := pr |}.

(** [OAck] is [StreamSubscription::ack(hash)] (looks the operation up in the store first),
    [OAckHeld] is [ProcessedOperation::ack] on an event the application kept (no lookup),
    [OOther] is a publish on another topic of the same node (a row in another log). *)
Definition plan (tlog : logid) (p : policy) (me : author) (d : durable) (o : op) : list label :=
  match o with
  | OPublish id wb pr =>
      let r := pub_row tlog me d id wb pr in LStore r :: process_labels p r
  | OImport r =>
      if has_id (r_id r) (rows d) then process_labels p r
      else if ingest_accepts d r then LStore r :: process_labels p r
      else []
  | OAck id => match find_id id (rows d) with Some r => [LAck r] | None => [] end
  | OAckHeld r => [LAck r]
  | OOther r => [LStore r]
  | OReplay => replay_plan p d
  end.

Definition apply_op (tlog : logid) (p : policy) (me : author) (d : durable) (o : op) : durable :=
  dexec tlog d (plan tlog p me d o).

Definition run_ops (tlog : logid) (p : policy) (me : author) (d : durable) (os : list op) : durable :=
  fold_left (apply_op tlog p me) os d.

(** All durable states a crash inside the call [o] can leave behind when at least the first
    [lo] transitions are known to have happened: the prefixes of its plan. *)
Definition cut_states (tlog : logid) (p : policy) (me : author) (d : durable) (o : op) (lo : nat)
  : list durable :=
  let pl := plan tlog p me d o in
  map (fun n => dexec tlog d (firstn n pl)) (seq lo (S (List.length pl) - lo)).

(** ** Specification side: "not acknowledged, neither itself nor a later one of the same log" *)

Definition above_cursor (d : durable) (r : row) : bool :=
  match lookup (rkey r) (cursor d) with None => true | Some c => N.ltb c (r_seq r) end.

Definition in_assoc (d : durable) (r : row) : bool := existsb (key_eqb (rkey r)) (assoc d).

(** The replay set written as a plain comprehension over the observed tables. *)
Definition spec_replay (d : durable) : list row :=
  filter (fun r => in_assoc d r && above_cursor d r) (rows d).

Definition covered_by (acked : list row) (r : row) : bool :=
  existsb (fun a => key_eqb (rkey a) (rkey r) && N.leb (r_seq r) (r_seq a)) acked.
