(** Model of p2panda/src/processor/tasks.rs ([TaskTracker], [Task]) together with the way
    p2panda/src/processor/pipeline.rs uses it ([Pipeline::process] on the submitting side, the
    [while let Some(operation) = pipeline.next().await { tasks.mark_as_done(..) }] loop on the
    pipeline thread): a labelled transition system (DESIGN Appendix B).

    Actors.  [n = length ids] submitters — submitter [i] calls [Pipeline::process] with an event
    whose hash (task id) is [nth i ids 0]; equal entries of [ids] are concurrent submissions of
    the same operation — and one pipeline thread.  The *result* the pipeline produces for the
    event sent by submitter [j] is the number [j] ("the processed event that [j] sent"), so
    "returns the result for that same operation" reads: the returned [r] satisfies
    [nth r ids 0 = nth i ids 0].

    State.
      [tasks t]      the [Task] instance number [t]: its id, [ready_result] ([t_res]) and the
                     number of [notify_waiters()] calls made on its [ready_signal] ([t_epoch])
      [ntasks]       instances created so far (a fresh one gets number [ntasks])
      [tracker]      the [HashMap<ID, Task>] inside the tracker's [RwLock]
      [locked]       the tracker's write lock is held across steps (only the pipeline does that:
                     [TaskTracker::mark_as_done] keeps it while it awaits [Task::mark_as_done];
                     [track] takes and releases it inside one step)
      [queue]        the mpsc channel into the pipeline: (task id, result it will produce)
      [pipe]         program counter of the pipeline thread
      [subs i]       program counter of submitter [i]

    Submitter program ([Pipeline::process] = [track; send; Task::ready]):
      S0 --track--> S1 t --send--> S2 t
      code before the repair ([repaired = false]):
        S2 t --lock, check result, unlock--> SDone r | S3 t
        S3 t --create Notified (snapshot e := epoch t)--> S4 t e
      repaired code ([repaired = true], "create + enable the Notified before the check"):
        S2 t --create + enable Notified (snapshot e := epoch t)--> S3r t e
        S3r t e --lock, check result, unlock--> SDone r | S4 t e
      S4 t e --[enabled iff epoch t > e] woken--> S5 t --lock, read result--> SDone r
    Pipeline program:
      P0 --recv + process--> P1 id r --lock tracker, remove entry--> P2 t r | (no entry: unlock) P0
      P2 t r --set result-->  P3 t --notify_waiters (epoch + 1), unlock tracker--> P0

    The granularity is that of the cfg-gated schedule points added to tasks.rs (hook commits),
    which lets the harness replay any schedule of this system on the real code.

    Modelled, not verified (tokio semantics, PARTIAL liveness): [Notify::notify_waiters] wakes
    exactly the [Notified] futures created (repaired code: created and enabled) before the call
    and no later one — a [Notified] is its creation-time snapshot of the call counter; an
    uncontended [Mutex]/[RwLock] acquisition succeeds at once and a lock is released when its
    guard is dropped; the mpsc channel is FIFO and (unlike the real one, capacity 128) unbounded;
    the processing layers between recv and [mark_as_done] deliver every event exactly once
    (that is C13's subject).  *)
From Coq Require Import List Arith Bool.
Import ListNotations.

Inductive spc :=
| S0 | S1 (t : nat) | S2 (t : nat) | S3 (t : nat) | S3r (t e : nat) | S4 (t e : nat) | S5 (t : nat)
| SDone (r : nat).

Inductive ppc := P0 | P1 (id r : nat) | P2 (t r : nat) | P3 (t : nat).

Record task := { t_id : nat; t_res : option nat; t_epoch : nat }.

Record state := {
  tasks : nat -> task; ntasks : nat;
  tracker : list (nat * nat); locked : bool;
  queue : list (nat * nat); pipe : ppc;
  subs : nat -> spc }.

Inductive label := LSub (i : nat) | LPipe.

Definition upd {A} (f : nat -> A) (k : nat) (v : A) : nat -> A :=
  fun x => if Nat.eqb x k then v else f x.

Fixpoint tlookup (id : nat) (l : list (nat * nat)) : option nat :=
  match l with
  | [] => None
  | (k, t) :: r => if Nat.eqb id k then Some t else tlookup id r
  end.
Definition tremove (id : nat) (l : list (nat * nat)) : list (nat * nat) :=
  filter (fun p => negb (Nat.eqb id (fst p))) l.

Definition idof (ids : list nat) (i : nat) : nat := nth i ids 0.

Definition init : state :=
  {| tasks := fun _ => {| t_id := 0; t_res := None; t_epoch := 0 |}; ntasks := 0;
     tracker := []; locked := false; queue := []; pipe := P0; subs := fun _ => S0 |}.

Definition set_sub (s : state) (i : nat) (p : spc) : state :=
  {| tasks := tasks s; ntasks := ntasks s; tracker := tracker s; locked := locked s;
     queue := queue s; pipe := pipe s; subs := upd (subs s) i p |}.

Definition res_of (s : state) (t : nat) : option nat := t_res (tasks s t).
Definition epoch_of (s : state) (t : nat) : nat := t_epoch (tasks s t).

Definition step_sub (repaired : bool) (ids : list nat) (s : state) (i : nat) : option state :=
  match subs s i with
  | S0 =>
      if locked s then None
      else match tlookup (idof ids i) (tracker s) with
           | Some t => Some (set_sub s i (S1 t))
           | None =>
               let t := ntasks s in
               Some {| tasks := upd (tasks s) t {| t_id := idof ids i; t_res := None; t_epoch := 0 |};
                       ntasks := S t; tracker := (idof ids i, t) :: tracker s; locked := locked s;
                       queue := queue s; pipe := pipe s; subs := upd (subs s) i (S1 t) |}
           end
  | S1 t =>
      Some {| tasks := tasks s; ntasks := ntasks s; tracker := tracker s; locked := locked s;
              queue := queue s ++ [(idof ids i, i)]; pipe := pipe s; subs := upd (subs s) i (S2 t) |}
  | S2 t =>
      if repaired then Some (set_sub s i (S3r t (epoch_of s t)))
      else match res_of s t with
           | Some r => Some (set_sub s i (SDone r))
           | None => Some (set_sub s i (S3 t))
           end
  | S3 t => if repaired then None else Some (set_sub s i (S4 t (epoch_of s t)))
  | S3r t e =>
      if repaired then
        match res_of s t with
        | Some r => Some (set_sub s i (SDone r))
        | None => Some (set_sub s i (S4 t e))
        end
      else None
  | S4 t e => if Nat.ltb e (epoch_of s t) then Some (set_sub s i (S5 t)) else None
  | S5 t => match res_of s t with Some r => Some (set_sub s i (SDone r)) | None => None end
  | SDone _ => None
  end.

Definition step_pipe (s : state) : option state :=
  match pipe s with
  | P0 =>
      match queue s with
      | [] => None
      | (id, r) :: q =>
          Some {| tasks := tasks s; ntasks := ntasks s; tracker := tracker s; locked := locked s;
                  queue := q; pipe := P1 id r; subs := subs s |}
      end
  | P1 id r =>
      if locked s then None
      else match tlookup id (tracker s) with
           | Some t =>
               Some {| tasks := tasks s; ntasks := ntasks s; tracker := tremove id (tracker s);
                       locked := true; queue := queue s; pipe := P2 t r; subs := subs s |}
           | None =>
               Some {| tasks := tasks s; ntasks := ntasks s; tracker := tracker s; locked := locked s;
                       queue := queue s; pipe := P0; subs := subs s |}
           end
  | P2 t r =>
      let k := tasks s t in
      Some {| tasks := upd (tasks s) t {| t_id := t_id k; t_res := Some r; t_epoch := t_epoch k |};
              ntasks := ntasks s; tracker := tracker s; locked := locked s;
              queue := queue s; pipe := P3 t; subs := subs s |}
  | P3 t =>
      let k := tasks s t in
      Some {| tasks := upd (tasks s) t {| t_id := t_id k; t_res := t_res k; t_epoch := S (t_epoch k) |};
              ntasks := ntasks s; tracker := tracker s; locked := false;
              queue := queue s; pipe := P0; subs := subs s |}
  end.

(** The transition function: [None] = the label is not enabled. *)
Definition stepb (repaired : bool) (ids : list nat) (s : state) (l : label) : option state :=
  match l with
  | LSub i => if Nat.ltb i (List.length ids) then step_sub repaired ids s i else None
  | LPipe => step_pipe s
  end.

Inductive exec (repaired : bool) (ids : list nat) : state -> list label -> state -> Prop :=
| exec_nil : forall s, exec repaired ids s [] s
| exec_cons : forall s l s1 tr s2,
    stepb repaired ids s l = Some s1 -> exec repaired ids s1 tr s2 -> exec repaired ids s (l :: tr) s2.

Definition is_done (p : spc) : bool := match p with SDone _ => true | _ => false end.
Definition all_doneb (ids : list nat) (s : state) : bool :=
  forallb (fun i => is_done (subs s i)) (seq 0 (List.length ids)).

(** Remaining work: every step strictly decreases it (Proofs/Tasks.v), so every trace is finite. *)
Definition wsub (p : spc) : nat :=
  match p with
  | S0 => 10 | S1 _ => 9 | S2 _ => 4 | S3 _ => 3 | S3r _ _ => 3 | S4 _ _ => 2 | S5 _ => 1 | SDone _ => 0
  end.
Definition wpipe (p : ppc) : nat := match p with P0 => 0 | P1 _ _ => 3 | P2 _ _ => 2 | P3 _ => 1 end.
Fixpoint sumf (n : nat) (f : nat -> nat) : nat := match n with 0 => 0 | S k => sumf k f + f k end.
Definition measure (ids : list nat) (s : state) : nat :=
  sumf (List.length ids) (fun i => wsub (subs s i)) + 4 * List.length (queue s) + wpipe (pipe s).

(** * Schedules as the harness replays them

    A *pick* is an actor number: [a < n] submitter [a], [a = n] the pipeline thread.  Picking an
    actor lets it run up to its next schedule point; picking an actor that cannot move leaves the
    state unchanged.  The observation of a pick is the actor's new program counter. *)
Inductive tok := TBlocked | TSub (p : spc) | TPipe (p : ppc).

Definition label_of (ids : list nat) (a : nat) : label :=
  if Nat.ltb a (List.length ids) then LSub a else LPipe.

Definition pick (repaired : bool) (ids : list nat) (s : state) (a : nat) : state * tok :=
  if Nat.ltb (List.length ids) a then (s, TBlocked)
  else match stepb repaired ids s (label_of ids a) with
       | Some s1 => (s1, if Nat.ltb a (List.length ids) then TSub (subs s1 a) else TPipe (pipe s1))
       | None => (s, TBlocked)
       end.

Fixpoint run_picks (repaired : bool) (ids : list nat) (s : state) (ps : list nat) : state * list tok :=
  match ps with
  | [] => (s, [])
  | a :: r => let '(s1, t) := pick repaired ids s a in
              let '(s2, ts) := run_picks repaired ids s1 r in (s2, t :: ts)
  end.

Definition is_blocked (t : tok) : bool := match t with TBlocked => true | _ => false end.

(** After the explicit picks the harness drains: rounds over the actors 0 .. n (submitters in
    order, then the pipeline), until a whole round makes no progress. *)
Fixpoint drain (fuel : nat) (repaired : bool) (ids : list nat) (s : state) : state * list tok :=
  match fuel with
  | 0 => (s, [])
  | S f =>
      let '(s1, ts) := run_picks repaired ids s (seq 0 (S (List.length ids))) in
      if forallb is_blocked ts then (s1, ts)
      else let '(s2, ts2) := drain f repaired ids s1 in (s2, ts ++ ts2)
  end.

Definition run_schedule (repaired : bool) (ids : list nat) (ps : list nat) : state * list tok * list tok :=
  let '(s1, ts) := run_picks repaired ids init ps in
  let '(s2, ds) := drain (S (measure ids s1)) repaired ids s1 in
  (s2, ts, ds).
