(** Model of p2panda-auth/src/access.rs ([AccessLevel], [Access], [PartialOrd for Access]) and of
    all of p2panda-auth/src/group/crdt/state.rs ([MemberState], [GroupMembersState], [create],
    [add], [remove], [modify], [promote], [demote], [merge]).  Definitions only.

    Rust                                            Gallina
    ----------------------------------------------  ------------------------------------------
    enum AccessLevel (derived Ord)                  [AccessLevel], [level_cmp]
    struct Access<C> {conditions: Option<C>, level} [Access C]
    impl PartialOrd for Access<C>::partial_cmp      [access_partial_cmp ccmp]   (line by line)
    `a < b` on Access (default [PartialOrd::lt])    [access_lt ccmp a b] = (partial_cmp = Some Lt)
    derived PartialEq on Access (`!=` in modify)    [access_eqb ceqb]
    struct MemberState<C>                           [MemberState C]
    GroupMembersState { members: HashMap<ID, _> }   [State C] = association list, read through
                                                    [lookup]; written through [set]
    MemberState::is_member / is_manager / is_puller [is_member] (odd counter) / [is_manager] / [is_puller]
    state::create / add / remove / modify           [create] / [add] / [remove] / [modify]
    state::promote / demote                         [promote] / [demote]
    state::merge                                    [merge_member_with], [merge_with lt], [merge ccmp]

    The condition type [C], its equality [ceqb] (Rust: [PartialEq]) and its comparison
    [ccmp : C -> C -> option comparison] (Rust: [PartialOrd::partial_cmp]) are parameters.
    [merge_with] takes the "less than" used for the access tie-break as a parameter so that the
    algebraic theorems can be stated for an arbitrary order; [merge] instantiates it with the
    real [access_lt].

    Modelled, not verified:
    - [HashMap<ID, MemberState>] is an association list with at most one entry per key
      ([wf] in Proofs/GroupState.v); all theorems are stated through [lookup].  [merge] iterates
      [state_1.members] in HashMap order: the model iterates the list order, and the lookup
      characterisation ([lookup_merge]) shows the order is irrelevant.
    - counters are [usize]; the model uses unbounded [N] (an overflow needs 2^64 operations on one
      member).
    - member ids are [N] (the code is generic in [ID: Eq + Hash]).
    - error values carry the offending id in Rust; the model keeps the variant only. *)
From Coq Require Import List Arith NArith Bool.
Import ListNotations.

(** * access.rs *)

Inductive AccessLevel := Pull | Read | Write | Manage.

Definition level_N (l : AccessLevel) : N :=
  match l with Pull => 0 | Read => 1 | Write => 2 | Manage => 3 end%N.

(** derived [Ord] on the enum = order of declaration *)
Definition level_cmp (a b : AccessLevel) : comparison := N.compare (level_N a) (level_N b).
Definition level_eqb (a b : AccessLevel) : bool := N.eqb (level_N a) (level_N b).

Record Access (C : Type) := mkAccess { conditions : option C; level : AccessLevel }.
Arguments mkAccess {C} _ _.
Arguments conditions {C} _.
Arguments level {C} _.

Definition is_manage {C} (a : Access C) : bool := level_eqb (level a) Manage.
Definition is_pull {C} (a : Access C) : bool := level_eqb (level a) Pull.

Section Access.
  Context {C : Type}.
  Variable ceqb : C -> C -> bool.
  Variable ccmp : C -> C -> option comparison.

  (** [impl PartialOrd for Access<C>], access.rs:120-145 *)
  Definition access_partial_cmp (a b : Access C) : option comparison :=
    match conditions a, conditions b with
    | Some ca, Some cb =>
        match ccmp ca cb with
        | Some Gt | Some Eq =>
            match level_cmp (level a) (level b) with
            | Lt => Some Lt
            | Eq | Gt => Some Gt
            end
        | Some Lt => Some Lt
        | None => None
        end
    | None, Some _ =>
        match level_cmp (level a) (level b) with
        | Lt => Some Lt
        | Eq | Gt => Some Gt
        end
    | _, _ => Some (level_cmp (level a) (level b))
    end.

  (** [a < b] *)
  Definition access_lt (a b : Access C) : bool :=
    match access_partial_cmp a b with Some Lt => true | _ => false end.

  (** derived [PartialEq] *)
  Definition access_eqb (a b : Access C) : bool :=
    match conditions a, conditions b with
    | Some x, Some y => ceqb x y
    | None, None => true
    | _, _ => false
    end && level_eqb (level a) (level b).
End Access.

(** * state.rs *)

Record MemberState (C : Type) := mkMember {
  member_counter : N;
  access : Access C;
  access_counter : N
}.
Arguments mkMember {C} _ _ _.
Arguments member_counter {C} _.
Arguments access {C} _.
Arguments access_counter {C} _.

Definition State (C : Type) := list (N * MemberState C).

Inductive MembershipError :=
  | AlreadyAdded | AlreadyRemoved | InsufficientAccess | InactiveActor | InactiveMember
  | UnrecognisedActor | UnrecognisedMember.

Inductive result (A : Type) := Ok (a : A) | Err (e : MembershipError).
Arguments Ok {A} _.
Arguments Err {A} _.

Section State.
  Context {C : Type}.
  Variable ceqb : C -> C -> bool.
  Variable ccmp : C -> C -> option comparison.

  Definition is_member (m : MemberState C) : bool := N.odd (member_counter m).
  Definition is_manager (m : MemberState C) : bool := is_manage (access m).
  Definition is_puller (m : MemberState C) : bool := is_pull (access m).

  Fixpoint lookup (id : N) (s : State C) : option (MemberState C) :=
    match s with
    | [] => None
    | (k, m) :: r => if N.eqb id k then Some m else lookup id r
    end.

  Fixpoint remove_key (id : N) (s : State C) : State C :=
    match s with
    | [] => []
    | (k, m) :: r => if N.eqb id k then remove_key id r else (k, m) :: remove_key id r
    end.

  (** [HashMap::insert] / [entry(..).and_modify(..).or_insert(..)] *)
  Definition set (id : N) (m : MemberState C) (s : State C) : State C := (id, m) :: remove_key id s.

  Definition keys (s : State C) : list N := map fst s.

  (** [GroupMembersState::members] / [managers] (as predicates on ids) *)
  Definition is_active (s : State C) (id : N) : bool :=
    match lookup id s with Some m => is_member m | None => false end.
  Definition is_active_manager (s : State C) (id : N) : bool :=
    match lookup id s with Some m => is_member m && is_manager m | None => false end.

  (** state.rs:165 [create] *)
  Definition create (initial : list (N * Access C)) : State C :=
    fold_left (fun acc ia => set (fst ia) (mkMember 1 (snd ia) 0) acc) initial [].

  (** state.rs:188 [add] *)
  Definition add (s : State C) (adder added : N) (a : Access C) : result (State C) :=
    match lookup adder s with
    | None => Err UnrecognisedActor
    | Some st =>
        if negb (is_member st) then Err InactiveActor
        else if negb (is_manager st) then Err InsufficientAccess
        else
          match lookup added s with
          | Some ad =>
              if is_member ad then Err AlreadyAdded
              else Ok (set added (mkMember (member_counter ad + 1) a 0) s)
          | None => Ok (set added (mkMember 1 a 0) s)
          end
    end.

  (** state.rs:240 [remove] *)
  Definition remove (s : State C) (remover removed : N) : result (State C) :=
    match lookup remover s with
    | None => Err UnrecognisedActor
    | Some st =>
        if negb (is_member st) then Err InactiveActor
        else if negb (is_manager st) && negb (N.eqb remover removed) then Err InsufficientAccess
        else
          match lookup removed s with
          | None => Err UnrecognisedMember
          | Some rm =>
              if negb (is_member rm) then Err AlreadyRemoved
              else Ok (set removed (mkMember (member_counter rm + 1) (access rm) 0) s)
          end
    end.

  (** state.rs:288 [modify] *)
  Definition modify (s : State C) (modifier modified : N) (a : Access C) : result (State C) :=
    match lookup modifier s with
    | None => Err UnrecognisedActor
    | Some st =>
        if negb (is_member st) then Err InactiveActor
        else if negb (is_manager st) then Err InsufficientAccess
        else
          match lookup modified s with
          | None => Err UnrecognisedMember
          | Some md =>
              if negb (is_member md) then Err InactiveMember
              else if access_eqb ceqb (access md) a then Ok s
              else Ok (set modified (mkMember (member_counter md) a (access_counter md + 1)) s)
          end
    end.

  (** the three actor checks of [modify], used by [promote]/[demote] on their no-op path
      (state.rs [check_manager], added by "fix: check the actor's authority before the no-op
      shortcut of promote/demote") *)
  Definition check_manager (s : State C) (actor : N) : option MembershipError :=
    match lookup actor s with
    | None => Some UnrecognisedActor
    | Some st =>
        if negb (is_member st) then Some InactiveActor
        else if negb (is_manager st) then Some InsufficientAccess
        else None
    end.

  (** state.rs [promote] *)
  Definition promote (s : State C) (promoter promoted : N) (a : Access C) : result (State C) :=
    match lookup promoted s with
    | Some m =>
        if is_manager m
        then match check_manager s promoter with Some e => Err e | None => Ok s end
        else modify s promoter promoted a
    | None => Err UnrecognisedMember
    end.

  (** state.rs [demote] *)
  Definition demote (s : State C) (demoter demoted : N) (a : Access C) : result (State C) :=
    match lookup demoted s with
    | Some m =>
        if is_puller m
        then match check_manager s demoter with Some e => Err e | None => Ok s end
        else modify s demoter demoted a
    | None => Err UnrecognisedMember
    end.

  (** state.rs:393 [merge], the body of the loop for a member present in both states.
      [m1] is the entry of [state_1], [ms] the entry of [next_state] (a clone of [state_2]),
      updated by the three consecutive [if]s exactly as in the code. *)
  Definition merge_member_with (lt : Access C -> Access C -> bool) (m1 ms : MemberState C) : MemberState C :=
    let ms1 := if N.ltb (member_counter ms) (member_counter m1) then m1 else ms in
    if N.eqb (member_counter m1) (member_counter ms1) then
      let ms2 :=
        if N.ltb (access_counter ms1) (access_counter m1)
        then mkMember (member_counter ms1) (access m1) (access_counter m1)
        else ms1 in
      if N.eqb (access_counter m1) (access_counter ms2) && lt (access m1) (access ms2)
      then mkMember (member_counter ms2) (access m1) (access_counter ms2)
      else ms2
    else ms1.

  Definition merge_with (lt : Access C -> Access C -> bool) (s1 s2 : State C) : State C :=
    fold_left
      (fun acc km =>
         match lookup (fst km) acc with
         | Some ms => set (fst km) (merge_member_with lt (snd km) ms) acc
         | None => set (fst km) (snd km) acc
         end)
      s1 s2.

  (** the real merge: tie-break with [Access]'s own [<] *)
  Definition merge (s1 s2 : State C) : State C := merge_with (access_lt ccmp) s1 s2.
End State.

(** Conditions used by the correspondence harness: a totally ordered [u64] newtype with derived
    [PartialEq]/[PartialOrd]. *)
Definition ncmp (a b : N) : option comparison := Some (N.compare a b).
Definition NAccess := Access N.
Definition NState := State N.
Definition merge_N (s1 s2 : NState) : NState := merge ncmp s1 s2.
