(** Model of p2panda/src/streams/sync_metrics.rs [Aggregator] (the per-topic sync metrics).

    Rust                                         here
    ----                                         ----
    p2panda_sync::protocols::Metrics             [metrics] (12 u32 counters)
    Metrics::{sent,received}_{bytes,operations}  [sent_bytes] ... ([addc]: u32 addition)
    TopicLogSyncEvent                            [ev] (the operation carried by
                                                 OperationReceived is irrelevant to the
                                                 aggregator and dropped)
    Aggregator { running_sessions, total_bytes_sent, total_bytes_received,
                 session_metrics : HashMap, live_mode : HashSet }
                                                 [agg] (association list / list, accessed only
                                                 through [lookup] / [memN])
    Aggregator::process                          [process fixed]; the [Option<SyncEvent>] it
                                                 returns is [out]
    Aggregator::handle_session_end               [session_end]

    [fixed = true] is the code after the repair "fix: count only the live part of a session at
    SessionFinished" (the sync part was already added at SyncFinished); [fixed = false] is the
    code before it (kept for the regression lemma [asis_double_counts]).

    Numbers: the counters are u32.  The harness is a debug-profile build (overflow checks on), so
    an addition that exceeds 2^32-1 panics: [addc] returns [None] and so does [process]
    ("the call panicked").  [saturating_sub] is [N.pred] (truncated at 0).

    Modelled, not verified: HashMap/HashSet behave as finite maps/sets; the u32 arithmetic of a
    release build (wrapping) is not modelled.  The sequence of events a real sync session emits
    (which [wf_session] describes) is the subject of C22, not of this model. *)
From Coq Require Import List NArith Bool.
Import ListNotations.
Local Open Scope N_scope.

Record metrics := {
  outbound_sync_bytes : N; outbound_sync_ops : N; inbound_sync_bytes : N; inbound_sync_ops : N;
  sent_sync_bytes : N; sent_sync_ops : N; received_sync_bytes : N; received_sync_ops : N;
  sent_live_bytes : N; sent_live_ops : N; received_live_bytes : N; received_live_ops : N }.

Definition metrics_default : metrics := Build_metrics 0 0 0 0 0 0 0 0 0 0 0 0.

Definition u32_max_plus_1 : N := 4294967296.

(** u32 addition of a debug build: [None] = "attempt to add with overflow". *)
Definition addc (a b : N) : option N := if a + b <? u32_max_plus_1 then Some (a + b) else None.

Definition sent_bytes (m : metrics) := addc (sent_sync_bytes m) (sent_live_bytes m).
Definition received_bytes (m : metrics) := addc (received_sync_bytes m) (received_live_bytes m).
Definition sent_operations (m : metrics) := addc (sent_sync_ops m) (sent_live_ops m).
Definition received_operations (m : metrics) := addc (received_sync_ops m) (received_live_ops m).

Inductive ev :=
| SessionStarted
| SyncStarted (m : metrics)
| OperationReceived (m : metrics)
| SyncFinished (m : metrics)
| SessionFinished (m : metrics)
| Failed
| LiveModeStarted.

(** [Option<SyncEvent>] flattened to the numbers it carries. *)
Inductive out :=
| ONone
| OSyncStarted (incoming_ops outgoing_ops incoming_bytes outgoing_bytes topic_sessions : N)
| OSyncEnded (sent_ops recv_ops sent_b recv_b sent_total recv_total : N) (failed : bool)
| OOperation (sent_ops recv_ops sent_b recv_b sent_total recv_total : N) (live : bool).

Record agg := {
  running : N; total_sent : N; total_recv : N;
  session_metrics : list (N * metrics);
  live_mode : list N }.

Definition agg_new : agg := Build_agg 0 0 0 [] [].

Fixpoint lookup (k : N) (l : list (N * metrics)) : option metrics :=
  match l with
  | [] => None
  | (k', v) :: r => if N.eqb k k' then Some v else lookup k r
  end.
Definition remove (k : N) (l : list (N * metrics)) := filter (fun p => negb (N.eqb k (fst p))) l.
Definition insert (k : N) (v : metrics) (l : list (N * metrics)) := (k, v) :: remove k l.
Definition memN (k : N) (l : list N) : bool := existsb (N.eqb k) l.
Definition set_add (k : N) (l : list N) := if memN k l then l else k :: l.
Definition set_remove (k : N) (l : list N) := filter (fun x => negb (N.eqb k x)) l.

Definition bind {A B} (o : option A) (f : A -> option B) : option B :=
  match o with Some a => f a | None => None end.
Notation "x <- e ;; k" := (bind e (fun x => k)) (at level 61, e at next level, right associativity).

(** [handle_session_end]: returns the new state and the session's last stored metrics. *)
Definition session_end (a : agg) (sid : N) : agg * metrics :=
  ({| running := N.pred (running a); total_sent := total_sent a; total_recv := total_recv a;
      session_metrics := remove sid (session_metrics a);
      live_mode := set_remove sid (live_mode a) |},
   match lookup sid (session_metrics a) with Some m => m | None => metrics_default end).

Definition with_metrics (a : agg) (sid : N) (m : metrics) : agg :=
  {| running := running a; total_sent := total_sent a; total_recv := total_recv a;
     session_metrics := insert sid m (session_metrics a); live_mode := live_mode a |}.

Definition with_totals (a : agg) (s r : N) : agg :=
  {| running := running a; total_sent := s; total_recv := r;
     session_metrics := session_metrics a; live_mode := live_mode a |}.

(** [Aggregator::process].  [None] = the call panicked on a u32 overflow. *)
Definition process (fixed : bool) (a : agg) (sid : N) (e : ev) : option (agg * out) :=
  match e with
  | SessionStarted =>
      r <- addc (running a) 1 ;;
      Some ({| running := r; total_sent := total_sent a; total_recv := total_recv a;
               session_metrics := insert sid metrics_default (session_metrics a);
               live_mode := live_mode a |}, ONone)
  | SyncStarted m =>
      Some (with_metrics a sid m,
            OSyncStarted (inbound_sync_ops m) (outbound_sync_ops m) (inbound_sync_bytes m)
                         (outbound_sync_bytes m) (running a))
  | OperationReceived m =>
      let a1 := with_metrics a sid m in
      sb <- sent_bytes m ;; rb <- received_bytes m ;;
      so <- sent_operations m ;; ro <- received_operations m ;;
      Some (a1, OOperation so ro sb rb (total_sent a) (total_recv a) (memN sid (live_mode a)))
  | SyncFinished m =>
      let a1 := with_metrics a sid m in
      sb <- sent_bytes m ;; ts <- addc (total_sent a1) sb ;;
      rb <- received_bytes m ;; tr <- addc (total_recv a1) rb ;;
      so <- sent_operations m ;; ro <- received_operations m ;;
      Some (with_totals a1 ts tr, OSyncEnded so ro sb rb ts tr false)
  | SessionFinished m =>
      let a1 := fst (session_end a sid) in
      if fixed then
        ts <- addc (total_sent a1) (sent_live_bytes m) ;;
        tr <- addc (total_recv a1) (received_live_bytes m) ;;
        Some (with_totals a1 ts tr, ONone)
      else
        sb <- sent_bytes m ;; ts <- addc (total_sent a1) sb ;;
        rb <- received_bytes m ;; tr <- addc (total_recv a1) rb ;;
        Some (with_totals a1 ts tr, ONone)
  | Failed =>
      let '(a1, m) := session_end a sid in
      sb <- sent_bytes m ;; rb <- received_bytes m ;;
      so <- sent_operations m ;; ro <- received_operations m ;;
      Some (a1, OSyncEnded so ro sb rb (total_sent a1) (total_recv a1) true)
  | LiveModeStarted =>
      Some ({| running := running a; total_sent := total_sent a; total_recv := total_recv a;
               session_metrics := session_metrics a; live_mode := set_add sid (live_mode a) |},
            ONone)
  end.

(** Process a whole history; the observation after each event is
    (running, total_sent, total_recv, returned event); a panic ends the run ([None] entry). *)
Definition obs := (N * N * N * out)%type.

Fixpoint run (fixed : bool) (a : agg) (evs : list (N * ev)) : list (option obs) * option agg :=
  match evs with
  | [] => ([], Some a)
  | (sid, e) :: r =>
      match process fixed a sid e with
      | None => ([None], None)
      | Some (a1, o) =>
          let '(os, fin) := run fixed a1 r in
          (Some (running a1, total_sent a1, total_recv a1, o) :: os, fin)
      end
  end.

(** Final state only. *)
Fixpoint run_state (fixed : bool) (a : agg) (evs : list (N * ev)) : option agg :=
  match evs with
  | [] => Some a
  | (sid, e) :: r => match process fixed a sid e with
                     | None => None
                     | Some (a1, _) => run_state fixed a1 r
                     end
  end.

(** * Specification side *)

(** Projection of a history on one session. *)
Definition proj (sid : N) (evs : list (N * ev)) : list ev :=
  map snd (filter (fun p => N.eqb sid (fst p)) evs).

(** Session life cycle as the sync layer documents it (topic_log_sync.rs, [TopicLogSyncEvent]):
    [SessionStarted]? SyncStarted OperationReceived* ( Failed
      | SyncFinished ( SessionFinished | LiveModeStarted OperationReceived* (SessionFinished | Failed) | Failed )).
    The automaton is prefix closed (every state accepts), so a history cut anywhere is still
    well formed.  [PSynced m] remembers the metrics reported by SyncFinished: later events of
    the session carry the same sync figures ([same_sync]); SyncFinished itself has no live
    traffic yet ([no_live]). *)
Inductive phase :=
| PInit | PStarted | PSyncing | PSynced (m : metrics) | PLive (m : metrics) | PFinished (m : metrics) | PFailed (synced : option metrics).

Definition no_live (m : metrics) : bool :=
  N.eqb (sent_live_bytes m) 0 && N.eqb (received_live_bytes m) 0
  && N.eqb (sent_live_ops m) 0 && N.eqb (received_live_ops m) 0.
Definition same_sync (m0 m : metrics) : bool :=
  N.eqb (sent_sync_bytes m0) (sent_sync_bytes m) && N.eqb (received_sync_bytes m0) (received_sync_bytes m).
Definition fits (m : metrics) : bool :=
  (sent_sync_bytes m + sent_live_bytes m <? u32_max_plus_1)
  && (received_sync_bytes m + received_live_bytes m <? u32_max_plus_1)
  && (sent_sync_ops m + sent_live_ops m <? u32_max_plus_1)
  && (received_sync_ops m + received_live_ops m <? u32_max_plus_1).

Definition ev_fits (e : ev) : bool :=
  match e with
  | SyncStarted m | OperationReceived m | SyncFinished m | SessionFinished m => fits m
  | _ => true
  end.
(** Every metrics record of the history has per-session sums within u32 (a session that moved
    4 GiB is outside the guard). *)
Definition all_fit (evs : list (N * ev)) : bool := forallb (fun p => ev_fits (snd p)) evs.

(** [need_start]: whether a session has to open with SessionStarted (the documented life cycle)
    or may open directly with SyncStarted (what the sync layer emits today, see C22). *)
Definition phase_step (need_start : bool) (p : phase) (e : ev) : option phase :=
  match p, e with
  | PInit, SessionStarted => Some PStarted
  | PInit, SyncStarted m => if need_start then None else Some PSyncing
  | PStarted, SyncStarted m => Some PSyncing
  | PStarted, Failed => Some (PFailed None)
  | PSyncing, OperationReceived m => if no_live m then Some PSyncing else None
  | PSyncing, SyncFinished m => if no_live m then Some (PSynced m) else None
  | PSyncing, Failed => Some (PFailed None)
  | PSynced m0, SessionFinished m => if same_sync m0 m && no_live m then Some (PFinished m) else None
  | PSynced m0, LiveModeStarted => Some (PLive m0)
  | PSynced m0, Failed => Some (PFailed (Some m0))
  | PLive m0, OperationReceived m => if same_sync m0 m then Some (PLive m0) else None
  | PLive m0, SessionFinished m => if same_sync m0 m then Some (PFinished m) else None
  | PLive m0, Failed => Some (PFailed (Some m0))
  | _, _ => None
  end.

Fixpoint phase_run (need_start : bool) (p : phase) (l : list ev) : option phase :=
  match l with
  | [] => Some p
  | e :: r => match phase_step need_start p e with Some p1 => phase_run need_start p1 r | None => None end
  end.

Definition wf_session (need_start : bool) (l : list ev) : bool :=
  match phase_run need_start PInit l with Some _ => true | None => false end.

(** Bytes a session has contributed to the topic totals, as the property defines them: a
    finished session its final figure (sync + live); a session past its sync phase (live, or
    failed later) the sync figure, which is all the aggregator was ever told for certain; a
    session that never completed its sync phase nothing. *)
Definition contrib_phase (f g : metrics -> N) (p : phase) : N :=
  match p with
  | PFinished m => f m + g m
  | PSynced m | PLive m | PFailed (Some m) => f m
  | _ => 0
  end.
Definition contrib (f g : metrics -> N) (need_start : bool) (l : list ev) : N :=
  match phase_run need_start PInit l with Some p => contrib_phase f g p | None => 0 end.
Definition contrib_sent := contrib sent_sync_bytes sent_live_bytes.
Definition contrib_recv := contrib received_sync_bytes received_live_bytes.

Definition is_start (e : ev) : bool := match e with SessionStarted => true | _ => false end.
Definition is_end (e : ev) : bool := match e with SessionFinished _ | Failed => true | _ => false end.
Definition count (f : ev -> bool) (evs : list (N * ev)) : N :=
  N.of_nat (List.length (filter (fun p => f (snd p)) evs)).

(** Distinct session ids of a history, in order of first appearance. *)
Fixpoint sids (evs : list (N * ev)) : list N :=
  match evs with
  | [] => []
  | (s, _) :: r => s :: filter (fun x => negb (N.eqb s x)) (sids r)
  end.

Definition sumN (l : list N) : N := fold_right N.add 0 l.

Definition spec_sent (need_start : bool) (evs : list (N * ev)) : N :=
  sumN (map (fun s => contrib_sent need_start (proj s evs)) (sids evs)).
Definition spec_recv (need_start : bool) (evs : list (N * ev)) : N :=
  sumN (map (fun s => contrib_recv need_start (proj s evs)) (sids evs)).

Definition wf_history (need_start : bool) (evs : list (N * ev)) : bool :=
  forallb (fun s => wf_session need_start (proj s evs)) (sids evs).
