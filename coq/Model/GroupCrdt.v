(** Model of the p2panda-auth group CRDT as far as property C31 (replica convergence) needs it.
    Definitions only; proofs are in Proofs/GroupCrdt.v.  This file carries its own copy of the
    access / member-state / merge definitions (C32/C33 use a separate file, Model/GroupState.v).

    Rust                                                   | here
    -------------------------------------------------------+---------------------------------------
    access.rs  AccessLevel, Access<C>{conditions, level}   | [level], [access] (conditions: option N)
    access.rs  impl PartialOrd for Access<C>::partial_cmp  | [acc_cmp] (exact transcription, the
               `<`, `<=` derived from it                   |   condition type C is the harness' total
                                                           |   order on numbers), [acc_lt], [acc_le]
    group/member.rs GroupMember::{Individual,Group}(id)    | [member] = (is_group, id)
    crdt/state.rs MemberState{member_counter,access,..}    | [mstate]
    crdt/state.rs GroupMembersState + crdt/mod.rs          | [gstate]: ONE association list keyed by
               GroupStates = HashMap<ID, GroupMembersState>|   (group id, member)  (flattened two-level
                                                           |   map, see "modelled, not verified")
    crdt/state.rs create/add/remove/modify/promote/demote  | [st_create] [st_add] [st_remove] [st_modify]
                                                           |   [st_promote] [st_demote]  (None = Err)
    crdt/state.rs merge (per member, sequential ifs)       | [combine]
    crdt/mod.rs  merge_states inner loop (+ state::merge)  | [gmerge s1 s2]  (s1 = incoming, s2 = current)
    crdt/mod.rs  merge_states / state_at                   | [merge_list], [state_at]; the HashSet
                                                           |   iteration order is the order of the list
    crdt/mod.rs  apply_action                              | [apply_action] ([ign] = id is in `ignore`)
    crdt/mod.rs  GroupCrdt::process (validate +            | [step]  -- the path WITHOUT a StrongRemove
               add_operation + state_at + apply_action)    |   filter (ignore = mutual_removes = {})
    crdt/mod.rs  heads / current_state                     | [heads], [current]
    crdt/mod.rs  members_inner / traverse_members /members | [minner], [traverse], [members]
    crdt/mod.rs  GroupCrdtState::root_members              | [root_members]
    graph.rs     predecessors / is_concurrent              | [past], [concurrent]
    resolver.rs  StrongRemove::compute_filter              | [ignored]  (executable transcription,
               (is_removed / is_readd rules)               |   corresponded, nothing proved about it)
    resolver.rs  StrongRemove::process + apply_operation   | [resolve_states]: per-operation state over
                                                           |   a fixed operation set with that filter
    crdt/mod.rs  would_create_cycle (DFS over the nested   | [would_create_cycle] (stack + visited set,
               groups of the state at the dependencies)    |   fuelled), [cycle_prone] (static: the
                                                           |   history's "group added to group" edges
                                                           |   contain a cycle, self-add included)
    resolver.rs  mutual removes (authority_graphs.rs)      | NOT modelled: [mutual_possible] recognises
                                                           |   (conservatively) histories that could
                                                           |   contain a mutual-remove cycle

    Modelled, not verified:
    - HashMap/HashSet = association list with first-match lookup; wherever the Rust code iterates
      one (merge_states over the dependency set, state::merge over members, members_inner over
      access_levels()) the model iterates the list in list order, and the theorems quantify over
      permutations of these lists.
    - GroupStates is flattened to one map keyed by (group, member): a group that exists with an
      empty member map is not distinguished from an absent group.  The difference is observable
      only through `has_group` and through the `expect("group already present")` panic for an
      operation on a never-created group; the generators never produce such operations.
    - `validate` rebuilds the state at the operation's dependencies with RS::process on a pruned
      graph; [step] uses the stored per-operation states instead (equal when the StrongRemove
      filter is empty, which is what [plain_history] recognises).  Nested-group cycle rejection
      ([would_create_cycle], evaluated on the state AT THE OPERATION'S DEPENDENCIES as `validate`
      does after its prune-and-rebuild step) is part of the transcription [accept_r]/[run_r] only;
      the proved model [step]/[run] has no such check and is used only for histories whose static
      nesting graph is acyclic ([cycle_prone] = false), where the check can never fire.
      MAX_NESTED_DEPTH = 1000 is the fuel of [minner].
    - usize counters are unbounded [N] (they count operations of one history). *)
From Coq Require Import List NArith Bool.
From PV Require Import Lib.AListC31.
Import ListNotations.

(** * Access *)
Inductive level := Pull | Read | Write | Manage.

Definition lvl_n (l : level) : N :=
  match l with Pull => 0 | Read => 1 | Write => 2 | Manage => 3 end%N.

Record access := { cond : option N; lvl : level }.

Definition lvl_cmp (a b : access) : comparison := N.compare (lvl_n (lvl a)) (lvl_n (lvl b)).

(** [impl PartialOrd for Access<C>]. *)
Definition acc_cmp (a b : access) : option comparison :=
  match cond a, cond b with
  | Some ca, Some cb =>
      match N.compare ca cb with
      | Lt => Some Lt
      | _ => match lvl_cmp a b with Lt => Some Lt | _ => Some Gt end
      end
  | None, Some _ => match lvl_cmp a b with Lt => Some Lt | _ => Some Gt end
  | _, _ => Some (lvl_cmp a b)
  end.

Definition acc_lt (a b : access) : bool :=
  match acc_cmp a b with Some Lt => true | _ => false end.
Definition acc_le (a b : access) : bool :=
  match acc_cmp a b with Some Lt | Some Eq => true | _ => false end.

Definition ocond_eqb (a b : option N) : bool :=
  match a, b with
  | None, None => true
  | Some x, Some y => N.eqb x y
  | _, _ => false
  end.
(** derived [PartialEq] of [Access]. *)
Definition acc_eqb (a b : access) : bool :=
  ocond_eqb (cond a) (cond b) && N.eqb (lvl_n (lvl a)) (lvl_n (lvl b)).

Definition is_manage (a : access) : bool := match lvl a with Manage => true | _ => false end.
Definition is_pull (a : access) : bool := match lvl a with Pull => true | _ => false end.

(** * Members, keys, member state *)
Definition member := (bool * N)%type.           (* (is_group, id) *)
Definition key := (N * member)%type.            (* (group id, member) *)

Definition member_eqb (a b : member) : bool := Bool.eqb (fst a) (fst b) && N.eqb (snd a) (snd b).
Definition key_eqb (a b : key) : bool := N.eqb (fst a) (fst b) && member_eqb (snd a) (snd b).

Record mstate := { mc : N; acc : access; ac : N }.

Definition is_member (v : mstate) : bool := N.odd (mc v).
Definition is_manager (v : mstate) : bool := is_manage (acc v).

Definition gstate := list (key * mstate).
Definition glookup (k : key) (s : gstate) : option mstate := lookup key_eqb k s.
Definition gset (k : key) (v : mstate) (s : gstate) : gstate := set key_eqb k v s.

(** * state.rs *)

(** [merge], one member present on both sides: [v1] comes from [state_1], [v2] is the entry
    already in [next_state] (a clone of [state_2]). *)
Definition combine (v1 v2 : mstate) : mstate :=
  let v := if N.ltb (mc v2) (mc v1) then {| mc := mc v1; acc := acc v1; ac := ac v1 |} else v2 in
  if N.eqb (mc v1) (mc v) then
    let v' := if N.ltb (ac v) (ac v1) then {| mc := mc v; acc := acc v1; ac := ac v1 |} else v in
    if N.eqb (ac v1) (ac v') && acc_lt (acc v1) (acc v')
    then {| mc := mc v'; acc := acc v1; ac := ac v' |}
    else v'
  else v.

(** [merge_states]' inner loop together with [state::merge] on the flattened map. *)
Definition gmerge (s1 s2 : gstate) : gstate :=
  fold_left (fun cur e =>
               match glookup (fst e) cur with
               | Some v2 => gset (fst e) (combine (snd e) v2) cur
               | None => gset (fst e) (snd e) cur
               end) s1 s2.

Definition clear_group (g : N) (s : gstate) : gstate :=
  filter (fun e => negb (N.eqb (fst (fst e)) g)) s.

Definition st_create (g : N) (init : list (member * access)) (s : gstate) : gstate :=
  fold_left (fun cur e => gset (g, fst e) {| mc := 1; acc := snd e; ac := 0 |} cur) init (clear_group g s).

(** The authority check shared by add / modify: the actor is a known, active manager. *)
Definition actor_manages (s : gstate) (g : N) (actor : member) : bool :=
  match glookup (g, actor) s with
  | Some a => is_member a && is_manager a
  | None => false
  end.

Definition st_add (s : gstate) (g : N) (adder added : member) (a : access) : option gstate :=
  if negb (actor_manages s g adder) then None else
  match glookup (g, added) s with
  | Some v => if is_member v then None
              else Some (gset (g, added) {| mc := mc v + 1; acc := a; ac := 0 |} s)
  | None => Some (gset (g, added) {| mc := 1; acc := a; ac := 0 |} s)
  end.

Definition st_remove (s : gstate) (g : N) (remover removed : member) : option gstate :=
  match glookup (g, remover) s with
  | None => None
  | Some r =>
      if negb (is_member r) then None
      else if negb (is_manager r) && negb (member_eqb remover removed) then None
      else match glookup (g, removed) s with
           | None => None
           | Some v => if negb (is_member v) then None
                       else Some (gset (g, removed) {| mc := mc v + 1; acc := acc v; ac := 0 |} s)
           end
  end.

Definition st_modify (s : gstate) (g : N) (modifier modified : member) (a : access) : option gstate :=
  if negb (actor_manages s g modifier) then None else
  match glookup (g, modified) s with
  | None => None
  | Some v => if negb (is_member v) then None
              else if acc_eqb (acc v) a then Some s
              else Some (gset (g, modified) {| mc := mc v; acc := a; ac := ac v + 1 |} s)
  end.

Definition st_promote (s : gstate) (g : N) (p m : member) (a : access) : option gstate :=
  match glookup (g, m) s with
  | Some v => if is_manager v
              then (if actor_manages s g p then Some s else None)   (* check_manager, fix df644db *)
              else st_modify s g p m a
  | None => None
  end.

Definition st_demote (s : gstate) (g : N) (p m : member) (a : access) : option gstate :=
  match glookup (g, m) s with
  | Some v => if is_pull (acc v)
              then (if actor_manages s g p then Some s else None)   (* check_manager, fix df644db *)
              else st_modify s g p m a
  | None => None
  end.

(** * Operations *)
Inductive action :=
| Create (init : list (member * access))
| Add (m : member) (a : access)
| Remove (m : member)
| Promote (m : member) (a : access)
| Demote (m : member) (a : access).

Record op := { oid : N; author : N; group : N; act : action; deps : list N }.

Inductive result := ROk | RErr | RFiltered.

(** [apply_action]; [ign] says whether the operation id is in the `ignore` filter. *)
Definition apply_action (s : gstate) (o : op) (ign : bool) : gstate * result :=
  let g := group o in
  let actor : member := (false, author o) in
  if ign then
    ((match act o with Create _ => clear_group g s | _ => s end), RFiltered)
  else
    match act o with
    | Create init => (st_create g init s, ROk)
    | Add m a => match st_add s g actor m a with Some s' => (s', ROk) | None => (s, RErr) end
    | Remove m => match st_remove s g actor m with Some s' => (s', ROk) | None => (s, RErr) end
    | Promote m a => match st_promote s g actor m a with Some s' => (s', ROk) | None => (s, RErr) end
    | Demote m a => match st_demote s g actor m a with Some s' => (s', ROk) | None => (s, RErr) end
    end.

(** * crdt/mod.rs: per-operation states, process *)
Definition sts := list (N * gstate).
Definition sget (i : N) (S : sts) : option gstate := lookup N.eqb i S.

Fixpoint dep_states (S : sts) (ds : list N) : option (list gstate) :=
  match ds with
  | [] => Some []
  | d :: r => match sget d S, dep_states S r with
              | Some s, Some l => Some (s :: l)
              | _, _ => None
              end
  end.

(** [merge_states]: start from the empty map, fold the states in iteration order. *)
Definition merge_list (l : list gstate) : gstate := fold_left (fun cur s => gmerge s cur) l [].

Definition state_at (S : sts) (ds : list N) : option gstate := option_map merge_list (dep_states S ds).

(** validate: "adding a group as a manager is not supported". *)
Definition manager_group (o : op) : bool :=
  match act o with
  | Add m a | Promote m a => fst m && is_manage a
  | _ => false
  end.

Record replica := { r_ops : list op;      (* accepted operations, in processing order *)
                    r_sts : sts }.
Definition init : replica := {| r_ops := []; r_sts := [] |}.

(** [GroupCrdt::process] when the StrongRemove filter is empty: reject duplicates, manager
    groups and actions that do not apply to the state at the dependencies; otherwise record the
    new state under the operation id.  A rejected operation leaves the replica unchanged (the
    caller keeps its previous [y]); an operation one of whose dependencies was never accepted is
    not processable and is skipped the same way. *)
Definition step (y : replica) (o : op) : replica :=
  match sget (oid o) (r_sts y) with
  | Some _ => y
  | None =>
      if manager_group o then y else
      match state_at (r_sts y) (deps o) with
      | None => y
      | Some s =>
          match apply_action s o false with
          | (s', ROk) => {| r_ops := r_ops y ++ [o]; r_sts := (oid o, s') :: r_sts y |}
          | _ => y
          end
      end
  end.

Definition run (l : list op) : replica := fold_left step l init.

Definition memN (x : N) (l : list N) : bool := existsb (N.eqb x) l.

(** Graph tips: accepted operations no accepted operation depends on. *)
Definition heads_of (ops : list op) : list N :=
  map oid (filter (fun o => negb (existsb (fun o' => memN (oid o) (deps o')) ops)) ops).

Definition current_of (ops : list op) (S : sts) : gstate :=
  match state_at S (heads_of ops) with Some s => s | None => [] end.

Definition current (y : replica) : gstate := current_of (r_ops y) (r_sts y).

(** * Queries *)

(** [GroupMembersState::access_levels] of group [g]: active members with their access. *)
Definition entries_of (s : gstate) (g : N) : list (member * access) :=
  map (fun e => (snd (fst e), acc (snd e)))
      (filter (fun e => N.eqb (fst (fst e)) g && is_member (snd e)) s).

Definition mlookup (m : member) (l : list (member * access)) : option access := lookup member_eqb m l.

(** the root-access clipping in [members_inner] *)
Definition clip (a : access) (root : option access) : access :=
  match root with
  | Some r => if acc_le a r then a else r
  | None => a
  end.

(** `entry(member).and_modify(|cur| if *cur < next { *cur = next }).or_insert(next)` *)
Definition upsert_max (l : list (member * access)) (e : member * access) : list (member * access) :=
  match mlookup (fst e) l with
  | Some cur => if acc_lt cur (snd e) then set member_eqb (fst e) (snd e) l else l
  | None => set member_eqb (fst e) (snd e) l
  end.

Fixpoint minner (fuel : nat) (cs : gstate) (g : N) (members : list (member * access))
         (root : option access) : list (member * access) :=
  match fuel with
  | O => members
  | S f =>
      fold_left (fun ms e =>
                   let next := clip (snd e) root in
                   let ms' := upsert_max ms (fst e, next) in
                   if fst (fst e) then minner f cs (snd (fst e)) ms' (Some next) else ms')
                (entries_of cs g) members
  end.

Definition MAX_NESTED_DEPTH : nat := 1000.

Definition traverse_cs (cs : gstate) (g : N) : list (member * access) := minner MAX_NESTED_DEPTH cs g [] None.

Definition members_cs (cs : gstate) (g : N) : list (member * access) :=
  filter (fun e => negb (fst (fst e))) (traverse_cs cs g).

Definition members (y : replica) (g : N) : list (member * access) := members_cs (current y) g.
Definition root_members (y : replica) (g : N) : list (member * access) := entries_of (current y) g.

(** * Nested-group cycles (crdt/mod.rs would_create_cycle) *)

(** Depth-first search with an explicit stack and a visited set, as in the Rust code: is [target]
    reachable from the ids on [stack] along [succ]?  Every pop either skips a visited id or visits
    a new one, so [fuel] > number of pushes suffices. *)
Fixpoint reach_aux (fuel : nat) (succ : N -> list N) (target : N) (stack visited : list N) : bool :=
  match fuel with
  | O => false
  | S f =>
      match stack with
      | [] => false
      | c :: r =>
          if memN c visited then reach_aux f succ target r visited
          else if N.eqb c target then true
          else reach_aux f succ target (succ c ++ r) (c :: visited)
      end
  end.

(** Active group-kind members of group [g] in state [s] (`access_levels()` filtered on
    `GroupMember::Group`). *)
Definition subgroups_of (s : gstate) (g : N) : list N :=
  map (fun e => snd (fst e)) (filter (fun e => fst (fst e)) (entries_of s g)).

(** `would_create_cycle(operation)` evaluated on state [s]: only an Add of a group member can
    close a cycle; true iff the operation's group is reachable from the added group (adding a
    group to itself included). *)
Definition would_create_cycle (s : gstate) (o : op) : bool :=
  match act o with
  | Add (true, h) _ =>
      let n := List.length s in
      reach_aux (S (S n * S n)) (subgroups_of s) (group o) [h] []
  | _ => false
  end.

(** Static over-approximation: the edges "group h was (ever) added to / created inside group g"
    of the whole history contain a cycle.  When this is false [would_create_cycle] is false for
    every operation at every state that arises from the history. *)
Definition nest_edges (ops : list op) : list (N * N) :=
  flat_map (fun o =>
              match act o with
              | Add (true, h) _ => [(group o, h)]
              | Create init => map (fun e => (group o, snd (fst e))) (filter (fun e => fst (fst e)) init)
              | _ => []
              end) ops.

Definition cycle_prone (ops : list op) : bool :=
  let E := nest_edges ops in
  let n := List.length E in
  let succ := fun g => map snd (filter (fun e => N.eqb (fst e) g) E) in
  existsb (fun e => reach_aux (S (S n * S n)) succ (fst e) [snd e] []) E.

(** * Causal structure of a history (graph.rs), and the StrongRemove filter (resolver.rs) *)

Definition find_op (i : N) (ops : list op) : option op := find (fun o => N.eqb (oid o) i) ops.

(** Causal past of operation id [i] (including [i]) by bounded depth-first search. *)
Fixpoint past_aux (fuel : nat) (ops : list op) (todo : list N) (seen : list N) : list N :=
  match fuel with
  | O => seen
  | S f =>
      match todo with
      | [] => seen
      | i :: r =>
          if memN i seen then past_aux f ops r seen
          else match find_op i ops with
               | Some o => past_aux f ops (deps o ++ r) (i :: seen)
               | None => past_aux f ops r (i :: seen)
               end
      end
  end.

Definition past (ops : list op) (i : N) : list N :=
  let n := List.length ops in past_aux (S n * S n + n) ops [i] [].

(** Table of causal pasts, computed once per history. *)
Definition ptab (ops : list op) : list (N * list N) := map (fun o => (oid o, past ops (oid o))) ops.

Definition past_t (tab : list (N * list N)) (i : N) : list N :=
  match lookup N.eqb i tab with Some p => p | None => [i] end.

Definition concurrent_t (tab : list (N * list N)) (a b : N) : bool :=
  negb (N.eqb a b) && negb (memN a (past_t tab b)) && negb (memN b (past_t tab a)).

(** [is_concurrent]: neither is a predecessor of the other. *)
Definition concurrent (ops : list op) (a b : N) : bool := concurrent_t (ptab ops) a b.

(** [removed_or_demoted_manager]: any Remove, and any Demote to a non-manage access. *)
Definition removed_of (o : op) : option N :=
  match act o with
  | Remove m => Some (snd m)
  | Demote m a => if is_manage a then None else Some (snd m)
  | _ => None
  end.

(** [added_or_promoted_manager] *)
Definition delegated_of (o : op) : option N :=
  match act o with
  | Add m a | Promote m a => if is_manage a then Some (snd m) else None
  | _ => None
  end.

(** compute_filter: [c] is filtered iff some concurrent removal [r] in the same group removes
    c's author (is_removed) or c re-adds the removed member (is_readd). *)
Definition ignored_t (tab : list (N * list N)) (ops : list op) (c : op) : bool :=
  existsb (fun r =>
             match removed_of r with
             | None => false
             | Some x =>
                 concurrent_t tab (oid r) (oid c) && N.eqb (group r) (group c) &&
                 (N.eqb (author c) x ||
                  match act c with Add m _ => N.eqb (snd m) x | _ => false end)
             end) ops.

Definition ignored (ops : list op) (c : op) : bool := ignored_t (ptab ops) ops c.

(** Conservative recogniser of histories in which a mutual-remove cycle (authority_graphs.rs) is
    possible at all: some actor is both the target and the author of a removal/delegation that
    sits in a concurrency bubble of the same group.  Such histories are outside the model. *)
Definition in_bubble_t (tab : list (N * list N)) (ops : list op) (o : op) : bool :=
  existsb (fun o' => concurrent_t tab (oid o) (oid o')) ops.

Definition authority_op (o : op) : option N :=
  match removed_of o with Some x => Some x | None => delegated_of o end.

Definition mutual_possible (ops : list op) : bool :=
  let tab := ptab ops in
  existsb (fun o1 =>
             match authority_op o1 with
             | None => false
             | Some target =>
                 in_bubble_t tab ops o1 && negb (N.eqb target (author o1)) &&
                 existsb (fun o2 =>
                            match authority_op o2 with
                            | None => false
                            | Some _ => in_bubble_t tab ops o2 && N.eqb (group o1) (group o2) && N.eqb (author o2) target
                            end) ops
             end) ops.

(** A history the StrongRemove filter leaves alone: [step]/[run] describe the implementation. *)
Definition plain_history (ops : list op) : bool :=
  let tab := ptab ops in
  negb (existsb (ignored_t tab ops) ops) && negb (mutual_possible ops).

(** StrongRemove::process over a fixed set of accepted operations [ops] (given in a causal
    order): every operation's state is the merge of its dependencies' states with the action
    applied unless filtered; errors leave the merged state unchanged. *)
Definition resolve_states (ops : list op) : sts :=
  let tab := ptab ops in
  fold_left (fun S o =>
               match state_at S (deps o) with
               | None => S
               | Some s => (oid o, fst (apply_action s o (ignored_t tab ops o))) :: S
               end) ops [].

(** The operations of [ops] in the causal past of [o], in the order of [ops]. *)
Definition past_ops (ops : list op) (o : op) : list op :=
  let p := past ops (oid o) in
  filter (fun o' => memN (oid o') p && negb (N.eqb (oid o') (oid o))) ops.

(** [GroupCrdt::process] with the StrongRemove filter (mutual removes excluded): [validate]
    resolves the operation's causal past, rejects an Add that would close a nested-group cycle IN
    THE STATE AT ITS DEPENDENCIES, and applies the action to that state; accepted operations join
    the set. *)
Definition accept_r (acc_ops : list op) (o : op) : bool :=
  negb (existsb (fun o' => N.eqb (oid o') (oid o)) acc_ops) &&
  negb (manager_group o) &&
  forallb (fun d => existsb (fun o' => N.eqb (oid o') d) acc_ops) (deps o) &&
  (let P := past_ops (acc_ops ++ [o]) o in
   match state_at (resolve_states P) (deps o) with
   | Some s => negb (would_create_cycle s o) &&
               match snd (apply_action s o false) with ROk => true | _ => false end
   | None => false
   end).

Definition run_r_ops (l : list op) : list op :=
  fold_left (fun acc_ops o => if accept_r acc_ops o then acc_ops ++ [o] else acc_ops) l [].

Definition run_r (l : list op) : replica :=
  let ops := run_r_ops l in {| r_ops := ops; r_sts := resolve_states ops |}.
