(** Operation, topic and cursor stores (C09): row-level model of the SQL and the abstract
    collections it is meant to implement.

    Rust anchors (p2panda-store):
    - [operations/sqlite.rs]: [insert_operation] = INSERT OR IGNORE into [operations_v1] (primary
      key [hash]; [signature] is NOT NULL, so a header without signature violates the constraint,
      OR IGNORE swallows that and the call answers [false]); [get_operation](_tx),
      [has_operation](_tx) = SELECT by key; [delete_operation] = DELETE by key;
      [delete_operation_payload] = UPDATE .. SET body = NULL by key.
    - [topics/sqlite.rs]: [associate] = INSERT OR IGNORE into [topics_v1] with
      UNIQUE(topic, author, data_id); [remove] = DELETE of that triple; [resolve] = SELECT author,
      data_id WHERE topic = ? grouped into a map author -> logs.
    - [cursors/sqlite.rs]: [set_cursor] = INSERT .. ON CONFLICT(name) DO UPDATE SET cursor =
      EXCLUDED.cursor; [get_cursor] = SELECT by name; [delete_cursor] = DELETE by name.

    Tables are lists of rows in rowid order.  Headers, bodies, cursors are opaque values ([N]
    identities; the harness compares the real bytes read back with the ones written).

    Abstract side ("three lines each"): operations = partial map id -> (header, body?, log);
    topics = set of (topic, author, log) triples; cursors = partial map name -> cursor.

    Modelled, not verified: SQLite's constraint handling (OR IGNORE, ON CONFLICT, UNIQUE, NOT NULL),
    BINARY collation of TEXT names, CBOR encoding of topics/log ids/cursors being injective. *)
From Coq Require Import List NArith Bool.
Import ListNotations.
Local Open Scope N_scope.

(** * Row level *)

Record oprow := mkoprow { op_id : N; op_hdr : N; op_body : option N; op_log : N }.

Definition triple := (N * N * N)%type.     (* topic, author, log *)

Record impl := mkimpl { i_ops : list oprow; i_topics : list triple; i_cursors : list (N * N) }.

Definition empty : impl := mkimpl [] [] [].

Inductive cmd :=
| OpInsert (id hdr : N) (body : option N) (log : N) (signed : bool)
| OpGet (id : N)
| OpHas (id : N)
| OpDelete (id : N)
| OpDeletePayload (id : N)
| TAssociate (t a l : N)
| TRemove (t a l : N)
| TResolve (t : N)
| CSet (name v : N)
| CGet (name : N)
| CDelete (name : N).

Inductive out :=
| OB (b : bool)
| OOp (o : option (N * N * option N))      (* id, header, body *)
| OPairs (l : list (N * N))                (* (author, log) rows of a topic, rowid order *)
| OCur (o : option N)
| OUnit.

Definition eqb3 (x y : triple) : bool :=
  (fst (fst x) =? fst (fst y)) && (snd (fst x) =? snd (fst y)) && (snd x =? snd y).

Definition find_op (rows : list oprow) (id : N) : option oprow := find (fun r => op_id r =? id) rows.
Definition has_op (rows : list oprow) (id : N) : bool := existsb (fun r => op_id r =? id) rows.
Definition has_triple (rows : list triple) (x : triple) : bool := existsb (eqb3 x) rows.
Definition has_name (rows : list (N * N)) (n : N) : bool := existsb (fun r => fst r =? n) rows.

Definition set_ops (i : impl) (o : list oprow) : impl := mkimpl o (i_topics i) (i_cursors i).
Definition set_topics (i : impl) (t : list triple) : impl := mkimpl (i_ops i) t (i_cursors i).
Definition set_cursors (i : impl) (c : list (N * N)) : impl := mkimpl (i_ops i) (i_topics i) c.

Definition step_impl (i : impl) (c : cmd) : impl * out :=
  match c with
  | OpInsert id hdr body log signed =>
      if negb signed then (i, OB false)                       (* NOT NULL violated, ignored *)
      else if has_op (i_ops i) id then (i, OB false)           (* key exists, ignored *)
      else (set_ops i (i_ops i ++ [mkoprow id hdr body log]), OB true)
  | OpGet id => (i, OOp (option_map (fun r => (op_id r, op_hdr r, op_body r)) (find_op (i_ops i) id)))
  | OpHas id => (i, OB (has_op (i_ops i) id))
  | OpDelete id => (set_ops i (filter (fun r => negb (op_id r =? id)) (i_ops i)), OB (has_op (i_ops i) id))
  | OpDeletePayload id =>
      (set_ops i (map (fun r => if op_id r =? id then mkoprow (op_id r) (op_hdr r) None (op_log r) else r) (i_ops i)),
       OB (has_op (i_ops i) id))
  | TAssociate t a l =>
      if has_triple (i_topics i) (t, a, l) then (i, OB false)
      else (set_topics i (i_topics i ++ [(t, a, l)]), OB true)
  | TRemove t a l =>
      (set_topics i (filter (fun x => negb (eqb3 (t, a, l) x)) (i_topics i)), OB (has_triple (i_topics i) (t, a, l)))
  | TResolve t =>
      (i, OPairs (map (fun x => (snd (fst x), snd x)) (filter (fun x => fst (fst x) =? t) (i_topics i))))
  | CSet n v =>
      if has_name (i_cursors i) n
      then (set_cursors i (map (fun r => if fst r =? n then (n, v) else r) (i_cursors i)), OUnit)
      else (set_cursors i (i_cursors i ++ [(n, v)]), OUnit)
  | CGet n => (i, OCur (option_map snd (find (fun r => fst r =? n) (i_cursors i))))
  | CDelete n => (set_cursors i (filter (fun r => negb (fst r =? n)) (i_cursors i)), OUnit)
  end.

Fixpoint run_impl (i : impl) (cs : list cmd) : impl * list out :=
  match cs with
  | [] => (i, [])
  | c :: r =>
      let '(i1, o) := step_impl i c in
      let '(i2, os) := run_impl i1 r in
      (i2, o :: os)
  end.

(** * Abstract collections *)

Definition opval := (N * option N * N)%type.    (* header, body?, log *)

Record spec := mkspec {
  s_ops : N -> option opval;
  s_topics : triple -> bool;
  s_cursors : N -> option N }.

Definition spec_empty : spec := mkspec (fun _ => None) (fun _ => false) (fun _ => None).

Definition upd {A} (m : N -> option A) (k : N) (v : option A) : N -> option A :=
  fun k' => if k' =? k then v else m k'.

Definition is_some {A} (o : option A) : bool := match o with Some _ => true | None => false end.

Inductive sout :=
| SB (b : bool)
| SOp (o : option (N * N * option N))
| SSet (p : N * N -> bool)                 (* the set of (author, log) pairs of a topic *)
| SCur (o : option N)
| SUnit.

Definition step_spec (m : spec) (c : cmd) : spec * sout :=
  match c with
  | OpInsert id hdr body log _ =>
      match s_ops m id with
      | Some _ => (m, SB false)
      | None => (mkspec (upd (s_ops m) id (Some (hdr, body, log))) (s_topics m) (s_cursors m), SB true)
      end
  | OpGet id => (m, SOp (option_map (fun v : opval => (id, fst (fst v), snd (fst v))) (s_ops m id)))
  | OpHas id => (m, SB (is_some (s_ops m id)))
  | OpDelete id => (mkspec (upd (s_ops m) id None) (s_topics m) (s_cursors m), SB (is_some (s_ops m id)))
  | OpDeletePayload id =>
      (mkspec (upd (s_ops m) id (option_map (fun v : opval => (fst (fst v), None, snd v)) (s_ops m id)))
              (s_topics m) (s_cursors m),
       SB (is_some (s_ops m id)))
  | TAssociate t a l =>
      (mkspec (s_ops m) (fun x => eqb3 (t, a, l) x || s_topics m x) (s_cursors m), SB (negb (s_topics m (t, a, l))))
  | TRemove t a l =>
      (mkspec (s_ops m) (fun x => negb (eqb3 (t, a, l) x) && s_topics m x) (s_cursors m), SB (s_topics m (t, a, l)))
  | TResolve t => (m, SSet (fun p => s_topics m (t, fst p, snd p)))
  | CSet n v => (mkspec (s_ops m) (s_topics m) (upd (s_cursors m) n (Some v)), SUnit)
  | CGet n => (m, SCur (s_cursors m n))
  | CDelete n => (mkspec (s_ops m) (s_topics m) (upd (s_cursors m) n None), SUnit)
  end.

Fixpoint run_spec (m : spec) (cs : list cmd) : spec * list sout :=
  match cs with
  | [] => (m, [])
  | c :: r =>
      let '(m1, o) := step_spec m c in
      let '(m2, os) := run_spec m1 r in
      (m2, o :: os)
  end.

(** * Abstraction function *)

Definition abs (i : impl) : spec :=
  mkspec (fun id => option_map (fun r => (op_hdr r, op_body r, op_log r)) (find_op (i_ops i) id))
         (fun x => has_triple (i_topics i) x)
         (fun n => option_map snd (find (fun r => fst r =? n) (i_cursors i))).

Definition cmd_signed (c : cmd) : bool :=
  match c with OpInsert _ _ _ _ s => s | _ => true end.
