(** Model of the operation header and of its CBOR encoding at the serde *token* level.

    Rust code modelled (definitions only, proofs are in Proofs/Header.v):

    - [header]                 = [p2panda_core::Header<E>] (p2panda-core/src/operation.rs:196).
                                 Keys, signatures and hashes are byte strings ([bytes]).
    - [ext]                    = the extension value [E]: [()] ([EUnit], zero sized), a plain
                                 [u64] ([EU64], stands for "any non zero-sized extension type
                                 that is one CBOR element"), and the two variants of the Node API
                                 extensions [p2panda::operation::Extensions] ([EBasic], [ECausal],
                                 p2panda/src/operation.rs).  [ekind] is the *type* [E].
    - [field_count]            = [Header::field_count] (operation.rs:323).
    - [enc_header_with]        = [impl Serialize for Header<E>] (p2panda-core/src/serde.rs:137-170)
                                 followed by [impl Serialize for Extensions]
                                 (p2panda/src/operation.rs:488-518).  The parameter [arrange] says
                                 in which order the elements of [previous : HashSet<Hash>] are
                                 emitted.
    - [enc_header_asis order]  = the serializer as it was before the repair: [previous] is emitted
                                 in the iteration order of the [HashSet], an arbitrary permutation
                                 [order] of the elements.
    - [enc_header order]       = the serializer after commit "fix: serialise causal `previous`
                                 hashes in sorted order": the elements are collected in iteration
                                 order and sorted ([Hash: Ord] = lexicographic on the 32 bytes).
    - [dec_header]             = [impl Deserialize for Header<E>] (serde.rs:172-270) followed by
                                 [impl Deserialize for Extensions] (operation.rs:520-600):
                                 the signature element is always read, the payload hash is read
                                 iff [payload_size <> 0], the backlink iff [seq_num <> 0], the
                                 extensions element iff [E] is not zero sized, left-over elements
                                 of the header array are rejected; the Node extensions decoder
                                 reads five elements and leaves excess elements of *its* array
                                 unread (forward compatibility), rejects version <> 1 and unknown
                                 variant codes; [previous] is collected into a set ([canon]); an
                                 empty byte string in its place is read as the empty set (found
                                 by the correspondence run: ciborium reads a byte string as a
                                 sequence of u8).  [seq_num] is a [u32] ([SeqNum]).
                                 [SeqAccess] over a definite-length array is the pair
                                 (remaining element count, remaining tokens).

    Value representation: a [HashSet<Hash>] value is represented by its strictly sorted list
    ([canon]), so that Rust's [==] on headers is Leibniz equality here.

    Modelled, not verified:
    - token <-> byte (ciborium): a token is one CBOR head; byte strings are definite-length;
      arrays are definite-length.  Non-canonical forms that ciborium/serde_bytes also accept where
      the model expects [TBytes]/[TUInt] (text strings or arrays of small integers for byte
      strings, tags, bignums, indefinite-length arrays, bytes after the top-level item) are outside
      the token model.
    - [key_ok]: which 32-byte strings are Ed25519 points (VerifyingKey::from_bytes) is a
      parameter.
    - the iteration order of a Rust [HashSet] is an arbitrary permutation ([order]). *)
From Coq Require Import List NArith Bool Arith.
Import ListNotations.

Definition bytes := list N.

Inductive token :=
| TUInt (n : N)          (* CBOR unsigned integer *)
| TBytes (b : bytes)     (* CBOR byte string *)
| TBool (b : bool)       (* CBOR simple true/false *)
| TSeq (n : nat).        (* CBOR array head announcing n elements *)

(** The extension *type* [E] of [Header<E>]. *)
Inductive ekind := KUnit | KU64 | KNode.

Inductive ext :=
| EUnit
| EU64 (n : N)
| EBasic (log : bytes) (ts : N) (prune : bool)
| ECausal (log : bytes) (ts : N) (prev : list bytes).

Definition kind_of (e : ext) : ekind :=
  match e with EUnit => KUnit | EU64 _ => KU64 | EBasic _ _ _ | ECausal _ _ _ => KNode end.

Record header := mkHeader {
  h_version : N;
  h_pk : bytes;
  h_sig : option bytes;
  h_psize : N;
  h_phash : option bytes;
  h_seq : N;
  h_backlink : option bytes;
  h_ext : ext }.

Definition unsigned (h : header) : header :=
  mkHeader (h_version h) (h_pk h) None (h_psize h) (h_phash h) (h_seq h) (h_backlink h) (h_ext h).

Definition with_sig (h : header) (s : option bytes) : header :=
  mkHeader (h_version h) (h_pk h) s (h_psize h) (h_phash h) (h_seq h) (h_backlink h) (h_ext h).

(** * Order on hashes: lexicographic on the bytes ([impl Ord for Hash], hash.rs:127) *)

Fixpoint bytes_leb (a b : bytes) : bool :=
  match a, b with
  | [], _ => true
  | _ :: _, [] => false
  | x :: a', y :: b' => if N.ltb x y then true else if N.eqb x y then bytes_leb a' b' else false
  end.

Fixpoint bytes_eqb (a b : bytes) : bool :=
  match a, b with
  | [], [] => true
  | x :: a', y :: b' => N.eqb x y && bytes_eqb a' b'
  | _, _ => false
  end.

Fixpoint insert_sorted (x : bytes) (l : list bytes) : list bytes :=
  match l with
  | [] => [x]
  | y :: r => if bytes_leb x y then x :: l else y :: insert_sorted x r
  end.

(** [Vec::sort] (any sort is a function of the multiset, see Proofs: [isort_perm_eq]). *)
Fixpoint isort (l : list bytes) : list bytes :=
  match l with
  | [] => []
  | x :: r => insert_sorted x (isort r)
  end.

Definition memb (x : bytes) (l : list bytes) : bool := existsb (bytes_eqb x) l.

(** Remove duplicates (what inserting the decoded elements into a [HashSet] does). *)
Fixpoint dedup (l : list bytes) : list bytes :=
  match l with
  | [] => []
  | x :: r => if memb x r then dedup r else x :: dedup r
  end.

(** Canonical representative of the set of the elements of [l]. *)
Definition canon (l : list bytes) : list bytes := isort (dedup l).

(** * Encoding *)

Definition opt_tok (o : option bytes) : list token :=
  match o with Some b => [TBytes b] | None => [] end.

Definition opt_cnt {A} (o : option A) : nat := match o with Some _ => 1 | None => 0 end.

Definition ext_cnt (e : ext) : nat := match e with EUnit => 0 | _ => 1 end.

Definition field_count (h : header) : nat :=
  4 + opt_cnt (h_sig h) + opt_cnt (h_phash h) + opt_cnt (h_backlink h) + ext_cnt (h_ext h).

Definition enc_ext_with (arrange : list bytes -> list bytes) (e : ext) : list token :=
  match e with
  | EUnit => []
  | EU64 n => [TUInt n]
  | EBasic l t p => [TSeq 5; TUInt 1; TUInt 0; TBytes l; TUInt t; TBool p]
  | ECausal l t pv =>
      [TSeq 5; TUInt 1; TUInt 1; TBytes l; TUInt t; TSeq (length pv)] ++ map TBytes (arrange pv)
  end.

Definition enc_header_with (arrange : list bytes -> list bytes) (h : header) : list token :=
  TSeq (field_count h) :: TUInt (h_version h) :: TBytes (h_pk h) :: opt_tok (h_sig h)
  ++ TUInt (h_psize h) :: opt_tok (h_phash h)
  ++ TUInt (h_seq h) :: opt_tok (h_backlink h)
  ++ enc_ext_with arrange (h_ext h).

(** Before the repair: iteration order straight to the wire. *)
Definition enc_header_asis (order : list bytes -> list bytes) : header -> list token :=
  enc_header_with order.

(** After the repair: iteration order, then sorted. *)
Definition enc_header (order : list bytes -> list bytes) : header -> list token :=
  enc_header_with (fun l => isort (order l)).

(** The encoder used for evaluation (any order gives the same result, Proofs:
    [enc_deterministic]). *)
Definition enc_header0 : header -> list token := enc_header (fun l => l).

(** * Decoding *)

Definition access := (nat * list token)%type.

Definition bind {A B} (o : option A) (f : A -> option B) : option B :=
  match o with Some a => f a | None => None end.

Definition next_uint (bound : N) (st : access) : option (N * access) :=
  match st with
  | (S n, TUInt v :: r) => if N.ltb v bound then Some (v, (n, r)) else None
  | _ => None
  end.

Definition next_bytes (len : nat) (st : access) : option (bytes * access) :=
  match st with
  | (S n, TBytes b :: r) => if Nat.eqb (length b) len then Some (b, (n, r)) else None
  | _ => None
  end.

Definition next_bool (st : access) : option (bool * access) :=
  match st with
  | (S n, TBool b :: r) => Some (b, (n, r))
  | _ => None
  end.

Definition next_opt_hash (present : bool) (st : access) : option (option bytes * access) :=
  if present
  then bind (next_bytes 32 st) (fun '(b, st') => Some (Some b, st'))
  else Some (None, st).

Definition u16_bound : N := 65536.
Definition u32_bound : N := 4294967296.
Definition u64_bound : N := 18446744073709551616.

(** [n] byte strings of 32 bytes (the elements of the [previous] array). *)
Fixpoint next_hashes (n : nat) (ts : list token) : option (list bytes * list token) :=
  match n with
  | O => Some ([], ts)
  | S n' =>
      match ts with
      | TBytes b :: r =>
          if Nat.eqb (length b) 32
          then bind (next_hashes n' r) (fun '(l, r') => Some (b :: l, r'))
          else None
      | _ => None
      end
  end.

(** [impl Deserialize for Extensions]: works on its own array; whatever it leaves unread stays
    in the token stream. Returns the value and the remaining tokens. *)
Definition dec_node_ext (ts : list token) : option (ext * list token) :=
  match ts with
  | TSeq m :: r =>
      bind (next_uint u16_bound (m, r)) (fun '(v, st) =>
      if negb (N.eqb v 1) then None else
      bind (next_uint u16_bound st) (fun '(code, st) =>
      if N.eqb code 0 then
        bind (next_bytes 32 st) (fun '(l, st) =>
        bind (next_uint u64_bound st) (fun '(t, st) =>
        bind (next_bool st) (fun '(p, st) =>
        Some (EBasic l t p, snd st))))
      else if N.eqb code 1 then
        bind (next_bytes 32 st) (fun '(l, st) =>
        bind (next_uint u64_bound st) (fun '(t, st) =>
        match st with
        | (S _, TSeq k :: r') =>
            bind (next_hashes k r') (fun '(pv, r'') => Some (ECausal l t (canon pv), r''))
        | (S _, TBytes [] :: r') =>
            (* ciborium's [deserialize_seq] also takes a byte string as a sequence of u8; an
               element of [previous] cannot be built from a u8, so only the empty byte string
               passes — as the empty set *)
            Some (ECausal l t [], r')
        | _ => None
        end))
      else None))
  | _ => None
  end.

Definition dec_ext (k : ekind) (st : access) : option (ext * access) :=
  match k with
  | KUnit => Some (EUnit, st)
  | KU64 => bind (next_uint u64_bound st) (fun '(n, st') => Some (EU64 n, st'))
  | KNode =>
      match st with
      | (S n, ts) => bind (dec_node_ext ts) (fun '(e, r) => Some (e, (n, r)))
      | _ => None
      end
  end.

Definition next_key (key_ok : bytes -> bool) (st : access) : option (bytes * access) :=
  bind (next_bytes 32 st) (fun '(b, st') => if key_ok b then Some (b, st') else None).

(** Returns the decoded header and the tokens left after it (the reader is not required to be
    at its end, [ciborium::from_reader]). *)
Definition dec_header (key_ok : bytes -> bool) (k : ekind) (ts : list token)
  : option (header * list token) :=
  match ts with
  | TSeq n :: r =>
      bind (next_uint u16_bound (n, r)) (fun '(v, st) =>
      bind (next_key key_ok st) (fun '(pk, st) =>
      bind (next_bytes 64 st) (fun '(sg, st) =>
      bind (next_uint u32_bound st) (fun '(ps, st) =>
      bind (next_opt_hash (negb (N.eqb ps 0)) st) (fun '(ph, st) =>
      bind (next_uint u32_bound st) (fun '(sq, st) =>
      bind (next_opt_hash (negb (N.eqb sq 0)) st) (fun '(bl, st) =>
      bind (dec_ext k st) (fun '(e, st) =>
      match fst st with
      | O => Some (mkHeader v pk (Some sg) ps ph sq bl e, snd st)
      | S _ => None
      end))))))))
  | _ => None
  end.

(** * Well-formed header values: what a decoded, validated header looks like. *)

Definition len_is (n : nat) (b : bytes) : bool := Nat.eqb (length b) n.

Definition opt_len_is (n : nat) (o : option bytes) : bool :=
  match o with Some b => len_is n b | None => true end.

Definition is_some {A} (o : option A) : bool := match o with Some _ => true | None => false end.

(** strictly increasing = sorted without duplicates *)
Fixpoint strictly_sorted (l : list bytes) : bool :=
  match l with
  | [] => true
  | x :: r =>
      match r with
      | [] => true
      | y :: _ => bytes_leb x y && negb (bytes_eqb x y) && strictly_sorted r
      end
  end.

Definition valid_ext (e : ext) : bool :=
  match e with
  | EUnit => true
  | EU64 n => N.ltb n u64_bound
  | EBasic l t _ => len_is 32 l && N.ltb t u64_bound
  | ECausal l t pv => len_is 32 l && N.ltb t u64_bound && forallb (len_is 32) pv && strictly_sorted pv
  end.

Definition valid (key_ok : bytes -> bool) (h : header) : bool :=
  N.ltb (h_version h) u16_bound
  && len_is 32 (h_pk h) && key_ok (h_pk h)
  && match h_sig h with Some s => len_is 64 s | None => false end
  && N.ltb (h_psize h) u32_bound
  && Bool.eqb (is_some (h_phash h)) (negb (N.eqb (h_psize h) 0)) && opt_len_is 32 (h_phash h)
  && N.ltb (h_seq h) u32_bound
  && Bool.eqb (is_some (h_backlink h)) (negb (N.eqb (h_seq h) 0)) && opt_len_is 32 (h_backlink h)
  && valid_ext (h_ext h).
